"""C19 — FunctionTest verdicts are sound (src/koreo/function_test/run.py, prepare.py) vs model/FnTestMatch.v.

Two levels.
  unit:  the runner's comparator (`_validate_match` and friends), `_strip_last_applied_annotation`,
         `_validate_outcome_match`, `_validate_return_match`, `_validate_resource_match`, MockApi and
         `_merge_overlay`, and the ExpectOutcome parsing of `_prepare_test_case`, each called directly on
         generated inputs;
  e2e:   real ValueFunctions / ResourceFunctions prepared with the real preparers, run once through a real
         FunctionTest with a recording MockApi to learn what they do, then one real FunctionTest per batch of
         derived assertions (truthful ones and single perturbations of them).
The oracle never consults the Coq model: the truth of an assertion is known by construction (truthful /
perturbed) or from an independent Python restatement (strict_equal, outcome_truth).
"""
from __future__ import annotations

import asyncio
import copy
import itertools
import json
import math

from common import (Ctx, Failure, cbool, cjson, clist, cnat, copt, cpair, cstr, cz, corpus_cases)

COQ_TARGETS = ["props/P_C19.vo", "corr/Corr_C19.vo"]
PROOF_FILES = ["proofs/FnTestMatch_proofs.v"]
RULE = ("unit: (expected, actual) JSON pairs — equal pairs, single perturbations at random depth of either side "
        "(changed / retyped leaf, missing key, extra key, swap of distinct list elements, list length change, "
        "scalar<->container), expected objects carrying x-koreo-compare-as-set / -as-map directives with shuffled "
        "lists and perturbed actual lists, an exhaustive scalar x scalar type-confusion table (plain, inside lists, "
        "inside set-compared lists), malformed directive shapes, random pairs; outcome matcher: all class pairs x "
        "message case/containment variants x delays; strip/verdict/mock/merge/parse on generated shapes. "
        "e2e: generated ValueFunctions and ResourceFunctions (create / patch / recreate / never / steady state / "
        "pre- and post-condition outcomes), the four truthful assertions of each observed behaviour and single "
        "perturbations of them, run through prepare_function_test + run_function_test. A case is non-trivial when "
        "the compared documents have a container or the assertion came from a real run; distinct by content")
ASSUMPTIONS = [
    "values are JSON documents with string keys (celtypes wrappers are removed by convert_bools before the comparator sees them)",
    "key-field values of x-koreo-compare-as-map items are str/int/bool/null (Python repr of floats, lists, dicts is not modelled); "
    "str.strip()/str.lower() are modelled for ASCII (messages and key texts are ASCII or uncased non-ASCII)",
    "tmatch_total: every directive value of the expected object has the documented shape (`regular`); tmatch_iff has no hypothesis",
    "single_deviation_fails: the expected object holds no directive-named keys; deviations never touch directive-named keys",
    "one reconcile pass makes at most one mutating API call (C07), so MockApi.materialized is that call's effect",
]
TRUSTED = ["CPython ==/hash on str/int/float/bool/None and on (bool, value) pairs",
           "json.dumps/json.loads round-trip of the body kr8s hands to MockApi.call_api"]

DIRECTIVES = ("x-koreo-compare-as-set", "x-koreo-compare-as-map", "x-koreo-compare-last-applied")
LAST_APPLIED = "koreo.dev/last-applied-configuration"


# =============================================================================================
# independent restatements used by the oracle
# =============================================================================================

def strict_equal(x, y) -> bool:
    """Equal, nothing missing, nothing extra; bool is not a number; 1 == 1.0 (Python ==)."""
    if isinstance(x, bool) or isinstance(y, bool):
        return isinstance(x, bool) and isinstance(y, bool) and x == y
    if isinstance(x, dict) or isinstance(y, dict):
        return (isinstance(x, dict) and isinstance(y, dict) and set(x) == set(y)
                and all(strict_equal(x[k], y[k]) for k in x))
    if isinstance(x, list) or isinstance(y, list):
        return (isinstance(x, list) and isinstance(y, list) and len(x) == len(y)
                and all(strict_equal(a, b) for a, b in zip(x, y)))
    if x is None or y is None:
        return x is None and y is None
    if isinstance(x, str) or isinstance(y, str):
        return isinstance(x, str) and isinstance(y, str) and x == y
    return x == y


def has_directive_key(j) -> bool:
    if isinstance(j, dict):
        return any(k in DIRECTIVES for k in j) or any(has_directive_key(v) for v in j.values())
    if isinstance(j, list):
        return any(has_directive_key(v) for v in j)
    return False


def outcome_truth(e, a) -> bool:
    """The property text: same class, message contained (case-insensitively), non-zero delay equal."""
    if e is None:
        return a[0] == "Val"
    if a[0] == "Val" or e[0] != a[0]:
        return False
    em, am = msg_of(e), msg_of(a)
    if em and not (am and em.lower() in am.lower()):
        return False
    if e[0] == "Retry" and e[1] != 0 and e[1] != a[1]:
        return False
    return True


def msg_of(o):
    return o[2] if o[0] == "Retry" else o[1]


# =============================================================================================
# JSON generation and one-step perturbation
# =============================================================================================

KEYS = ["a", "b", "c", "name", "items", "spec", "k", "", "é"]
STRS = ["", "a", "b", "A", "1", "0", "True", "None", "x y", "日本"]
NUMS = [0, 1, -1, 2, 7, 64, 2 ** 53 + 1, 0.0, 1.0, 2.5, -1.0, float(2 ** 53),
        # large magnitudes, where "close" and "equal" part company
        2 ** 31, 2 ** 32, 2 ** 32 + 1, 2 ** 53 - 1, 10 ** 12, 1700000000123, -(2 ** 40), 2 ** 63 - 1,
        1e12, 1700000000123.5, 0.1 + 0.2, 1e-9, 6.02e23]
SCALARS = [None, True, False] + NUMS + STRS


def rand_scalar(rng):
    return rng.choice(SCALARS)


def rand_json(rng, depth=3, top_dict=False):
    r = rng.random()
    if depth <= 0 or (r < 0.45 and not top_dict):
        return rand_scalar(rng)
    if r < 0.65 and not top_dict:
        return [rand_json(rng, depth - 1) for _ in range(rng.choice([0, 1, 2, 2, 3, 4]))]
    n = rng.choice([0, 1, 2, 3, 3, 4]) if not top_dict else rng.choice([1, 2, 3, 4])
    return {k: rand_json(rng, depth - 1) for k in rng.sample(KEYS, n)}


def paths(j, pre=()):
    """every node of the document, as a path of keys / indices"""
    yield pre
    if isinstance(j, dict):
        for k, v in j.items():
            yield from paths(v, pre + (k,))
    elif isinstance(j, list):
        for i, v in enumerate(j):
            yield from paths(v, pre + (i,))


def get_at(j, p):
    for s in p:
        j = j[s]
    return j


def set_at(j, p, v):
    """copy of j with the node at p replaced by v"""
    if not p:
        return v
    j = copy.copy(j)
    j[p[0]] = set_at(j[p[0]], p[1:], v)
    return j


def nudge(rng, x):
    """the nearest different number: an int +-1, a float moved to the next representable value (a changed leaf,
    however large the number is)"""
    if isinstance(x, int):
        return x + rng.choice([1, -1])
    y = math.nextafter(x, rng.choice([math.inf, -math.inf]))
    return y if math.isfinite(y) else math.nextafter(x, 0.0)


def fresh_scalar(rng, old):
    for _ in range(50):
        v = rand_scalar(rng)
        if not strict_equal(v, old):
            return v
    return "fresh-value"


RETYPES = {True: [1, "True", 1.0], False: [0, "False", None, 0.0, ""], 0: [False, "0", None], 1: [True, "1"],
           None: [0, False, "", "None"], "": [None, 0, False], "1": [1], "0": [0], "True": [True], "None": [None]}


def perturb(rng, j, allow_root_retype=True):
    """One single deviation of j at a random node. Returns (j', kind) or None when none applies.
    Never introduces a directive-named key; never maps a number to an ==-equal number."""
    ps = list(paths(j))
    rng.shuffle(ps)
    kinds = ["leaf-changed", "leaf-nudged", "leaf-nudged", "leaf-retyped", "key-missing", "key-extra", "list-swap", "list-shorter",
             "list-longer", "to-container", "to-scalar", "null-vs-missing"]
    rng.shuffle(kinds)
    for kind in kinds:
        for p in ps:
            node = get_at(j, p)
            if not p and not allow_root_retype and kind in ("leaf-changed", "leaf-nudged", "leaf-retyped", "to-container", "to-scalar"):
                continue
            is_scalar = not isinstance(node, (dict, list))
            if kind == "leaf-nudged" and isinstance(node, (int, float)) and not isinstance(node, bool):
                return set_at(j, p, nudge(rng, node)), kind
            if kind == "leaf-changed" and is_scalar:
                return set_at(j, p, fresh_scalar(rng, node)), kind
            if kind == "leaf-retyped" and is_scalar:
                opts = [v for k, vs in RETYPES.items() if type(k) is type(node) and k == node for v in vs]
                if isinstance(node, (int, float)) and not isinstance(node, bool) and not opts:
                    opts = [str(node)]
                if isinstance(node, str) and not opts:
                    opts = [[node], {"v": node}]
                if opts:
                    return set_at(j, p, rng.choice(opts)), kind
            if kind == "key-missing" and isinstance(node, dict) and node:
                k = rng.choice(list(node))
                d = {x: y for x, y in node.items() if x != k}
                return set_at(j, p, d), kind
            if kind == "null-vs-missing" and isinstance(node, dict):
                nulls = [k for k, v in node.items() if v is None]
                if nulls:
                    k = rng.choice(nulls)
                    return set_at(j, p, {x: y for x, y in node.items() if x != k}), kind
                free = [k for k in KEYS + ["extra"] if k not in node]
                if free:
                    return set_at(j, p, {**node, rng.choice(free): None}), kind
            if kind == "key-extra" and isinstance(node, dict):
                free = [k for k in KEYS + ["extra", "zz"] if k not in node]
                if free:
                    return set_at(j, p, {**node, rng.choice(free): rand_json(rng, 1)}), kind
            if kind == "list-swap" and isinstance(node, list) and len(node) >= 2:
                pairs = [(a, b) for a in range(len(node)) for b in range(a + 1, len(node))
                         if not strict_equal(node[a], node[b])]
                if pairs:
                    a, b = rng.choice(pairs)
                    l = list(node)
                    l[a], l[b] = l[b], l[a]
                    return set_at(j, p, l), kind
            if kind == "list-shorter" and isinstance(node, list) and node:
                i = rng.randrange(len(node))
                return set_at(j, p, node[:i] + node[i + 1:]), kind
            if kind == "list-longer" and isinstance(node, list):
                i = rng.randrange(len(node) + 1)
                extra = rng.choice(node) if node and rng.random() < 0.5 else rand_json(rng, 1)
                return set_at(j, p, node[:i] + [extra] + node[i:]), kind
            if kind == "to-container" and is_scalar and p:
                return set_at(j, p, rng.choice([[], {}, [node], {"a": node}])), kind
            if kind == "to-scalar" and not is_scalar and p:
                return set_at(j, p, rng.choice([None, 0, "", "x", False])), kind
    return None


def numeric_twin(rng, j):
    """an ==-equal copy: some ints become equal floats and back (NOT a deviation)"""
    if isinstance(j, bool) or j is None or isinstance(j, str):
        return j
    if isinstance(j, int):
        return float(j) if abs(j) < 2 ** 53 and rng.random() < 0.4 else j
    if isinstance(j, float):
        return int(j) if j == int(j) and rng.random() < 0.4 else j
    if isinstance(j, list):
        return [numeric_twin(rng, v) for v in j]
    return {k: numeric_twin(rng, v) for k, v in j.items()}


# ---- directive-bearing expectations --------------------------------------------------------

SET_ELEMS = [0, 1, 2, 3, 7, "a", "b", "c", "", "x", True, False, None, 1.5]
KEYVALS = ["first", "second", "third", " padded ", 1, 2, 3, True, None, "A", "a"]


def gen_directive_pair(rng):
    """(expected, actual, info): a directive-free actual object and an expected object that describes it
    with set / map directives and shuffled lists. info lists the directed paths."""
    actual = {}
    info = {"set": [], "map": []}

    def build(depth):
        obj = {}
        set_keys, map_spec = [], {}
        for k in rng.sample(["a", "b", "c", "items", "tags", "ports"], rng.choice([1, 2, 3])):
            r = rng.random()
            if r < 0.35:
                elems = rng.sample(SET_ELEMS, rng.choice([0, 1, 2, 3, 4]))
                # a set-directed list never holds both a bool and the number equal to it
                if any(isinstance(e, bool) for e in elems):
                    elems = [e for e in elems if isinstance(e, bool) or e not in (0, 1)]
                obj[k] = elems
                set_keys.append(k)
            elif r < 0.7:
                fields = rng.choice([["name"], ["name"], ["name", "port"], ["id"]])
                n = rng.choice([0, 1, 2, 3])
                items, seen = [], set()
                for _ in range(n):
                    it = {f: rng.choice(KEYVALS) for f in fields}
                    if rng.random() < 0.2 and len(fields) > 1:
                        del it[fields[-1]]
                    key = "$".join(f"{it.get(f)}".strip() for f in fields)
                    if key in seen or key in DIRECTIVES:
                        continue
                    seen.add(key)
                    it["value"] = rand_json(rng, 1)
                    if depth > 0 and rng.random() < 0.3:
                        it["sub"] = build(depth - 1)
                    items.append(it)
                obj[k] = items
                map_spec[k] = fields
            elif r < 0.85 and depth > 0:
                obj[k] = build(depth - 1)
            else:
                obj[k] = rand_json(rng, 1)
        if set_keys:
            obj["x-koreo-compare-as-set"] = set_keys
        if map_spec:
            obj["x-koreo-compare-as-map"] = map_spec
        return obj

    expected_src = build(2)

    def split(e):
        """from the directive-bearing source: (expected with shuffled lists, plain actual)"""
        exp, act = {}, {}
        sk = e.get("x-koreo-compare-as-set", [])
        mf = e.get("x-koreo-compare-as-map", {})
        for k, v in e.items():
            if k in DIRECTIVES:
                exp[k] = copy.deepcopy(v)
                continue
            if k in sk:
                act[k] = list(v)
                sh = list(v)
                rng.shuffle(sh)
                if sh and rng.random() < 0.3:
                    sh.append(rng.choice(sh))          # duplicates are not a deviation for a set
                exp[k] = sh
            elif k in mf:
                pairs = [split(it) for it in v]
                act[k] = [p[1] for p in pairs]
                sh = [p[0] for p in pairs]
                rng.shuffle(sh)
                exp[k] = sh
            elif isinstance(v, dict):
                exp[k], act[k] = split(v)
            else:
                exp[k], act[k] = copy.deepcopy(v), copy.deepcopy(v)
        return exp, act

    exp, act = split(expected_src)
    return exp, act


def directed_perturb(rng, exp, act):
    """single deviations of `act` inside set- / map-directed lists. Yields (act', kind)."""
    out = []

    def walk(e, a, p):
        sk = e.get("x-koreo-compare-as-set", [])
        mf = e.get("x-koreo-compare-as-map", {})
        for k, v in a.items():
            if k in sk:
                lst = v
                pool = [x for x in SET_ELEMS + ["fresh", 99] if not any(x == y for y in lst)]
                out.append((p + (k,), lst + [rng.choice(pool)], "set-extra-member"))
                if lst:
                    i = rng.randrange(len(lst))
                    if not any(lst[i] == y for j, y in enumerate(lst) if j != i):
                        out.append((p + (k,), lst[:i] + lst[i + 1:], "set-missing-member"))
                    out.append((p + (k,), lst[:i] + [rng.choice(pool)] + lst[i + 1:], "set-changed-member"))
                    for j, x in enumerate(lst):
                        tw = {True: 1, False: 0}.get(x) if isinstance(x, bool) else (
                            {1: True, 0: False}.get(x) if isinstance(x, (int, float)) else None)
                        if tw is not None:
                            out.append((p + (k,), lst[:j] + [tw] + lst[j + 1:], "set-member-bool-vs-number"))
                            break
                out.append((p + (k,), rng.choice([None, 0, "x", {}]), "set-list-to-other"))
            elif k in mf:
                items = v
                fields = mf[k]
                for bad in (None, 5, "text", {"name": "first"}, True):
                    out.append((p + (k,), bad, "map-list-to-nonlist"))
                    break
                out.append((p + (k,), rng.choice(["text", 7, None, {"name": "n"}, True, 2.5]), "map-list-to-nonlist"))
                if items:
                    i = rng.randrange(len(items))
                    out.append((p + (k,), items[:i] + items[i + 1:], "map-missing-item"))
                    out.append((p + (k,), items[:i] + [rng.choice([5, "s", None, [1]])] + items[i + 1:], "map-item-to-scalar"))
                    it = dict(items[i])
                    it["value"] = fresh_scalar(rng, it.get("value"))
                    out.append((p + (k,), items[:i] + [it] + items[i + 1:], "map-item-changed"))
                    it2 = dict(items[i])
                    it2["unexpected"] = 1
                    out.append((p + (k,), items[:i] + [it2] + items[i + 1:], "map-item-extra-key"))
                    for idx, (ei, ai) in enumerate(zip(match_items(e[k], items, fields), items)):
                        if ei is not None:
                            walk(ei, ai, p + (k, idx))
                else:
                    out.append((p + (k,), rng.choice(["", {}]), "map-empty-list-to-empty-other"))
                new = {f: "brand-new" for f in fields}
                new["value"] = 1
                out.append((p + (k,), items + [new], "map-extra-item"))
            elif isinstance(v, dict) and isinstance(e.get(k), dict):
                walk(e[k], v, p + (k,))

    walk(exp, act, ())
    res = []
    for p, newv, kind in out:
        res.append((set_at(act, p, newv), kind))
    return res


def match_items(eitems, aitems, fields):
    """for each actual item the expected item with the same key text"""
    def key(it):
        return "$".join(f"{it.get(f)}".strip() for f in fields)
    by = {key(it): it for it in eitems}
    return [by.get(key(it)) for it in aitems]


# =============================================================================================
# running the real code (unit level)
# =============================================================================================

def code3(fn):
    """0 = False, 1 = True, 2 = raised"""
    try:
        return 1 if fn() else 0
    except Exception:
        return 2


# what the last run_match / run_verdict_direct learnt by calling the real function TWICE with the very same
# expected / actual objects (no fresh copies in between): the second verdict, and whether an input was modified
PURITY = {}


def _twice(call, expected, actual):
    """call() uses `expected` and `actual` by reference; returns the first verdict"""
    before = (repr(expected), repr(actual))
    v1 = code3(call)
    v2 = code3(call)
    PURITY.clear()
    PURITY.update(again=v2, expected_changed=repr(expected) != before[0], actual_changed=repr(actual) != before[1])
    return v1


def run_match(t, a, as_set=False):
    from koreo.function_test import run
    te, ae = copy.deepcopy(t), copy.deepcopy(a)
    return _twice(lambda: run._validate_match(te, ae, compare_list_as_set=as_set).match, te, ae)


def mk_outcome(item):
    from koreo import result
    if item is None:
        return None
    k = item[0]
    if k == "Val":
        return item[1]
    if k == "Ok":
        return result.Ok(item[1], location=None)
    if k == "Retry":
        return result.Retry(delay=item[1], message=item[2], location=None)
    return getattr(result, k)(message=item[1], location=None)


def obs_outcome(o):
    """a real UnwrappedOutcome -> case item"""
    from koreo import result
    from koreo.cel.encoder import convert_bools
    if isinstance(o, result.Retry):
        return ["Retry", o.delay, o.message]
    for k in ("PermFail", "DepSkip", "Skip"):
        if isinstance(o, getattr(result, k)):
            return [k, o.message]
    if isinstance(o, result.Ok):
        return ["Ok", convert_bools(o.data)]
    return ["Val", convert_bools(o)]


def run_outcome_match(e, a):
    from koreo.function_test import run
    return code3(lambda: run._validate_outcome_match(expected=mk_outcome(e), actual=mk_outcome(a)).test_pass)


def run_strip(a):
    from koreo.function_test import run
    try:
        return {"ok": run._strip_last_applied_annotation(copy.deepcopy(a))}
    except Exception:
        return {"raised": True}


def run_verdict_direct(asrt, obs):
    from koreo.function_test import run
    kind, e = asrt
    actual = mk_outcome(obs["actual"])
    PURITY.clear()
    ee = copy.deepcopy(e)
    if kind == "return":
        return _twice(lambda: run._validate_return_match(expected=ee, actual=actual).test_pass, ee, None)
    if kind == "resource":
        mat = copy.deepcopy(obs["mat"]) if obs["called"] else None
        return _twice(lambda: run._validate_resource_match(expected=ee, materialized=mat, actual_outcome=actual).test_pass,
                      ee, mat)
    if kind == "outcome":
        return code3(lambda: run._validate_outcome_match(expected=mk_outcome(e), actual=actual).test_pass)
    raise ValueError(kind)


def run_mock(cur, calls):
    from koreo.function_test import run

    async def go():
        api = run.MockApi(current_resource=copy.deepcopy(cur))
        for c in calls:
            if c[0] == "DELETE":
                async with api.call_api("DELETE", version="v1", url="x", namespace="n"):
                    pass
            else:
                async with api.call_api(c[0], version="v1", url="x", namespace="n", data=json.dumps(c[1])):
                    pass
        return [api.materialized, api._api_called, api._delete_called]
    try:
        return {"ok": asyncio.run(go())}
    except Exception:
        return {"raised": True}


def run_merge(b, o):
    from koreo.function_test import run
    try:
        return {"ok": run._merge_overlay(copy.deepcopy(b), copy.deepcopy(o))}
    except Exception:
        return {"raised": True}


def run_parse(spec):
    """the ExpectOutcome built by the real _prepare_test_case for this expectOutcome object"""
    import celpy
    from koreo import result
    from koreo.cel.functions import koreo_function_annotations
    from koreo.function_test import prepare, structure
    env = celpy.Environment(annotations=koreo_function_annotations)
    try:
        tc = prepare._prepare_test_case(env, spec={"expectOutcome": copy.deepcopy(spec)}, idx=0, resource_function=True)
    except Exception:
        return ["raises"]
    if isinstance(tc, result.PermFail):
        return ["rejected"]
    e = tc.assertion.outcome
    if e is None:
        return ["ok"]
    if isinstance(e, result.PermFail) and (e.message or "").startswith("Unknown predicate type"):
        return ["unknown"]
    o = obs_outcome(e)
    sev = {"DepSkip": 0, "Skip": 1, "Retry": 3, "PermFail": 4}[o[0]]
    return ["out", sev, msg_of(o), o[1] if o[0] == "Retry" else None]


# =============================================================================================
# Gallina
# =============================================================================================

def c_outcome(item):
    k = item[0]
    o = lambda s: copt(s, cstr)
    if k in ("DepSkip", "Skip", "PermFail"):
        return f"({k} {o(item[1])} None)"
    if k == "Ok":
        return f"(Ok (Single {cjson(item[1])}) None)"
    if k == "Retry":
        return f"(Retry {cz(item[1])} {o(item[2])} None)"
    raise ValueError(k)


def c_uout(item):
    return f"(UVal {cjson(item[1])})" if item[0] == "Val" else f"(UOut {c_outcome(item)})"


def c_expected(e):
    return copt(e, c_outcome)


def c_obs(o):
    mat = copt(o["mat"] if o["called"] else None, cjson)
    return "{| ob_actual := %s; ob_mat := %s; ob_deleted := %s |}" % (c_uout(o["actual"]), mat, cbool(o["deleted"]))


def c_assert(asrt):
    kind, e = asrt
    if kind == "return":
        return f"(ExpectReturn {cjson(e)})"
    if kind == "resource":
        return f"(ExpectResource {cjson(e)})"
    if kind == "delete":
        return f"(ExpectDelete {cbool(e)})"
    return f"(ExpectOutcome {c_expected(e)})"


def c_kvs(d):
    return clist(d.items(), lambda kv: cpair(cstr(kv[0]), cjson(kv[1])))


def to_coq(case, obs):
    k = case["kind"]
    if k == "match":
        return f"CMatch {cjson(case['t'])} {cjson(case['a'])} {cbool(case.get('as_set', False))} {cnat(obs)}"
    if k == "outcome":
        return f"COutcome {c_expected(case['e'])} {c_uout(case['a'])} {cnat(obs)}"
    if k == "verdict":
        return f"CVerdict {c_assert(case['assert'])} {c_obs(case['obs'])} {cnat(obs)}"
    if k == "mock":
        calls = clist(case["calls"], lambda c: "CallDelete" if c[0] == "DELETE" else f"(CallSend {cjson(c[1])})")
        if "raised" in obs:
            r = "None"
        else:
            m, called, deleted = obs["ok"]
            r = f"(Some ({copt(m, cjson)}, {cbool(called)}, {cbool(deleted)}))"
        return f"CMock {copt(case['cur'], cjson)} {calls} {r}"
    if k == "merge":
        r = f"(Some {cjson(obs['ok'])})" if "ok" in obs else "None"
        return f"CMerge {cjson(case['b'])} {cjson(case['o'])} {r}"
    if k == "parse":
        if obs[0] == "raises":
            r = "ORaises"
        elif obs[0] == "rejected":
            r = "ORejected"
        elif obs[0] == "unknown":
            r = "OUnknown"
        elif obs[0] == "ok":
            r = "OOk"
        else:
            r = f"(OOut {cnat(obs[1])} {cstr(obs[2] if obs[2] is not None else '')} {copt(obs[3], cz)})"
        return f"CParse {c_kvs(case['spec'])} {r}"
    raise ValueError(k)


def strip_term(case, obs):
    if "raised" in obs:
        return f"CStrip {cjson(case['a'])} None"
    return f"CStrip {cjson(case['a'])} (Some {cjson(obs['ok'])})"


# =============================================================================================
# the model's key-text domain (what the correspondence may contain)
# =============================================================================================

def in_model_domain(t) -> bool:
    """key texts: the values of key fields of map-directed items must be str/int/bool/None with ASCII
    whitespace only at the ends; checked conservatively: no float / container is used as a key-field value."""
    if isinstance(t, dict):
        mf = t.get("x-koreo-compare-as-map")
        if isinstance(mf, dict):
            return True if all(in_model_domain(v) for v in t.values()) else False
        return all(in_model_domain(v) for v in t.values())
    if isinstance(t, list):
        return all(in_model_domain(v) for v in t)
    return True


def key_values_ok(t, a) -> bool:
    """no float/list/dict (Python repr) and no non-ASCII whitespace edge among the values any key field selects"""
    bad = []

    def chk_items(items, fields):
        if not isinstance(items, list):
            return
        flds = fields if isinstance(fields, list) else (list(fields) if isinstance(fields, (str, dict)) else [])
        for it in items:
            if isinstance(it, dict):
                for f in flds:
                    if isinstance(f, str):
                        v = it.get(f)
                        if isinstance(v, (float, list, dict)):
                            bad.append(v)
                        if isinstance(v, str) and v and (ord(v[0]) > 127 or ord(v[-1]) > 127) and v.strip() != v:
                            bad.append(v)

    def walk(t, a):
        if isinstance(t, dict):
            mf = t.get("x-koreo-compare-as-map")
            if isinstance(mf, dict):
                for k, fields in mf.items():
                    if k in t:
                        chk_items(t[k], fields)
                    if isinstance(a, dict) and k in a:
                        chk_items(a[k], fields)
            for k, v in t.items():
                walk(v, a.get(k) if isinstance(a, dict) else None)
                if isinstance(v, list) and isinstance(a, dict) and isinstance(a.get(k), list):
                    for x in v:
                        for y in a[k]:
                            walk(x, y)
        elif isinstance(t, list):
            for i, x in enumerate(t):
                walk(x, a[i] if isinstance(a, list) and i < len(a) else None)

    walk(t, a)
    return not bad


# =============================================================================================
# unit-level case generation
# =============================================================================================

# delays: the CRD says `type: integer` (no bounds) — boundaries of minutes / hours / a day, and a very large one
DELAYS = [0, 1, 59, 60, 3599, 3600, 3601, 5400, 86400, 2 ** 31 - 1]
DELAY_PAIRS = [(0, 5), (5, 5), (5, 6), (0, 0), (7, 0),
               (5400, 5400), (5400, 3600), (3600, 5400), (3601, 3600), (3600, 3600), (3599, 3600), (0, 86400),
               (86400, 86400), (86400, 86399), (2 ** 31 - 1, 2 ** 31 - 1), (2 ** 31 - 1, 3600), (60, 59)]


def other_delays(d):
    """single perturbations of a delay: +-1 and large amounts; never 0 (which means "any") and never d itself"""
    cands = [d - 1, d + 1, d + 59, d + 3600, 2 * d + 10, 60, 3600, 3601, 5400, 86400, 2 ** 31 - 1]
    out = []
    for c in cands:
        if c > 0 and c != d and c not in out:
            out.append(c)
    return out


def gen_unit(ctx: Ctx):
    """yields (case, truth) — truth: True = must pass, False = must fail, None = no ground truth
    (correspondence only), 'iff' = decide with the independent restatement."""
    rng = ctx.rng
    q = ctx.quick()

    # (d) exhaustive scalar x scalar table: plain, in lists, in set-compared lists, under a key
    pool = [None, True, False, 0, 1, 2, 0.0, 1.0, 2.5, "", "1", "a", "True", [], {}, [1], {"a": 1},
            4294967296, 4294967297, 4294967296.0, 1700000000123, 1700000000123.5, math.nextafter(1700000000123.5, math.inf),
            0.1 + 0.2, 0.3]
    for x, y in itertools.product(pool, repeat=2):
        yield {"kind": "match", "t": x, "a": y, "origin": "table"}, "iff"
        yield {"kind": "match", "t": [x], "a": [y], "origin": "table-list"}, "iff"
        yield {"kind": "match", "t": {"k": x}, "a": {"k": y}, "origin": "table-key"}, "iff"
        yield {"kind": "match", "t": [x], "a": [y], "as_set": True, "origin": "table-set-flag"}, None
        exp = {"l": [x, "z"], "x-koreo-compare-as-set": ["l"]}
        act = {"l": ["z", y]}
        hashable = not isinstance(x, (list, dict)) and not isinstance(y, (list, dict))
        truth = None
        if hashable:
            truth = strict_equal(x, y)
        yield {"kind": "match", "t": exp, "a": act, "origin": "table-set", "devkind": "set-member-bool-vs-number"
               if hashable and not strict_equal(x, y) and x == y else "set-changed-member"}, truth

    n = 250 if q else 4000
    for _ in range(n):
        base = rand_json(rng, rng.choice([1, 2, 3, 3]), top_dict=rng.random() < 0.7)
        twin = numeric_twin(rng, copy.deepcopy(base))
        yield {"kind": "match", "t": twin, "a": base, "origin": "equal"}, True
        for side in ("a", "t"):
            for _ in range(2):
                pr = perturb(rng, base)
                if pr is None:
                    continue
                dev, kind = pr
                if strict_equal(dev, base):
                    continue
                c = {"kind": "match", "t": twin, "a": dev, "origin": "perturb-actual", "devkind": kind} if side == "a" else \
                    {"kind": "match", "t": dev, "a": twin, "origin": "perturb-expected", "devkind": kind}
                yield c, False

    # (c) directive-bearing expectations
    n = 120 if q else 2000
    for _ in range(n):
        exp, act = gen_directive_pair(rng)
        yield {"kind": "match", "t": exp, "a": act, "origin": "directive-truthful"}, True
        for dev, kind in directed_perturb(rng, exp, act):
            yield {"kind": "match", "t": exp, "a": dev, "origin": "directive-perturb", "devkind": kind}, False
        for _ in range(2):
            pr = perturb(rng, act, allow_root_retype=False)
            if pr is None:
                continue
            dev, kind = pr
            # a generic perturbation may land inside a directed list where it is not a deviation
            # (reorder, duplicate): only correspondence then
            yield {"kind": "match", "t": exp, "a": dev, "origin": "directive-generic-perturb", "devkind": kind}, None

    # (e) malformed directive shapes: correspondence only
    weird = [None, 5, True, "", "ab", "éb", [], ["a"], ["a", ""], [0, "a"], [None, "a"], [["a"]], [{"a": 1}], [1.5, "a"],
             {}, {"a": 1}, {"a": ["n"]}, {"a": "n"}, {"a": None}, {"a": 5}, {"": 5}, {"a": []}, {"a": [["n"]]},
             {"a": {"n": 1}}, {"a": ["n", 0, ""]}, {"a": [1]}, {"a": [True]}, {"b": ["n"]}]
    vals = [[], [{"n": 1}], [{"n": 1}, {"n": 2}], [1, 2], [2, 1], "", {}, "s", None, 5, [{"n": 1}, 5], {"n": 1},
            [{"n": "x-koreo-compare-as-set", "v": 1}], [{"n": "x-koreo-compare-as-map"}], [{}], [[]]]
    for dkey in DIRECTIVES[:2]:
        for w in weird:
            picks = vals if not q else rng.sample(vals, 5)
            for tv in picks:
                av = rng.choice(vals)
                yield {"kind": "match", "t": {"a": tv, dkey: w}, "a": {"a": av}, "origin": "weird-directive"}, None
                yield {"kind": "match", "t": {"a": tv, dkey: w}, "a": {"a": copy.deepcopy(tv)}, "origin": "weird-directive"}, None
    # directive-named keys on the ACTUAL side are ignored by the comparator
    for d in DIRECTIVES:
        yield {"kind": "match", "t": {"a": 1}, "a": {"a": 1, d: ["a"]}, "origin": "actual-directive-key"}, None
        yield {"kind": "match", "t": {"a": 1, d: []}, "a": {"a": 1}, "origin": "expected-directive-key"}, None

    # (f) random pairs
    n = 150 if q else 2500
    for _ in range(n):
        t = rand_json(rng, rng.choice([1, 2, 3]))
        a = rand_json(rng, rng.choice([1, 2, 3])) if rng.random() < 0.7 else copy.deepcopy(t)
        yield {"kind": "match", "t": t, "a": a, "origin": "random"}, "iff"

    # ---- strip ----
    anns = [None, {}, {LAST_APPLIED: "{}"}, {"x": "y"}, {LAST_APPLIED: "{}", "x": "y"}, {"x": "y", "z": "w"},
            {"x": "y", "z": "w", LAST_APPLIED: "v"}, [], ["q"], ["q", "r"], "", "s", "st", "é", 5, True, None]
    mds = [{"name": "n"}, "annotations", "xx annotations yy", "other", ["annotations"], ["x"], [], 5, None, True, {}]
    for ann in anns:
        md = {"name": "n", "annotations": ann}
        yield {"kind": "strip", "a": {"kind": "K", "metadata": md, "spec": {"a": 1}}}, None
    for md in mds:
        yield {"kind": "strip", "a": {"kind": "K", "metadata": md}}, None
    for a in [None, {}, [], 5, "s", {"spec": 1}, [{"metadata": {"annotations": {"a": "b"}}}]]:
        yield {"kind": "strip", "a": a}, None

    # ---- outcome matcher ----
    msgs = [None, "", "Not Ready yet", "not ready", "READY", "ready yet", "unrelated", "Creating K:ns:n.", "日本 ready"]
    classes = ["DepSkip", "Skip", "Retry", "PermFail"]

    def mk(cls, m, d):
        return ["Retry", d, m] if cls == "Retry" else [cls, m]
    for ec, ac in itertools.product(classes + ["None", "Ok"], classes + ["Val"]):
        for em, am in itertools.product(msgs, repeat=2):
            if q and rng.random() < 0.55:
                continue
            for ed, ad in ((DELAY_PAIRS if not q else DELAY_PAIRS[:5] + rng.sample(DELAY_PAIRS[5:], 3))
                           if "Retry" in (ec, ac) else [(0, 0)]):
                if ec == "None":
                    e = None
                elif ec == "Ok":
                    e = ["Ok", rng.choice([None, {}, {"a": 1}, 0, [1]])]
                else:
                    e = mk(ec, em, ed)
                a = ["Val", rng.choice([None, {}, {"a": 1}, 0, "s", [1], True])] if ac == "Val" else mk(ac, am, ad)
                truth = "iff" if (e is None or e[0] != "Ok") else None
                yield {"kind": "outcome", "e": e, "a": a}, truth

    # ---- verdict functions called directly on synthetic observations ----
    n = 120 if q else 1500
    for _ in range(n):
        val = rand_json(rng, 2, top_dict=True)
        mat = {"apiVersion": "v1", "kind": "K",
               "metadata": {"name": "n", "annotations": rng.choice([{LAST_APPLIED: "{}"}, {LAST_APPLIED: "{}", "x": "y"}])},
               "spec": rand_json(rng, 2, top_dict=True)}
        exp_res = copy.deepcopy(mat)
        del exp_res["metadata"]["annotations"][LAST_APPLIED]
        if not exp_res["metadata"]["annotations"]:
            del exp_res["metadata"]["annotations"]
        actuals = [["Val", val], ["Retry", 30, "Creating"], ["PermFail", "boom"], ["Skip", "s"], ["DepSkip", None], ["Val", None]]
        a = rng.choice(actuals)
        called = rng.random() < 0.6
        deleted = called and rng.random() < 0.2
        obs = {"actual": a, "mat": ({} if deleted else mat), "called": called, "deleted": deleted}
        e_ret = copy.deepcopy(val)
        if rng.random() < 0.5:
            pr = perturb(rng, e_ret, allow_root_retype=False)
            if pr:
                e_ret = pr[0]
        yield {"kind": "verdict", "assert": ["return", e_ret], "obs": obs}, \
            ("iff-return" if not has_directive_key(e_ret) and not has_directive_key(val) else None)
        e_res = copy.deepcopy(exp_res)
        if rng.random() < 0.5:
            pr = perturb(rng, e_res, allow_root_retype=False)
            if pr:
                e_res = pr[0]
        yield {"kind": "verdict", "assert": ["resource", e_res], "obs": obs}, \
            ("iff-resource" if not has_directive_key(e_res) and not has_directive_key(mat) else None)
    # shapes of `expected`/`materialized` the public path never produces (None, directive-only)
    for e in [None, {}, {"x-koreo-compare-as-set": []}]:
        for mat, called in [(None, False), ({}, True), ({"a": 1}, True)]:
            for a in [["Retry", 15, "Deleting"], ["Val", {"a": 1}], ["PermFail", "x"]]:
                yield {"kind": "verdict", "assert": ["resource", e],
                       "obs": {"actual": a, "mat": mat, "called": called, "deleted": called and mat == {}}}, None
                yield {"kind": "verdict", "assert": ["return", e],
                       "obs": {"actual": a, "mat": mat, "called": called, "deleted": False}}, None

    # ---- MockApi / _merge_overlay ----
    n = 60 if q else 800
    for _ in range(n):
        cur = rng.choice([None, {}, rand_json(rng, 2, top_dict=True), rand_json(rng, 3, top_dict=True)])
        calls = []
        for _ in range(rng.choice([0, 1, 1, 1, 2])):
            if rng.random() < 0.25:
                calls.append(["DELETE"])
            else:
                body = rand_json(rng, 2, top_dict=True)
                if isinstance(cur, dict) and cur and rng.random() < 0.6:
                    # overlap with nested dicts: the case where a deep merge and a top-level replace differ
                    k = rng.choice(list(cur))
                    body[k] = {"new": 1} if isinstance(cur[k], dict) else rand_json(rng, 1)
                calls.append([rng.choice(["POST", "PATCH"]), body])
        yield {"kind": "mock", "cur": cur, "calls": calls}, "mock"
        b = rand_json(rng, 3, top_dict=True)
        o = rand_json(rng, 3, top_dict=True)
        if rng.random() < 0.5 and b:
            k = rng.choice(list(b))
            o[k] = {"deep": {"x": 1}} if isinstance(b[k], dict) else o.get(k, 1)
        yield {"kind": "merge", "b": b, "o": o}, None

    # ---- expectOutcome parsing ----
    specs = [{"ok": {}}, {"ok": None}, {"ok": {"x": 1}}, {"skip": {"message": "m"}}, {"depSkip": {"message": ""}},
             {"retry": {"message": "wait", "delay": 5}}, {"retry": {"message": "", "delay": 0}},
             {"retry": {"message": "m"}}, {"retry": {"delay": 5}}, {"permFail": {"message": "Boom"}},
             {"permFail": {}}, {"skip": {}}, {"retry": {"message": "m", "delay": True}},
             {"retry": {"message": "m", "delay": 5.0}}, {"retry": {"message": "m", "delay": None}},
             {"skip": {"message": "a"}, "permFail": {"message": "b"}}, {"permFail": {"message": "b"}, "depSkip": {"message": "c"}},
             {"bogus": {}}, {"skip": {"message": 5}}, {"skip": {"message": None}}, {"skip": "text"}]
    for s in specs:
        yield {"kind": "parse", "spec": s}, None
    # well-formed assertions: what prepare builds must say what was written (class, message, delay)
    for d in DELAYS + [5, 18, 7200, 10 ** 12]:
        for m in ["", "Not Ready yet", "x"]:
            yield {"kind": "parse", "spec": {"retry": {"message": m, "delay": d}}}, "as-written"
    for k in ("skip", "depSkip", "permFail"):
        for m in ["", "Waiting on Dependency", "MiXed Case"]:
            yield {"kind": "parse", "spec": {k: {"message": m}}}, "as-written"
    yield {"kind": "parse", "spec": {"ok": {}}}, "as-written"


# =============================================================================================
# end-to-end: real Functions, real FunctionTests
# =============================================================================================

SAFE_STRS = ["a", "b", "value", "Hello World", "x-y_z", "64", "true-ish", ""]
# large numbers (within int64, which is all CEL can carry): sizes, epoch milliseconds, computed doubles
E2E_BIG = [2 ** 31, 4294967296, 2 ** 53 + 1, 1700000000123, 10 ** 12, 1e12, 1700000000123.5, 0.1 + 0.2]


def e2e_json(rng, depth=2, top_dict=False):
    """values that survive koreo's literal encoder and celpy unchanged (no CEL syntax, small ints)"""
    r = rng.random()
    if depth <= 0 or (r < 0.5 and not top_dict):
        return rng.choice([None, True, False, 0, 1, 2, 7, 64, -3, 1.5, 2.0] + SAFE_STRS + E2E_BIG)
    if r < 0.7 and not top_dict:
        return [e2e_json(rng, depth - 1) for _ in range(rng.choice([0, 1, 2, 3]))]
    keys = rng.sample(["a", "b", "c", "name", "items", "enabled", "count"], rng.choice([1, 2, 3]))
    return {k: e2e_json(rng, depth - 1) for k in keys}


class Recorder:
    """records, per test case run, the reconcile result and the MockApi the runner used"""

    def __init__(self):
        self.apis = []
        self.results = []

    def __enter__(self):
        from koreo.function_test import run
        rec = self
        self.run = run
        self.saved = (run.MockApi, run.reconcile_resource_function, run.reconcile_value_function)
        base_api, rrf, rvf = self.saved

        class RecApi(base_api):
            def __init__(self, *a, **k):
                super().__init__(*a, **k)
                rec.apis.append(self)

        async def w_rrf(*a, **k):
            r = await rrf(*a, **k)
            rec.results.append(r[0])
            return r

        async def w_rvf(*a, **k):
            r = await rvf(*a, **k)
            rec.results.append(r)
            return r
        run.MockApi, run.reconcile_resource_function, run.reconcile_value_function = RecApi, w_rrf, w_rvf
        return self

    def __exit__(self, *exc):
        self.run.MockApi, self.run.reconcile_resource_function, self.run.reconcile_value_function = self.saved


INTENTS = (
    [("ValueFunction", m, None, None) for m in ("ok", "ok", "ok", "skip", "depSkip", "retry", "permFail")]
    + [("ResourceFunction", "ok", p, st) for p, st in (
        ("patch", "absent"), ("recreate", "absent"), ("patch", "same"), ("patch", "same-ready"), ("never", "same-ready"),
        ("patch", "drift"), ("patch", "drift-status"), ("patch", "drift"), ("recreate", "drift"), ("recreate", "drift-status"),
        ("never", "drift"), ("recreate", "same-ready"))]
    + [("ResourceFunction", m, "patch", st) for m, st in (("skip", "absent"), ("depSkip", "drift"), ("retry", "absent"), ("permFail", "same"))]
)


def gen_function(rng, intent=None):
    """a Function spec, base inputs and optional current resource, built for an intended behaviour"""
    fkind, mode, policy, state = intent if intent else rng.choice(INTENTS)
    payload = e2e_json(rng, 2, top_dict=True)
    # something a compare directive applies to: a list of distinct scalars, a list of named objects
    payload["size"] = rng.choice(E2E_BIG)
    payload["zones"] = rng.sample(["a", "b", "c", "eu-1", 7, 12], rng.choice([2, 3, 4]))
    payload["ports"] = [{"name": n, "port": rng.choice([80, 443, 8080]), "opts": {"roles": rng.sample(["reader", "writer", "admin"], 2)}}
                        for n in rng.sample(["http", "https", "metrics", "grpc"], rng.choice([2, 3]))]
    pre = [
        {"assert": "=inputs.mode != 'skip'", "skip": {"message": "User disabled the Function"}},
        {"assert": "=inputs.mode != 'depSkip'", "depSkip": {"message": "Waiting on Dependency"}},
        {"assert": "=inputs.mode != 'retry'", "retry": {"message": "Not Ready yet", "delay": rng.choice(DELAYS)}},
        {"assert": "=inputs.mode != 'permFail'", "permFail": {"message": "Input is INVALID: bad mode"}},
    ]
    if fkind == "ValueFunction":
        spec = {"preconditions": pre,
                "return": {"payload": "=inputs.payload", "static": e2e_json(rng, 2), "n": "=inputs.n * 2"}}
        return {"fkind": "ValueFunction", "spec": spec, "inputs": {"mode": mode, "payload": payload, "n": rng.choice([0, 1, 21])},
                "current": None, "intent": f"vf-{mode}"}
    update = {"patch": {"delay": rng.choice(DELAYS)}} if policy == "patch" else (
        {"recreate": {"delay": rng.choice(DELAYS)}} if policy == "recreate" else {"never": {}})
    body = {"spec": "=inputs.payload", "metadata": {"labels": {"app": "=inputs.app"}}}
    if rng.random() < 0.3:
        body["metadata"]["annotations"] = {"team": "core"}
    spec = {"preconditions": pre,
            "apiConfig": {"apiVersion": "test.koreo.dev/v1", "kind": "TestResource", "plural": "testresources",
                          "name": "=inputs.name", "namespace": "ns1"},
            "resource": body, "update": update,
            "create": {"delay": rng.choice(DELAYS)},
            "postconditions": [{"assert": "=has(resource.status.ready)",
                                "retry": {"message": "Waiting for ready-state", "delay": rng.choice(DELAYS)}}],
            "return": {"ref": "=resource.metadata.name", "ready": "=resource.status.ready", "echo": "=inputs.payload"}}
    inputs = {"mode": mode, "payload": payload, "app": rng.choice(SAFE_STRS[:5]), "name": rng.choice(["n1", "obj-2"])}
    cur = None
    if state != "absent":
        cur = {"apiVersion": "test.koreo.dev/v1", "kind": "TestResource",
               "metadata": {"name": inputs["name"], "namespace": "ns1", "labels": {"app": inputs["app"]}},
               "spec": copy.deepcopy(payload)}
        if "annotations" in body["metadata"]:
            cur["metadata"]["annotations"] = {"team": "core"}
        if state in ("same-ready", "drift-status"):
            cur["status"] = {"ready": rng.choice([True, "yes", 1])}
        if state.startswith("drift"):
            # a live object that lacks a key the target specifies, or holds another leaf value
            k = rng.choice(list(cur["spec"]))
            if rng.random() < 0.5 or isinstance(cur["spec"][k], (dict, list)):
                del cur["spec"][k]
            else:
                cur["spec"][k] = fresh_scalar(rng, cur["spec"][k])
            if rng.random() < 0.3:
                cur["metadata"]["labels"]["app"] = "some-other-app"
    return {"fkind": "ResourceFunction", "spec": spec, "inputs": inputs, "current": cur,
            "intent": f"rf-{mode}-{policy}-{state}"}


async def prepare_fut(fn):
    from koreo import cache
    from koreo.resource_function.prepare import prepare_resource_function
    from koreo.resource_function.structure import ResourceFunction
    from koreo.value_function.prepare import prepare_value_function
    from koreo.value_function.structure import ValueFunction
    cls, prep = (ValueFunction, prepare_value_function) if fn["fkind"] == "ValueFunction" else \
        (ResourceFunction, prepare_resource_function)
    return await cache.prepare_and_cache(resource_class=cls, preparer=prep,
                                         metadata={"name": "fut", "resourceVersion": "v1"},
                                         spec=copy.deepcopy(fn["spec"]))


class PrepareFailed:
    def __init__(self, message):
        self.message = message


async def prepare_tests(fn, test_cases):
    """the real prepared FunctionTest, or a PrepareFailed"""
    from koreo import result
    from koreo.function_test import prepare
    spec = {"functionRef": {"kind": fn["fkind"], "name": "fut"}, "inputs": copy.deepcopy(fn["inputs"]),
            "testCases": copy.deepcopy(test_cases)}
    if fn["current"] is not None:
        spec["currentResource"] = copy.deepcopy(fn["current"])
    prepared = await prepare.prepare_function_test("c19", spec)
    if not result.is_unwrapped_ok(prepared):
        return PrepareFailed(getattr(prepared, "message", None))
    return prepared[0]


async def run_tests(fn, test_cases, repeat=False):
    """prepare + run a real FunctionTest; returns (result, recorder, prepared test, later results).
    repeat: the SAME prepared object is run again, then another FunctionTest runs, then it is run a third time
    (a prepared FunctionTest is cached and re-evaluated); `later results` are those of runs 2 and 3."""
    from koreo.function_test import run
    ft = await prepare_tests(fn, test_cases)
    if isinstance(ft, PrepareFailed):
        return ("prepare-failed", ft.message), None, None, []
    with Recorder() as rec:
        res = await run.run_function_test("c19", ft)
    later = []
    if repeat:
        later.append(await run.run_function_test("c19", ft))
        other = await prepare_tests(fn, [{"variant": True, "expectOutcome": {"ok": {}}},
                                         {"variant": True, "expectReturn": {"x-koreo-compare-as-set": ["zz"], "zz": [2, 1]}}])
        if not isinstance(other, PrepareFailed):
            await run.run_function_test("c19-other", other)
        later.append(await run.run_function_test("c19", ft))
    return res, rec, ft, later


def assertion_snapshot(ft):
    """the assertion objects of a prepared FunctionTest, as text (to see whether running rewrites them)"""
    return [repr(tuple(tc.assertion)) for tc in ft.test_cases]


def reset_koreo():
    from koreo import cache, registry
    try:
        cache._reset_cache()
    except Exception:
        pass
    try:
        registry._reset_registries()
    except Exception:
        pass
    try:
        from koreo.resource_function.reconcile import kind_lookup
        kind_lookup._reset()
    except Exception:
        pass


def truthful_strip(mat):
    """the object sent, without the bookkeeping annotation koreo adds to everything it sends"""
    m = copy.deepcopy(mat)
    ann = m.get("metadata", {}).get("annotations") if isinstance(m.get("metadata"), dict) else None
    if isinstance(ann, dict) and LAST_APPLIED in ann:
        del ann[LAST_APPLIED]
        if not ann:
            del m["metadata"]["annotations"]
    return m


def case_variants(s):
    return [s, s.lower(), s.upper(), s.swapcase()]


def reordered(rng, l):
    sh = list(l)
    for _ in range(10):
        rng.shuffle(sh)
        if any(not strict_equal(x, y) for x, y in zip(sh, l)):
            break
    return sh


def with_directives(rng, doc):
    """(description of `doc` that relies on compare directives: every list of >=2 distinct scalars is listed in
    another order under x-koreo-compare-as-set, every list of >=2 objects with distinct `name`s in another order under
    x-koreo-compare-as-map; number of lists so treated).  Recurses through objects and through the mapped items."""
    n = 0

    def walk(d):
        nonlocal n
        out, sets, maps = {}, [], {}
        for k, v in d.items():
            if isinstance(v, dict):
                out[k] = walk(v)
            elif isinstance(v, list) and len(v) >= 2 and all(not isinstance(x, (list, dict)) for x in v) \
                    and all(not strict_equal(v[i], v[j]) for i in range(len(v)) for j in range(i)):
                out[k] = reordered(rng, v)
                sets.append(k)
                n += 1
            elif isinstance(v, list) and len(v) >= 2 and all(isinstance(x, dict) and isinstance(x.get("name"), str) for x in v) \
                    and len({x["name"].strip() for x in v}) == len(v) and not any(x["name"].strip() in DIRECTIVES for x in v):
                out[k] = reordered(rng, [walk(x) for x in v])
                maps[k] = ["name"]
                n += 1
            else:
                out[k] = copy.deepcopy(v)
        if sets:
            out["x-koreo-compare-as-set"] = sets
        if maps:
            out["x-koreo-compare-as-map"] = maps
        return out

    return walk(doc), n


def break_directed(rng, desc):
    """one member of one directed list of the description changed: (desc', label) or None"""
    spots = []

    def walk(d, p):
        for k in d.get("x-koreo-compare-as-set", []):
            spots.append((p + (k,), "set"))
        for k in d.get("x-koreo-compare-as-map", {}):
            spots.append((p + (k,), "map"))
            for i, it in enumerate(d[k]):
                walk(it, p + (k, i))
        for k, v in d.items():
            if isinstance(v, dict) and k not in DIRECTIVES:
                walk(v, p + (k,))

    walk(desc, ())
    if not spots:
        return None
    p, kind = rng.choice(spots)
    lst = list(get_at(desc, p))
    i = rng.randrange(len(lst))
    if kind == "set":
        lst[i] = "never-a-member"
        return set_at(desc, p, lst), "directive-set-member-changed"
    it = dict(lst[i])
    it["port"] = 1 if it.get("port") != 1 else 2
    lst[i] = it
    return set_at(desc, p, lst), "directive-map-item-changed"


def derive_assertions(rng, beh):
    """[(testCase fragment, model assertion, truth, label)] for one observed behaviour"""
    out = []
    a = beh["actual"]
    # ---- expectReturn
    if a[0] == "Val" and isinstance(a[1], dict) and a[1] and not has_directive_key(a[1]):
        val = a[1]
        out.append(({"expectReturn": numeric_twin(rng, copy.deepcopy(val))}, True, "return-truthful"))
        desc, n = with_directives(rng, val)
        if n:
            out.append(({"expectReturn": desc}, True, "return-truthful-directive"))
            for _ in range(2):
                br = break_directed(rng, desc)
                if br:
                    out.append(({"expectReturn": br[0]}, False, f"return-{br[1]}"))
        for p_ in paths(val):
            leaf = get_at(val, p_)
            if isinstance(leaf, (int, float)) and not isinstance(leaf, bool) and rng.random() < 0.6:
                out.append(({"expectReturn": set_at(val, p_, nudge(rng, leaf))}, False, "return-leaf-nudged"))
        for _ in range(5):
            pr = perturb(rng, val, allow_root_retype=False)
            if pr and isinstance(pr[0], dict) and pr[0] and not strict_equal(pr[0], val):
                out.append(({"expectReturn": pr[0]}, False, f"return-{pr[1]}"))
    else:
        out.append(({"expectReturn": {"payload": 1}}, False, "return-on-non-ok"))
        if a[0] == "Val" and not a[1]:
            pass
    # ---- expectResource (ResourceFunction only)
    if beh["fkind"] == "ResourceFunction":
        if beh["called"] and not beh["deleted"]:
            tr = truthful_strip(beh["mat"])
            out.append(({"expectResource": numeric_twin(rng, copy.deepcopy(tr))}, True, "resource-truthful"))
            desc, n = with_directives(rng, tr)
            if n:
                out.append(({"expectResource": desc}, True, "resource-truthful-directive"))
                for _ in range(2):
                    br = break_directed(rng, desc)
                    if br:
                        out.append(({"expectResource": br[0]}, False, f"resource-{br[1]}"))
            for p_ in paths(tr):
                leaf = get_at(tr, p_)
                if isinstance(leaf, (int, float)) and not isinstance(leaf, bool) and rng.random() < 0.6:
                    out.append(({"expectResource": set_at(tr, p_, nudge(rng, leaf))}, False, "resource-leaf-nudged"))
            for _ in range(6):
                pr = perturb(rng, tr, allow_root_retype=False)
                if pr and isinstance(pr[0], dict) and pr[0] and not strict_equal(pr[0], tr):
                    out.append(({"expectResource": pr[0]}, False, f"resource-{pr[1]}"))
            # the same object described with a set directive on a shuffled list, when it has a scalar list
            spec = tr.get("spec")
            if isinstance(spec, dict):
                for k, v in spec.items():
                    if isinstance(v, list) and len(v) >= 2 and all(not isinstance(x, (list, dict, bool)) for x in v) \
                            and not any(x in (0, 1) for x in v if not isinstance(x, str) and x is not None):
                        e = copy.deepcopy(tr)
                        sh = list(v)
                        rng.shuffle(sh)
                        e["spec"][k] = sh
                        e["spec"]["x-koreo-compare-as-set"] = [k]
                        out.append(({"expectResource": e}, True, "resource-truthful-as-set"))
                        e2 = copy.deepcopy(e)
                        e2["spec"][k] = sh[1:] if not any(sh[0] == y for y in sh[1:]) else sh + ["never-there"]
                        out.append(({"expectResource": e2}, False, "resource-as-set-member"))
                        break
        else:
            guess = {"apiVersion": "test.koreo.dev/v1", "kind": "TestResource"}
            if beh.get("current"):
                guess = copy.deepcopy(beh["current"])
            out.append(({"expectResource": guess}, False, "resource-no-mutation" if not beh["called"] else "resource-on-delete"))
        # ---- expectDelete
        out.append(({"expectDelete": beh["deleted"]}, True, "delete-truthful"))
        out.append(({"expectDelete": not beh["deleted"]}, False, "delete-negated"))
    # ---- expectOutcome
    if a[0] == "Val":
        out.append(({"expectOutcome": {"ok": {}}}, True, "outcome-ok"))
        for k in ("skip", "depSkip", "permFail"):
            out.append(({"expectOutcome": {k: {"message": ""}}}, False, "outcome-other-class"))
        out.append(({"expectOutcome": {"retry": {"message": "", "delay": 0}}}, False, "outcome-other-class"))
    else:
        key = {"Retry": "retry", "PermFail": "permFail", "Skip": "skip", "DepSkip": "depSkip"}[a[0]]
        msg = msg_of(a) or ""
        delay = a[1] if a[0] == "Retry" else None

        def frag(m, d=None, k=key):
            body = {"message": m}
            if k == "retry":
                body["delay"] = d if d is not None else 0
            return {"expectOutcome": {k: body}}
        subs = [msg, "", msg[: max(1, len(msg) // 2)], msg[len(msg) // 3:]]
        words = [w for w in msg.replace(".", " ").split() if w.isalpha()]
        if words:
            subs.append(rng.choice(words))
        for s in subs:
            for v in case_variants(s)[: 4 if s else 1]:
                out.append((frag(v, delay), True, "outcome-truthful"))
        if delay is not None:
            out.append((frag(msg, 0), True, "outcome-truthful-any-delay"))
            for d2 in other_delays(delay):
                out.append((frag(rng.choice([msg, ""]), d2), False, "outcome-other-delay"))
        out.append((frag(msg + " and more", delay), False, "outcome-message-not-contained"))
        out.append((frag("zzz-never-in-a-message", delay), False, "outcome-message-not-contained"))
        out.append(({"expectOutcome": {"ok": {}}}, False, "outcome-other-class"))
        for k in ("retry", "permFail", "skip", "depSkip"):
            if k != key:
                out.append((frag("", 0, k), False, "outcome-other-class"))
    return out


OUTCOME_KEYS = {"ok": "Val", "skip": "Skip", "depSkip": "DepSkip", "retry": "Retry", "permFail": "PermFail"}


def borderline_spellings(beh):
    """null / empty / schema-borderline spellings of every expectation: [(testCase fragment, rule, label)].
    Such a case is either rejected at prepare (no verdict — always acceptable) or, when it IS prepared, judged by the
    property's rule for what it says.  rule: ("iff", b) = the verdict must be b;  ("only-if", b) = it may pass only
    if b (used where the spelling leaves the message / delay open);  None = no ground truth."""
    a = beh["actual"][0]
    out = []
    for body, lab in ((None, "null"), ({}, "empty"), ({"anything": 1}, "extra-key")):
        out.append(({"expectOutcome": {"ok": body}}, ("iff", a == "Val"), f"outcome-spelled-ok-{lab}"))
    for k, cls in OUTCOME_KEYS.items():
        if k == "ok":
            continue
        same = a == cls
        for body, lab in ((None, "null"), ({}, "empty"), ({"message": None}, "message-null")):
            out.append(({"expectOutcome": {k: body}}, ("only-if", same), f"outcome-spelled-{k}-{lab}"))
    for body, lab in (({"message": ""}, "no-delay"), ({"message": "", "delay": None}, "delay-null"),
                      ({"message": "", "delay": "0"}, "delay-string"), ({"message": "", "delay": 0.0}, "delay-float"),
                      ({"message": "", "delay": False}, "delay-bool")):
        out.append(({"expectOutcome": {"retry": body}}, ("only-if", a == "Retry"), f"outcome-spelled-retry-{lab}"))
    out.append(({"expectOutcome": {"skip": {"message": ""}, "permFail": {"message": ""}}},
                ("only-if", a in ("Skip", "PermFail")), "outcome-spelled-two-classes"))
    out.append(({"expectOutcome": {"ok": {}, "permFail": {"message": ""}}},
                ("only-if", a in ("Val", "PermFail")), "outcome-spelled-ok-and-permfail"))
    out.append(({"expectOutcome": {"ok": None, "retry": None}}, ("only-if", a in ("Val", "Retry")), "outcome-spelled-ok-null-retry-null"))
    # absent-by-null companions must not change what the one real assertion says
    out.append(({"expectReturn": None, "expectOutcome": {"ok": {}}}, ("iff", a == "Val"), "outcome-spelled-ok-with-null-return"))
    if beh["fkind"] == "ResourceFunction":
        out.append(({"expectResource": None, "expectDelete": None, "expectOutcome": {"ok": None}}, ("iff", a == "Val"),
                    "outcome-spelled-ok-null-with-null-others"))
        out.append(({"expectDelete": None, "expectOutcome": {"ok": {}}}, ("iff", a == "Val"), "outcome-spelled-ok-with-null-delete"))
        for v, lab in ((1, "one"), (0, "zero")):
            out.append(({"expectDelete": v}, ("iff", beh["deleted"] == bool(v)), f"delete-spelled-{lab}"))
        for v, lab in (("true", "string"), ([], "list")):
            out.append(({"expectDelete": v}, ("only-if", beh["deleted"]), f"delete-spelled-{lab}"))
        for v, lab in (([], "list"), ("text", "string"), (0, "zero")):
            out.append(({"expectResource": v}, ("only-if", False), f"resource-spelled-{lab}"))
    # an expectation that is not an object cannot describe a return value (always an object or nothing)
    for v, lab in (([], "list"), ("text", "string"), (0, "zero"), (False, "false")):
        out.append(({"expectReturn": v}, ("only-if", False), f"return-spelled-{lab}"))
    # nothing asserted at all
    for frag, lab in (({"expectOutcome": None}, "outcome-null"), ({"expectReturn": None}, "return-null"),
                      ({"expectOutcome": {}}, "outcome-empty"), ({"expectReturn": {}}, "return-empty")):
        out.append((frag, ("only-if", False), f"nothing-spelled-{lab}"))
    if beh["fkind"] == "ResourceFunction":
        out.append(({"expectResource": None}, ("only-if", False), "nothing-spelled-resource-null"))
        out.append(({"expectDelete": None}, ("only-if", False), "nothing-spelled-delete-null"))
    return out


def model_assert(frag, tc):
    """the model-side assertion for a prepared TestCase (ExpectOutcome taken from the REAL prepared object)"""
    from koreo.function_test import structure
    asr = tc.assertion
    if isinstance(asr, structure.ExpectReturn):
        return ["return", asr.value]
    if isinstance(asr, structure.ExpectResource):
        return ["resource", asr.resource]
    if isinstance(asr, structure.ExpectDelete):
        return ["delete", asr.expected]
    e = asr.outcome
    return ["outcome", None if e is None else obs_outcome(e)]


def e2e_cases(ctx: Ctx):
    """yields (case, truth, passed, label) for every derived assertion of every generated Function"""
    rng = ctx.rng
    rounds = 3 if ctx.quick() else 30
    loop = asyncio.new_event_loop()
    try:
        for intent in list(INTENTS) * rounds:
            fn = gen_function(rng, intent)
            reset_koreo()
            try:
                fut = loop.run_until_complete(prepare_fut(fn))
                from koreo import result as kresult
                if not kresult.is_unwrapped_ok(fut):
                    ctx.count("e2e:function-not-prepared")
                    continue
                probe = {"variant": True, "expectOutcome": {"ok": {}}}
                res, rec, _, _ = loop.run_until_complete(run_tests(fn, [probe]))
                if rec is None or len(rec.results) != 1:
                    ctx.count("e2e:probe-failed")
                    continue
                api = rec.apis[0]
                beh = {"fkind": fn["fkind"], "actual": obs_outcome(rec.results[0]),
                       "mat": copy.deepcopy(api.materialized), "called": api._api_called, "deleted": api._delete_called,
                       "current": fn["current"]}
                ctx.count(f"e2e:behaviour:{beh['actual'][0]}:{'delete' if beh['deleted'] else 'send' if beh['called'] else 'no-call'}")
                derived = derive_assertions(rng, beh)
                # assertions that rely on a compare directive go in a batch of their own, which is run three times
                directed = [d for d in derived if "directive" in d[2] or "as-set" in d[2]]
                plain = [d for d in derived if d not in directed]
                batches = [(plain[i:i + 20], False) for i in range(0, len(plain), 20)]
                batches += [(directed[i:i + 20], True) for i in range(0, len(directed), 20)]
                for batch, repeat in batches:
                    tcs = [dict(frag, variant=True, label=f"{lab} #{j}") for j, (frag, _, lab) in enumerate(batch)]
                    try:
                        res, rec, ft, later = loop.run_until_complete(run_tests(fn, tcs, repeat=repeat))
                    except Exception as ex:
                        for frag, truth, lab in batch:
                            yield ({"kind": "e2e", "function": fn, "testCase": frag, "label": lab}, truth, 2, lab, None, repr(ex))
                        continue
                    if rec is None:
                        ctx.count("e2e:test-not-prepared")
                        ctx.notes.append({"e2e-test-not-prepared": res, "cases": [b[0] for b in batch][:3]}) if len(ctx.notes) < 5 else None
                        continue
                    for j, ((frag, truth, lab), tr) in enumerate(zip(batch, res.test_results)):
                        a2 = rec.apis[j]
                        obs = {"actual": obs_outcome(rec.results[j]), "mat": copy.deepcopy(a2.materialized),
                               "called": a2._api_called, "deleted": a2._delete_called}
                        # the model is given the assertion as written, not the prepared object after the runs
                        fresh = {"return": frag.get("expectReturn"), "resource": frag.get("expectResource")}
                        ma = model_assert(frag, ft.test_cases[j])
                        if ma[0] in fresh and fresh[ma[0]] is not None:
                            ma = [ma[0], copy.deepcopy(fresh[ma[0]])]
                        vcase = {"kind": "verdict", "assert": ma, "obs": obs}
                        case = {"kind": "e2e", "function": fn, "testCase": frag, "label": lab}
                        yield (case, truth, 1 if tr.test_pass else 0, lab, vcase, None)
                        for nrun, lres in enumerate(later, start=2):
                            ctx.count("e2e:re-run-verdicts")
                            if j < len(lres.test_results):
                                again = 1 if lres.test_results[j].test_pass else 0
                                yield (dict(case, run=nrun), truth, again, f"{lab}@run{nrun}", None, None)
                # ---- null / empty / borderline spellings: one FunctionTest each (a rejection rejects the whole test)
                spellings = borderline_spellings(beh)
                spellings = rng.sample(spellings, 8 if ctx.quick() else 12)
                for frag, rule, lab in spellings:
                    case = {"kind": "e2e", "function": fn, "testCase": frag, "label": lab}
                    try:
                        res, rec, ft, _ = loop.run_until_complete(run_tests(fn, [dict(frag, variant=True)]))
                    except Exception as ex:
                        yield (case, False, 2, lab, None, repr(ex))
                        continue
                    if rec is None or not res.test_results:
                        ctx.count(f"e2e:spelling:{lab}:rejected-at-prepare")
                        continue
                    passed = 1 if res.test_results[0].test_pass else 0
                    ctx.count(f"e2e:spelling:{lab}:prepared-{'pass' if passed else 'fail'}")
                    a2 = rec.apis[0] if rec.apis else None
                    vcase = None
                    if a2 is not None and rec.results:
                        obs = {"actual": obs_outcome(rec.results[0]), "mat": copy.deepcopy(a2.materialized),
                               "called": a2._api_called, "deleted": a2._delete_called}
                        vcase = {"kind": "verdict", "assert": model_assert(frag, ft.test_cases[0]), "obs": obs}
                    if rule[0] == "iff":
                        yield (case, rule[1], passed, lab, vcase, None)
                    elif passed and not rule[1]:
                        yield (case, False, passed, lab, vcase, None)
                    elif vcase is not None:
                        yield (case, bool(passed), passed, lab, vcase, None)     # correspondence only
            finally:
                reset_koreo()
    finally:
        loop.close()


# =============================================================================================
# oracle + driver
# =============================================================================================

def unit_observe(case):
    k = case["kind"]
    PURITY.clear()
    if k == "match":
        return run_match(case["t"], case["a"], case.get("as_set", False))
    if k == "strip":
        return run_strip(case["a"])
    if k == "outcome":
        return run_outcome_match(case["e"], case["a"])
    if k == "verdict":
        return run_verdict_direct(case["assert"], case["obs"])
    if k == "mock":
        return run_mock(case["cur"], case["calls"])
    if k == "merge":
        return run_merge(case["b"], case["o"])
    if k == "parse":
        return run_parse(case["spec"])
    raise ValueError(k)


def term_of(case, obs):
    if case["kind"] == "strip":
        return strip_term(case, obs)
    return to_coq(case, obs)


def unit_oracle(case, truth, obs):
    """None, or (signature, what)"""
    k = case["kind"]
    if k in ("match", "verdict") and PURITY:
        # the verdict is a function of the assertion and the behaviour: asking again with the very same objects
        # gives the same answer, and asking does not rewrite the assertion (a prepared FunctionTest is kept and re-run)
        what_fn = "_validate_match" if k == "match" else f"_validate_{case['assert'][0]}_match"
        if PURITY.get("expected_changed"):
            return (f"{k}: the comparison modifies the expected object", f"{what_fn} changed the `expected` object it was given")
        if PURITY.get("actual_changed"):
            return (f"{k}: the comparison modifies the actual object", f"{what_fn} changed the actual value it was given")
        if PURITY.get("again") != obs:
            return (f"{k}: second call with the same objects gives another verdict",
                    f"{what_fn} answered {obs} and then {PURITY.get('again')} for the same expected and actual objects")
    if truth is None:
        return None
    if k == "match":
        t, a = case["t"], case["a"]
        if truth == "iff":
            if has_directive_key(t) or has_directive_key(a):
                return None
            want = strict_equal(t, a)
        else:
            want = truth
        if obs == 2:
            dk = case.get("devkind", "")
            return (f"match: raises ({dk or case.get('origin')})",
                    "_validate_match raised; a verdict was expected (well-formed assertion)")
        if bool(obs) != want:
            dk = case.get("devkind", "")
            if want:
                return (f"match: truthful expectation fails ({case.get('origin')})", "an expectation that describes the actual value exactly does not pass")
            return (f"match: deviation passes ({dk or case.get('origin')})", f"a single deviation ({dk}) of the actual value still passes")
        return None
    if k == "outcome":
        want = outcome_truth(case["e"], case["a"])
        if obs == 2:
            return ("outcome: raises", "_validate_outcome_match raised")
        if bool(obs) != want:
            return (f"outcome: {'passes' if obs else 'fails'} but the assertion {'does not hold' if obs else 'holds'} "
                    f"({case['e'][0] if case['e'] else 'ok'} vs {case['a'][0]})",
                    "verdict of _validate_outcome_match differs from: same class, message contained case-insensitively, non-zero delay equal")
        return None
    if k == "verdict":
        kind, e = case["assert"]
        o = case["obs"]
        if truth == "iff-return":
            want = o["actual"][0] == "Val" and strict_equal(e, o["actual"][1])
        elif truth == "iff-resource":
            # the property text does not say which outcome class goes with a mutation (the code asks for
            # Retry): a synthetic observation "mutation + other outcome" has no ground truth
            if o["called"] and o["actual"][0] != "Retry":
                return None
            want = (o["called"] and not o["deleted"] and strict_equal(e, truthful_strip(o["mat"])))
        else:
            return None
        if obs == 2:
            return (f"verdict-{kind}: raises", "the verdict function raised")
        if bool(obs) != want:
            return (f"verdict-{kind}: {'passes' if obs else 'fails'} wrongly", "verdict differs from the assertion's truth")
        return None
    if k == "parse" and truth == "as-written":
        spec = case["spec"]
        key = next(iter(spec))
        if key == "ok":
            want = ["ok"]
        else:
            sev = {"depSkip": 0, "skip": 1, "retry": 3, "permFail": 4}[key]
            want = ["out", sev, spec[key]["message"], spec[key].get("delay") if key == "retry" else None]
        if obs != want:
            return (f"parse: the expected outcome built for expectOutcome.{key} is not what was written",
                    f"prepare built {obs} for {spec}; the assertion says {want}")
        return None
    if k == "mock":
        # what the mock materialises: last DELETE -> {}, else body over current (top-level keys of the body win)
        if "raised" in obs:
            return ("mock: raises", "MockApi.call_api raised")
        m, called, deleted = obs["ok"]
        calls = case["calls"]
        if called != bool(calls) or deleted != any(c[0] == "DELETE" for c in calls):
            return ("mock: call flags wrong", "MockApi._api_called/_delete_called do not reflect the calls made")
        if calls and calls[-1][0] != "DELETE":
            body = calls[-1][1]
            for kk, vv in body.items():
                if not (isinstance(m, dict) and kk in m and strict_equal(m[kk], vv)):
                    return ("mock: sent key lost", "a top-level key of the sent body is not in what the mock materialises")
            if isinstance(case["cur"], dict) and case["cur"]:
                for kk, vv in case["cur"].items():
                    if kk not in body and not (kk in m and strict_equal(m[kk], vv)):
                        return ("mock: current key lost", "a key of the current resource the body does not mention is lost")
        return None
    return None


def shrink_match(case, still):
    """greedy: drop the same key from both sides / list elements from both sides while the failure stays"""
    t, a = case["t"], case["a"]
    changed = True
    while changed:
        changed = False
        for p in list(paths(t)):
            try:
                nt = get_at(t, p)
                na = get_at(a, p)
            except (KeyError, IndexError, TypeError):
                continue
            if isinstance(nt, dict) and isinstance(na, dict):
                named = set()
                for d in DIRECTIVES:
                    dv = nt.get(d)
                    named |= set(dv) if isinstance(dv, (list, dict)) and all(isinstance(x, str) for x in dv) else set()
                for k in list(nt):
                    # only parts that are identical on both sides may go: the deviation itself must stay
                    if k in DIRECTIVES or k not in na or k in named or not strict_equal(nt[k], na[k]):
                        continue
                    t2 = set_at(t, p, {x: y for x, y in nt.items() if x != k})
                    a2 = set_at(a, p, {x: y for x, y in na.items() if x != k})
                    c2 = dict(case, t=t2, a=a2)
                    try:
                        if still(c2):
                            t, a, changed = t2, a2, True
                            break
                    except Exception:
                        pass
                if changed:
                    break
    return dict(case, t=t, a=a)


def run(ctx: Ctx):
    cases, terms = [], []
    seen_sigs = set()

    def handle(case, truth):
        try:
            obs = unit_observe(case)
        except Exception as ex:   # harness-level problem, not the implementation's verdict
            ctx.fail(Failure(signature=f"{case['kind']}: harness could not run the case", what=repr(ex), case=case))
            return
        bad = unit_oracle(case, truth, obs)
        if bad and bad[0] in seen_sigs:
            ctx.count(f"oracle-failure-again:{bad[0]}")
            bad = None
        if bad:
            sig, what = bad
            seen_sigs.add(sig)
            small = case
            if case["kind"] == "match":
                def still(c):
                    b = unit_oracle(c, truth, unit_observe(c))
                    return bool(b) and b[0] == sig
                small = shrink_match(case, still)
            ctx.fail(Failure(signature=sig, what=what, case=small, observed=unit_observe(small),
                             expected={"truth": truth if not isinstance(truth, str) else truth}))
        k = case["kind"]
        nontrivial = True
        if k == "match":
            nontrivial = isinstance(case["t"], (dict, list)) or isinstance(case["a"], (dict, list))
            ctx.count(f"match:{case.get('origin')}")
            ctx.count(f"match:result:{obs}")
            if case.get("devkind"):
                ctx.count(f"match:dev:{case['devkind']}")
            if not key_values_ok(case["t"], case["a"]):
                ctx.count("match:outside-key-text-model")
                ctx.note_case(case, nontrivial)
                return
        else:
            ctx.count(f"{k}")
            if k in ("outcome", "verdict"):
                ctx.count(f"{k}:result:{obs}")
        ctx.note_case(case, nontrivial)
        try:
            term = term_of(case, obs)
        except (TypeError, ValueError) as ex:
            ctx.count(f"{k}:no-gallina-term")
            return
        cases.append(case)
        terms.append(term)

    for c in corpus_cases("C19"):
        handle(c["case"] if "case" in c else c, c.get("truth"))
    for case, truth in gen_unit(ctx):
        handle(case, truth)

    # ---- end to end
    for case, truth, passed, lab, vcase, err in e2e_cases(ctx):
        ctx.count(f"e2e:{lab.split('-')[0]}:{'pass' if passed == 1 else 'fail' if passed == 0 else 'raise'}")
        ctx.count(f"e2e:label:{lab.split('@')[0]}")
        ctx.note_case({"testCase": case["testCase"], "intent": case["function"]["intent"]}, True)
        if passed == 2:
            ctx.fail(Failure(signature=f"e2e: run raises ({lab})", what=f"running the FunctionTest raised {err}", case=case))
            continue
        if bool(passed) != truth:
            base = lab.split("@")[0]
            sig = (f"e2e: truthful {base.split('-')[0]} assertion fails" if truth
                   else f"e2e: deviation passes ({base})")
            if "-spelled-" in base:
                sig = f"e2e: a prepared case spelled {base} gets the wrong verdict"
            if case.get("run"):
                sig += " when the same prepared FunctionTest is run again"
            ctx.fail(Failure(signature=sig, what=((f"the assertion derived from the Function's real behaviour ({base}) does not pass"
                                                   if truth else f"a single deviation ({base}) of the truthful assertion still passes")
                                                  + (f" (run {case['run']} of the same prepared FunctionTest object)" if case.get("run") else "")),
                             case=case, observed={"test_pass": bool(passed), "behaviour": vcase["obs"] if vcase else None},
                             expected={"test_pass": truth}))
        if vcase is not None:
            try:
                term = to_coq(vcase, passed)
            except (TypeError, ValueError):
                ctx.count("e2e:no-gallina-term")
                continue
            cases.append({"kind": "e2e-verdict", "e2e": case, "verdict": vcase})
            terms.append(term)

    if ctx.model_ok:
        ctx.correspond("function_test.run verdicts vs FnTestMatch", "Corr_C19", cases, terms)


def replay(ctx: Ctx, data):
    case = data["case"] if "case" in data else data
    truth = data.get("expected", {}).get("truth") if isinstance(data.get("expected"), dict) else data.get("truth")
    if case.get("kind") == "e2e":
        loop = asyncio.new_event_loop()
        try:
            fn = case["function"]
            reset_koreo()
            loop.run_until_complete(prepare_fut(fn))
            res, rec, ft, later = loop.run_until_complete(
                run_tests(fn, [dict(case["testCase"], variant=True)], repeat=bool(case.get("run"))))
            if case.get("run"):
                res = later[case["run"] - 2]
            passed = res.test_results[0].test_pass
            want = data.get("expected", {}).get("test_pass")
            ctx.note_case(case, True)
            if want is not None and passed != want:
                ctx.fail(Failure(signature=data.get("signature", "e2e: replay"), what=data.get("what", ""), case=case,
                                 observed={"test_pass": passed}, expected={"test_pass": want}))
        finally:
            reset_koreo()
            loop.close()
        return
    obs = unit_observe(case)
    bad = unit_oracle(case, truth, obs)
    ctx.note_case(case, True)
    if bad:
        ctx.fail(Failure(signature=bad[0], what=bad[1], case=case, observed=obs))
    if ctx.model_ok:
        ctx.correspond("replay", "Corr_C19", [case], [term_of(case, obs)])
