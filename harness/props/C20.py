"""C20 — preparing any definition never crashes; schema violations are rejected before anything is
compiled or looked up.

Real code: koreo.schema.validate, the five prepare_* functions, koreo.cache.prepare_and_cache.
Model: coq/model/Schema.v (validator for the JSON-Schema subset of the CRDs + the schema gate) with the
schema TERMS regenerated from src/koreo/schema/*.yaml on every run (harness/schema_gen.py -> coq/gen/Schemas_gen.v).
"""
from __future__ import annotations

import ast
import asyncio
import copy
import random
import gc
import json
import re
import traceback

import schema_gen
from common import (Ctx, Failure, REPO, SRC, cbool, cjson, clist, cnat, copt, corpus_cases, cstr, shrink_list)

COQ_TARGETS = ["props/P_C20.vo", "corr/Corr_C20.vo", "corr/Corr_C14.vo"]   # Corr_C14: extractor model on the literal space
PROOF_FILES = ["proofs/Schema_proofs.v"]
RULE = ("specs for the five kinds: generated from the CRD schema itself (every optional part present/absent, "
        "oneOf/anyOf alternatives, free-form maps with literals and random CEL), the definitions under "
        "/repo/examples, /repo/docs and dict literals of /repo/tests, and mutations of those: a value of every "
        "other JSON type at a random path, a key removed, unknown keys added, lists/strings/maps over their "
        "bounds, empty spec, non-dict specs; Workflows whose steps run cached Logic and hold 1-3 step references "
        "per expression field (nameless index keys mixed with later/unknown/own labels); ordered pairs in one "
        "process (a valid spec, then each twin that differs only bool<->int<->float by an ==-equal value at a "
        "schema-typed path); a type confusion (unhashable list/object, null, bool, number, str) at EVERY schema "
        "position of every kind; sequences of 3-6 definitions offered to the real cache in one process, later ones "
        "referencing earlier ones that read their inputs through odd-but-valid CEL (both orders, with re-offer; "
        "re-prepares by the cache observed); literals from the whole lexical space of cel.lark (90 spellings) in 31 "
        "positions (index/member chains, call/method/macro arguments, map/list/message literals, receivers, "
        "operands) in every expression field of every kind and as a full spelling x position matrix; CEL text in expression-bearing fields comes from a grammar-based "
        "generator (all member/index/call/macro/literal/unary/conditional shapes) plus unparseable text. "
        "Each spec is validated (real vs model), prepared directly and through prepare_and_cache with a cache "
        "holding prepared Functions. Non-trivial = spec is a non-empty dict; distinct by (kind, spec)")
ASSUMPTIONS = [
    "fastjsonschema 2.21.1 semantics for the keyword subset the CRDs use (type, enum of strings, anyOf/oneOf over "
    "{required}, min/maxLength, min/maxItems, items, min/maxProperties, required, properties, default, "
    "additionalProperties: bool); `nullable`, `description`, `x-kubernetes-*` are ignored by it — modelled in "
    "Schema.validate and exercised by the correspondence (first failing rule and default-filled document compared)",
    "the translator harness/schema_gen.py is fail-closed: a keyword or keyword shape outside that subset aborts the check",
    "prepare_* are modelled only up to their first statement (the schema gate); that the listed shape facts are ALL the "
    "bodies rely on, and that third-party calls in them cannot raise, is tested (oracle), not proved",
    "specs are JSON values (string keys, finite numbers); the definition under test does not reference itself",
]
TRUSTED = ["harness/schema_gen.py (YAML CRD -> Gallina schema term translator, fail-closed, ~200 lines)",
           "an independent fastjsonschema.compile of the same YAML is the oracle's judge of 'violates the schema'"]

KINDS = schema_gen.KINDS
UNDER_TEST = "under-test"


def pre_build():
    """called by check.py before the Coq build: regenerate coq/gen/Schemas_gen.v from the YAML CRDs."""
    schema_gen.generate()


# ==================================================================================================
# real code access
# ==================================================================================================

def _real():
    from koreo.value_function.prepare import prepare_value_function
    from koreo.resource_function.prepare import prepare_resource_function
    from koreo.resource_template.prepare import prepare_resource_template
    from koreo.workflow.prepare import prepare_workflow
    from koreo.function_test.prepare import prepare_function_test
    from koreo.value_function.structure import ValueFunction
    from koreo.resource_function.structure import ResourceFunction
    from koreo.resource_template.structure import ResourceTemplate
    from koreo.workflow.structure import Workflow
    from koreo.function_test.structure import FunctionTest
    return {
        "ValueFunction": (ValueFunction, prepare_value_function),
        "ResourceFunction": (ResourceFunction, prepare_resource_function),
        "ResourceTemplate": (ResourceTemplate, prepare_resource_template),
        "Workflow": (Workflow, prepare_workflow),
        "FunctionTest": (FunctionTest, prepare_function_test),
    }


class Counters:
    """Counts celpy.Environment.compile calls and cache look-ups while installed."""

    def __init__(self):
        self.compiles = 0
        self.lookups = 0
        self._undo = []

    def install(self):
        import celpy
        import koreo.cache
        import koreo.function_test.prepare as ftp
        import koreo.resource_function.prepare as rfp
        import koreo.resource_template.prepare as rtp
        import koreo.value_function.prepare as vfp
        import koreo.workflow.prepare as wfp
        me = self
        orig_compile = celpy.Environment.compile

        def compile_(self_, *a, **kw):
            me.compiles += 1
            return orig_compile(self_, *a, **kw)

        celpy.Environment.compile = compile_
        self._undo.append((celpy.Environment, "compile", orig_compile))
        wrapped = {}
        for mod in (koreo.cache, ftp, rfp, rtp, vfp, wfp):
            for attr in ("get_resource_from_cache", "get_resource_system_data_from_cache"):
                orig = getattr(mod, attr, None)
                if orig is None:
                    continue
                if orig not in wrapped:
                    def mk(o):
                        def lookup(*a, **kw):
                            me.lookups += 1
                            return o(*a, **kw)
                        return lookup
                    wrapped[orig] = mk(orig)
                setattr(mod, attr, wrapped[orig])
                self._undo.append((mod, attr, orig))
        return self

    def reset(self):
        self.compiles = 0
        self.lookups = 0

    def uninstall(self):
        for obj, attr, orig in reversed(self._undo):
            setattr(obj, attr, orig)
        self._undo = []


class World:
    """One event loop + a koreo cache holding a few prepared Functions that specs may reference."""

    FIXTURES = [
        ("ValueFunction", "vf-ok", {"return": {"a": "=inputs.a", "b": 1}}),
        ("ValueFunction", "vf-static", {"return": {"x": 1}}),
        ("ValueFunction", "vf-pre", {"preconditions": [{"assert": "=inputs.go", "skip": {"message": "no"}}],
                                     "locals": {"l": "=inputs.a"}, "return": {"v": "=locals.l"}}),
        ("ValueFunction", "vf-bad", {}),          # cached PermFail
        ("ResourceTemplate", "tmpl-ok", {"template": {"apiVersion": "v1", "kind": "ConfigMap", "data": {"k": "v"}}}),
        ("ResourceFunction", "rf-ok", {"apiConfig": {"apiVersion": "v1", "kind": "ConfigMap", "name": "=inputs.name",
                                                     "namespace": "ns"},
                                       "resource": {"data": {"a": "=inputs.a"}}, "return": {"n": "=resource.metadata.name"}}),
        ("ResourceFunction", "rf-tmpl", {"apiConfig": {"apiVersion": "v1", "kind": "ConfigMap", "name": "n", "namespace": "ns"},
                                         "locals": {"l": "=inputs.a"},
                                         "resourceTemplateRef": {"name": "=inputs.tname"}}),
        ("ResourceFunction", "rf-tmpl-static", {"apiConfig": {"apiVersion": "v1", "kind": "ConfigMap", "name": "n",
                                                              "namespace": "ns"},
                                                "resourceTemplateRef": {"name": "tmpl-ok"}}),
        ("ResourceFunction", "rf-tmpl-macro", {"apiConfig": {"apiVersion": "v1", "kind": "ConfigMap", "name": "n",
                                                             "namespace": "ns"},
                                               "locals": {"l": "=inputs.a.map(v, v.z)"},
                                               "resourceTemplateRef": {"name": "=inputs.tname"}}),
        ("Workflow", "wf-ok", {"steps": [{"label": "one", "ref": {"kind": "ValueFunction", "name": "vf-static"}}]}),
        # definitions whose VALID CEL reads inputs / parent in ways that do not give a plain name
        ("ValueFunction", "vf-odd", {"locals": {"k": '=inputs[".hidden"] + inputs["[0]"]'},
                                     "return": {"a": "=inputs[''] + inputs['a.b'] + inputs[\"it's\"]",
                                                "b": "=inputs[inputs.key].x + inputs[1.5] + inputs.plain.deep.chain[0]",
                                                "c": "=inputs"}}),
        ("ResourceFunction", "rf-odd", {"apiConfig": {"apiVersion": "v1", "kind": "ConfigMap", "name": '=inputs[".n"]',
                                                      "namespace": "=inputs['[ns']"},
                                        "locals": {"l": "=inputs[''] + inputs.a"},
                                        "resourceTemplateRef": {"name": '=inputs[".t"] + inputs.tname'}}),
        ("Workflow", "wf-odd", {"steps": [{"label": "one", "ref": {"kind": "ValueFunction", "name": "vf-odd"},
                                           "inputs": {"key": "=parent['.x']", "plain": "=parent[''] + parent['[0]'].y",
                                                      "z": "=parent[parent.k] + parent.spec.deep"}}]}),
    ]
    NAMES = {
        "ValueFunction": ["vf-ok", "vf-static", "vf-pre", "vf-bad", "vf-missing", "vf-odd", "vf-odd"],
        "ResourceFunction": ["rf-ok", "rf-tmpl", "rf-tmpl-static", "rf-tmpl-macro", "rf-missing", "rf-odd"],
        "Workflow": ["wf-ok", "wf-missing", "wf-odd"],
        "ResourceTemplate": ["tmpl-ok", "tmpl-missing"],
    }

    def __init__(self):
        self.loop = asyncio.new_event_loop()
        self.real = _real()
        self.populated = False
        self.uses = 0

    def run(self, coro):
        return self.loop.run_until_complete(coro)

    def populate(self):
        from koreo import cache
        import drivers
        drivers.reset_all()
        self.run(asyncio.sleep(0))
        for kind, name, spec in self.FIXTURES:
            cls, prep = self.real[kind]
            self.run(cache.prepare_and_cache(cls, prep, {"name": name, "resourceVersion": "1"}, copy.deepcopy(spec)))
        self.populated = True
        self.uses = 0

    def fresh(self):
        """state before a case: fixtures cached, the definition under test not cached."""
        if not self.populated or self.uses >= 150:
            self.populate()
        self.uses += 1

    def forget_under_test(self, kind):
        from koreo import cache
        cls, _ = self.real[kind]
        try:
            self.run(cache.delete_from_cache(cls, UNDER_TEST))
            self.run(asyncio.sleep(0))
        except Exception:
            self.populated = False

    def close(self):
        import drivers
        try:
            drivers.reset_all()
            self.run(asyncio.sleep(0))
            for t in asyncio.all_tasks(self.loop):
                t.cancel()
            self.run(asyncio.sleep(0))
        except Exception:
            pass
        self.loop.close()


_JUDGES = None


def judges():
    """Independent judge of 'violates the bundled CRD schema': fastjsonschema compiled by the harness
    from the same YAML (not through koreo.schema)."""
    global _JUDGES
    if _JUDGES is None:
        import fastjsonschema
        _JUDGES = {k: fastjsonschema.compile(v) for k, v in schema_gen.load_spec_schemas().items()}
    return _JUDGES


def judge_invalid(kind, spec) -> bool:
    import fastjsonschema
    try:
        judges()[kind](copy.deepcopy(spec))
        return False
    except fastjsonschema.JsonSchemaValueException:
        return True


# ==================================================================================================
# observation
# ==================================================================================================

def observe_validate(world: World, kind, spec):
    """koreo.schema.validate on a copy: (accepted, rule, filled-or-None)."""
    import fastjsonschema
    from koreo import schema as kschema
    from koreo.result import PermFail
    cls, _ = world.real[kind]
    doc = copy.deepcopy(spec)
    out = kschema.validate(resource_type=cls, spec=doc, validation_required=True)
    accepted = out is None
    if not accepted and not isinstance(out, PermFail):
        raise AssertionError(f"schema.validate returned {out!r}")
    rule = ""
    if not accepted:
        v = getattr(kschema, "_get_validator", None)
        validator = v(resource_type=cls) if v else None
        if validator is not None:
            try:
                validator(copy.deepcopy(spec))
            except fastjsonschema.JsonSchemaValueException as e:
                rule = e.rule or ""
    return accepted, rule, (doc if accepted else None)


def site_of(exc: BaseException) -> str:
    """'<innermost koreo function> <- <innermost frame>' of a traceback: names the defect, not the input."""
    tb = traceback.extract_tb(exc.__traceback__)
    koreo_fn, inner = "?", "?"
    for fr in tb:
        fn = fr.filename.replace("\\", "/")
        if "/koreo/" in fn and "/harness/" not in fn:
            koreo_fn = fr.name
    if tb:
        fr = tb[-1]
        fn = fr.filename.replace("\\", "/")
        mod = fn.rsplit("/", 1)[-1].removesuffix(".py")
        pkg = "koreo" if "/koreo/" in fn else fn.split("site-packages/")[-1].split("/")[0] if "site-packages/" in fn else "py"
        inner = f"{pkg}.{mod}.{fr.name}"
    return f"{koreo_fn} <- {inner}"


def classify(out, cls, cached: bool):
    """-> (class name, message or None, problem or None)"""
    from koreo import result
    if isinstance(out, result.PermFail):
        return "PermFail", out.message, None
    if isinstance(out, result.Retry):
        return "Retry", out.message, None
    if cached:
        if isinstance(out, cls):
            return "prepared", None, None
        return type(out).__name__, None, f"prepare_and_cache returned a {type(out).__name__}"
    if isinstance(out, tuple) and len(out) == 2 and isinstance(out[0], cls):
        return "prepared", None, None
    return type(out).__name__, None, f"prepare returned a {type(out).__name__}: neither (prepared, watched) nor PermFail/Retry"


def observe_prepare(world: World, counters: Counters, kind, spec, cached: bool):
    """Run the real preparer; -> dict(cls, message, compiles, lookups, raised, site, problem)."""
    from koreo import cache
    cls, prep = world.real[kind]
    counters.reset()
    obs = {"cls": None, "message": None, "raised": None, "site": None, "problem": None}
    try:
        if cached:
            out = world.run(cache.prepare_and_cache(cls, prep, {"name": UNDER_TEST, "resourceVersion": "7"},
                                                    copy.deepcopy(spec)))
        else:
            out = world.run(prep(UNDER_TEST, copy.deepcopy(spec)))
        obs["cls"], obs["message"], obs["problem"] = classify(out, cls, cached)
    except Exception as e:  # noqa: BLE001 - the property says: never
        obs["raised"] = type(e).__name__
        obs["site"] = site_of(e)
        obs["cls"] = "raised"
        obs["message"] = str(e)[:200]
    obs["compiles"], obs["lookups"] = counters.compiles, counters.lookups
    if cached:
        world.forget_under_test(kind)
    return obs


def cleanup_kr8s(world):
    """drop every kr8s class created for odd apiConfigs (they would break later get_class calls)."""
    import drivers
    world.populated = False
    drivers.reset_all()
    gc.collect()
    for c in kr8s_poisoned():
        # still referenced from somewhere: neutralise it so that later cases are independent of this one
        c.version = "v0-cleared-by-harness"


def run_mode(world, counters, kind, spec, cached):
    """fresh state -> one real prepare -> state cleaned up again."""
    world.fresh()
    obs = observe_prepare(world, counters, kind, spec, cached)
    if obs["raised"]:
        world.populated = False
    if needs_gc(spec):
        cleanup_kr8s(world)
    return obs


def needs_gc(spec) -> bool:
    """specs whose apiConfig can leave a kr8s class behind that breaks later get_class calls."""
    try:
        ac = spec.get("apiConfig") if isinstance(spec, dict) else None
        if not isinstance(ac, dict):
            return False
        v, k = ac.get("apiVersion"), ac.get("kind")
        return (isinstance(v, str) and v.count("/") > 1) or (isinstance(k, str) and ("." in k or "/" in k))
    except Exception:
        return False


def kr8s_poisoned() -> list:
    """kr8s APIObject subclasses whose `version` makes kr8s.objects.get_class raise for every caller."""
    from kr8s._objects import APIObject

    def walk(c):
        yield c
        for s in c.__subclasses__():
            yield from walk(s)
    return [c for c in walk(APIObject)
            if isinstance(getattr(c, "version", None), str) and c.version.count("/") > 1]


# ==================================================================================================
# oracle: the property text on one (kind, spec)
# ==================================================================================================

def oracle(kind, spec, obs, cached: bool, invalid: bool):
    """-> list of (signature, what)."""
    out = []
    mode = "prepare_and_cache" if cached else "prepare"
    if obs["raised"]:
        out.append((f"raises {obs['raised']} at {obs['site']}",
                    f"{mode} of a {kind} raised {obs['raised']}: {obs['message']}"))
        return out
    if obs["problem"]:
        out.append((f"{kind}: returns neither prepared resource nor PermFail/Retry", obs["problem"]))
        return out
    if obs["cls"] in ("PermFail", "Retry"):
        m = obs["message"]
        if not (isinstance(m, str) and m.strip()):
            out.append((f"{kind}: {obs['cls']} without a message", f"{mode} returned {obs['cls']} with message {m!r}"))
    if invalid:
        if obs["cls"] != "PermFail":
            out.append((f"{kind}: schema-violating spec is not rejected with PermFail",
                        f"{mode} returned {obs['cls']} for a spec the bundled CRD schema rejects"))
        if obs["compiles"] or obs["lookups"]:
            out.append((f"{kind}: schema-violating spec reaches compile/lookup",
                        f"{mode} made {obs['compiles']} celpy compile(s) and {obs['lookups']} cache look-up(s) "
                        f"for a spec the bundled CRD schema rejects"))
    return out


# ==================================================================================================
# CEL text generator
# ==================================================================================================

ROOTS = ["inputs", "locals", "steps", "parent", "value", "resource", "item", "template", "x"]
FIELDS = ["a", "b", "name", "metadata", "spec", "items", "one", "config", "self_ref", "z9", "in_", "true_"]
FUNCS = ["size", "int", "string", "double", "bool", "type", "dyn", "has", "to_ref", "overlay", "flatten", "lower",
         "config_connect_ready", "f"]
METHODS = ["size", "startsWith", "endsWith", "contains", "matches", "self_ref", "to_ref", "lower", "strip", "split",
           "with_name", "m"]
MACROS = ["map", "filter", "all", "exists", "exists_one"]
BINOPS = ["+", "-", "*", "/", "%", "==", "!=", "<", "<=", ">", ">=", "&&", "||", "in"]
# LITS: see LEX below
GARBAGE = ["1 false", "x true", "Infinity true", "inputs.a false", "a +", "(", ")", "a b", "a..b", "[1,", "{a:",
           "'unterminated", "a ? b", "1 2", "", "=", "==", "@", "#", "a[", "a.", ".", "f(,)", "1 +* 2", "a ? : b",
           "{1 2}", "[,]", "T{a}", "a.b(", "\"x", "1.", "x y z", "!!", "-", "a in", "?", "\\", "$x", "a:b",
           "true false", "null true", "(true) false", "[true false]", "{true: false true}", "9223372036854775808",
           "99999999999999999999999", "1e999", "a\nb c", "\x00"]


# ---- the lexical space of CEL literals (cel.lark: INT_LIT, UINT_LIT, FLOAT_LIT, STRING_LIT, MLSTRING_LIT,
# ---- BYTES_LIT, BOOL_LIT, NULL_LIT) --------------------------------------------------------------------

LEX = {
    "int": ["0", "1", "7", "42", "00", "01", "007", "0123456789", "-1", "-0", "-007", "2147483648",
            "9223372036854775807", "-9223372036854775808", "9223372036854775808", "99999999999999999999999"],
    "hex": ["0x0", "0x1F", "0xff", "0x00a", "0xDEADbeef", "-0x10", "0x7fffffffffffffff", "0xffffffffffffffffff"],
    "uint": ["0u", "1u", "7U", "007u", "0x1u", "0xFFU", "18446744073709551615u", "-1u"],
    "float": ["1.0", "1.", "0.5", ".5", "00.50", "1e3", "1E3", "1e+3", "1e-3", "1.5e10", "1.e2", "-2.5", "-.5",
              "-1e3", "1e999", "0.0", "-0.0"],
    "str": ["'s'", '"d"', "''", '""', "'a.b'", "'[0]'", "'.x'", "' '", "'é'", "'\U0001F600'", "'q\"uote'",
            "\"it's\"", "'esc\\n\\t\\''", '"q\\"uote"', "'\\x41'", "'\\u00e9'", "'\\101'", "'\\U0001F600'",
            "'back\\\\slash'", "r'raw\\n'", 'R"raw\\"', "'" * 3 + "tri'ple" + "'" * 3, '"' * 3 + 'tri"ple' + '"' * 3,
            "r" + "'" * 3 + "raw tri" + "'" * 3, "'" * 3 + "multi\nline" + "'" * 3, '"' * 3 + 'a\n"b\n' + '"' * 3,
            "'=x'", "'steps'", "'0'", "'01'"],
    "bytes": ["b'by'", 'B"by"', "b''", "b" + "'" * 3 + "x" + "'" * 3, "b" + '"' * 3 + "y" + '"' * 3, "br'raw\\n'",
              "b'\\xff\\x00'", "b'\\101'"],
    "const": ["true", "false", "null"],
}
LEX_ALL = [x for k in LEX.values() for x in k]
LITS = LEX_ALL          # every place that used the short list now draws from the whole space


def lit(rng, kinds=None) -> str:
    kind = rng.choice(kinds or ["int", "int", "hex", "uint", "float", "str", "str", "bytes", "const"])
    return rng.choice(LEX[kind])


def lit_positions(path, a, b, c):
    """the positions a literal can take: member / index chains, call / method / macro arguments, map and list
    and message literals, literal receivers, operands."""
    return [
        f"{path}[{a}]", f"{path}[{a}][{b}]", f"{path}[{a}].name[{b}].x[{c}]", f"{path}.parts[{a}]",
        f"{path}[{a}].f({b})", f"size({a}, {b})", f"f({a})", f".g({a}, {b}, {c})", f"{path}.m({a})", f"{path}.m({a}, {b})",
        f"{path}.map(v, v[{a}])", f"{path}.filter(v, v[{a}] == {b})", f"{path}.exists(v, {a})",
        f"{path}.all(v, v.k[{a}][{b}] != {c})", f"{{{a}: {b}}}[{c}]", f"{{{a}: {b}, {c}: {a}}}", f"[{a}, {b}][{c}]",
        f"[{a}][{b}].z", f"T{{a: {a}, b: {b}}}.a[{c}]", f"{a}[{b}]", f"({a})[{b}].y", f"{a}.size()", f"{a} + {b}",
        f"{a} == {b} ? {c} : {a}", f"{path}[{a}] in [{b}, {c}]", f"-{a}", f"!{a}", f"{path}[-{a}]",
        f"has({path}.x) ? {path}[{a}] : {b}", f"steps[{a}].value + steps.abc[{b}]", f"parent[{a}][{b}]",
    ]


def lit_expr(rng) -> str:
    path = ".".join([rng.choice(ROOTS)] + [rng.choice(FIELDS) for _ in range(rng.randint(0, 2))])
    return rng.choice(lit_positions(path, lit(rng), lit(rng), lit(rng)))


def cel(rng, d=0) -> str:
    """A parseable CEL expression of a random syntactic shape."""
    deep = d >= 3
    r = rng.random()
    if deep or r < 0.22:
        k = rng.random()
        if k < 0.45:
            return ".".join([rng.choice(ROOTS)] + [rng.choice(FIELDS) for _ in range(rng.randint(0, 3))])
        if k < 0.55:
            return "." + ".".join([rng.choice(ROOTS)] + [rng.choice(FIELDS) for _ in range(rng.randint(0, 2))])
        return rng.choice(LITS)
    sub = lambda: cel(rng, d + 1)  # noqa: E731
    shape = rng.choice(["dot", "dot", "index", "index", "call", "method", "macro", "list", "map", "msg", "paren",
                        "unary", "binop", "binop", "cond", "has", "dotchain", "rootindex", "refs", "litpos", "litpos"])
    if shape == "litpos":
        return lit_expr(rng)
    if shape == "refs":
        return multi_ref(rng, force_mix=rng.random() < 0.5)
    if shape == "rootindex":
        # an index directly on a root name, with a literal of every kind (what the dependency patterns see)
        key = rng.choice(LITS + ["''", "'.a'", "'['", "'a.b'", "'a[0]'", "' '", "'steps'", "-1", "1.5", "0.0", "b''"])
        tail = rng.choice(["", "", f".{rng.choice(FIELDS)}", f"[{rng.choice(LITS)}]"])
        return f"{rng.choice(ROOTS)}[{key}]{tail}"
    if shape == "dot":
        return f"{sub()}.{rng.choice(FIELDS)}"
    if shape == "dotchain":
        return f"{sub()}.{rng.choice(FIELDS)}.{rng.choice(FIELDS)}[{sub()}].{rng.choice(FIELDS)}"
    if shape == "index":
        return f"{sub()}[{sub()}]"
    if shape == "call":
        n = rng.randint(0, 3)
        lead = rng.choice(["", "", "", "."])
        return f"{lead}{rng.choice(FUNCS)}({', '.join(sub() for _ in range(n))})"
    if shape == "method":
        n = rng.randint(0, 2)
        return f"{sub()}.{rng.choice(METHODS)}({', '.join(sub() for _ in range(n))})"
    if shape == "macro":
        return f"{sub()}.{rng.choice(MACROS)}(v, {sub()})"
    if shape == "list":
        n = rng.randint(0, 3)
        return "[" + ", ".join(sub() for _ in range(n)) + rng.choice(["", "", ","] if n else [""]) + "]"
    if shape == "map":
        n = rng.randint(0, 3)
        return "{" + ", ".join(f"{sub()}: {sub()}" for _ in range(n)) + "}"
    if shape == "msg":
        n = rng.randint(0, 2)
        name = rng.choice(["T", "a.B", ".pkg.Msg"])
        return name + "{" + ", ".join(f"{rng.choice(FIELDS)}: {sub()}" for _ in range(n)) + "}"
    if shape == "paren":
        return f"({sub()})"
    if shape == "unary":
        return rng.choice(["-", "!", "--", "!!", "-!-"][:4]) + sub()
    if shape == "binop":
        return f"{sub()} {rng.choice(BINOPS)} {sub()}"
    if shape == "cond":
        return f"{sub()} ? {sub()} : {sub()}"
    return f"has({rng.choice(ROOTS)}.{rng.choice(FIELDS)}.{rng.choice(FIELDS)})"


# ---- expressions that hold SEVERAL references to steps / parent (what the dependency analysis of a
# ---- Workflow step turns into names: plain, indexed, and indexed with a key that has no plain name)

NAMELESS_KEYS = ["'.a'", "'[x'", "'['", "''", "1.5", ".5", "'.'", "'..b'", "'[0]'", "0.25", "'.a.b'", '".q"']
REF_LABELS = ["s1_cfg", "s2_step", "s3_a_b", "s4_Z9", "s1_step", "s2_cfg", "later_step", "other_step", "nope", "abc", "one"]


def step_ref(rng, labels=None, nameless=None) -> str:
    """one reference to a step (or to parent): nameless index / plain name / indexed name, with a tail."""
    labels = labels or REF_LABELS
    k = rng.random() if nameless is None else (0.0 if nameless else 0.5)
    root = "steps" if rng.random() < 0.85 else "parent"
    tail = rng.choice(["", "", ".value", ".a.b", "[0]", "['k']", ".items[0].name"])
    if k < 0.3:
        return f"{root}[{rng.choice(NAMELESS_KEYS)}]{tail}"
    lab = rng.choice(labels)
    if k < 0.75:
        return f"{root}.{lab}{tail}"
    q = rng.choice(["'", '"'])
    return f"{root}[{q}{lab}{q}]{tail}"


def multi_ref(rng, labels=None, n=None, force_mix=False) -> str:
    """an expression with 2-3 (n) references combined by an operator / literal / call / conditional."""
    n = n or rng.choice([1, 2, 2, 3, 3])
    parts = [step_ref(rng, labels) for _ in range(n)]
    if force_mix and n >= 2:
        parts[0] = step_ref(rng, labels, nameless=True)
        parts[1] = step_ref(rng, labels, nameless=False)
        rng.shuffle(parts)
    how = rng.choice(["plus", "or", "list", "map", "cond", "call", "eq", "index"])
    if n == 1:
        return parts[0]
    if how == "plus":
        return " + ".join(parts)
    if how == "or":
        return " || ".join(f"has({p})" if "[" not in p and p.count(".") >= 2 else f"{p} == 1" for p in parts)
    if how == "list":
        return "[" + ", ".join(parts) + "]"
    if how == "map":
        return "{" + ", ".join(f"'k{i}': {p}" for i, p in enumerate(parts)) + "}"
    if how == "cond":
        return f"{parts[0]} ? {parts[1]} : {parts[2] if n > 2 else parts[0]}"
    if how == "call":
        return " + ".join(f"size({p})" for p in parts)
    if how == "eq":
        return f"{parts[0]} == {parts[1]}" + (f" && {parts[2]}" if n > 2 else "")
    return f"{parts[0]}[{parts[1]}]" + (f".{rng.choice(FIELDS)}[{parts[2]}]" if n > 2 else "")


def workflow_refs_spec(rng) -> dict:
    """A Workflow whose steps run CACHED Logic (so every expression of the step is analysed) and whose
    expression-bearing fields (inputs / skipIf / forEach.itemIn / state / refSwitch.switchOn) each hold 1-3
    references to: steps through a key without a plain name, later / unknown / own / earlier labels."""
    k = rng.randint(1, 4)
    labels = [f"s{i + 1}_{rng.choice(['cfg', 'step', 'a_b', 'Z9'])}" for i in range(k)]
    pool = labels + ["later_step", "other_step", "nope"]
    cached = [("ValueFunction", "vf-ok"), ("ValueFunction", "vf-static"), ("ValueFunction", "vf-pre"),
              ("ResourceFunction", "rf-ok"), ("Workflow", "wf-ok")]
    steps = []
    for i, lab in enumerate(labels):
        mix = rng.random() < 0.6
        e = lambda: "=" + multi_ref(rng, pool, force_mix=mix)  # noqa: E731
        step = {"label": lab}
        if rng.random() < 0.75:
            kind, name = rng.choice(cached)
            step["ref"] = {"kind": kind, "name": name}
        else:
            cases = []
            for ci in range(rng.randint(1, 3)):
                kind, name = rng.choice(cached)
                cases.append({"case": f"c{ci}", "kind": kind, "name": name, **({"default": True} if ci == 0 and rng.random() < 0.5 else {})})
            step["refSwitch"] = {"switchOn": e(), "cases": cases}
        fields = rng.sample(["inputs", "skipIf", "forEach", "state"], rng.randint(1, 3))
        if "inputs" in fields:
            step["inputs"] = {f"i{j}": (e() if rng.random() < 0.8 else {"nested": [e(), 1]}) for j in range(rng.randint(1, 3))}
        if "skipIf" in fields:
            step["skipIf"] = e()
        if "forEach" in fields:
            step["forEach"] = {"itemIn": e(), "inputKey": "item"}
        if "state" in fields:
            step["state"] = {f"st{j}": e() for j in range(rng.randint(1, 2))}
        steps.append(step)
    return {"steps": steps}


def cel_text(rng, bad=0.0) -> str:
    """text after the leading '=': parseable, or (with probability `bad`) not."""
    if rng.random() < bad:
        g = rng.choice(GARBAGE)
        k = rng.random()
        if k < 0.5:
            return g
        if k < 0.75:
            return f"{cel(rng, 2)} {g}"
        return f"{g} {cel(rng, 2)}"
    return cel(rng)


# ==================================================================================================
# spec generators
# ==================================================================================================

EXPR_KEYS = {"assert", "skipIf", "itemIn", "switchOn"}
WORDS = ["alpha", "beta", "gamma", "cfg", "data", "enabled", "replicas", "x-y", "a.b", "with space", "k", "Name",
         "metadata", "spec", "labels"]
OTHER_TYPES = [None, True, False, 0, 7, -1, 2.5, 30.0, "", "str", "=inputs.x", "=1 false", [], [1], ["a", {}], {},
               {"a": 1}, {"name": "n"}, 2 ** 70, -2 ** 70, 1e300]
EXTRA_KEYS = ["x-extra", "condition", "ok", "assert", "inputs", "name", "kind", "default", "skipIf", "overlay",
              "never", "delay", "", "é"]


class Gen:
    def __init__(self, rng, bad_cel=0.0, p_opt=0.5, p_expr=0.5):
        self.rng = rng
        self.bad_cel = bad_cel
        self.p_opt = p_opt
        self.p_expr = p_expr
        self.label_no = 0
        self.labels = []

    # -- leaves ---------------------------------------------------------------------------------
    lit_mode = False

    def expr(self):
        if self.lit_mode:
            return "=" + lit_expr(self.rng)
        return "=" + cel_text(self.rng, self.bad_cel)

    def literal(self, d=0):
        r = self.rng
        k = r.random()
        if k < 0.3:
            return r.choice(["text", "", "12", "1.5", "-3", "true", "a\"b", "line\nbreak", "back\\slash", "ünï", "=",
                             " padded ", "1e5", "null", "\ud800", "nul\x00", "\U0001F600", "inf", "-0"])
        if k < 0.45:
            return r.choice([0, 1, -5, 30, 2 ** 31, 2 ** 63 - 1, -2 ** 63])
        if k < 0.52:
            return r.choice([0.5, -2.25, 30.0, 1e22, 1e-7])
        if k < 0.62:
            return r.choice([True, False, None])
        if d >= 2 or k < 0.7:
            return self.expr()
        if k < 0.85:
            return [self.literal(d + 1) for _ in range(r.randint(0, 3))]
        return self.free_map(d + 1)

    def free_map(self, d=0, maxprops=None, k8s=False):
        r = self.rng
        n = r.randint(0, 4 if d == 0 else 3)
        if maxprops is not None:
            n = min(n, maxprops)
        out = {}
        if k8s and r.random() < 0.85:
            out["apiVersion"] = r.choice(["v1", "apps/v1", "=inputs.apiVersion"])
            out["kind"] = r.choice(["ConfigMap", "Widget"])
            if r.random() < 0.6:
                out["metadata"] = {"name": r.choice(["n", "=inputs.name"]), "namespace": "ns"}
        while len(out) < n + (3 if k8s and out else 0) and len(out) < (maxprops if maxprops is not None else 99):
            key = r.choice(WORDS) if r.random() < 0.9 else r.choice(["x-koreo-compare-as-set", "", "a\"q", "ß"])
            if key in out:
                break
            out[key] = self.expr() if r.random() < self.p_expr else self.literal(d)
        return out

    def string_for(self, path, n):
        r = self.rng
        key = path[-1] if path else ""
        parent = path[-2] if len(path) > 1 else ""
        if parent == "items" and len(path) > 2:
            parent = path[-3]
        if n["enum"]:
            return r.choice(n["enum"])
        if key in EXPR_KEYS:
            k = r.random()
            if k < 0.9:
                return self.expr()
            return r.choice(["true", "", "inputs.x", "= "])
        if key == "label":
            if "testCases" in path:
                return r.choice(["a test", "Variant one", "", "x"])
            self.label_no += 1
            lab = f"s{self.label_no}_{r.choice(['cfg', 'step', 'a_b', 'Z9'])}"
            if self.labels and r.random() < 0.05:
                lab = r.choice(self.labels)           # duplicate label
            self.labels.append(lab)
            return lab
        if key == "name":
            if parent in ("ref", "cases", "overlayRef", "functionRef"):
                return None                            # filled by fix_refs (needs the sibling kind)
            if parent == "apiConfig":
                return r.choice(["=inputs.name", "fixed-name", "=" + cel_text(r, self.bad_cel)])
            if parent == "resourceTemplateRef":
                return r.choice(["tmpl-ok", "tmpl-missing", "=inputs.tname", "=" + cel_text(r, self.bad_cel)])
            return r.choice(["some name", "n"])
        if key == "kind":
            return r.choice(["ConfigMap", "Widget", "Deployment"])
        if key == "apiVersion":
            return r.choice(["v1", "apps/v1", "widgets.example.dev/v1alpha1"])
        if key == "plural":
            return r.choice(["widgets", "configmaps"])
        if key == "namespace":
            return r.choice(["ns", "=inputs.ns", "=" + cel_text(r, self.bad_cel)])
        if key == "inputKey":
            return r.choice(["item", "each"])
        if key == "case":
            return r.choice(["a", "b", "c", "default", "1"])
        if key == "type":
            return r.choice(["Ready", "StepOk"])
        lo = n["minlen"] or 0
        s = r.choice(["text", "msg with spaces", "v1", "x", "=inputs.m"])
        return s + "x" * max(0, lo - len(s))

    # -- schema-driven ------------------------------------------------------------------------------
    def node(self, n, path):
        r = self.rng
        t = n["type"]
        if t == "object":
            if n["props"] is None:
                if not n["addl"] or n["maxprops"] == 0:
                    return {}
                key = path[-1] if path else ""
                k8s = key in ("template", "currentResource", "expectResource", "resource")
                return self.free_map(0, maxprops=n["maxprops"], k8s=k8s)
            req = set(n["required"])
            chosen, forbidden = set(), set()
            for branches, exactly_one in ((n["oneof"], True), (n["anyof"], False)):
                if not branches:
                    continue
                if exactly_one:
                    b = r.choice(branches)
                    chosen |= set(b)
                    for o in branches:
                        if o is not b:
                            forbidden |= set(o) - set(b)
                else:
                    picks = [b for b in branches if r.random() < 0.6] or [r.choice(branches)]
                    for b in picks:
                        chosen |= set(b)
            out = {}
            declared = set()
            for k, sub in n["props"]:
                declared.add(k)
                take = k in req or k in chosen or (k not in forbidden and r.random() < self.p_opt)
                if take:
                    out[k] = self.node(sub, path + [k])
            for k in sorted((chosen | req) - declared):
                out[k] = {}
            if r.random() < 0.3:
                items = list(out.items())
                r.shuffle(items)
                out = dict(items)
            return out
        if t == "array":
            lo = n["minitems"] or 0
            hi = n["maxitems"] if n["maxitems"] is not None else 4
            k = r.randint(lo, max(lo, min(hi, 3)))
            if n["items"] is None:
                return [self.literal(1) for _ in range(k)]
            return [self.node(n["items"], path + ["items"]) for _ in range(k)]
        if t == "string":
            return self.string_for(path, n)
        if t in ("integer", "number"):
            return r.choice([0, 1, 5, 30, 60, 300, -1])
        if t == "boolean":
            return r.random() < 0.5
        if t == "null" or t is None:
            return None
        raise ValueError(t)

    def spec(self, kind, schemas):
        self.label_no = 0
        self.labels = []
        doc = self.node(schemas[kind], [])
        fix_refs(doc, self.rng)
        return doc


def fix_refs(doc, rng, only_ok=False):
    """give every {kind: <Function kind>, name: None} a name from the cache fixture list (or a missing one;
    only_ok: only names that are cached and healthy, so that the code after the look-up runs)."""
    if isinstance(doc, dict):
        if "name" in doc and (doc["name"] is None or (only_ok and isinstance(doc["name"], str)
                                                      and doc["name"].endswith(("-missing", "-bad")))):
            names = World.NAMES.get(doc.get("kind"), ["vf-ok", "rf-ok"])
            if only_ok:
                names = [n for n in names if not n.endswith(("-missing", "-bad"))]
            doc["name"] = rng.choice(names)
        for v in doc.values():
            fix_refs(v, rng, only_ok)
    elif isinstance(doc, list):
        for v in doc:
            fix_refs(v, rng, only_ok)


# -- mutations ---------------------------------------------------------------------------------------

def all_paths(doc, pre=()):
    yield pre
    if isinstance(doc, dict):
        for k, v in doc.items():
            yield from all_paths(v, pre + (k,))
    elif isinstance(doc, list):
        for i, v in enumerate(doc):
            yield from all_paths(v, pre + (i,))


def get_at(doc, path):
    for p in path:
        doc = doc[p]
    return doc


def set_at(doc, path, v):
    if not path:
        return v
    doc = copy.deepcopy(doc)
    cur = doc
    for p in path[:-1]:
        cur = cur[p]
    cur[path[-1]] = v
    return doc


def del_at(doc, path):
    doc = copy.deepcopy(doc)
    cur = doc
    for p in path[:-1]:
        cur = cur[p]
    del cur[path[-1]]
    return doc


def json_type(v):
    if v is None:
        return "null"
    if isinstance(v, bool):
        return "bool"
    if isinstance(v, int):
        return "int"
    if isinstance(v, float):
        return "float"
    if isinstance(v, str):
        return "str"
    if isinstance(v, list):
        return "list"
    return "dict"


def mutate(rng, spec, how):
    """-> (mutated spec, short description) ; spec is not modified."""
    paths = list(all_paths(spec))
    if how == "confuse":
        p = rng.choice(paths)
        old = get_at(spec, p)
        cands = [v for v in OTHER_TYPES if json_type(v) != json_type(old) or rng.random() < 0.15]
        return set_at(spec, p, copy.deepcopy(rng.choice(cands))), f"confuse@{len(p)}"
    if how == "drop":
        cands = [p for p in paths if p and isinstance(get_at(spec, p[:-1]), dict)]
        if not cands:
            return {}, "drop:none"
        return del_at(spec, rng.choice(cands)), "drop"
    if how == "extra":
        cands = [p for p in paths if isinstance(get_at(spec, p), dict)]
        if not cands:
            return spec, "extra:none"
        p = rng.choice(cands)
        d = dict(get_at(spec, p))
        for _ in range(rng.randint(1, 2)):
            k = rng.choice(EXTRA_KEYS)
            if k not in d:
                d[k] = copy.deepcopy(rng.choice(OTHER_TYPES + ["=inputs.extra", {"type": "T", "name": "n"}]))
        return set_at(spec, p, d), "extra"
    if how == "oversize":
        lists = [p for p in paths if isinstance(get_at(spec, p), list)]
        strs = [p for p in paths if isinstance(get_at(spec, p), str) and p and p[-1] in ("label", "type", "name")]
        maps = [p for p in paths if p and p[-1] == "state" and isinstance(get_at(spec, p), dict)]
        pool = [("l", p) for p in lists] + [("s", p) for p in strs] + [("m", p) for p in maps]
        if not pool:
            return spec, "oversize:none"
        k, p = rng.choice(pool)
        old = get_at(spec, p)
        if k == "l":
            n = rng.choice([9, 10, 11, 19, 20, 21, 40])
            elem = old[0] if old else {}
            new = [copy.deepcopy(elem) for _ in range(n)]
            for i, e in enumerate(new):            # keep step labels distinct
                if isinstance(e, dict) and isinstance(e.get("label"), str):
                    e["label"] = f"{e['label'][:30]}_{i}"
            return set_at(spec, p, new), f"oversize:list{n}"
        if k == "s":
            n = rng.choice([2, 3, 40, 41, 45, 46, 60, 61, 200])
            return set_at(spec, p, ("é" if rng.random() < 0.3 else "L") * n), f"oversize:str{n}"
        n = rng.choice([10, 11, 25])
        return set_at(spec, p, {f"k{i}": i for i in range(n)}), f"oversize:map{n}"
    raise ValueError(how)


def schema_sites(n, doc, path=()):
    """(path, schema node, value) for every value of the document the schema says something about."""
    yield path, n, doc
    if isinstance(doc, dict) and n["props"]:
        for k, sub in n["props"]:
            if k in doc:
                yield from schema_sites(sub, doc[k], path + (k,))
    if isinstance(doc, list) and n["items"] is not None:
        for i, x in enumerate(doc):
            yield from schema_sites(n["items"], x, path + (i,))


def targeted(rng, gen: "Gen", schema, spec):
    """Aim at ONE keyword of ONE schema node that applies to the document: break it, or sit on its boundary.
    -> (spec', description).  The result is not required to be invalid (the judge decides)."""
    sites = list(schema_sites(schema, spec))
    opts = []
    for path, n, v in sites:
        opts.append(("type", path, n, v))       # also where the schema (no longer) says a type
        if n["enum"] and isinstance(v, str):
            opts.append(("enum", path, n, v))
        if isinstance(v, str) and (n["minlen"] is not None or n["maxlen"] is not None):
            opts.append(("length", path, n, v))
        if isinstance(v, list) and (n["minitems"] is not None or n["maxitems"] is not None):
            opts.append(("items", path, n, v))
        if isinstance(v, dict):
            if n["minprops"] is not None or n["maxprops"] is not None:
                opts.append(("propcount", path, n, v))
            if n["required"] and any(k in v for k in n["required"]):
                opts.append(("required", path, n, v))
            if n["oneof"]:
                opts.append(("oneof", path, n, v))
            if n["anyof"]:
                opts.append(("anyof", path, n, v))
            if not n["addl"]:
                opts.append(("addl", path, n, v))
            if n["props"]:
                opts.append(("absent-with-default", path, n, v))
    if not opts:
        return spec, "targeted:none"
    kinds_present = sorted({o[0] for o in opts})
    pick = rng.choice(kinds_present)
    what, path, n, v = rng.choice([o for o in opts if o[0] == pick])
    if what == "type":
        wrong = [x for x in OTHER_TYPES if json_type(x) != json_type(v)]
        if n["type"] == "integer":
            wrong += [30.0, 2.5, True, "30", 1e300, -0.0]
        return set_at(spec, path, copy.deepcopy(rng.choice(wrong))), "targeted:type"
    if what == "enum":
        return set_at(spec, path, rng.choice(["NotInEnum", v.lower(), v + " ", "", v[:-1]])), "targeted:enum"
    if what == "length":
        lens = [x for x in (n["minlen"], (n["minlen"] or 1) - 1, n["maxlen"], (n["maxlen"] or 0) + 1) if x is not None and x >= 0]
        ln = rng.choice(lens)
        ch = rng.choice(["a", "a", "é", "\U0001F600", "_"])
        return set_at(spec, path, ch * ln), f"targeted:length{ln}"
    if what == "items":
        lens = [x for x in (n["minitems"], (n["minitems"] or 1) - 1, n["maxitems"], (n["maxitems"] or 0) + 1) if x is not None and x >= 0]
        ln = rng.choice(lens)
        elem = v[0] if v else (gen.node(n["items"], list(map(str, path)) + ["items"]) if n["items"] else 1)
        new = [copy.deepcopy(elem) for _ in range(ln)]
        for i, e in enumerate(new):
            if isinstance(e, dict) and isinstance(e.get("label"), str):
                e["label"] = f"{e['label'][:30]}_{i}"
            if isinstance(e, dict) and isinstance(e.get("case"), str):
                e["case"] = f"c{i}"
        return set_at(spec, path, new), f"targeted:items{ln}"
    if what == "propcount":
        lens = [x for x in (n["minprops"], n["maxprops"], (n["maxprops"] or 0) + 1) if x is not None]
        ln = rng.choice(lens)
        return set_at(spec, path, {f"k{i}": rng.choice([i, "v", "=inputs.a"]) for i in range(ln)}), f"targeted:props{ln}"
    if what == "required":
        k = rng.choice([k for k in n["required"] if k in v])
        return del_at(spec, path + (k,)), "targeted:required"
    if what in ("oneof", "anyof"):
        branches = n[what]
        keys = [k for b in branches for k in b]
        d = dict(v)
        mode = rng.choice(["none", "two", "all"])
        if mode == "none":
            for k in keys:
                d.pop(k, None)
        else:
            subs = dict(n["props"] or [])
            for k in (keys if mode == "all" else rng.sample(keys, min(2, len(keys)))):
                if k not in d:
                    d[k] = gen.node(subs[k], list(map(str, path)) + [k]) if k in subs else {}
            fix_refs(d, rng)
        return set_at(spec, path, d), f"targeted:{what}-{mode}"
    if what == "addl":
        d = dict(v)
        d[rng.choice(EXTRA_KEYS)] = rng.choice([1, {}, "x"])
        return set_at(spec, path, d), "targeted:additionalProperties"
    # a property that has a default: absent (default is filled in) / present
    withdef = [(k, sub) for k, sub in n["props"] if sub["has_default"]]
    if not withdef:
        return spec, "targeted:none"
    k, sub = rng.choice(withdef)
    d = dict(v)
    if k in d and rng.random() < 0.7:
        del d[k]
    else:
        d[k] = rng.choice([{}, sub["default"], None, 5])
    return set_at(spec, path, d), "targeted:default"


def schema_positions(n, pre=()):
    """every position the schema describes, list indices written as "[]" (all depths)."""
    yield pre
    for k, sub in (n["props"] or []):
        yield from schema_positions(sub, pre + (k,))
    if n["items"] is not None:
        yield from schema_positions(n["items"], pre + ("[]",))


def position_of(path):
    return tuple("[]" if isinstance(p, int) else p for p in path)


SWEEP_VALUES = [("list", ["x"]), ("list", []), ("dict", {"k": 1}), ("dict", {}), ("null", None), ("bool", True),
                ("bool", False), ("int", 7), ("int", 0), ("float", 2.5), ("float", 30.0), ("str", "s"), ("str", "")]


def position_sweep(rng, schemas, kind, per_position, full):
    """Type confusion at EVERY position of the kind's schema (whatever its depth), in specs that are otherwise
    valid and reference only cached, healthy definitions (so the code behind the confused value runs):
    an unhashable list and an unhashable object everywhere, plus null / bool / int / float / str."""
    wanted = [p for p in schema_positions(schemas[kind]) if p]
    have: dict[tuple, list] = {p: [] for p in wanted}
    for attempt in range(60):
        if all(len(v) >= per_position for v in have.values()):
            break
        g = Gen(rng, bad_cel=0.0, p_opt=rng.choice([0.8, 0.97]), p_expr=0.4)
        doc = g.spec(kind, schemas)
        fix_refs(doc, rng, only_ok=True)
        if judge_invalid(kind, doc):
            continue
        for path, n, v in schema_sites(schemas[kind], doc):
            pos = position_of(path)
            if pos in have and len(have[pos]) < per_position and not any(d is doc for d, _ in have[pos]):
                have[pos].append((doc, path))
    for pos in wanted:
        for doc, path in have[pos]:
            old = get_at(doc, path)
            vals = [(t, v) for t, v in SWEEP_VALUES if t != json_type(old)]
            if not full:
                unhashable = [x for x in vals if x[0] in ("list", "dict")]
                rest = [x for x in vals if x[0] not in ("list", "dict")]
                vals = ([rng.choice([x for x in unhashable if x[0] == "list"] or unhashable)] +
                        [rng.choice([x for x in unhashable if x[0] == "dict"] or unhashable)] +
                        rng.sample(rest, min(2, len(rest))))
            for _t, v in vals:
                yield {"kind": kind, "spec": set_at(doc, path, copy.deepcopy(v)), "stream": "sweep"}


def equal_twins(v):
    """JSON values of ANOTHER JSON type that Python's == (and hash) cannot tell from v: true/1/1.0, false/0/0.0,
    n/n.0.  (What a memo keyed by equality, an `in` on a list, a dict key ... conflates.)"""
    if isinstance(v, bool):
        return [int(v), float(v)]
    if isinstance(v, int):
        return ([float(v)] if abs(v) < 2 ** 53 else []) + ([bool(v)] if v in (0, 1) else [])
    if isinstance(v, float) and v.is_integer() and abs(v) < 2 ** 53:
        return [int(v)] + ([bool(v)] if v in (0.0, 1.0) else [])
    return []


def twin_pairs(rng, schemas, kind, n_bases):
    """Ordered pairs for ONE process without any reset in between: a schema-valid spec, then each of its
    single-value twins that differ only bool<->int<->float (==-equal values) at a path where the schema
    gives a type.  A twin that violates the schema must be rejected exactly as if it had come first."""
    produced = 0
    attempts = 0
    while produced < n_bases and attempts < 20 * n_bases:
        attempts += 1
        g = Gen(rng, bad_cel=0.0, p_opt=0.95, p_expr=0.3)
        base = g.spec(kind, schemas)
        sites = [(p, n, v) for p, n, v in schema_sites(schemas[kind], base)
                 if n["type"] in ("boolean", "integer", "number") and isinstance(v, (bool, int, float))]
        for p, n, v in sites:                      # integers that a bool can be confused with
            if n["type"] != "boolean" and rng.random() < 0.7:
                base = set_at(base, p, rng.choice([0, 1]))
        if judge_invalid(kind, base):
            continue
        sites = [(p, n, get_at(base, p)) for p, n, _ in sites]
        if not sites and kind != "ResourceTemplate":
            continue
        produced += 1
        yield {"kind": kind, "spec": base, "stream": "pair-base"}
        for p, n, v in sites:
            for t in equal_twins(v):
                yield {"kind": kind, "spec": set_at(base, p, t), "after": base, "stream": "pair-twin"}
        if kind == "ResourceTemplate" or rng.random() < 0.3:
            # no typed scalar in this schema / also inside free-form parts: both valid, must behave alike
            free = [p for p in all_paths(base) if p and isinstance(get_at(base, p), (bool, int, float))
                    and equal_twins(get_at(base, p))]
            for p in free[:3]:
                yield {"kind": kind, "spec": set_at(base, p, equal_twins(get_at(base, p))[0]), "after": base,
                       "stream": "pair-twin"}


NON_DICT = [None, [], [{"steps": []}], "", "spec", "=inputs", 0, 1, True, False, 2.5, 2 ** 70]


# -- specs from the repository ----------------------------------------------------------------------

def repo_examples():
    """-> (list of (kind, spec, source), list of loose dict literals from the tests)."""
    import yaml
    found, loose = [], []

    def take_yaml_docs(text, src):
        try:
            for d in yaml.safe_load_all(text):
                if isinstance(d, dict) and d.get("kind") in KINDS and "spec" in d:
                    found.append((d["kind"], d["spec"], src))
        except Exception:
            pass

    for f in sorted((REPO / "examples").glob("*.koreo")) + sorted((REPO / "examples").glob("*.yaml")):
        try:
            take_yaml_docs(f.read_text(), f"examples/{f.name}")
        except OSError:
            pass
    for f in sorted((REPO / "docs").glob("*.md")):
        try:
            txt = f.read_text()
        except OSError:
            continue
        for m in re.finditer(r"```ya?ml\n(.*?)```", txt, re.S):
            take_yaml_docs(m.group(1), f"docs/{f.name}")
    for f in sorted((REPO / "tests").rglob("test_*.py")):
        try:
            tree = ast.parse(f.read_text())
        except Exception:
            continue
        for node in ast.walk(tree):
            if isinstance(node, ast.Dict):
                try:
                    v = ast.literal_eval(node)
                    json.dumps(v)
                except Exception:
                    continue
                if isinstance(v, dict) and v and all(isinstance(k, str) for k in v):
                    loose.append(v)
    return found, loose


def jsonable_spec(v) -> bool:
    try:
        cjson(v)
        return _str_keys(v)
    except Exception:
        return False


def _str_keys(v):
    if isinstance(v, dict):
        return all(isinstance(k, str) and _str_keys(x) for k, x in v.items())
    if isinstance(v, list):
        return all(_str_keys(x) for x in v)
    return True


# -- the dedicated streams for defects found while building this check ---------------------------------

def nest_map(n, leaf):
    for _ in range(n):
        leaf = {"a": leaf}
    return leaf


def nest_list(n, leaf):
    for _ in range(n):
        leaf = [leaf]
    return leaf


def defect_probes():
    rf = lambda ac: {"apiConfig": ac, "resource": {"apiVersion": "v1", "kind": "ConfigMap"}}  # noqa: E731
    ft = lambda tc=None, **kw: dict({"functionRef": {"kind": "ValueFunction", "name": "vf-ok"}},  # noqa: E731
                                    **({"testCases": [tc]} if tc is not None else {}), **kw)
    step = lambda **kw: {"steps": [dict({"label": "abc", "ref": {"kind": "ValueFunction", "name": "vf-ok"}}, **kw)]}  # noqa: E731
    return [
        ("ValueFunction", {"return": {"a": "=1 false"}}),
        ("ValueFunction", {"preconditions": [{"assert": "=inputs.x true", "ok": {}}]}),
        ("ResourceFunction", dict(rf({"apiVersion": "v1", "kind": "ConfigMap", "name": "=Infinity true", "namespace": "n"}))),
        ("Workflow", step(skipIf="=steps.a true")),
        ("FunctionTest", ft({"overlayResource": {"a": "=x false"}, "expectDelete": True})),
        ("ResourceTemplate", {"template": {"apiVersion": "v1", "kind": "X", "big": 2 ** 70}}),
        ("ResourceTemplate", {"template": {"apiVersion": "v1", "kind": "X"}, "context": {"n": -2 ** 63 - 1}}),
        ("FunctionTest", ft(inputs={"a": 2 ** 63})),
        ("FunctionTest", ft({"inputOverrides": {"a": [2 ** 64]}, "expectReturn": {"a": 1}})),
        ("FunctionTest", ft({"expectOutcome": {"retry": {"message": "m", "delay": 2 ** 70}}})),
        ("FunctionTest", ft({"expectOutcome": {"retry": {"message": "m", "delay": 30.0}}})),
        ("FunctionTest", ft({"expectOutcome": {"retry": {"message": "m", "delay": 1e3}}})),
        ("Workflow", step(forEach={"itemIn": "=[1]", "inputKey": "k", "condition": "boom"})),
        ("Workflow", step(inputs={"a": "=steps[1.5]"})),
        ("Workflow", step(skipIf="=steps['.a'] || steps['[']", state={"s": "=steps[''] + parent['']"})),
        ("Workflow", step(forEach={"itemIn": "=[1]", "inputKey": "k", "condition": [1]})),
        ("ResourceFunction", rf({"apiVersion": "apps/v1", "kind": "Deployment.apps", "name": "n", "namespace": "n"})),
        ("ResourceFunction", rf({"apiVersion": "a/b/c", "kind": "Thing", "name": "n", "namespace": "n"})),
        ("ResourceFunction", rf({"apiVersion": "v1", "kind": "Ki\x00nd", "name": "n", "namespace": "n"})),
        ("ResourceFunction", rf({"apiVersion": "v1", "kind": "\ud800", "name": "n", "namespace": "n"})),
        ("ResourceFunction", rf({"apiVersion": "/", "kind": "a/b", "name": "n", "namespace": "n"})),
        ("ValueFunction", {"return": {"a": "\ud800", "\udfff": 1, "n\x00": "='\ud800'", "big": "x" * 100000}}),
        ("ValueFunction", {"return": nest_map(120, "=inputs.a"), "locals": {"l": nest_list(120, 1)}}),
        ("ValueFunction", {"return": {"a": "=" + "(" * 150 + "inputs.a" + ")" * 150, "b": "=inputs" + ".a" * 300}}),
        ("ResourceTemplate", {"template": {"apiVersion": "v1", "kind": "X", "deep": nest_map(120, [1.5, None])}}),
        ("FunctionTest", {"functionRef": {"kind": "ResourceFunction", "name": "rf-tmpl-macro"},
                          "inputs": {"a": [1], "tname": "t"}, "testCases": [{"expectDelete": True}]}),
    ]


# ==================================================================================================
# case stream
# ==================================================================================================

def retyped_override_cases(rng, n):
    """FunctionTests against the fixtures whose prepare merges `spec.inputs` with every case's `inputOverrides`
    (`_check_for_resource_template_ref`: a ResourceFunction with a computed resourceTemplateRef.name), where the
    overrides RETYPE keys of the base inputs: map over scalar / list / null, scalar over map, map over map to
    depth 3, the same key retyped differently by consecutive cases.  (Stream added for seeded C20-20.)"""
    shapes = [lambda d: "plain", lambda d: 7, lambda d: None, lambda d: [1, {"size": "l"}], lambda d: True,
              lambda d: {}, lambda d: {"size": "xl"}, lambda d: {"size": {"w": 1}},
              lambda d: ({"size": shapes[rng.randrange(len(shapes))](d + 1)} if d < 3 else "deep")]
    keys = ["a", "tname", "flavor", ".t", ".n", "name"]
    for i in range(n):
        fn = rng.choice(["rf-tmpl", "rf-tmpl", "rf-odd", "rf-tmpl-macro", "rf-tmpl-static", "rf-ok"])
        ks = rng.sample(keys, rng.randint(1, 4))
        base = {k: rng.choice(shapes)(0) for k in ks}
        if rng.random() < 0.7:
            base.setdefault("tname", "tmpl-ok")
        cases = []
        for j in range(rng.randint(1, 3)):
            ov = {k: rng.choice(shapes)(0) for k in rng.sample(ks, rng.randint(1, len(ks)))}
            tc = {"inputOverrides": ov, "expectOutcome": {"ok": {}}}
            if rng.random() < 0.3:
                tc["variant"] = True
            cases.append(tc)
        yield {"kind": "FunctionTest", "stream": "ft-retyped",
               "spec": {"functionRef": {"kind": "ResourceFunction", "name": fn}, "inputs": base, "testCases": cases}}


def gen_cases(ctx: Ctx, schemas):
    """yields dict(kind, spec, stream)."""
    rng = ctx.rng
    for c in corpus_cases("C20"):
        c = c.get("case", c)
        if "defs" in c:
            continue          # a sequence of definitions: run by check_sequence
        yield {"kind": c["kind"], "spec": c["spec"], "stream": "corpus",
               **({"after": c["after"]} if c.get("after") is not None else {})}
    for kind, spec in defect_probes():
        yield {"kind": kind, "spec": spec, "stream": "probe"}
    for kind in KINDS:
        yield {"kind": kind, "spec": {}, "stream": "empty"}
        for v in NON_DICT:
            yield {"kind": kind, "spec": copy.deepcopy(v), "stream": "non-dict"}

    found, loose = repo_examples()
    ctx.count("source:repo-definitions", len(found))
    ctx.count("source:test-literals", len(loose))
    bases = {k: [] for k in KINDS}
    for kind, spec, _src in found:
        if jsonable_spec(spec):
            bases[kind].append(spec)
            yield {"kind": kind, "spec": spec, "stream": "repo"}
    per_loose = 2 if ctx.quick() else 5
    for v in loose[: (120 if ctx.quick() else 100000)]:
        if not jsonable_spec(v):
            continue
        fits = [k for k in KINDS if not judge_invalid(k, v)]
        for k in fits:
            bases[k].append(v)
        ks = fits or ([rng.choice(KINDS) for _ in range(per_loose)] if ctx.quick() else KINDS)
        for k in dict.fromkeys(ks):
            yield {"kind": k, "spec": v, "stream": "tests"}

    scale = 1 if ctx.quick() else 12
    n_valid, n_cel, n_mut = 60 * scale, 60 * scale, 45 * scale
    # own PRNG (derived from the run's seed) so that adding this stream leaves the other streams of a seed unchanged
    yield from retyped_override_cases(random.Random(f"ft-retyped-{ctx.seed}"), 80 * scale)
    for i in range(150 * scale):
        yield {"kind": "Workflow", "spec": workflow_refs_spec(rng), "stream": "wf-refs"}
    for kind in KINDS:
        yield from twin_pairs(rng, schemas, kind, 6 * scale)
    for kind in KINDS:
        yield from position_sweep(rng, schemas, kind, per_position=1 if ctx.quick() else 3, full=not ctx.quick())
    for kind in KINDS:
        for i in range(n_valid):
            g = Gen(rng, bad_cel=0.0, p_opt=rng.choice([0.15, 0.5, 0.9]), p_expr=rng.choice([0.1, 0.5]))
            spec = g.spec(kind, schemas)
            if len(bases[kind]) < 400:
                bases[kind].append(spec)
            yield {"kind": kind, "spec": spec, "stream": "schema-valid"}
        if kind != "ResourceTemplate":
            for i in range(40 * scale):
                # literals of the whole lexical space in index / argument / operand positions, in every
                # expression-bearing field of the kind
                g = Gen(rng, bad_cel=0.0, p_opt=0.9, p_expr=0.95)
                g.lit_mode = True
                doc = g.spec(kind, schemas)
                fix_refs(doc, rng, only_ok=True)
                yield {"kind": kind, "spec": doc, "stream": "lit-fields"}
            for i in range(n_cel):
                g = Gen(rng, bad_cel=rng.choice([0.0, 0.0, 0.15, 0.5]), p_opt=rng.choice([0.5, 0.9]), p_expr=0.95)
                yield {"kind": kind, "spec": g.spec(kind, schemas), "stream": "cel"}
        tg = Gen(rng, p_opt=0.7, p_expr=0.3)
        for i in range(3 * n_mut):
            base = rng.choice(bases[kind])
            spec, what = targeted(rng, tg, schemas[kind], base)
            yield {"kind": kind, "spec": spec, "stream": what.split("-")[0].rstrip("0123456789")}
        for how in ("confuse", "drop", "extra", "oversize"):
            for i in range(n_mut):
                base = rng.choice(bases[kind])
                spec, what = mutate(rng, base, how)
                if rng.random() < 0.2 and how != "oversize":   # a second, independent mutation
                    spec, _ = mutate(rng, spec, rng.choice(["confuse", "drop", "extra"])) if isinstance(spec, (dict, list)) else (spec, "")
                yield {"kind": kind, "spec": spec, "stream": how}


# ==================================================================================================
# sequences of definitions in one process: later ones reference earlier (cached) ones
# ==================================================================================================

ODD_KEYS = ['".hidden"', '"[0]"', "''", "'a.b'", '"with space"', "'q\\\"uote'", '"it\'s"', "'.'", "'[x'", "'a[0]'",
            "' '", '"é"', "'..'", "'[]'", "'=x'"]
PLAIN_INPUTS = ["a", "name", "key", "tname", "ns", "items", "cfg"]


def input_access(rng, root="inputs") -> str:
    """one VALID way of reading an input (or parent): plain, odd string keys, computed index, deep chains, macros."""
    k = rng.random()
    tail = rng.choice(["", "", ".x", "[0]", "['y']", ".deep.er[1].still"])
    if k < 0.35:
        return f"{root}[{rng.choice(ODD_KEYS)}]{tail}"
    if k < 0.5:
        idx = rng.choice([f"{root}.{rng.choice(PLAIN_INPUTS)}", "locals.k", f"size({root})", "0", "1.5", "true", "-1",
                          f"{root}['k']", "'a' + 'b'", f"{root}.a ? 'x' : 'y'"])
        return f"{root}[{idx}]{tail}"
    if k < 0.65:
        return f"{root}.{rng.choice(PLAIN_INPUTS)}.b.c.d.e[0].f['g'].h{tail}"
    if k < 0.78:
        n = rng.choice(PLAIN_INPUTS)
        return rng.choice([f"has({root}.{n}.b)", f"{root}.items.map(v, v.name)", f"size({root})", root,
                           f"{root}.items.filter(v, v.on).size()", f"({root}).{n}", f"[{root}][0].{n}",
                           f"{root}.{n}.self_ref().name"])
    return f"{root}.{rng.choice(PLAIN_INPUTS)}{tail}"


def odd_expr(rng, root="inputs") -> str:
    parts = [input_access(rng, root) for _ in range(rng.choice([1, 1, 2, 3]))]
    how = rng.choice(["plus", "list", "map", "cond"])
    if len(parts) == 1:
        return "=" + parts[0]
    if how == "plus":
        return "=" + " + ".join(parts)
    if how == "list":
        return "=[" + ", ".join(parts) + "]"
    if how == "map":
        return "={" + ", ".join(f"'k{i}': {x}" for i, x in enumerate(parts)) + "}"
    return f"={parts[0]} ? {parts[1]} : {parts[-1]}"


def provided_inputs(rng, spec) -> dict | None:
    """inputs a referencing definition passes: none / some / all of the plain names the referenced one reads (+ extras)."""
    text = json.dumps(spec)
    names = sorted(set(re.findall(r"(?:inputs|parent)\.([A-Za-z_]\w*)", text)))
    mode = rng.choice(["none", "some", "all", "all+odd"])
    if mode == "none":
        return None
    if mode == "some":
        names = [n for n in names if rng.random() < 0.5]
    out = {n: rng.choice([1, "v", "=parent.spec.v", {"x": [1]}, "=steps.nope"]) for n in names}
    if mode == "all+odd":
        out.update({".hidden": 1, "[0]": 2, "": 3, "a.b": "=inputs.z" if False else 4})
    return out


def odd_definition(rng, kind, name_of_template=None) -> dict:
    """a schema-valid definition of `kind` whose expressions read their inputs in odd-but-valid ways."""
    e = lambda root="inputs": odd_expr(rng, root)  # noqa: E731
    if kind == "ValueFunction":
        spec = {"return": {f"r{i}": e() for i in range(rng.randint(1, 3))}}
        if rng.random() < 0.5:
            spec["locals"] = {"k": e()}
        if rng.random() < 0.4:
            spec["preconditions"] = [{"assert": e(), "skip": {"message": "m"}}]
        return spec
    if kind == "ResourceFunction":
        spec = {"apiConfig": {"apiVersion": "v1", "kind": "ConfigMap", "name": e(), "namespace": rng.choice(["ns", e()])}}
        if name_of_template is not None and rng.random() < 0.6:
            spec["resourceTemplateRef"] = {"name": rng.choice([name_of_template, e(), "=inputs.tname"])}
        else:
            spec["resource"] = {"apiVersion": "v1", "kind": "ConfigMap", "data": {"d": e()}}
        if rng.random() < 0.6:
            spec["locals"] = {"k": e()}
        if rng.random() < 0.4:
            spec["return"] = {"r": e()}
        return spec
    if kind == "Workflow":     # reads `parent` oddly; its own step runs a plain fixture-free ValueFunction reference
        return {"steps": [{"label": "inner", "ref": {"kind": "ValueFunction", "name": "seq-leaf"},
                           "inputs": {f"i{i}": e("parent") for i in range(rng.randint(1, 3))},
                           **({"skipIf": e("parent")} if rng.random() < 0.4 else {})}]}
    raise ValueError(kind)


def gen_sequence(rng) -> dict:
    """{defs: [{kind, name, spec}...], touch: bool}: definitions offered to prepare_and_cache in this order."""
    defs = [{"kind": "ValueFunction", "name": "seq-leaf", "spec": {"return": {"v": "=inputs.v"}}},
            {"kind": "ResourceTemplate", "name": "seq-tmpl",
             "spec": {"template": {"apiVersion": "v1", "kind": "ConfigMap", "data": {}}}}]
    base_kind = rng.choice(["ValueFunction", "ValueFunction", "ResourceFunction", "Workflow"])
    base = {"kind": base_kind, "name": "seq-base", "spec": odd_definition(rng, base_kind, "seq-tmpl")}
    defs.append(base)
    refs = []          # referencing definitions
    for i in range(rng.randint(1, 3)):
        target = rng.choice([base] + [r for r in refs if r["kind"] != "FunctionTest"])
        inputs = provided_inputs(rng, target["spec"])
        options = []
        if target["kind"] == "ValueFunction":
            options += ["overlay", "step", "switch", "test"]
        elif target["kind"] == "ResourceFunction":
            options += ["step", "switch", "test"]
        else:
            options += ["step", "switch"]
        how = rng.choice(options)
        name = f"seq-ref{i}"
        ref = {"kind": target["kind"], "name": target["name"]}
        if how == "overlay":
            ov = {"overlayRef": ref}
            if inputs is not None:
                ov["inputs"] = inputs
            if rng.random() < 0.3:
                ov["skipIf"] = odd_expr(rng)
            spec = {"apiConfig": {"apiVersion": "v1", "kind": "ConfigMap", "name": "n", "namespace": "ns"},
                    "resource": {"apiVersion": "v1", "kind": "ConfigMap"}, "overlays": [ov]}
            refs.append({"kind": "ResourceFunction", "name": name, "spec": spec})
        elif how in ("step", "switch"):
            step = {"label": "call_it"}
            if how == "step":
                step["ref"] = ref
            else:
                step["refSwitch"] = {"switchOn": odd_expr(rng, "parent"),
                                     "cases": [dict(ref, case="x", default=True),
                                               {"case": "y", "kind": "ValueFunction", "name": "seq-leaf"}]}
            if inputs is not None:
                step["inputs"] = inputs
            refs.append({"kind": "Workflow", "name": name, "spec": {"steps": [step]}})
        else:
            spec = {"functionRef": ref, "testCases": [{"expectReturn": {"a": 1}},
                                                      {"inputOverrides": {"tname": "seq-tmpl", ".hidden": 1},
                                                       "expectOutcome": {"ok": {}}}]}
            if inputs is not None:
                spec["inputs"] = {k: (v if not (isinstance(v, str) and v.startswith("=")) else "lit") for k, v in inputs.items()}
            refs.append({"kind": "FunctionTest", "name": name, "spec": spec})
    order = rng.choice(["deps-first", "deps-first", "deps-last"])
    seq = defs + refs if order == "deps-first" else defs[:2] + refs + [base]
    return {"defs": seq, "touch": rng.random() < 0.6,
            "touch_spec": odd_definition(rng, base_kind, "seq-tmpl") if rng.random() < 0.5 else None}


def run_sequence(world: World, case) -> list:
    """offer the definitions in order to the real cache; -> [(signature, what, index)] of everything that raised /
    came back malformed, re-prepares by the cache's monitor tasks included."""
    import drivers
    from koreo import cache
    drivers.reset_all()
    world.populated = False
    world.run(asyncio.sleep(0))
    problems = []
    reprepare_errors = []

    def recording(prep, idx):
        async def preparer(cache_key, spec):
            try:
                return await prep(cache_key, spec)
            except Exception as e:  # noqa: BLE001
                reprepare_errors.append((idx, type(e).__name__, site_of(e), str(e)[:160]))
                raise
        return preparer

    preparers = {}

    def offer(idx, d, version):
        cls, prep = world.real[d["kind"]]
        pr = preparers.setdefault(idx, recording(prep, idx))
        n_before = len(reprepare_errors)
        try:
            out = world.run(cache.prepare_and_cache(cls, pr, {"name": d["name"], "resourceVersion": version},
                                                    copy.deepcopy(d["spec"])))
        except Exception as e:  # noqa: BLE001
            del reprepare_errors[n_before:]
            problems.append((f"raises {type(e).__name__} at {site_of(e)}",
                             f"prepare_and_cache of {d['kind']} '{d['name']}' (definition #{idx} of the sequence) raised "
                             f"{type(e).__name__}: {str(e)[:160]}", idx))
            return
        c, msg, problem = classify(out, cls, True)
        if problem:
            problems.append((f"{d['kind']}: returns neither prepared resource nor PermFail/Retry", problem, idx))
        elif c in ("PermFail", "Retry") and not (isinstance(msg, str) and msg.strip()):
            problems.append((f"{d['kind']}: {c} without a message", f"definition #{idx}: {c} with message {msg!r}", idx))

    def settle():
        for _ in range(12):
            world.run(asyncio.sleep(0))

    for idx, d in enumerate(case["defs"]):
        offer(idx, d, "1")
        settle()
    if case.get("touch"):
        base_idx = next((i for i, d in enumerate(case["defs"]) if d["name"] == "seq-base"), None)
        if base_idx is not None:
            d = dict(case["defs"][base_idx])
            if case.get("touch_spec") is not None:
                d["spec"] = case["touch_spec"]
            offer(base_idx, d, "2")
            settle()
    for idx, exc, site, msg in reprepare_errors:
        d = case["defs"][idx]
        problems.append((f"re-prepare raises {exc} at {site}",
                         f"the cache's re-preparer of {d['kind']} '{d['name']}' raised {exc}: {msg}", idx))
    drivers.reset_all()
    world.run(asyncio.sleep(0))
    return problems


def check_sequence(ctx: Ctx, world: World, case, shrink=True):
    problems = run_sequence(world, case)
    for sig, what, idx in problems:
        n_sig = SIG_COUNT.get(sig, 0)
        SIG_COUNT[sig] = n_sig + 1
        if n_sig >= 3:
            ctx.count("oracle-failures-not-recorded(repeat of a signature)")
            continue
        small = case
        if shrink and n_sig == 0:
            def fails(c, sig=sig):
                return any(s0 == sig for s0, _, _ in run_sequence(world, c))
            # drop whole definitions, then shrink each remaining spec
            keep = shrink_list(list(range(len(small["defs"]))),
                               lambda ix: bool(ix) and fails(dict(small, defs=[small["defs"][i] for i in ix])))
            small = dict(small, defs=[small["defs"][i] for i in keep])
            if small.get("touch") and fails(dict(small, touch=False)):
                small = dict(small, touch=False, touch_spec=None)
            for i in range(len(small["defs"])):
                def still(cand, i=i):
                    ds = list(small["defs"])
                    ds[i] = dict(ds[i], spec=cand)
                    return fails(dict(small, defs=ds))
                new = shrink_spec(small["defs"][i]["spec"], still, budget=40)
                ds = list(small["defs"])
                ds[i] = dict(ds[i], spec=new)
                small = dict(small, defs=ds)
        ctx.fail(Failure(signature=sig, what=what, case=small,
                         expected="every definition of the sequence (and every re-prepare the cache starts) returns a "
                                  "prepared resource or PermFail/Retry with a message"))
    return problems


# ==================================================================================================
# shrinking
# ==================================================================================================

def shrink_spec(spec, still_fails, budget=120):
    """greedy: delete keys / elements, replace sub-values by simpler ones, while the failure persists."""
    tries = 0
    changed = True
    while changed and tries < budget:
        changed = False
        for p in sorted(all_paths(spec), key=len):
            if not p:
                continue
            try:
                get_at(spec, p)
            except (KeyError, IndexError, TypeError):
                continue
            cands = []
            try:
                cands.append(del_at(spec, p))
            except Exception:
                pass
            v = get_at(spec, p)
            if isinstance(v, dict) and v:
                cands.append(set_at(spec, p, {}))
            if isinstance(v, list) and len(v) > 1:
                cands.append(set_at(spec, p, v[:1]))
            for cand in cands:
                tries += 1
                if tries >= budget:
                    break
                try:
                    ok = still_fails(cand)
                except Exception:
                    ok = False
                if ok:
                    spec = cand
                    changed = True
                    break
            if changed or tries >= budget:
                break
    return spec


def diff_path(a, b, pre=()):
    """path of the first place where two JSON values differ (None if equal, type-sensitively)."""
    if type(a) is not type(b):
        return pre
    if isinstance(a, dict):
        if list(a) != list(b):
            return pre
        for k in a:
            d = diff_path(a[k], b[k], pre + (k,))
            if d is not None:
                return d
        return None
    if isinstance(a, list):
        if len(a) != len(b):
            return pre
        for i, (x, y) in enumerate(zip(a, b)):
            d = diff_path(x, y, pre + (i,))
            if d is not None:
                return d
        return None
    return None if a == b else pre


def shrink_pair(first, second, still_fails, budget=80):
    """shrink an ordered pair that differs at one path: delete the same key / element from both."""
    tries = 0
    changed = True
    while changed and tries < budget:
        changed = False
        d = diff_path(first, second)
        if d is None:
            break
        for p in sorted(all_paths(first), key=len):
            if not p or p == d[:len(p)] or d == p[:len(d)]:
                continue
            if isinstance(p[-1], int) and p[:-1] == d[:len(p) - 1] and p[-1] < d[len(p) - 1]:
                continue        # would shift the index of the differing element
            try:
                c1, c2 = del_at(first, p), del_at(second, p)
            except Exception:
                continue
            tries += 1
            try:
                ok = still_fails(c1, c2)
            except Exception:
                ok = False
            if ok:
                first, second = c1, c2
                changed = True
                break
            if tries >= budget:
                break
    return first, second


# ==================================================================================================
# Gallina
# ==================================================================================================

def c_kind(kind):
    return f"K_{kind}"


def case_strings(v, acc):
    """every string (keys and values) of a JSON value, with multiplicity."""
    if isinstance(v, str):
        acc[v] = acc.get(v, 0) + 1
    elif isinstance(v, list):
        for x in v:
            case_strings(x, acc)
    elif isinstance(v, dict):
        for k, x in v.items():
            acc[k] = acc.get(k, 0) + 1
            case_strings(x, acc)


def pjson(v, ps) -> str:
    """common.cjson with a string printer `ps` (strings of a shard are pooled into Definitions: Coq's
    string-literal notation is by far the most expensive part of reading a case file)."""
    if isinstance(v, str):
        return f"(JStr {ps(v)})"
    if isinstance(v, list):
        return "(JList [" + "; ".join(pjson(x, ps) for x in v) + "])"
    if isinstance(v, dict):
        return "(JMap [" + "; ".join(f"({ps(k)}, {pjson(x, ps)})" for k, x in v.items()) + "])"
    return cjson(v)


def term_case(rec, ps) -> str:
    kind, spec, (accepted, rule, filled), gobs = rec
    gates = clist(gobs, lambda o: "{| g_cls := %s; g_compiles := %s; g_lookups := %s |}" % (
        ps(o["cls"]), cnat(min(o["compiles"], 4000)), cnat(min(o["lookups"], 4000))))
    if filled is None:
        f = "FNone"
    elif filled == spec and json.dumps(filled, sort_keys=True) == json.dumps(spec, sort_keys=True):
        f = "FSame"
    else:
        f = f"(FDoc {pjson(filled, ps)})"
    return f"CSpec {c_kind(kind)} {pjson(spec, ps)} {cbool(accepted)} {ps(rule)} {f} {gates}"


def correspond_pooled(ctx: Ctx, name: str, cases: list, recs: list, shard=150, jobs=12):
    """ctx.correspond for this property, with per-shard string pooling (same bookkeeping in ctx)."""
    import subprocess
    import time
    from common import COQ
    t0 = time.time()
    work = ctx.workdir / "coq"
    work.mkdir(parents=True, exist_ok=True)
    files = []
    for si in range(0, len(recs), shard):
        chunk = recs[si:si + shard]
        freq: dict[str, int] = {}
        for kind, spec, (_a, rule, filled), gobs in chunk:
            case_strings(spec, freq)
            if filled is not None:
                case_strings(filled, freq)
            for o in gobs:
                freq[o["cls"]] = freq.get(o["cls"], 0) + 1
            freq[rule] = freq.get(rule, 0) + 1
        pool = {x: f"s{i}" for i, x in enumerate(sorted(k for k, n in freq.items() if n >= 2))}
        ps = lambda x, pool=pool: pool.get(x) or cstr(x)  # noqa: E731
        path = work / f"cases_C20_{si // shard}.v"
        with open(path, "w") as f:
            f.write("From Koreo Require Import CorrLib Corr_C20.\nLocal Open Scope list_scope.\n")
            for x, ident in pool.items():
                f.write(f"Definition {ident} := {cstr(x)}.\n")
            f.write("Definition cases := [\n" + ";\n".join(term_case(r, ps) for r in chunk) + "\n].\n")
            f.write("Eval vm_compute in (bad_indices check_case cases).\n")
        files.append(path)
    bad, errors = set(), []
    pending = list(enumerate(files))
    running = []
    while pending or running:
        while pending and len(running) < jobs:
            si, path = pending.pop(0)
            running.append((si, subprocess.Popen(
                ["bash", "-c", "ulimit -s unlimited 2>/dev/null; exec timeout 900 coqc -Q %s Koreo -w none %s" % (COQ, path)],
                cwd=work, stdout=subprocess.PIPE, stderr=subprocess.STDOUT, text=True)))
        si, pr = running.pop(0)
        out, _ = pr.communicate()
        m = re.search(r"=\s*\[(.*?)\]\s*:\s*list nat", out, re.S)
        if pr.returncode != 0 or not m:
            errors.append(f"shard {si}: rc={pr.returncode}\n{out[-3000:]}")
            continue
        body = m.group(1).strip()
        if body:
            for tok in body.split(";"):
                bad.add(si * shard + int(tok.strip().split("%")[0]))
    for path in files:
        for ext in (".v", ".vo", ".vok", ".vos", ".glob"):
            q = path.with_suffix(ext)
            if q.exists():
                q.unlink()
        aux = path.parent / ("." + path.stem + ".aux")
        if aux.exists():
            aux.unlink()
    ctx.traces += len(recs) if not errors else 0
    ctx.count(f"corr:{name}:cases", len(recs))
    ctx.dist[f"corr:{name}:secs"] = round(time.time() - t0, 1)
    if errors:
        ctx.corr_errors.append(f"{name}: " + "\n".join(errors))
    for i in sorted(bad):
        ctx.mismatch(name, cases[i])
    return bad


# ==================================================================================================
# run
# ==================================================================================================

SIG_COUNT: dict[str, int] = {}


def check_one(ctx: Ctx, world: World, counters: Counters, case, record=True, shrink=True):
    """Run validate + both prepare modes + oracle on one case. Returns (vobs, [gate observations])."""
    kind, spec = case["kind"], case["spec"]
    world.fresh()
    after = case.get("after")
    if after is not None:
        # ordered pair: this spec is offered AFTER `after` was validated and prepared in the same process
        try:
            observe_validate(world, kind, after)
        except Exception:  # noqa: BLE001 - judged when `after` is the case itself
            pass
        run_mode(world, counters, kind, after, False)
    invalid = judge_invalid(kind, spec)
    try:
        vobs = observe_validate(world, kind, spec)
    except Exception as e:  # noqa: BLE001
        vobs = None
        ctx.fail(Failure(signature=f"schema.validate raises {type(e).__name__} at {site_of(e)}",
                         what=f"koreo.schema.validate raised {e!r}", case={"kind": kind, "spec": spec}))
    if vobs is not None and vobs[0] == invalid:
        ctx.fail(Failure(signature=f"{kind}: koreo.schema.validate disagrees with the bundled CRD schema",
                         what=f"koreo.schema.validate {'accepts' if vobs[0] else 'rejects'} a spec that the CRD "
                              f"schema compiled directly with fastjsonschema {'rejects' if invalid else 'accepts'}",
                         case={"kind": kind, "spec": spec, **({"after": after} if after is not None else {})}))
    gobs = []
    for cached in (False, True):
        obs = run_mode(world, counters, kind, spec, cached)
        gobs.append(obs)
        for sig, what in oracle(kind, spec, obs, cached, invalid):
            n_sig = SIG_COUNT.get(sig, 0)
            SIG_COUNT[sig] = n_sig + 1
            if n_sig >= 3:
                ctx.count("oracle-failures-not-recorded(repeat of a signature)")
                continue
            small, small_after = spec, after
            if shrink and n_sig == 0 and after is not None:
                def still_pair(cand_after, cand, sig=sig, cached=cached):
                    if judge_invalid(kind, cand_after):
                        return False
                    observe_validate(world, kind, cand_after)
                    run_mode(world, counters, kind, cand_after, False)
                    o = run_mode(world, counters, kind, cand, cached)
                    return any(s == sig for s, _ in oracle(kind, cand, o, cached, judge_invalid(kind, cand)))
                small_after, small = shrink_pair(after, spec, still_pair)
            elif shrink and n_sig == 0:
                def still(cand, sig=sig, cached=cached):
                    o = run_mode(world, counters, kind, cand, cached)
                    return any(s == sig for s, _ in oracle(kind, cand, o, cached, judge_invalid(kind, cand)))
                small = shrink_spec(spec, still)
            ctx.fail(Failure(signature=sig, what=what + (" (offered after the ==-equal spec `after` was prepared)"
                                                         if after is not None else ""),
                             case={"kind": kind, "spec": small, "mode": "prepare_and_cache" if cached else "prepare",
                                   **({"after": small_after} if after is not None else {})},
                             observed={k: obs[k] for k in ("cls", "message", "compiles", "lookups", "site")},
                             expected="a prepared resource, or PermFail/Retry with a message; PermFail with no "
                                      "compile/look-up when the spec violates the CRD schema"))
    return vobs, gobs, invalid


def second_order(ctx: Ctx, world: World, counters: Counters):
    """A definition that prepares fine must not make LATER, unrelated definitions crash."""
    poison = {"apiConfig": {"apiVersion": "a/b/c", "kind": "Thing", "name": "n", "namespace": "n"},
              "resource": {"apiVersion": "v1", "kind": "ConfigMap"}}
    innocent = {"apiConfig": {"apiVersion": "example.dev/v1", "kind": "NeverSeenBefore", "name": "n", "namespace": "n"},
                "resource": {"apiVersion": "v1", "kind": "ConfigMap"}}
    world.fresh()
    before = observe_prepare(world, counters, "ResourceFunction", innocent, False)
    cls, prep = world.real["ResourceFunction"]
    from koreo import cache
    first = {"cls": "raised"}
    try:   # stays referenced by the cache, as in a running controller
        out = world.run(cache.prepare_and_cache(cls, prep, {"name": "poison", "resourceVersion": "1"}, copy.deepcopy(poison)))
        first = {"cls": classify(out, cls, True)[0]}
        del out
    except Exception:
        pass
    after = observe_prepare(world, counters, "ResourceFunction", innocent, False)
    ctx.count("second-order:kr8s-registry")
    if before["raised"] is None and after["raised"] is not None:
        ctx.fail(Failure(
            signature=f"later prepare raises {after['raised']} at {after['site']} after an apiVersion with two slashes was prepared",
            what="after a ResourceFunction with apiConfig.apiVersion 'a/b/c' was prepared (successfully) and cached, "
                 f"preparing an unrelated ResourceFunction raises {after['raised']}: {after['message']}",
            case={"first": {"kind": "ResourceFunction", "spec": poison}, "then": {"kind": "ResourceFunction", "spec": innocent}},
            observed={"first": first["cls"], "then": after["raised"]}, expected="both return"))
    cleanup_kr8s(world)


def cel_bulk(ctx: Ctx, world: World, counters: Counters, n: int):
    """Many CEL texts through the two anchored helpers every prepare_* uses (cel/prepare.py prepare_expression,
    structure_extractor.extract_argument_structure).  Anything that raises there is lifted into a ValueFunction
    spec and judged at the property's observation point (prepare_value_function)."""
    import celpy
    from koreo.cel.functions import koreo_function_annotations
    from koreo.cel.prepare import prepare_expression
    from koreo.cel.structure_extractor import extract_argument_structure
    from koreo.result import PermFail
    env = celpy.Environment(annotations=koreo_function_annotations)
    shapes: dict[str, int] = {}
    lifted = 0
    # every literal of LEX_ALL in every literal position once (as a, with random b, c), then random texts
    matrix = []
    n_pos = len(lit_positions("inputs.a", "0", "0", "0"))
    for L in LEX_ALL:
        for pi in range(n_pos):
            matrix.append(lit_positions(ctx.rng.choice(["inputs.a", "steps.one", "parent", "locals.x.y"]), L,
                                        lit(ctx.rng), lit(ctx.rng))[pi])
    ctx.count("cel-bulk:literal-matrix", len(matrix))
    for i in range(len(matrix) + n):
        text = matrix[i] if i < len(matrix) else cel_text(ctx.rng, bad=1.0 if i % 4 == 0 else 0.0)
        try:
            r = prepare_expression(env, "=" + text, "loc")
            if isinstance(r, PermFail):
                ctx.count("cel-bulk:PermFail")
            elif r is None:
                ctx.count("cel-bulk:None")
            else:
                ctx.count("cel-bulk:compiled")
                extract_argument_structure(r.ast)
                for t in r.ast.iter_subtrees():
                    name = "conditional" if t.data == "expr" and len(t.children) == 3 else t.data
                    shapes[name] = shapes.get(name, 0) + 1
        except Exception:  # noqa: BLE001
            ctx.count("cel-bulk:raised")
            if lifted < 25:
                lifted += 1
                yield {"kind": "ValueFunction", "spec": {"return": {"v": "=" + text}}, "stream": "cel-bulk"}
    for k in ("member_dot", "member_index", "member_dot_arg", "member_object", "ident_arg", "dot_ident",
              "dot_ident_arg", "list_lit", "map_lit", "paren_expr", "unary_not", "unary_neg", "conditional",
              "relation_in", "fieldinits", "mapinits", "exprlist", "literal", "addition_add", "relation_eq",
              "conditionalor_or" if False else "conditionalor", "conditionaland"):
        ctx.dist[f"cel-shape:{k}"] = shapes.get(k, 0)


def literal_space_vs_extract_model(ctx: Ctx):
    """C20_extract_total is a theorem about the C14 worker's model (Extract.v takes a literal token's TEXT: INT_LIT
    verbatim, everything else `text.strip(text[0])`).  Tie that model to the real extractor on the whole lexical
    space of CEL literals in index positions, with the C14 plugin's own case printer and Corr_C14.check_case."""
    try:
        from props import C14
    except Exception as e:  # noqa: BLE001
        ctx.notes.append({"literal-space correspondence skipped": f"props.C14 not importable: {e!r}"})
        return
    import celpy
    env = C14.cel_env()
    cases, terms = [], []
    seen = set()
    for L in LEX_ALL:
        other = lit(ctx.rng)
        pos = lit_positions("inputs.a", L, other, lit(ctx.rng))
        picks = pos[:5] + [pos[10], pos[14], pos[17], pos[19], pos[27], pos[29], pos[30]]
        for text in picks:
            if text in seen:
                continue
            seen.add(text)
            try:
                ast_ = env.compile(text)
            except celpy.CELParseError:
                continue
            except Exception:  # noqa: BLE001 - judged by the prepare oracle (cel_bulk lifts it)
                continue
            case, term, _obs, _steps = C14.extract_case(ctx, C14.from_lark(ast_), True, src=text)
            cases.append(case)
            terms.append(term)
    if ctx.model_ok and terms:
        C14.correspond(ctx, "extract_argument_structure on the CEL literal space vs Extract.extract (C14 model)",
                       cases, terms)


def run(ctx: Ctx):
    import logging
    logging.disable(logging.CRITICAL)
    SIG_COUNT.clear()
    schemas = schema_gen.load_normalised(strict=False)     # generators only; the model uses the strict translation
    world = World()
    counters = Counters().install()
    cases, terms = [], []
    seen = set()
    try:
        second_order(ctx, world, counters)
        for c in corpus_cases("C20"):
            c = c.get("case", c)
            if "defs" in c:
                check_sequence(ctx, world, c)
                ctx.note_case(c, True)
                ctx.count("stream:sequence(corpus)")
        for _ in range(120 if ctx.quick() else 1500):
            seq_case = gen_sequence(ctx.rng)
            problems = check_sequence(ctx, world, seq_case, shrink=len(ctx.failures) < 40)
            ctx.note_case(seq_case, True)
            ctx.count("stream:sequence")
            ctx.count(f"sequence:len{len(seq_case['defs'])}" + (":touch" if seq_case["touch"] else ""))
            if problems:
                ctx.count("sequence:with-problem")
        import itertools
        stream = itertools.chain(gen_cases(ctx, schemas),
                                 cel_bulk(ctx, world, counters, 1500 if ctx.quick() else 20000))
        for case in stream:
            kind, spec = case["kind"], case["spec"]
            if not jsonable_spec(spec):
                ctx.count("skipped:not-json")
                continue
            key = (kind, json.dumps(spec, sort_keys=True, default=repr),
                   json.dumps(case.get("after"), sort_keys=True, default=repr) if case.get("after") is not None else "")
            if key in seen:
                ctx.count("skipped:duplicate")
                continue
            seen.add(key)
            vobs, gobs, invalid = check_one(ctx, world, counters, case, shrink=len(ctx.failures) < 40)
            ctx.note_case({"kind": kind, "spec": spec}, nontrivial=isinstance(spec, dict) and bool(spec))
            ctx.count(f"kind:{kind}")
            ctx.count(f"stream:{case['stream']}")
            ctx.count("schema:invalid" if invalid else "schema:valid")
            if vobs is not None and not vobs[0]:
                ctx.count(f"rule:{vobs[1] or '?'}")
            for o in gobs:
                ctx.count(f"outcome:{o['cls']}" + (f":{o['raised']}" if o["raised"] else ""))
            if vobs is not None:
                cases.append(case)
                terms.append((kind, spec, vobs, gobs))
    finally:
        counters.uninstall()
        world.close()
        gc.collect()
    if ctx.model_ok:
        correspond_pooled(ctx, "schema.validate + prepare gate vs Schema.validate + prepare_gate", cases, terms)
    literal_space_vs_extract_model(ctx)


def replay(ctx: Ctx, data):
    import logging
    logging.disable(logging.CRITICAL)
    case = data.get("case", data)
    world = World()
    counters = Counters().install()
    try:
        if "first" in case:
            second_order(ctx, world, counters)
            ctx.note_case(case, True)
            return
        if "defs" in case:
            check_sequence(ctx, world, case, shrink=False)
            ctx.note_case(case, True)
            return
        c = {"kind": case["kind"], "spec": case["spec"], "stream": "replay"}
        if case.get("after") is not None:
            c["after"] = case["after"]
        vobs, gobs, invalid = check_one(ctx, world, counters, c, shrink=False)
        ctx.note_case(c, True)
        terms = [(c["kind"], c["spec"], vobs, gobs)] if vobs is not None else []
    finally:
        counters.uninstall()
        world.close()
    if ctx.model_ok and terms:
        correspond_pooled(ctx, "replay", [c] * len(terms), terms)
