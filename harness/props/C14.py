"""C14 — static reference analysis finds every named dependency.

Real code: koreo.cel.structure_extractor, koreo.workflow.prepare (+ the steps_ready gate of
koreo.workflow.reconcile), the watch lists of koreo.resource_function.prepare and
koreo.function_test.prepare.  Model: coq/model/Tree.v, coq/model/Extract.v.

Streams (see RULE):
  parse     grammar-directed random lark-shaped trees -> CEL text -> real celpy parser -> must be the same tree
  extract   real extractor + real regexes on real parse trees (generated + hand-written corpus) vs model;
            oracle: every planted steps.NAME / steps['NAME'] is among the derived step names
  damaged   hand-damaged trees straight into the real extractor (exception classes)
  regex     adversarial keys through the two real regexes vs the matcher model
  workflow  real prepare_workflow on generated specs vs model; oracle: planted references are
            dependencies, bad order is reported not ready (and nothing runs), named Logic is watched
  rf / ft   watch lists of prepare_resource_function / prepare_function_test
  watch     Workflow / ResourceFunction / FunctionTest definitions through the REAL cache.prepare_and_cache:
            registry subscriptions contain every named resource; the definition's preparer runs again when a
            named resource appears / changes / disappears, also after delete + immediate re-offer of the definition
"""
from __future__ import annotations

import asyncio
import copy
import json
import logging

from common import Ctx, Failure, cbool, clist, copt, cpair, cstr, corpus_cases, shrink_list

COQ_TARGETS = ["props/P_C14.vo", "corr/Corr_C14.vo"]
PROOF_FILES = ["proofs/Extract_proofs.v"]
RULE = ("CEL expressions are generated as lark-shaped trees by random derivation from cel.lark (every rule, all "
        "literal kinds, macros, calls with 0..3 arguments, index by anything), printed to text and parsed back by "
        "the real celpy (the tree must come back identical and satisfy the Coq grammar predicate); statically "
        "named references steps.NAME / steps['NAME'] / steps[\"NAME\"] are planted at random operand positions at "
        "any depth. Workflows of 1..6 steps carry such expressions in skipIf / forEach.itemIn / inputs / state / "
        "refSwitch.switchOn referring to earlier, later, unknown labels or the step itself, with ref / refSwitch "
        "Logic that is cached, unhealthy, missing or malformed. A case is non-trivial when it contains a planted "
        "reference below the root of its expression or (workflows) at least two steps with a reference; distinct "
        "by content. Watch stream: 8 definitions (ref, two refs, refSwitch with 3 cases, sub-workflow, 1 and 2 "
        "overlayRef functions, FunctionTest of a VF / RF) x fixed and random scripts of appear / change / "
        "disappear of the named resources and delete+re-offer of the definition, through the real cache; and "
        "reference GRAPHS of 3-7 definitions (6 hand-made incl. diamonds / a shared leaf at depths 1-3, random DAGs "
        "with dense edges) offered in dependency / reverse / random order, then change / delete / re-offer of any "
        "node: every cached transitive dependent must be prepared again, nothing may raise.")
ASSUMPTIONS = [
    "the trees handed to the extractor are the ones cel-python 0.3.0 / lark 0.12 build from cel.lark "
    "(cel_tree_wf; re-validated against the real parser on every generated and corpus expression)",
    "NAME is non-empty and contains neither '.' nor '[' (every valid step label, [[:word:]]+, qualifies); for "
    "the index form the literal is a plain (un-prefixed, escape-free) string that does not begin or end with "
    "its own quote character",
    "the class of result.unwrapped_combine is the most severe class present (C03)",
]
TRUSTED = ["the watch stream observes koreo.registry._SUBSCRIBER_RESOURCES and a counting wrapper around the preparer "
           "handed to cache.prepare_and_cache; 12 event-loop turns (asyncio.sleep(0)) are allowed for a re-prepare",
           "the Python printer tree -> CEL text and the converter lark.Tree -> Gallina term (both exercised by the "
           "parse stream: print, parse with the real parser, compare)",
           "watched_complete for ResourceFunction / FunctionTest is a straight-line model tied by correspondence only"]

LEVELS = ["expr", "conditionalor", "conditionaland", "relation", "addition", "multiplication", "unary", "member",
          "primary"]

# --------------------------------------------------------------------------------------------
# trees: ("N", data, [children]) | ("T", type, value)
# --------------------------------------------------------------------------------------------


def N(data, *children):
    return ("N", data, list(children))


def T(ty, v):
    return ("T", ty, v)


def wrap(i, j, x):
    """LEVELS[i] [ ... LEVELS[j] [x] ]"""
    for lvl in reversed(LEVELS[i:j + 1]):
        x = N(lvl, x)
    return x


def from_lark(t):
    import lark
    if isinstance(t, lark.Tree):
        return ("N", str(t.data), [from_lark(c) for c in t.children])
    if isinstance(t, lark.Token):
        return ("T", str(t.type), str(t))
    raise TypeError(f"unexpected object in parse tree: {t!r}")


def to_lark(n):
    import lark
    if n[0] == "N":
        return lark.Tree(n[1], [to_lark(c) for c in n[2]])
    return lark.Token(n[1], n[2])


def cnode(n) -> str:
    """Gallina term; single-child precedence chains are written with Tree.ch to keep files small."""
    if n[0] == "T":
        return f"(Tok {cstr(n[1])} {cstr(n[2])})"
    if n[1] in LEVELS[:-1] and len(n[2]) == 1:
        i = LEVELS.index(n[1])
        j, cur = i, n
        while (j + 1 < len(LEVELS) and cur[2][0][0] == "N" and cur[2][0][1] == LEVELS[j + 1]
               and len(cur[2][0][2]) == 1):
            cur = cur[2][0]
            j += 1
        if j - i >= 2:
            return f"(ch {i} {j} {cnode(cur[2][0])})"
    return f"(N {cstr(n[1])} [" + "; ".join(cnode(c) for c in n[2]) + "])"


def tree_size(n):
    return 1 if n[0] == "T" else 1 + sum(tree_size(c) for c in n[2])


# ---- printer: tree -> CEL source (tokens separated by blanks) ---------------------------------

OPS = {"relation_lt": "<", "relation_le": "<=", "relation_gt": ">", "relation_ge": ">=", "relation_eq": "==",
       "relation_ne": "!=", "relation_in": "in", "addition_add": "+", "addition_sub": "-",
       "multiplication_mul": "*", "multiplication_div": "/", "multiplication_mod": "%"}


def toks(n, out):
    if n[0] == "T":
        out.append(n[2])
        return
    d, cs = n[1], n[2]
    if d == "expr":
        toks(cs[0], out)
        if len(cs) == 3:
            out.append("?"); toks(cs[1], out); out.append(":"); toks(cs[2], out)
    elif d in ("conditionalor", "conditionaland"):
        if len(cs) == 2:
            toks(cs[0], out); out.append("||" if d == "conditionalor" else "&&"); toks(cs[1], out)
        else:
            toks(cs[0], out)
    elif d in ("relation", "addition", "multiplication"):
        if len(cs) == 2:
            toks(cs[0][2][0], out); out.append(OPS[cs[0][1]]); toks(cs[1], out)
        else:
            toks(cs[0], out)
    elif d == "unary":
        if len(cs) == 2:
            out.append("!" if cs[0][1] == "unary_not" else "-"); toks(cs[1], out)
        else:
            toks(cs[0], out)
    elif d in ("member", "primary"):
        toks(cs[0], out)
    elif d == "member_dot":
        toks(cs[0], out); out.append("."); toks(cs[1], out)
    elif d == "member_dot_arg":
        toks(cs[0], out); out.append("."); toks(cs[1], out); out.append("(")
        if len(cs) == 3:
            toks(cs[2], out)
        out.append(")")
    elif d == "member_index":
        toks(cs[0], out); out.append("["); toks(cs[1], out); out.append("]")
    elif d == "member_object":
        toks(cs[0], out); out.append("{")
        if len(cs) == 2:
            toks(cs[1], out)
        out.append("}")
    elif d in ("dot_ident_arg", "ident_arg"):
        if d == "dot_ident_arg":
            out.append(".")
        toks(cs[0], out); out.append("(")
        if len(cs) == 2:
            toks(cs[1], out)
        out.append(")")
    elif d == "dot_ident":
        out.append("."); toks(cs[0], out)
    elif d in ("ident", "literal"):
        toks(cs[0], out)
    elif d == "paren_expr":
        out.append("("); toks(cs[0], out); out.append(")")
    elif d in ("list_lit", "map_lit"):
        out.append("[" if d == "list_lit" else "{")
        if cs:
            toks(cs[0], out)
        out.append("]" if d == "list_lit" else "}")
    elif d == "exprlist":
        for i, c in enumerate(cs):
            if i:
                out.append(",")
            toks(c, out)
    elif d in ("fieldinits", "mapinits"):
        for i in range(0, len(cs), 2):
            if i:
                out.append(",")
            toks(cs[i], out); out.append(":"); toks(cs[i + 1], out)
    else:
        raise ValueError(f"printer: unknown node {d}")


def to_source(n) -> str:
    out: list[str] = []
    toks(n, out)
    return " ".join(out)


# ---- generator ------------------------------------------------------------------------------------

IDENTS = ["inputs", "parent", "x", "item", "value", "cfg", "_p", "A1", "name", "spec", "metadata", "size_", "stepz",
          "mysteps", "Steps", "step"]
FUNCS = ["size", "has", "string", "int", "to_ref", "self_ref", "map", "filter", "all", "exists", "exists_one",
         "contains", "startsWith", "matches", "f", "overlay", "flatten", "lower"]
FIELDS = ["a", "b", "name", "value", "metadata", "spec", "items", "x1", "_k", "steps", "parent", "inputs", "size"]
TYPES = ["T", "Msg", "google"]

STR_LITS = ["'abc'", '"abc"', "''", '""', "'a.b'", "'a[0]'", '"it\'s"', "'q\\'q'", "'\\x41'", "'\\n'", "'é'",
            "r'a\\b'", 'R"raw"', "'x y'", "'0'", "'steps'", "'-'", '"a-b"', "'%'"]
ML_LITS = ["'''a b'''", '"""x"y"""', "r'''z'''", "'''line1\nline2'''", '""""""', "'''it's'''"]
BYTES_LITS = ["b'abc'", 'B"x"', "b'''m'''", "b'\\x00'", 'br"raw"']
INT_LITS = ["0", "7", "42", "-3", "0x1F", "-0xa", "123456789012"]
UINT_LITS = ["5u", "0x3U", "0u"]
FLOAT_LITS = ["1.5", "-2.", ".5", "1e3", "1.5E-2", "-0.0", "3.e1"]


class Gen:
    """random derivation from cel.lark; plants statically named step references."""

    def __init__(self, rng, names=(), p_plant=0.15, p_op=0.18, max_nodes=260):
        self.rng = rng
        self.names = list(names)
        self.p_plant = p_plant if self.names else 0.0
        self.p_op = p_op
        self.budget = max_nodes
        self.planted: list[tuple[str, str, int]] = []   # (name, form, depth)
        self.depth = 0
        self.kinds: set[str] = set()

    # -- terminals
    def ident(self):
        return self.rng.choice(IDENTS)

    def literal_tok(self):
        r = self.rng
        k = r.choice(["INT_LIT", "INT_LIT", "STRING_LIT", "STRING_LIT", "FLOAT_LIT", "UINT_LIT", "BOOL_LIT",
                      "NULL_LIT", "MLSTRING_LIT", "BYTES_LIT"])
        v = {"INT_LIT": INT_LITS, "STRING_LIT": STR_LITS, "FLOAT_LIT": FLOAT_LITS, "UINT_LIT": UINT_LITS,
             "BOOL_LIT": ["true", "false"], "NULL_LIT": ["null"], "MLSTRING_LIT": ML_LITS,
             "BYTES_LIT": BYTES_LITS}[k]
        return T(k, r.choice(v))

    def small(self):
        return self.budget <= 0 or self.depth > 9

    def spend(self, n=12):
        self.budget -= n

    # -- nonterminals
    def expr(self):
        self.depth += 1
        try:
            if not self.small() and self.rng.random() < self.p_op * 0.5:
                self.kinds.add("cond")
                return N("expr", self.condor(), self.condor(), self.expr())
            return N("expr", self.condor())
        finally:
            self.depth -= 1

    def condor(self):
        if not self.small() and self.rng.random() < self.p_op * 0.6:
            return N("conditionalor", self.condor(), self.condand())
        return N("conditionalor", self.condand())

    def condand(self):
        if not self.small() and self.rng.random() < self.p_op * 0.6:
            return N("conditionaland", self.condand(), self.relation())
        return N("conditionaland", self.relation())

    def relation(self):
        if not self.small() and self.rng.random() < self.p_op:
            op = self.rng.choice(["relation_lt", "relation_le", "relation_gt", "relation_ge", "relation_eq",
                                  "relation_ne", "relation_in"])
            return N("relation", N(op, self.relation()), self.addition())
        return N("relation", self.addition())

    def addition(self):
        if not self.small() and self.rng.random() < self.p_op:
            op = self.rng.choice(["addition_add", "addition_sub"])
            return N("addition", N(op, self.addition()), self.multiplication())
        return N("addition", self.multiplication())

    def multiplication(self):
        if not self.small() and self.rng.random() < self.p_op * 0.7:
            op = self.rng.choice(["multiplication_mul", "multiplication_div", "multiplication_mod"])
            return N("multiplication", N(op, self.multiplication()), self.unary())
        return N("multiplication", self.unary())

    def unary(self):
        self.spend()
        if not self.small() and self.rng.random() < self.p_op * 0.6:
            return N("unary", N(self.rng.choice(["unary_not", "unary_neg"])), self.unary())
        return N("unary", self.member())

    def exprlist(self, lo=1, hi=3):
        return N("exprlist", *[self.expr() for _ in range(self.rng.randint(lo, hi))])

    def steps_member(self):
        return N("member", N("primary", N("ident", T("IDENT", "steps"))))

    def plant(self):
        """member node holding steps.NAME or steps['NAME']"""
        name = self.rng.choice(self.names)
        identlike = name[0].isalpha() or name[0] == "_"
        form = self.rng.choice(["dot", "dot", "sq", "dq"]) if identlike else self.rng.choice(["sq", "dq"])
        self.planted.append((name, form, self.depth))
        if form == "dot":
            return N("member", N("member_dot", self.steps_member(), T("IDENT", name)))
        q = "'" if form == "sq" else '"'
        return N("member", N("member_index", self.steps_member(),
                             wrap(0, 8, N("literal", T("STRING_LIT", q + name + q)))))

    def member(self):
        r = self.rng
        self.depth += 1
        try:
            if r.random() < self.p_plant:
                return self.plant()
            if self.small():
                return N("member", self.primary())
            k = r.random()
            if k < 0.22:
                self.kinds.add("dot")
                return N("member", N("member_dot", self.member(), T("IDENT", r.choice(FIELDS))))
            if k < 0.36:
                self.kinds.add("call")
                fn = T("IDENT", r.choice(FUNCS))
                if r.random() < 0.3:
                    return N("member", N("member_dot_arg", self.member(), fn))
                if fn[2] in ("map", "filter", "all", "exists", "exists_one") and r.random() < 0.8:
                    self.kinds.add("macro")
                    var = wrap(0, 8, N("ident", T("IDENT", r.choice(["i", "e", "item"]))))
                    return N("member", N("member_dot_arg", self.member(), fn, N("exprlist", var, self.expr())))
                return N("member", N("member_dot_arg", self.member(), fn, self.exprlist()))
            if k < 0.50:
                self.kinds.add("index")
                return N("member", N("member_index", self.member(), self.expr()))
            if k < 0.54:
                self.kinds.add("object")
                base = N("member", N("primary", N("ident", T("IDENT", r.choice(TYPES)))))
                if r.random() < 0.3:
                    return N("member", N("member_object", base))
                fi = []
                for _ in range(r.randint(1, 3)):
                    fi += [T("IDENT", r.choice(FIELDS)), self.expr()]
                return N("member", N("member_object", base, N("fieldinits", *fi)))
            return N("member", self.primary())
        finally:
            self.depth -= 1

    def primary(self):
        r = self.rng
        if self.small():
            if r.random() < 0.5:
                return N("primary", N("ident", T("IDENT", self.ident())))
            return N("primary", N("literal", self.literal_tok()))
        k = r.random()
        if k < 0.34:
            return N("primary", N("ident", T("IDENT", self.ident())))
        if k < 0.58:
            return N("primary", N("literal", self.literal_tok()))
        if k < 0.68:
            self.kinds.add("fn")
            fn = T("IDENT", r.choice(FUNCS))
            if r.random() < 0.25:
                return N("primary", N("ident_arg", fn))
            return N("primary", N("ident_arg", fn, self.exprlist()))
        if k < 0.76:
            self.kinds.add("paren")
            return N("primary", N("paren_expr", self.expr()))
        if k < 0.85:
            self.kinds.add("list")
            if r.random() < 0.2:
                return N("primary", N("list_lit"))
            return N("primary", N("list_lit", self.exprlist(1, 4)))
        if k < 0.93:
            self.kinds.add("map")
            if r.random() < 0.2:
                return N("primary", N("map_lit"))
            mi = []
            for _ in range(r.randint(1, 3)):
                mi += [self.expr(), self.expr()]
            return N("primary", N("map_lit", N("mapinits", *mi)))
        if k < 0.97:
            self.kinds.add("dotident")
            return N("primary", N("dot_ident", T("IDENT", self.ident())))
        self.kinds.add("dotident")
        fn = T("IDENT", r.choice(FUNCS))
        if r.random() < 0.3:
            return N("primary", N("dot_ident_arg", fn))
        return N("primary", N("dot_ident_arg", fn, self.exprlist()))


def gen_expression(rng, names, p_plant=0.15, max_nodes=260, must_plant=False):
    for _ in range(50):
        g = Gen(rng, names, p_plant=p_plant, max_nodes=max_nodes)
        t = g.expr()
        if not must_plant or g.planted:
            return t, g
    return t, g


# hand-written expressions: every rule of the grammar, every literal kind, the shapes that used to raise
HAND_CORPUS = [
    "steps.a", "steps.a.b.c", "steps['a']", 'steps["a"].x', "steps['a-b']", "steps.a[0].b", "steps['a']['b']",
    "steps.a.b[inputs.i].c", "inputs.r.self_ref().name", "inputs.l[size(inputs.l) - 1]", "(inputs.a).b", "[1, 2][0]",
    "inputs.l[-inputs.i]", "x[!y]", "x[--y]", "T{a: 1}.a", ".a.b", "f(x).y", "x.f().y", "x.f(1).y", "x.f(1, 2).y[0]",
    "a ? b : c", "a ? b : c ? d : e", "a || b || c", "a && b && c", "a || b && c", "a < b", "a <= b", "a > b", "a >= b",
    "a == b", "a != b", "a in b", "a + b - c", "a * b / c % d", "!a", "!!a", "-a", "--a", "- - a", "!a.b", "-a[0]",
    "has(steps.a.b)", "has(inputs.x)", "steps.a.map(i, i.x)", "steps.a.filter(i, i > steps.b.n)",
    "steps.a.all(i, i)", "steps.a.exists(i, i == 1)", "steps.a.exists_one(i, i == steps['b'].v)",
    "[1, 2].map(i, steps.c[i])", "size(steps.a)", "f()", "f(1)", "f(1, 2, 3)", "x.f()", "x.f(1)", "x.f(1, 2, 3)",
    ".f()", ".f(1)", ".a", "[]", "[1]", "[1, 'a', steps.a]", "{}", "{'a': 1}", "{'a': steps.a, steps.b: 2}",
    "T{}", "T{a: 1}", "T{a: 1, b: steps.x}", "a.b.T{a: 1}", "(a)", "((a))", "(steps.a).b", "(steps).a", "steps[('a')]",
    "x[a ? b : c]", "x[a || b]", "x[a < b]", "x[a + 1]", "x[a.b]", "x[a.f()]", "x[f(1)]", "x[[1, 2]]", "x[T{a: 1}]",
    "x[1]", "x[-1]", "x[0x1F]", "x[1u]", "x[1.5]", "x[true]", "x[null]", "x['k']", 'x["k"]', "x['''k''']",
    'x["""k"""]', "x[r'k']", "x[b'k']", "x['']", "steps['']", "steps[0]", "steps[a]", "steps['a' + 'b']",
    "steps[x ? 'a' : 'b']", "1", "-1", "0x1F", "1u", "1.5", "-2.", ".5", "1e3", "true", "false", "null", "'s'", '"s"',
    "'''ml'''", '"""ml"""', "r'raw'", "r'''raw'''", "b'by'", "B\"by\"", "br'x'", "'a\\'b'", "'\\x41\\n'",
    "'''a\nb'''", "parent.a", "parent.a.b", "parent['a']", "parent", "steps", "stepsX.foo", "steps_x.y",
    "steps['.a']", "steps['[a']", "steps['a.b']", "steps['a[b']", "'steps'.a", "parent_x.y", "'parent'.a",
    "{'k': steps.a}.k", "[steps.a][0]", "steps.a + steps.b", "steps.a == steps['b'] ? steps.c : steps[\"d\"]",
    "f(steps.a, g(steps.b, [steps.c, {steps.d: steps.e}]))", "x.y.z[steps.a.b][steps['c']]",
    "inputs.a // comment\n + 1", "a\n.\nb", "steps . a", "steps [ 'a' ]", "1 + -1", "a - -1", "a -1", "a - 1",
    "has(steps.a) && steps.a.b > 0 ? steps.a.b : 0", "string(steps.a.n) + '-' + inputs.name",
    "steps.config.items.map(i, {'name': i.name, 'ref': steps.other.ref})",
]


# --------------------------------------------------------------------------------------------
# Gallina printers
# --------------------------------------------------------------------------------------------

def cs(s) -> str:
    """string literal (string_scope is open in the generated files)"""
    r = cstr(s)
    return r[:-len("%string")] if r.endswith("%string") else r


def cnode2(n) -> str:
    return cnode(n).replace('"%string', '"')


def c_exn(name: str) -> str:
    return {"AttributeError": "EAttributeError", "IndexError": "EIndexError", "TypeError": "ETypeError",
            "UnsupportedStructure": "EUnsupported"}.get(name, "EOutOfModel")


def c_xobs(o) -> str:
    if o[0] == "raised":
        return f"(XRaised {c_exn(o[1])})"
    return f"(XDone {clist(o[1], cs)})"


def c_ostr(x) -> str:
    return copt(x, cs)


def c_field(f) -> str:
    if f[0] == "none":
        return "FNone"
    if f[0] == "fail":
        return "FFail"
    return f"(FExpr {cnode2(f[1])})"


def c_ref(r) -> str:
    return "{| rf_kind := %s; rf_name := %s; rf_cache := %s |}" % (cs(r["kind"]), cs(r["name"]), r["cache"])


def c_step(st) -> str:
    sw = st["switch"]
    if sw is not None:
        cases = clist(sw["cases"], lambda c: "{| cs_case := %s; cs_default := %s; cs_ref := %s |}" % (
            cs(c["case"]), cbool(c["default"]), c_ref(c["ref"])))
        swt = "(Some {| sw_on := %s; sw_cases := %s |})" % (c_field(sw["on"]), cases)
    else:
        swt = "None"
    fe = st["for_each"]
    if fe[0] == "none":
        fet = "FENone"
    elif fe[0] == "bad":
        fet = "FEBad"
    else:
        fet = f"(FEExpr {cnode2(fe[1])} {cbool(fe[2])})"
    return ("{| st_label := %s; st_ref := %s; st_switch := %s; st_skip_if := %s; st_for_each := %s; "
            "st_inputs := %s; st_state := %s |}" % (
                cs(st["label"]), copt(st["ref"], c_ref), swt, c_field(st["skip_if"]), fet,
                c_field(st["inputs"]), c_field(st["state"])))


def c_res(r) -> str:
    return cpair(cs(r[0]), cs(r[1]))


def c_wobs(o) -> str:
    if o[0] == "raised":
        return f"(WRaised {c_exn(o[1])})"
    steps = clist(o[2], lambda s: f"(SErr {cs(s[1])} {s[2]})" if s[0] == "err"
                  else f"(SStep {cs(s[1])} {clist(s[2], cs)})")
    return f"(WDone {o[1]} {steps} {clist(o[3], cs)} {clist(o[4], c_res)})"


# --------------------------------------------------------------------------------------------
# running the real code
# --------------------------------------------------------------------------------------------

_ENV = None


def cel_env():
    global _ENV
    if _ENV is None:
        import celpy
        from koreo.cel.functions import koreo_function_annotations
        _ENV = celpy.Environment(annotations=koreo_function_annotations)
        for n in ("Environment", "NameContainer", "Evaluator", "evaluation", "celtypes"):
            logging.getLogger(n).setLevel(logging.WARNING)
    return _ENV


def real_names(keys):
    """the names koreo.workflow.prepare derives from extracted keys, with ITS regexes"""
    from koreo.workflow import prepare as wp
    steps = {m.group("name") for m in (wp.STEPS_NAME_PATTERN.match(k) for k in keys) if m}
    parent = {m.group("name") for m in (wp.PARENT_NAME_PATTERN.match(k) for k in keys) if m}
    return steps, parent


def sort_opt(xs):
    return sorted(xs, key=lambda x: (x is not None, x or ""))


def run_extract(lark_tree):
    from koreo.cel.structure_extractor import extract_argument_structure
    try:
        keys = extract_argument_structure(lark_tree)
    except Exception as e:  # noqa: BLE001 - the class is the observation
        return ("raised", type(e).__name__), None, None
    keys = sorted(keys)
    s, p = real_names(keys)
    return ("done", keys), sort_opt(s), sorted(p)


def extract_case(ctx, t_real, from_parser, src=None):
    """run the real extractor on the (converted back) tree; returns (case dict, coq term)"""
    obs, steps, parent = run_extract(to_lark(t_real))
    case = {"kind": "extract", "src": src, "tree": t_real if src is None else None, "from_parser": from_parser}
    term = "CExtract %s %s %s %s %s" % (cnode2(t_real), cbool(from_parser), c_xobs(obs),
                                        clist(steps or [], c_ostr), clist(parent or [], cs))
    return case, term, obs, steps


# ---- oracle on one expression -------------------------------------------------------------

def oracle_expression(src, planted_names):
    """property text, directly: parse with the real parser, extract with the real extractor, derive names
    with the real regexes; every planted NAME must be there and nothing may raise."""
    from koreo.cel.structure_extractor import extract_argument_structure
    tree = cel_env().compile(src)
    try:
        keys = extract_argument_structure(tree)
    except Exception as e:  # noqa: BLE001
        return f"extract_argument_structure raises {type(e).__name__}", None
    names, _ = real_names(keys)
    missing = sorted(set(planted_names) - {n for n in names if n is not None})
    if missing:
        return "statically named step reference is not among the derived dependencies", missing
    return None, None


def shrink_expression(rng_seed, names, src, planted_names):
    """try to find a smaller expression of the same failure: single planted reference in small contexts"""
    contexts = ["{R}", "{R}.x", "f({R})", "x.f({R})", "[{R}]", "{'k': {R}}", "x[{R}]", "({R})", "!{R}",
                "a ? {R} : b", "a + {R}", "x.map(i, {R})", "has({R}.y)", "f(1).z + {R}", "x.f().y + {R}",
                "{R} + x.f().y", "[1, 2][0] + {R}", "{R}[0]", "{R}.f().y"]
    for name in planted_names:
        for form in ("steps.%s" % name, "steps['%s']" % name, 'steps["%s"]' % name):
            if form.startswith("steps.") and not (name[0].isalpha() or name[0] == "_"):
                continue
            for c in contexts:
                s = c.replace("{R}", form)
                try:
                    why, _ = oracle_expression(s, [name])
                except Exception:  # noqa: BLE001
                    continue
                if why:
                    return s, [name], why
    return src, planted_names, None


# --------------------------------------------------------------------------------------------
# damaged trees (not grammar trees): exception classes of the extractor
# --------------------------------------------------------------------------------------------

def relist(n):
    if n[0] == "T":
        return n
    return ["N", n[1], [relist(c) for c in n[2]]]


def untuple(n):
    if n[0] == "T":
        return tuple(n)
    return ("N", n[1], [untuple(c) for c in n[2]])


def damage(rng, t):
    """a copy of t with one random local damage (no longer a grammar tree); None when nothing was changed"""
    t = relist(t)
    sites = []

    def walk(n):
        if n[0] == "N":
            sites.append(n)
            for c in n[2]:
                walk(c)
    walk(t)
    interesting = [n for n in sites if n[1] in ("member_dot", "member_index", "member_dot_arg", "member", "primary",
                                                "ident", "literal", "expr", "unary")]
    if not interesting:
        return None
    n = rng.choice(interesting)
    k = rng.choice(["drop_first", "drop_last", "empty", "tok_first", "rename", "empty_tok", "dup_child", "tok_last",
                    "to_ident", "rename"])
    kids = n[2]
    if k == "drop_first" and kids:
        del kids[0]
    elif k == "drop_last" and kids:
        del kids[-1]
    elif k == "empty" and kids:
        del kids[:]
    elif k == "tok_first" and kids:
        kids[0] = T("IDENT", rng.choice(["zz", "steps"]))
    elif k == "tok_last" and kids:
        kids[-1] = T("IDENT", "zz")
    elif k == "empty_tok" and kids:
        kids[0] = T("IDENT", "")
    elif k == "dup_child" and kids:
        kids.append(copy.deepcopy(kids[-1]))
    elif k == "to_ident":
        n[1] = "ident"
    elif k == "rename":
        n[1] = rng.choice(["primary", "member_dot", "member_index", "member_dot_arg", "ident", "literal", "expr",
                           "bogus"])
    else:
        return None
    return untuple(t)


# --------------------------------------------------------------------------------------------
# workflows
# --------------------------------------------------------------------------------------------

KINDS = ["ValueFunction", "ResourceFunction", "Workflow"]
HEALTHY = {("ValueFunction", "vf-ok-a"), ("ValueFunction", "vf-ok-b"), ("ResourceFunction", "rf-ok"),
           ("Workflow", "wf-sub"), ("Workflow", "wf-unready")}
UNHEALTHY = {("ValueFunction", "vf-bad"), ("Workflow", "wf-bad")}
NAMES_BY_KIND = {
    "ValueFunction": ["vf-ok-a", "vf-ok-a", "vf-ok-b", "vf-ok-b", "vf-bad", "vf-missing", "rf-ok"],
    "ResourceFunction": ["rf-ok", "rf-ok", "rf-ok", "rf-missing", "vf-ok-a"],
    "Workflow": ["wf-sub", "wf-sub", "wf-bad", "wf-missing", "wf-unready"],
}
LABEL_POOL = ["config", "base_1", "Net", "db2", "_x9", "step_one", "a1b", "zz_top", "K8s", "svc", "n_2", "Q_q",
              "123", "9lives"]
_LOOP = None


def loop():
    global _LOOP
    if _LOOP is None:
        _LOOP = asyncio.new_event_loop()
    return _LOOP


def world_setup():
    """fill the real cache with the Logic the generated workflows refer to"""
    from koreo import cache
    from koreo.value_function.prepare import prepare_value_function
    from koreo.value_function.structure import ValueFunction
    from koreo.resource_function.prepare import prepare_resource_function
    from koreo.resource_function.structure import ResourceFunction
    from koreo.workflow.prepare import prepare_workflow
    from koreo.workflow.structure import Workflow
    from koreo.result import is_unwrapped_ok
    cache._reset_cache()

    def put(cls, prep, name, spec):
        return loop().run_until_complete(cache.prepare_and_cache(
            cls, prep, {"name": name, "resourceVersion": "1"}, spec))

    ok = []
    ok.append(put(ValueFunction, prepare_value_function, "vf-ok-a", {"return": {"v": "=inputs.a"}}))
    ok.append(put(ValueFunction, prepare_value_function, "vf-ok-b", {"return": {"v": 1}}))
    bad = [put(ValueFunction, prepare_value_function, "vf-bad", {"return": {"v": "=1 +"}})]
    ok.append(put(ResourceFunction, prepare_resource_function, "rf-ok", {
        "apiConfig": {"apiVersion": "v1", "kind": "ConfigMap", "name": "=inputs.name", "namespace": "default"},
        "resource": {"data": {"k": "=inputs.v"}}}))
    ok.append(put(Workflow, prepare_workflow, "wf-sub", {
        "steps": [{"label": "only", "ref": {"kind": "ValueFunction", "name": "vf-ok-b"},
                   "inputs": {"p": "=parent.sub_in"}}]}))
    # prepared (a Workflow tuple, so it loads as Logic) although its own steps are not ready
    ok.append(put(Workflow, prepare_workflow, "wf-unready", {
        "steps": [{"label": "only", "ref": {"kind": "ValueFunction", "name": "vf-never"}}]}))
    bad.append(put(Workflow, prepare_workflow, "wf-bad", {"steps": "nope"}))
    for o in ok:
        assert is_unwrapped_ok(o), f"world setup: expected a prepared resource, got {o!r}"
    for o in bad:
        assert not is_unwrapped_ok(o), f"world setup: expected a failure, got {o!r}"


def world_teardown():
    from koreo import cache
    try:
        cache._reset_cache()
        loop().run_until_complete(asyncio.sleep(0))
    except Exception:  # noqa: BLE001
        pass


def cache_status(kind, name):
    if (kind, name) in HEALTHY:
        return "CHealthy"
    if (kind, name) in UNHEALTHY:
        return "CUnhealthy"
    return "CMissing"


def gen_ref(rng, clean=False):
    kind = rng.choice(KINDS)
    if clean:
        return {"kind": kind, "name": NAMES_BY_KIND[kind][0]}
    name = rng.choice(NAMES_BY_KIND[kind]) if rng.random() > 0.04 else ""
    return {"kind": kind, "name": name}


def gen_expr_src(rng, names, p_plant, size):
    """(source, planted names)"""
    t, g = gen_expression(rng, names, p_plant=p_plant, max_nodes=size, must_plant=bool(names) and p_plant > 0)
    return to_source(t), [p[0] for p in g.planted], g


def gen_value(rng, mk, depth=0):
    k = rng.random()
    if k < 0.55 or depth > 1:
        return "=" + mk()
    if k < 0.7:
        return rng.choice([1, "static", True, None, 2.5, "", "12"])
    if k < 0.85:
        return {rng.choice(["k", "n", "deep"]) + str(j): gen_value(rng, mk, depth + 1)
                for j in range(rng.randint(1, 2))}
    return [gen_value(rng, mk, depth + 1) for _ in range(rng.randint(1, 2))]


def gen_workflow(rng, weird=False):
    """a Workflow spec (schema-valid) + what was planted where"""
    n = rng.choice([1, 2, 2, 3, 3, 4, 5, 6])
    labels = rng.sample(LABEL_POOL, n)
    if n >= 2 and rng.random() < 0.06:
        labels[rng.randrange(1, n)] = labels[0]                    # duplicate label
    if rng.random() < 0.03:
        labels[rng.randrange(n)] = "<missing label>"               # the sentinel _load_step uses for "no label"
    mode = rng.choice(["good", "good", "good", "later", "self", "unknown", "mixed"])
    clean = rng.random() < 0.45        # all Logic healthy, no injected syntax errors
    steps, planted = [], []
    for i in range(n):
        earlier = labels[:i]
        step_planted = []

        def targets():
            r = rng.random()
            if mode == "good" or r < 0.5:
                return earlier
            if mode == "later":
                return labels[i + 1:] or earlier
            if mode == "self":
                return [labels[i]]
            if mode == "unknown":
                return [rng.choice(["ghost", "nope_1", "Config", "config_", "base", "b"])]
            return rng.choice([earlier, labels[i + 1:], [labels[i]], ["ghost"]])

        def mk(where):
            def inner():
                tg = targets()
                if rng.random() < 0.25:
                    tg = []
                src, names, _ = gen_expr_src(rng, tg, 0.3, rng.choice([12, 40, 90]))
                step_planted.extend((nm, where) for nm in names)
                return src
            return inner

        st = {"label": labels[i]}
        if rng.random() < 0.8:
            st["ref"] = gen_ref(rng, clean)
        else:
            sw = {}
            r = rng.random()
            if r < 0.85 or clean:
                sw["switchOn"] = "=" + mk("switchOn")()
            elif r < 0.92:
                sw["switchOn"] = "=1 +"
            elif r < 0.96:
                sw["switchOn"] = ""
            if rng.random() < 0.95 or clean:
                cases = []
                for j in range(rng.randint(1, 3)):
                    c = gen_ref(rng, clean)
                    c["case"] = rng.choice(["a", "b", "c", "a"]) if not clean else "abc"[j]
                    if rng.random() < 0.3 and not (clean and any(x.get("default") for x in cases)):
                        c["default"] = True
                    cases.append(c)
                sw["cases"] = cases
            st["refSwitch"] = sw
        if rng.random() < 0.35:
            st["skipIf"] = "=" + mk("skipIf")() if (rng.random() > 0.05 or clean) else "=1 +"
        if rng.random() < 0.25:
            st["forEach"] = {"itemIn": ("=" + mk("forEach")()) if (rng.random() > 0.06 or clean) else rng.choice(["=1 +", ""]),
                             "inputKey": "item" if (rng.random() > 0.05 or clean) else ""}
        if rng.random() < 0.75:
            st["inputs"] = {rng.choice(["a", "b", "name", "cfg"]) + str(j): gen_value(rng, mk("inputs"))
                            for j in range(rng.randint(1, 3))}
            if rng.random() < 0.04 and not clean:
                st["inputs"]["broken"] = "=1 +"
        if rng.random() < 0.3:
            st["state"] = {rng.choice(["s", "t"]) + str(j): gen_value(rng, mk("state")) for j in range(rng.randint(1, 2))}
            if rng.random() < 0.05 and not clean:
                st["state"]["broken"] = "=)"
        if weird and i == n - 1:
            st.setdefault("inputs", {})["weird"] = "=" + rng.choice(
                ["stepsX.foo", "steps['.a']", "steps['[a']", "steps_.x", "steps1.y + 1", "has(stepsQ.z)"])
        steps.append(st)
        planted.append(step_planted)
    return {"steps": steps}, planted


def field_of(spec, is_map):
    """what prepare_expression / prepare_map_expression make of a field (run for real)"""
    import celpy
    from koreo.cel.prepare import prepare_expression, prepare_map_expression
    from koreo.result import PermFail
    f = prepare_map_expression if is_map else prepare_expression
    r = f(cel_env=cel_env(), spec=copy.deepcopy(spec), location="harness")
    if r is None:
        return ("none",)
    if isinstance(r, PermFail):
        return ("fail",)
    assert isinstance(r, celpy.Runner)
    return ("expr", from_lark(r.ast))


def model_steps(spec):
    out = []
    for st in spec["steps"]:
        ref = st.get("ref")
        sw = st.get("refSwitch")
        m = {"label": st["label"], "ref": None, "switch": None}
        if ref:
            m["ref"] = {"kind": ref["kind"], "name": ref["name"], "cache": cache_status(ref["kind"], ref["name"])}
        if sw:
            m["switch"] = {"on": field_of(sw.get("switchOn"), False),
                           "cases": [{"case": c["case"], "default": bool(c.get("default")),
                                      "ref": {"kind": c["kind"], "name": c["name"],
                                              "cache": cache_status(c["kind"], c["name"])}}
                                     for c in (sw.get("cases") or [])]}
        m["skip_if"] = field_of(st.get("skipIf"), False)
        fe = st.get("forEach")
        if not fe:
            m["for_each"] = ("none",)
        else:
            f = field_of(fe.get("itemIn"), False)
            m["for_each"] = ("bad",) if f[0] != "expr" else ("expr", f[1], bool(fe.get("inputKey")))
        m["inputs"] = field_of(st.get("inputs"), True)
        m["state"] = field_of(st.get("state"), True)
        out.append(m)
    return out


def oclass(o):
    from koreo import result
    if isinstance(o, result.PermFail):
        return "CPermFail"
    if isinstance(o, result.Retry):
        return "CRetry"
    if isinstance(o, result.Ok):
        return "COk"
    return "C" + type(o).__name__


def run_workflow(spec):
    """real prepare_workflow (+ the reconcile gate with a spy instead of the step runner)"""
    from koreo.workflow import prepare as wp, reconcile as wr, structure as ws
    from koreo import result
    from celpy import celtypes
    try:
        out = loop().run_until_complete(wp.prepare_workflow("wf-under-test", copy.deepcopy(spec)))
    except Exception as e:  # noqa: BLE001
        return ("raised", type(e).__name__), None, None
    if not result.is_unwrapped_ok(out):
        return ("rejected", oclass(out), getattr(out, "message", "")), None, None
    wf, watched = out
    steps = []
    for s in wf.steps:
        if isinstance(s, ws.ErrorStep):
            steps.append(("err", s.label, oclass(s.outcome)))
        else:
            steps.append(("step", s.label, sort_opt(s.dynamic_input_keys)))
    watched_l = sorted((r.resource_type.__name__, r.name) for r in watched)
    obs = ("done", oclass(wf.steps_ready), steps, sorted(wf.dynamic_input_keys), watched_l)

    started = []

    async def spy(api, workflow_key, step, trigger, dependencies, owner):
        started.append(step.label)
        return wr.StepResult(result=result.Skip(message="spy"))

    orig = wr._reconcile_step
    wr._reconcile_step = spy
    try:
        res = loop().run_until_complete(wr.reconcile_workflow(
            api=None, workflow_key="wf-under-test", owner=("o", celtypes.MapType({"uid": "u"})),
            trigger=celtypes.MapType({}), workflow=wf))
        gate = {"started": sorted(started),
                "result_class": oclass(res.result) if result.is_error(res.result) or result.is_skip(res.result)
                else "value"}
    except Exception as e:  # noqa: BLE001
        gate = {"started": sorted(started), "raised": type(e).__name__}
    finally:
        wr._reconcile_step = orig
    return obs, gate, wf


def named_logic(spec):
    """(kind, name) of every Logic the steps name, for steps whose own reference part is well formed
    (see notes: a step rejected for its own malformed ref/refSwitch or duplicate label is not required
    to be watched - fixing it needs a spec change, which re-prepares anyway)"""
    want = []
    seen = set()
    for st in spec["steps"]:
        dup = st["label"] in seen
        seen.add(st["label"])
        if dup:
            continue
        ref, sw = st.get("ref"), st.get("refSwitch")
        if ref and sw:
            continue
        if ref and ref.get("kind") in KINDS and ref.get("name"):
            want.append((ref["kind"], ref["name"]))
        if sw:
            on = sw.get("switchOn")
            if not on or field_of(on, False)[0] != "expr":
                continue
            cases = sw.get("cases") or []
            if sum(1 for c in cases if c.get("default")) > 1:
                continue
            for c in cases:
                if c.get("kind") in KINDS and c.get("name"):
                    want.append((c["kind"], c["name"]))
    return want


def nameless_step_keys(spec):
    """extracted keys (real extractor, real regex) of the steps' expressions for which the regex's
    group `name` is None"""
    from koreo.cel.structure_extractor import extract_argument_structure
    from koreo.workflow import prepare as wp
    out = []
    for st in spec["steps"]:
        fields = [(st.get("skipIf"), False), ((st.get("forEach") or {}).get("itemIn"), False),
                  (st.get("inputs"), True), (st.get("state"), True),
                  ((st.get("refSwitch") or {}).get("switchOn"), False)]
        for f, is_map in fields:
            if not f:
                continue
            try:
                fo = field_of(f, is_map)
                if fo[0] != "expr":
                    continue
                for k in extract_argument_structure(to_lark(fo[1])):
                    m = wp.STEPS_NAME_PATTERN.match(k)
                    if m and m.group("name") is None:
                        out.append(k)
            except Exception:  # noqa: BLE001
                continue
    return sorted(set(out))


def oracle_workflow(spec, planted, obs, gate):
    """property text on one workflow.  Returns (signature, what, detail) or None."""
    labels = [s["label"] for s in spec["steps"]]
    if obs[0] == "raised":
        nameless = nameless_step_keys(spec)
        if obs[1] == "TypeError" and nameless:
            return ("prepare_workflow raises TypeError: a key matches STEPS_NAME_PATTERN without a name",
                    f"prepare_workflow raised TypeError instead of returning; extracted keys {nameless} match "
                    "STEPS_NAME_PATTERN with group 'name' = None, which ', '.join() cannot format",
                    {"keys": nameless})
        return (f"prepare_workflow raises {obs[1]}", f"prepare_workflow raised {obs[1]} instead of returning", None)
    if obs[0] == "rejected":
        return None
    _, ready, steps, _parent, watched = obs
    distinct = len(set(labels)) == len(labels)
    if distinct and len(steps) == len(labels):
        for i, (st, pl) in enumerate(zip(steps, planted)):
            names = sorted({n for n, _ in pl})
            if st[0] == "step":
                missing = [n for n in names if n not in st[2]]
                if missing:
                    return ("step reference not recorded as dependency",
                            f"step {labels[i]!r} references steps {missing} statically but its dependencies are {st[2]}",
                            {"step": labels[i], "missing": missing, "where": sorted({w for n, w in pl if n in missing})})
                bad = [d for d in st[2] if d not in labels[:i]]
                if bad:
                    return ("prepared step depends on a label that is not an earlier step",
                            f"step {labels[i]!r} was prepared with dependencies {bad} which are not earlier steps", None)
            bad_planted = [n for n in names if n not in labels[:i]]
            if bad_planted and ready == "COk":
                kind = "its own label" if labels[i] in bad_planted else (
                    "a later label" if any(b in labels[i + 1:] for b in bad_planted) else "an unknown label")
                return (f"workflow naming {kind} is reported ready",
                        f"step {labels[i]!r} names {bad_planted} ({kind}) but steps_ready is Ok", None)
    if ready != "COk" and gate is not None:
        if gate.get("started"):
            return ("workflow that is not ready runs steps",
                    f"steps_ready is {ready} but reconcile_workflow started {gate['started']}", None)
        if gate.get("result_class") == "value":
            return ("workflow that is not ready reports Ok", f"steps_ready is {ready} but the result is Ok", None)
    missing_w = [r for r in named_logic(spec) if r not in [tuple(w) for w in watched]]
    if missing_w:
        return ("named Logic is not watched", f"Logic {missing_w} named by a step is not in the watch list {watched}",
                {"missing": missing_w})
    return None


# --------------------------------------------------------------------------------------------
# ResourceFunction / FunctionTest watch lists
# --------------------------------------------------------------------------------------------

def gen_rf(rng):
    ovs = []
    for _ in range(rng.randint(0, 4)):
        o = {}
        r = rng.random()
        if r < 0.2:
            o["skipIf"] = "=inputs.skip"
        elif r < 0.3:
            o["skipIf"] = "=1 +"
        if rng.random() < 0.45:
            o["overlay"] = rng.choice([{"data": {"k": "=inputs.v"}}, {"x": 1}, {"bad": "=1 +"}])
        else:
            o["overlayRef"] = {"kind": "ValueFunction", "name": rng.choice(["vf-ok-a", "vf-ok-b", "vf-bad", "vf-missing", "vf-late"])}
            if rng.random() < 0.6:
                o["inputs"] = {"a": rng.choice(["=inputs.q", 1, "=1 +"])}
        ovs.append(o)
    spec = {"apiConfig": {"apiVersion": "v1", "kind": "ConfigMap", "name": "=inputs.name", "namespace": "default"},
            "resource": {"data": {"k": "=inputs.v"}}}
    if ovs:
        spec["overlays"] = ovs
    rest_ok = True
    r = rng.random()
    if r < 0.1:
        spec["return"] = {"x": "=1 +"}
        rest_ok = False
    elif r < 0.2:
        spec["locals"] = {"x": "=)"}
        rest_ok = False
    elif r < 0.3:
        spec["postconditions"] = [{"assert": "=1 +", "permFail": {"message": "m"}}]
        rest_ok = False
    return spec, rest_ok


def run_rf(spec):
    from koreo.resource_function.prepare import prepare_resource_function
    from koreo.result import is_unwrapped_ok
    try:
        out = loop().run_until_complete(prepare_resource_function("rf-under-test", copy.deepcopy(spec)))
    except Exception as e:  # noqa: BLE001
        return ("raised", type(e).__name__)
    if not is_unwrapped_ok(out):
        return ("fail", oclass(out), getattr(out, "message", ""))
    _, watched = out
    return ("done", sorted(r.name for r in watched), sorted(r.resource_type.__name__ for r in watched))


def c_rf_case(spec, rest_ok, obs):
    def body(o):
        if "overlay" in o:
            return "OInline"
        if isinstance(o.get("overlayRef"), dict) and "name" in o["overlayRef"]:
            return f"(ORef {cs(o['overlayRef']['name'])})"
        return "OOther"

    def skip(o):
        f = field_of(o.get("skipIf"), False)
        return {"none": "FNone", "fail": "FFail", "expr": '(FExpr (Tok "" ""))'}[f[0]]   # the model ignores the tree
    ovs = clist(spec.get("overlays", []), lambda o: "{| ov_skip_if := %s; ov_body := %s |}" % (skip(o), body(o)))
    o = "None" if obs[0] != "done" else f"(Some {clist(obs[1], cs)})"
    return f"CRF {cbool(rest_ok)} {ovs} {o}"


def gen_ft(rng):
    kind = rng.choice(["ValueFunction", "ResourceFunction"])
    name = rng.choice(NAMES_BY_KIND[kind] + ["ft-missing"])
    cases_ok = rng.random() > 0.2
    inputs_ok = True
    case = {"expectOutcome": {"ok": {}}}
    if not cases_ok:
        case = rng.choice([{"expectOutcome": {"ok": {}}, "expectReturn": {"a": 1}}, {"label": "no assertion"}])
    spec = {"functionRef": {"kind": kind, "name": name}, "testCases": [case]}
    if rng.random() < 0.5:
        spec["inputs"] = {"a": 1, "name": "n", "v": "x"}
    return spec, kind, name, cases_ok, inputs_ok


def run_ft(spec):
    from koreo.function_test.prepare import prepare_function_test
    from koreo.result import is_unwrapped_ok
    try:
        out = loop().run_until_complete(prepare_function_test("ft-under-test", copy.deepcopy(spec)))
    except Exception as e:  # noqa: BLE001
        return ("raised", type(e).__name__)
    if not is_unwrapped_ok(out):
        return ("fail", oclass(out), getattr(out, "message", ""))
    _, watched = out
    return ("done", [(r.resource_type.__name__, r.name) for r in watched])


# --------------------------------------------------------------------------------------------
# the check
# --------------------------------------------------------------------------------------------

import re as _re

_TXT_DOT = _re.compile(r"(?<![\w.'\"])steps\s*\.\s*([A-Za-z_]\w*)")
_TXT_IDX = _re.compile(r"(?<![\w.'\"])steps\s*\[\s*(?:'(\w+)'|\"(\w+)\")\s*\]")


def textual_refs(src):
    """NAMEs of steps.NAME / steps['NAME'] / steps["NAME"] read off the text (hand-written corpus only)"""
    out = set(_TXT_DOT.findall(src))
    for a, b in _TXT_IDX.findall(src):
        out.add(a or b)
    return sorted(out)


def check_expression(ctx, src, planted, t_generated=None, gen=None, bucket="extract"):
    """one expression text: real parser -> (tree equality with the generator's tree) -> real extractor vs model,
    and the oracle.  Returns (case, term) or None."""
    try:
        real = from_lark(cel_env().compile(src))
    except Exception as e:  # noqa: BLE001
        if t_generated is not None:
            raise RuntimeError(f"generator printed text the real parser rejects: {src!r}: {e}")
        ctx.count(f"{bucket}:unparsable")
        return None
    if t_generated is not None and real != t_generated:
        ctx.mismatch("grammar model: generated tree differs from what the real parser builds from its text",
                     {"src": src})
    case, term, obs, steps = extract_case(ctx, real, True, src)
    case["planted"] = sorted(set(planted))
    why, detail = oracle_expression(src, planted)
    if why:
        small_src, small_names, why2 = shrink_expression(0, None, src, sorted(set(planted)))
        ctx.fail(Failure(signature=f"expression: {why}", what=why,
                         case={"kind": "extract", "src": small_src, "planted": small_names},
                         observed={"keys": obs[1] if obs[0] == "done" else obs, "derived_step_names": steps,
                                   "missing": detail if small_src == src else small_names}))
    depth = max([p[2] for p in gen.planted], default=0) if gen else 0
    ctx.note_case(case, nontrivial=bool(planted) and (depth > 3 or gen is None and len(src) > 12))
    ctx.count(f"{bucket}:planted:{min(len(planted), 4)}{'+' if len(planted) >= 4 else ''}")
    ctx.count(f"{bucket}:size:{min(tree_size(real) // 100, 5)}00+")
    if gen:
        for k in sorted(gen.kinds):
            ctx.count(f"{bucket}:has:{k}")
        for _, form, _ in gen.planted:
            ctx.count(f"{bucket}:form:{form}")
    if obs[0] == "raised":
        ctx.count(f"{bucket}:raised:{obs[1]}")
    return case, term


def check_workflow(ctx, spec, planted, bucket="workflow"):
    obs, gate, _wf = run_workflow(spec)
    case = {"kind": "workflow", "spec": spec, "planted": planted}
    if obs[0] == "rejected":
        ctx.count(f"{bucket}:schema-rejected")
        ctx.notes.append({"generator produced a workflow the schema rejects": obs[2][:200]}) if len(ctx.notes) < 3 else None
        return None
    bad = oracle_workflow(spec, planted, obs, gate)
    if bad:
        sig, what, detail = bad
        small = minimise_workflow(sig) or {"spec": spec, "planted": planted}
        ctx.fail(Failure(signature=f"workflow: {sig}", what=what,
                         case={"kind": "workflow", **small}, observed={"prepared": obs, "gate": gate, "detail": detail}))
    refs = sum(1 for pl in planted if pl)
    ctx.note_case(case, nontrivial=refs >= 1 and len(spec["steps"]) >= 2)
    ctx.count(f"{bucket}:steps:{len(spec['steps'])}")
    if obs[0] == "raised":
        ctx.count(f"{bucket}:raised:{obs[1]}")
        term = f"CWorkflow {clist(model_steps(spec), c_step)} {c_wobs(obs)} []"
    else:
        ctx.count(f"{bucket}:ready:{obs[1]}")
        for s in obs[2]:
            ctx.count(f"{bucket}:step:{'Step' if s[0] == 'step' else s[2]}")
        for pl in planted:
            for _, where in pl:
                ctx.count(f"{bucket}:ref-in:{where}")
        started = gate.get("started", []) if gate else []
        term = f"CWorkflow {clist(model_steps(spec), c_step)} {c_wobs(obs)} {clist(started, cs)}"
    return case, term


def minimise_workflow(sig):
    """look for a tiny workflow with the same oracle failure (templates: 3 steps, one reference)"""
    for spec, planted in small_scope(False):
        try:
            obs, gate, _ = run_workflow(spec)
            bad = oracle_workflow(spec, planted, obs, gate)
        except Exception:  # noqa: BLE001
            continue
        if bad and bad[0] == sig:
            return {"spec": spec, "planted": planted}
    # watch-list failures: one step naming a missing function
    for st in ({"label": "aaa", "ref": {"kind": "ValueFunction", "name": "vf-missing"}},
               {"label": "aaa", "refSwitch": {"switchOn": "=parent.k", "cases": [
                   {"case": "a", "kind": "ValueFunction", "name": "vf-missing"},
                   {"case": "b", "kind": "ValueFunction", "name": "vf-ok-b", "default": True}]}}):
        spec = {"steps": [st]}
        try:
            obs, gate, _ = run_workflow(spec)
            bad = oracle_workflow(spec, [[]], obs, gate)
        except Exception:  # noqa: BLE001
            continue
        if bad and bad[0] == sig:
            return {"spec": spec, "planted": [[]]}
    return None


SMALL_FIELDS = ["inputs", "skipIf", "forEach", "state", "switchOn"]
SMALL_FORMS = ["steps.%s", "steps['%s']", 'steps["%s"]']
SMALL_CONTEXTS = ["{R}", "{R}.x", "f({R})", "[{R}]", "x.map(i, {R}.y)", "x.f().y + {R}", "a ? b : {R}",
                  "{'k': {R}}", "x[{R}]", "({R})", "!{R}", "has({R}.y)", "{R}[0].z", "{R}.f().y", "T{a: {R}}",
                  "[1, 2][0] + {R}", "x.f(1, {R})", "-{R}", "a in {R}", "x[size(x) - 1] + {R}"]


def small_workflow(field, form, context, target):
    """three steps aaa, bbb, ccc; step bbb carries one reference to `target` in `field`"""
    e = "=" + context.replace("{R}", form % target)
    a = {"label": "aaa", "ref": {"kind": "ValueFunction", "name": "vf-ok-b"}}
    b = {"label": "bbb", "ref": {"kind": "ValueFunction", "name": "vf-ok-b"}}
    c = {"label": "ccc", "ref": {"kind": "ValueFunction", "name": "vf-ok-b"}}
    if field == "inputs":
        b["inputs"] = {"a": e}
    elif field == "skipIf":
        b["skipIf"] = e
    elif field == "forEach":
        b["forEach"] = {"itemIn": e, "inputKey": "item"}
    elif field == "state":
        b["state"] = {"s": e}
    else:
        del b["ref"]
        b["refSwitch"] = {"switchOn": e, "cases": [{"case": "a", "kind": "ValueFunction", "name": "vf-ok-b"}]}
    return {"steps": [a, b, c]}, [[], [(target, field)], []]


def small_scope(full):
    contexts = SMALL_CONTEXTS if full else SMALL_CONTEXTS[:8]
    for field in SMALL_FIELDS:
        for form in SMALL_FORMS:
            for context in contexts:
                for target in ("aaa", "bbb", "ccc", "ghost"):
                    yield small_workflow(field, form, context, target)


EVAL_CONTEXTS = ["{R}.v", "[{R}.v][0]", "{'k': {R}.v}.k", "has({R}.v) ? {R}.v : 0", "[1, 2].map(i, i + {R}.v)[0] - 1",
                 "(true || false) ? {R}.v : 0", "int({R}.v)", "[{R}].map(s, s.v)[0]", "{R}.v + 0", "-(-{R}.v)",
                 "{R}['v']", "size([{R}])"]


def check_end_to_end(ctx, form, context):
    """run a real two-step workflow whose second step's input is computed from the first step's value:
    the reference is a recorded dependency iff the `steps` map holds the value at evaluation time"""
    from koreo.workflow import prepare as wp, reconcile as wr
    from koreo import result
    from celpy import celtypes
    e = "=" + context.replace("{R}", form % "aaa")
    spec = {"steps": [{"label": "aaa", "ref": {"kind": "ValueFunction", "name": "vf-ok-b"}},
                      {"label": "bbb", "ref": {"kind": "ValueFunction", "name": "vf-ok-a"}, "inputs": {"a": e}}]}
    case = {"kind": "e2e", "spec": spec}
    try:
        out = loop().run_until_complete(wp.prepare_workflow("wf-e2e", copy.deepcopy(spec)))
        wf, _ = out
        res = loop().run_until_complete(wr.reconcile_workflow(
            api=None, workflow_key="wf-e2e", owner=("o", celtypes.MapType({"uid": "u"})),
            trigger=celtypes.MapType({}), workflow=wf))
    except Exception as ex:  # noqa: BLE001
        ctx.fail(Failure(signature=f"e2e: raises {type(ex).__name__}", what=f"{ex!r}", case=case))
        return
    ok = result.is_unwrapped_ok(res.result)
    ctx.note_case(case, nontrivial=True)
    ctx.count("e2e:" + ("ok" if ok else oclass(res.result)))
    if not ok:
        ctx.fail(Failure(signature="e2e: a step whose input references an earlier (Ok) step statically fails at run time",
                         what=f"step bbb computes its input from steps.aaa ({e}) but the workflow result is {res.result}",
                         case=case, observed=str(res.result)))


def check_rf(ctx, spec, rest_ok):
    obs = run_rf(spec)
    case = {"kind": "rf", "spec": spec, "rest_ok": rest_ok}
    if obs[0] == "raised":
        ctx.fail(Failure(signature=f"rf: prepare_resource_function raises {obs[1]}", what="prepare raised", case=case))
        return None
    # oracle: every overlayRef function is watched whenever a prepared function (with a watch list) is returned
    if obs[0] == "done":
        want = sorted({o["overlayRef"]["name"] for o in spec.get("overlays", [])
                       if "overlayRef" in o and "overlay" not in o and field_of(o.get("skipIf"), False)[0] != "fail"})
        missing = [n for n in want if n not in obs[1]]
        if missing or any(k != "ValueFunction" for k in obs[2]):
            ctx.fail(Failure(signature="rf: overlayRef function is not watched",
                             what=f"overlayRef functions {missing} are not in the watch list {obs[1]}",
                             case=case, observed=obs))
    ctx.note_case(case, nontrivial=len(spec.get("overlays", [])) >= 2)
    ctx.count(f"rf:{obs[0]}")
    ctx.count(f"rf:overlays:{len(spec.get('overlays', []))}")
    return case, c_rf_case(spec, rest_ok, obs)


def check_ft(ctx, spec, kind, name, cases_ok, inputs_ok):
    obs = run_ft(spec)
    case = {"kind": "ft", "spec": spec, "fn": [kind, name], "cases_ok": cases_ok, "inputs_ok": inputs_ok}
    if obs[0] == "raised":
        ctx.fail(Failure(signature=f"ft: prepare_function_test raises {obs[1]}", what="prepare raised", case=case))
        return None
    if obs[0] == "done" and (kind, name) not in obs[1]:
        ctx.fail(Failure(signature="ft: function under test is not watched",
                         what=f"function under test {(kind, name)} is not in the watch list {obs[1]}",
                         case=case, observed=obs))
    ctx.note_case(case, nontrivial=True)
    ctx.count(f"ft:{obs[0]}:{cache_status(kind, name)}")
    o = "None" if obs[0] != "done" or not obs[1] else f"(Some {c_res(obs[1][0])})"
    return case, f"CFT {cs(kind)} {cs(name)} {cbool(cases_ok)} {cbool(inputs_ok)} {o}"


# --------------------------------------------------------------------------------------------
# end-to-end watch stream: the reported watch list, CONSUMED by the real cache / registry
# --------------------------------------------------------------------------------------------

W_SPECS = {   # the resources a definition can name: (kind, name) -> spec (version n is patched in)
    ("ValueFunction", "w-fn-a"): lambda n: {"return": {"v": n}},
    ("ValueFunction", "w-fn-b"): lambda n: {"return": {"v": n, "b": True}},
    ("ValueFunction", "w-fn-c"): lambda n: {"return": {"c": n}},
    ("ResourceFunction", "w-rf"): lambda n: {
        "apiConfig": {"apiVersion": "v1", "kind": "ConfigMap", "name": "=inputs.name", "namespace": "default"},
        "resource": {"data": {"k": f"v{n}"}}},
    ("Workflow", "w-sub"): lambda n: {
        "steps": [{"label": "only", "ref": {"kind": "ValueFunction", "name": "w-fn-c"}, "inputs": {"n": n}}]},
}

W_DEFINITIONS = {   # name -> (kind of the definition, spec, the resources it names)
    "wf-ref": ("Workflow", {"steps": [{"label": "one", "ref": {"kind": "ValueFunction", "name": "w-fn-a"}}]},
               [("ValueFunction", "w-fn-a")]),
    "wf-two": ("Workflow", {"steps": [
        {"label": "one", "ref": {"kind": "ValueFunction", "name": "w-fn-a"}},
        {"label": "two", "ref": {"kind": "ResourceFunction", "name": "w-rf"}, "inputs": {"name": "=steps.one.v"}}]},
        [("ValueFunction", "w-fn-a"), ("ResourceFunction", "w-rf")]),
    "wf-switch": ("Workflow", {"steps": [{"label": "switch", "refSwitch": {"switchOn": "=parent.kind", "cases": [
        {"case": "a", "kind": "ValueFunction", "name": "w-fn-a"},
        {"case": "b", "kind": "ValueFunction", "name": "w-fn-b", "default": True},
        {"case": "r", "kind": "ResourceFunction", "name": "w-rf"}]}}]},
        [("ValueFunction", "w-fn-a"), ("ValueFunction", "w-fn-b"), ("ResourceFunction", "w-rf")]),
    "wf-sub": ("Workflow", {"steps": [{"label": "sub", "ref": {"kind": "Workflow", "name": "w-sub"}}]},
               [("Workflow", "w-sub")]),
    "rf-one": ("ResourceFunction", {
        "apiConfig": {"apiVersion": "v1", "kind": "ConfigMap", "name": "=inputs.name", "namespace": "default"},
        "resource": {"data": {"base": "yes"}},
        "overlays": [{"overlayRef": {"kind": "ValueFunction", "name": "w-fn-a"}}]},
        [("ValueFunction", "w-fn-a")]),
    "rf-two": ("ResourceFunction", {
        "apiConfig": {"apiVersion": "v1", "kind": "ConfigMap", "name": "=inputs.name", "namespace": "default"},
        "resource": {"data": {"base": "yes"}},
        "overlays": [{"overlay": {"data": {"inline": "yes"}}},
                     {"overlayRef": {"kind": "ValueFunction", "name": "w-fn-a"}, "skipIf": "=inputs.skip"},
                     {"overlayRef": {"kind": "ValueFunction", "name": "w-fn-b"}}]},
        [("ValueFunction", "w-fn-a"), ("ValueFunction", "w-fn-b")]),
    "ft-vf": ("FunctionTest", {"functionRef": {"kind": "ValueFunction", "name": "w-fn-a"},
                               "testCases": [{"expectOutcome": {"ok": {}}}]},
              [("ValueFunction", "w-fn-a")]),
    "ft-rf": ("FunctionTest", {"functionRef": {"kind": "ResourceFunction", "name": "w-rf"}, "inputs": {"name": "n"},
                               "testCases": [{"expectOutcome": {"ok": {}}}]},
              [("ResourceFunction", "w-rf")]),
}


def _classes():
    from koreo.value_function.prepare import prepare_value_function
    from koreo.value_function.structure import ValueFunction
    from koreo.resource_function.prepare import prepare_resource_function
    from koreo.resource_function.structure import ResourceFunction
    from koreo.workflow.prepare import prepare_workflow
    from koreo.workflow.structure import Workflow
    from koreo.function_test.prepare import prepare_function_test
    from koreo.function_test.structure import FunctionTest
    return {"ValueFunction": (ValueFunction, prepare_value_function),
            "ResourceFunction": (ResourceFunction, prepare_resource_function),
            "Workflow": (Workflow, prepare_workflow),
            "FunctionTest": (FunctionTest, prepare_function_test)}


async def _settle(n=12):
    for _ in range(n):
        await asyncio.sleep(0)


async def _reset_world():
    """empty cache + registry, inside the loop, letting cancelled re-preparers finish first"""
    from koreo import cache
    cache._reset_cache()
    await _settle(6)
    cache._REPREPARE_TASKS.clear()
    cache._PREPARE_TIMES.clear()
    cache._reset_cache()


async def _watch_scenario(defn, initial, events):
    """drive the real cache.  Returns a list of problems (dicts); empty = the property held."""
    from koreo import cache, registry
    cls = _classes()
    kind, spec, named = W_DEFINITIONS[defn]
    dcls, dprep = cls[kind]
    dres = registry.Resource(resource_type=dcls, name="w-definition")
    runs = {"n": 0, "watched": None}
    versions = {}
    problems = []

    async def counting_preparer(cache_key, spec_):
        runs["n"] += 1
        out = await dprep(cache_key, spec_)
        try:
            _, watched = out
            runs["watched"] = sorted((r.resource_type.__name__, r.name) for r in (watched or ()))
        except TypeError:
            runs["watched"] = None
        return out

    async def offer(res):
        rcls, rprep = cls[res[0]]
        versions[res] = versions.get(res, 0) + 1
        await cache.prepare_and_cache(rcls, rprep, {"name": res[1], "resourceVersion": str(versions[res])},
                                      W_SPECS[res](versions[res]))

    async def delete(res):
        await cache.delete_from_cache(resource_class=cls[res[0]][0], cache_key=res[1])

    dver = {"n": 0}

    async def offer_definition():
        dver["n"] += 1
        await cache.prepare_and_cache(dcls, counting_preparer, {"name": "w-definition",
                                                                "resourceVersion": str(dver["n"])},
                                      copy.deepcopy(spec))

    def subscriptions():
        subs = registry._SUBSCRIBER_RESOURCES.get(dres, set())
        return sorted((r.resource_type.__name__, r.name) for r in subs)

    def check_subscriptions(stage):
        subs = subscriptions()
        missing = [list(r) for r in named if tuple(r) not in [tuple(x) for x in subs]]
        if missing:
            problems.append({"stage": stage, "problem": "named resource is not subscribed to in the registry",
                             "missing": missing, "subscriptions": subs, "preparer_reported": runs["watched"]})

    await _reset_world()
    for res in initial:
        await offer(tuple(res))
    await offer_definition()
    await _settle()
    check_subscriptions("after the first prepare")
    cached = {tuple(r) for r in initial}
    for i, ev in enumerate(events):
        op, res = ev[0], tuple(ev[1]) if len(ev) > 1 and ev[1] else None
        stage = f"event {i}: {op} {res[1] if res else ''}".strip()
        before = runs["n"]
        if op == "redefine":              # delete the definition and offer it again back-to-back
            await cache.delete_from_cache(resource_class=dcls, cache_key="w-definition")
            await offer_definition()
            await _settle()
            if runs["n"] <= before:
                problems.append({"stage": stage, "problem": "re-offered definition was not prepared"})
            check_subscriptions(stage)
            continue
        if op in ("appear", "change"):
            if op == "appear" and res in cached or op == "change" and res not in cached:
                continue
            await offer(res)
            cached.add(res)
        elif op == "disappear":
            if res not in cached:
                continue
            await delete(res)
            cached.discard(res)
        await _settle()
        if runs["n"] <= before:
            problems.append({"stage": stage,
                             "problem": f"definition was not prepared again after a named resource did {op}",
                             "subscriptions": subscriptions()})
        check_subscriptions(stage)
    await _reset_world()
    return problems


def run_watch(defn, initial, events):
    return loop().run_until_complete(_watch_scenario(defn, initial, events))


def watch_signature(defn, problems):
    kind = W_DEFINITIONS[defn][0]
    p = problems[0]["problem"]
    p = "named resource is not subscribed" if p.startswith("named resource") else (
        "not prepared again when a named resource appears/changes/disappears" if "prepared again" in p else p)
    return f"watch: {kind}: {p}"


def check_watch(ctx, defn, initial, events):
    case = {"kind": "watch", "definition": defn, "initial": [list(r) for r in initial],
            "events": [[e[0], list(e[1]) if len(e) > 1 and e[1] else None] for e in events]}
    try:
        problems = run_watch(defn, initial, events)
    except Exception as e:  # noqa: BLE001
        ctx.fail(Failure(signature=f"watch: {W_DEFINITIONS[defn][0]}: raises {type(e).__name__}", what=repr(e), case=case))
        return
    ctx.note_case(case, nontrivial=len(events) >= 2)
    ctx.count(f"watch:{W_DEFINITIONS[defn][0]}")
    for e in events:
        ctx.count(f"watch:event:{e[0]}")
    if problems:
        sig = watch_signature(defn, problems)

        def still(evs):
            try:
                ps = run_watch(defn, initial, evs)
            except Exception:  # noqa: BLE001
                return False
            return bool(ps) and watch_signature(defn, ps) == sig
        small = shrink_list(list(events), still)
        small_problems = run_watch(defn, initial, small)
        ctx.fail(Failure(signature=sig, what=f"{defn}: {small_problems[0]['stage']}: {small_problems[0]['problem']}",
                         case={**case, "events": [[e[0], list(e[1]) if len(e) > 1 and e[1] else None] for e in small]},
                         observed=small_problems[:4],
                         expected="every named resource subscribed; preparer runs again after each event"))


def watch_cases(rng, n_random):
    """fixed scripts for every definition, then random ones"""
    for defn, (_, _, named) in W_DEFINITIONS.items():
        first = named[0]
        # nothing cached yet: appear, change, disappear, appear again; then the same after delete + re-offer
        script = [("appear", r) for r in named] + [("change", first), ("disappear", first), ("appear", first)]
        yield defn, [], script
        yield defn, [], [("redefine", None)] + script
        # everything cached first
        yield defn, list(named), [("change", r) for r in named] + [("redefine", None)] + \
            [("change", first), ("disappear", first), ("appear", first)]
    defs = list(W_DEFINITIONS)
    for _ in range(n_random):
        defn = rng.choice(defs)
        named = W_DEFINITIONS[defn][2]
        initial = [r for r in named if rng.random() < 0.5]
        events = []
        for _ in range(rng.randint(2, 7)):
            if rng.random() < 0.2:
                events.append(("redefine", None))
            else:
                events.append((rng.choice(["appear", "change", "disappear", "change", "appear"]), rng.choice(named)))
        yield defn, initial, events


# ---- reference GRAPHS through the real cache: diamonds, shared leaves at several depths -------------

def graph_spec(node, nodes_by_name, version):
    """a schema-valid spec of node's kind naming exactly node['refs']"""
    kind, refs = node["kind"], node["refs"]
    if kind == "ValueFunction":
        return {"return": {"v": version, "who": node["name"]}}
    if kind == "ResourceFunction":
        spec = {"apiConfig": {"apiVersion": "v1", "kind": "ConfigMap", "name": "=inputs.name", "namespace": "default"},
                "resource": {"data": {"k": f"v{version}"}}}
        if refs:
            spec["overlays"] = [{"overlayRef": {"kind": "ValueFunction", "name": r}} for r in refs]
        return spec
    if kind == "Workflow":
        steps = []
        rs = list(refs)
        if node.get("switch") and len(rs) >= 2:
            cases = [{"case": f"c{i}", "kind": nodes_by_name[r]["kind"], "name": r} for i, r in enumerate(rs[:-1])]
            cases[0]["default"] = True
            steps.append({"label": "switch", "refSwitch": {"switchOn": "=parent.kind", "cases": cases}})
            rs = rs[-1:]
        for i, r in enumerate(rs):
            steps.append({"label": f"step{i}", "ref": {"kind": nodes_by_name[r]["kind"], "name": r},
                          "inputs": {"n": version}})
        return {"steps": steps}
    if kind == "FunctionTest":
        r = refs[0]
        return {"functionRef": {"kind": nodes_by_name[r]["kind"], "name": r},
                "testCases": [{"expectOutcome": {"ok": {}}}]}
    raise ValueError(kind)


def hand_graphs():
    V, R, W, F = "ValueFunction", "ResourceFunction", "Workflow", "FunctionTest"

    def g(*nodes):
        return [{"name": n, "kind": k, "refs": list(refs)} for n, k, refs in nodes]
    return [
        # the diamond: outer uses inner and shared, inner uses shared
        g(("shared", V, []), ("inner", W, ["shared"]), ("outer", W, ["inner", "shared"])),
        # shared leaf at depths 1, 2 and 3
        g(("leaf", V, []), ("low", W, ["leaf"]), ("mid", W, ["low", "leaf"]), ("top", W, ["mid", "low", "leaf"])),
        # two paths of different length through different kinds, a test on top
        g(("leaf", V, []), ("res", R, ["leaf"]), ("wf-a", W, ["res"]), ("wf-b", W, ["wf-a", "leaf", "res"]),
          ("test", F, ["res"])),
        # double diamond
        g(("x", V, []), ("y", V, []), ("p", W, ["x", "y"]), ("q", W, ["x", "y"]), ("top", W, ["p", "q", "x"])),
        # chain and tree (controls)
        g(("a", V, []), ("b", W, ["a"]), ("c", W, ["b"]), ("d", W, ["c"])),
        g(("a", V, []), ("b", V, []), ("r", R, ["a", "b"]), ("t", F, ["r"]), ("w", W, ["r"])),
    ]


def random_graph(rng):
    n = rng.randint(3, 7)
    nodes = []
    for i in range(n):
        lower = nodes[:]
        vfs = [m["name"] for m in lower if m["kind"] == "ValueFunction"]
        fns = [m["name"] for m in lower if m["kind"] in ("ValueFunction", "ResourceFunction")]
        logic = [m["name"] for m in lower if m["kind"] != "FunctionTest"]
        kind = rng.choice(["ValueFunction", "ResourceFunction", "Workflow", "Workflow", "Workflow", "FunctionTest"])
        if kind == "Workflow" and not logic or kind == "FunctionTest" and not fns:
            kind = "ValueFunction"
        if kind == "ValueFunction":
            refs = []
        elif kind == "ResourceFunction":
            refs = [v for v in vfs if rng.random() < 0.6][:3]
        elif kind == "Workflow":
            refs = [m for m in logic if rng.random() < 0.65][:5] or [rng.choice(logic)]
        else:
            refs = [rng.choice(fns)]
        nodes.append({"name": f"g{i}", "kind": kind, "refs": refs, "switch": rng.random() < 0.3})
    return nodes


async def _graph_scenario(nodes, order, events):
    from koreo import cache, registry
    cls = _classes()
    by_name = {n["name"]: n for n in nodes}
    runs = {n["name"]: 0 for n in nodes}
    versions = {n["name"]: 0 for n in nodes}
    cached = set()
    problems = []

    def res(name):
        return registry.Resource(resource_type=cls[by_name[name]["kind"]][0], name=name)

    def preparer(name):
        real = cls[by_name[name]["kind"]][1]

        async def counting(cache_key, spec_):
            runs[name] += 1
            return await real(cache_key, spec_)
        return counting
    preparers = {n["name"]: preparer(n["name"]) for n in nodes}

    async def offer(name):
        versions[name] += 1
        node = by_name[name]
        await cache.prepare_and_cache(cls[node["kind"]][0], preparers[name],
                                      {"name": name, "resourceVersion": str(versions[name])},
                                      graph_spec(node, by_name, versions[name]))
        cached.add(name)

    async def delete(name):
        await cache.delete_from_cache(resource_class=cls[by_name[name]["kind"]][0], cache_key=name)
        cached.discard(name)

    def dependents(name):
        """cached definitions that name `name` directly or through cached definitions"""
        out, todo = set(), [name]
        while todo:
            x = todo.pop()
            for n in nodes:
                if x in n["refs"] and n["name"] in cached and n["name"] not in out:
                    out.add(n["name"])
                    todo.append(n["name"])
        return out

    def check_subscriptions(stage):
        for n in nodes:
            if n["name"] not in cached or not n["refs"]:
                continue
            subs = registry._SUBSCRIBER_RESOURCES.get(res(n["name"]), set())
            missing = sorted(r for r in n["refs"] if res(r) not in subs)
            if missing:
                problems.append({"stage": stage, "problem": "named resource is not subscribed to in the registry",
                                 "definition": n["name"], "missing": missing, "subscriptions": sorted(x.name for x in subs)})

    await _reset_world()
    try:
        for name in order:
            await offer(name)
            await _settle(8)
        await _settle(40)
        check_subscriptions("after the offers")
        for i, (op, name) in enumerate(events):
            stage = f"event {i}: {op} {name}"
            if op in ("change", "redefine") and name not in cached or op == "appear" and name in cached \
                    or op == "disappear" and name not in cached:
                continue
            before = dict(runs)
            if op in ("appear", "change"):
                await offer(name)
            elif op == "disappear":
                await delete(name)
            else:
                await delete(name)
                await offer(name)
            await _settle(40)
            stale = sorted(d for d in dependents(name) if runs[d] <= before[d])
            if stale:
                problems.append({"stage": stage, "definition": stale[0], "not_prepared_again": stale,
                                 "problem": f"definition was not prepared again after a (transitively) named resource did {op}"})
            check_subscriptions(stage)
    finally:
        await _reset_world()
    return problems


def run_graph(nodes, order, events):
    return loop().run_until_complete(_graph_scenario(nodes, order, events))


def graph_signature(problems):
    p = problems[0]["problem"]
    return "watch-graph: " + ("named resource is not subscribed" if p.startswith("named resource")
                              else "dependent not prepared again when a named resource appears/changes/disappears")


def graph_shape(nodes):
    """'diamond' when some resource is reachable from a definition along two different paths"""
    by = {n["name"]: n for n in nodes}

    def paths(a, b):
        if a == b:
            return 1
        return sum(paths(r, b) for r in by[a]["refs"])
    for a in nodes:
        for b in nodes:
            if a is not b and paths(a["name"], b["name"]) >= 2:
                return "diamond"
    return "tree"


def check_graph(ctx, nodes, order, events):
    case = {"kind": "watchgraph", "nodes": nodes, "order": list(order), "events": [list(e) for e in events]}
    ctx.count(f"watch-graph:{graph_shape(nodes)}")
    try:
        problems = run_graph(nodes, order, events)
    except Exception as e:  # noqa: BLE001
        sig = f"watch-graph: cache raises {type(e).__name__}"

        def still_raises(evs):
            try:
                run_graph(nodes, order, evs)
            except Exception as e2:  # noqa: BLE001
                return type(e2) is type(e)
            return False
        small = shrink_list(list(events), still_raises)
        ctx.fail(Failure(signature=sig, what=f"offering / changing / deleting definitions of an acyclic reference graph "
                                             f"raised {e!r}",
                         case={**case, "events": [list(x) for x in small]}))
        return
    ctx.note_case(case, nontrivial=True)
    for e in events:
        ctx.count(f"watch-graph:event:{e[0]}")
    if problems:
        sig = graph_signature(problems)

        def still(evs):
            try:
                ps = run_graph(nodes, order, evs)
            except Exception:  # noqa: BLE001
                return False
            return bool(ps) and graph_signature(ps) == sig
        small = shrink_list(list(events), still)
        sp = run_graph(nodes, order, small)
        ctx.fail(Failure(signature=sig, what=f"{sp[0]['stage']}: {sp[0].get('definition')}: {sp[0]['problem']}",
                         case={**case, "events": [list(x) for x in small]}, observed=sp[:4],
                         expected="every named resource subscribed; every cached transitive dependent prepared again"))


def graph_cases(rng, n_random):
    for nodes in hand_graphs():
        names = [n["name"] for n in nodes]
        leaf = names[0]
        script = [("change", leaf), ("disappear", leaf), ("appear", leaf), ("change", names[1]),
                  ("redefine", names[-1]), ("change", leaf), ("redefine", names[1]), ("change", leaf)]
        yield nodes, names, script                                   # dependency order
        yield nodes, names[::-1], script                              # dependents first
        yield nodes, names[1:] + names[:1], script                    # shared leaf last
    for _ in range(n_random):
        nodes = random_graph(rng)
        names = [n["name"] for n in nodes]
        order = rng.choice([names, names[::-1], rng.sample(names, len(names))])
        events = [(rng.choice(["change", "change", "disappear", "appear", "redefine"]), rng.choice(names))
                  for _ in range(rng.randint(2, 8))]
        yield nodes, order, events


REGEX_HEADS = ["steps", "steps.", "stepsX", "steps_", "step", "Steps.", "xsteps.", "steps\n", "stepsé", "steps[",
               "parent", "parent.", "parentX", "parents.", "paren", "parent\n", "parenté", "inputs.", ""]
REGEX_ALPHA = list("ab_1") + [".", ".", "[", "]", "\n", "é", "'", " ", "-", "x"]


def check_regex(ctx, key):
    from koreo.workflow import prepare as wp
    m = wp.STEPS_NAME_PATTERN.match(key)
    p = wp.PARENT_NAME_PATTERN.match(key)
    s = None if not m else (m.group("name"),)
    pn = None if not p else p.group("name")
    ctx.note_case({"kind": "regex", "key": key}, nontrivial=bool(m or p))
    ctx.count("regex:" + ("steps-none-name" if (m and m.group("name") is None) else "steps" if m else "parent" if p else "nomatch"))
    st = "None" if s is None else f"(Some {c_ostr(s[0])})"
    return {"kind": "regex", "key": key}, f"CRegex {cs(key)} {st} {c_ostr(pn)}"


def correspond(ctx, name, cases, terms, check_fn="check_case"):
    """ctx.correspond with smaller shards and at most 4 coqc processes at a time (the trees make the generated
    files large; 16 parallel shards were killed for memory on the shared machine)"""
    import time
    import common
    t0 = time.time()
    bad, err = common.eval_cases("Corr_C14", terms, ctx.workdir / "coq", check_fn=check_fn, shard=250, jobs=4)
    ctx.traces += len(terms) if not err else 0
    ctx.count(f"corr:{name}:cases", len(terms))
    ctx.dist[f"corr:{name}:secs"] = round(time.time() - t0, 1)
    if err:
        ctx.corr_errors.append(f"{name}: {err}")
    for i in sorted(bad):
        ctx.mismatch(name, cases[i])
    return bad


def run(ctx: Ctx):
    rng = ctx.rng
    q = ctx.quick()
    world_setup()
    try:
        ex_cases, ex_terms = [], []
        wf_cases, wf_terms = [], []
        misc_cases, misc_terms = [], []

        def add(lst_c, lst_t, r):
            if r:
                lst_c.append(r[0])
                lst_t.append(r[1])

        # -- corpus first
        corpus_watch = []
        corpus_graph = []
        for c in corpus_cases("C14"):
            c = c.get("case", c)
            if c.get("kind") == "extract" and c.get("src") is not None:
                add(ex_cases, ex_terms, check_expression(ctx, c["src"], c.get("planted", []), bucket="corpus"))
            elif c.get("kind") == "workflow":
                add(wf_cases, wf_terms, check_workflow(ctx, c["spec"], [[tuple(x) for x in pl] for pl in c["planted"]],
                                                       bucket="corpus-wf"))
            elif c.get("kind") == "watch":
                corpus_watch.append(c)
            elif c.get("kind") == "watchgraph":
                corpus_graph.append(c)
        # -- hand-written expressions (every grammar rule); names read off the text
        for src in HAND_CORPUS:
            add(ex_cases, ex_terms, check_expression(ctx, src, textual_refs(src), bucket="hand"))
        for context in SMALL_CONTEXTS:                          # every context x every written form
            for form in SMALL_FORMS:
                for name in ("aaa", "b_1", "X9"):
                    add(ex_cases, ex_terms, check_expression(
                        ctx, context.replace("{R}", form % name), [name],
                        bucket="context"))

        # -- generated expressions
        n_expr = 900 if q else 8000
        name_pool = LABEL_POOL + ["a", "B", "_", "x_y_z", "steps", "parent", "T" * 45]
        for i in range(n_expr):
            names = rng.sample(name_pool, rng.randint(1, 3))
            size = rng.choice([20, 60, 120, 260] if q else [20, 60, 120, 260, 500])
            t, g = gen_expression(rng, names, p_plant=rng.choice([0.0, 0.1, 0.2, 0.35]), max_nodes=size)
            add(ex_cases, ex_terms, check_expression(ctx, to_source(t), [p[0] for p in g.planted], t, g))

        # -- damaged trees
        dm_cases, dm_terms = [], []
        n_dmg = 350 if q else 3000
        tries = 0
        while len(dm_cases) < n_dmg and tries < n_dmg * 4:
            tries += 1
            t, g = gen_expression(rng, ["aaa"], p_plant=0.2, max_nodes=rng.choice([15, 40, 80]))
            d = damage(rng, t)
            if d is None or d == t:
                continue
            case, term, obs, _ = extract_case(ctx, d, False)
            # the model does not render f"{Tree}": skip the cases in which the real code did so successfully
            dm_cases.append(case)
            dm_terms.append(term)
            ctx.note_case(case, nontrivial=obs[0] == "raised")
            ctx.count("damaged:" + (obs[1] if obs[0] == "raised" else "returns"))

        # -- regexes
        rx_cases, rx_terms = [], []
        for i in range(500 if q else 5000):
            key = rng.choice(REGEX_HEADS) + "".join(rng.choice(REGEX_ALPHA) for _ in range(rng.randint(0, 7)))
            c, t = check_regex(ctx, key)
            rx_cases.append(c)
            rx_terms.append(t)

        # -- workflows
        for spec, planted in small_scope(full=not q):          # exhaustive small scope
            add(wf_cases, wf_terms, check_workflow(ctx, spec, planted, bucket="small"))
        for form in SMALL_FORMS:
            for context in EVAL_CONTEXTS:
                check_end_to_end(ctx, form, context)
        for i in range(240 if q else 2000):
            spec, planted = gen_workflow(rng, weird=(i % 40 == 39))
            add(wf_cases, wf_terms, check_workflow(ctx, spec, planted))

        # -- resource functions / function tests
        for i in range(100 if q else 1000):
            spec, rest_ok = gen_rf(rng)
            add(misc_cases, misc_terms, check_rf(ctx, spec, rest_ok))
        for i in range(60 if q else 400):
            add(misc_cases, misc_terms, check_ft(ctx, *gen_ft(rng)))

        # -- the watch list as consumed by the real cache/registry (empties the cache: keep last)
        for c in corpus_watch:
            check_watch(ctx, c["definition"], [tuple(r) for r in c["initial"]],
                        [(e[0], tuple(e[1]) if e[1] else None) for e in c["events"]])
        for defn, initial, events in watch_cases(rng, 40 if q else 600):
            check_watch(ctx, defn, initial, events)
        for c in corpus_graph:
            check_graph(ctx, c["nodes"], c["order"], [tuple(e) for e in c["events"]])
        for nodes, order, events in graph_cases(rng, 60 if q else 800):
            check_graph(ctx, nodes, order, events)

        if ctx.model_ok:
            correspond(ctx, "extract_argument_structure + name regexes on real parse trees vs Extract.extract",
                       ex_cases, ex_terms)
            # damaged trees: where the MODEL says the real code formats a lark Tree into a key (its repr is not
            # modelled) the case is not compared (check_case_damaged)
            correspond(ctx, "extract_argument_structure on damaged trees vs Extract.extract",
                       dm_cases, dm_terms, check_fn="check_case_damaged")
            correspond(ctx, "STEPS_NAME_PATTERN / PARENT_NAME_PATTERN vs Extract.steps_name / parent_name",
                       rx_cases, rx_terms)
            correspond(ctx, "prepare_workflow (+ reconcile gate) vs Extract.prepare_workflow", wf_cases, wf_terms)
            correspond(ctx, "watch lists of prepare_resource_function / prepare_function_test vs model",
                       misc_cases, misc_terms)
    finally:
        world_teardown()


def replay(ctx: Ctx, data):
    case = data["case"] if "case" in data else data
    world_setup()
    try:
        r = None
        if case.get("kind") == "extract":
            r = check_expression(ctx, case["src"], case.get("planted", []), bucket="replay")
        elif case.get("kind") == "workflow":
            r = check_workflow(ctx, case["spec"], [[tuple(x) for x in pl] for pl in case["planted"]], bucket="replay")
        elif case.get("kind") == "rf":
            r = check_rf(ctx, case["spec"], case["rest_ok"])
        elif case.get("kind") == "ft":
            r = check_ft(ctx, case["spec"], case["fn"][0], case["fn"][1], case["cases_ok"], case["inputs_ok"])
        elif case.get("kind") == "watchgraph":
            check_graph(ctx, case["nodes"], case["order"], [tuple(e) for e in case["events"]])
        elif case.get("kind") == "watch":
            check_watch(ctx, case["definition"], [tuple(r) for r in case["initial"]],
                        [(e[0], tuple(e[1]) if e[1] else None) for e in case["events"]])
        if r and ctx.model_ok:
            ctx.correspond("replay", "Corr_C14", [r[0]], [r[1]])
    finally:
        world_teardown()
