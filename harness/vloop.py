"""Virtual-time asyncio loop: when nothing is ready the clock jumps to the earliest timer.

Lets koreo's STEP_TIMEOUT (10 s) / LOOKUP_TIMEOUT paths run instantly and makes the completion
order of concurrent API calls a function of the injected latencies only."""
from __future__ import annotations

import asyncio
import heapq
import threading


class Deadlock(RuntimeError):
    """nothing is ready, no timer is pending and no I/O arrives: the awaited coroutine can never finish"""


class VirtualLoop(asyncio.SelectorEventLoop):
    def __init__(self):
        super().__init__()
        self._vtime = 0.0
        self.steps = 0

    def time(self):
        return self._vtime

    def _run_once(self):
        self.steps += 1
        # drop cancelled timers at the head so we never jump to a dead timer
        while self._scheduled and self._scheduled[0]._cancelled:
            h = heapq.heappop(self._scheduled)
            h._scheduled = False
            self._timer_cancelled_count = max(0, self._timer_cancelled_count - 1)
        if not self._ready and self._scheduled:
            when = self._scheduled[0]._when
            if when > self._vtime:
                self._vtime = when
        elif not self._ready and not self._scheduled and not self._stopping:
            # nothing can ever wake the loop except I/O (the self-pipe of call_soon_threadsafe): give a
            # thread a moment of REAL time, then report the hang instead of blocking in select() forever
            waited = 0.0
            while not self._selector.select(0.25):
                waited += 0.25
                if threading.active_count() <= 1 or waited >= 30.0:     # worker threads may still answer
                    raise Deadlock("event loop idle: no ready callback, no timer, no I/O")
        super()._run_once()


def run(coro, debug=False):
    """Run `coro` to completion on a fresh virtual-time loop; returns (result, virtual_seconds)."""
    loop = VirtualLoop()
    try:
        asyncio.set_event_loop(loop)
        res = loop.run_until_complete(coro)
        return res, loop.time()
    finally:
        try:
            pending = asyncio.all_tasks(loop)
            for t in pending:
                t.cancel()
            if pending:
                try:
                    loop.run_until_complete(asyncio.gather(*pending, return_exceptions=True))
                except Deadlock:
                    pass
        finally:
            asyncio.set_event_loop(None)
            loop.close()
