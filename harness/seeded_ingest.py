#!/venv/bin/python
"""seeded_ingest.py <worktree-prefix> Cxx [Cyy ...]: copy <prefix>Cxx/_mutants/N into /verif/seeded/Cxx-<next>,
remove the scratch worktree, and evaluate each (confirmation + the property's check)."""
import json, shutil, subprocess, sys
from pathlib import Path
V = Path(__file__).resolve().parent.parent
prefix = sys.argv[1]
for pid in sys.argv[2:]:
    src = Path(f"{prefix}{pid}/_mutants")
    if not src.is_dir():
        print(pid, "no _mutants directory"); continue
    existing = [int(p.name.split("-")[1]) for p in (V / "seeded").glob(f"{pid}-*")]
    nxt = max(existing, default=0) + 1
    new = []
    for d in sorted(src.iterdir()):
        if not (d / "patch.diff").exists():
            continue
        dst = V / "seeded" / f"{pid}-{nxt}"
        dst.mkdir(parents=True)
        for f in ("patch.diff", "demo.py", "meta.json"):
            shutil.copy(d / f, dst / f)
        m = json.loads((dst / "meta.json").read_text()); import re as _re; _m = _re.search(r"mut(\d+)-", prefix); m["round"] = int(_m.group(1)) if _m else 1
        (dst / "meta.json").write_text(json.dumps(m, indent=1))
        new.append(dst); nxt += 1
    subprocess.run(["git", "-C", "/repo", "worktree", "remove", "--force", f"{prefix}{pid}"])
    for dst in new:
        r = subprocess.run([sys.executable, str(V / "harness" / "seeded_eval.py"), str(dst)], text=True,
                           stdout=subprocess.PIPE, stderr=subprocess.STDOUT)
        try:
            e = json.loads((dst / "meta.json").read_text())["evaluation"]
            print(dst.name, "confirmed" if e.get("confirmed") else "NOT-CONFIRMED", "detected" if e.get("check_detected") else "MISSED", e.get("check_kind"), flush=True)
        except Exception:
            print(dst.name, "evaluation failed:", r.stdout[-300:], flush=True)
