#!/venv/bin/python
"""Confirm a seeded change and run the property's check against it.

usage: seeded_eval.py <seeded-dir> [--tier quick|thorough] [--no-confirm]
<seeded-dir> holds patch.diff, demo.py, meta.json (meta.json names the property).

1. confirm (in a scratch worktree of /repo under /var/tmp, removed afterwards): the patch applies, the
   existing test suite still passes with it, demo.py fails with it and passes without it;
2. run `check.py <property>` with KOREO_REPO pointing at the patched scratch tree (the checks read the
   implementation from there; /repo itself is not touched, so concurrent work is not disturbed);
3. record the outcome in meta.json (`confirmed`, `check`: detected / kind of VIOLATION line).
"""
from __future__ import annotations

import argparse
import json
import os
import re
import shutil
import subprocess
import sys
from pathlib import Path

VERIF = Path(__file__).resolve().parent.parent
PY = "/venv/bin/python"


def sh(cmd, cwd=None, env=None, timeout=3600):
    return subprocess.run(cmd, cwd=cwd, env=env, text=True, timeout=timeout,
                          stdout=subprocess.PIPE, stderr=subprocess.STDOUT)


def main():
    ap = argparse.ArgumentParser()
    ap.add_argument("dir")
    ap.add_argument("--tier", default="quick")
    ap.add_argument("--no-confirm", action="store_true")
    ap.add_argument("--also", default="", help="comma-separated other properties whose checks are run against the change too")
    ap.add_argument("--in-repo", action="store_true",
                    help="apply the patch to /repo itself for the check run (and undo it afterwards)")
    a = ap.parse_args()
    d = Path(a.dir).resolve()
    meta = json.loads((d / "meta.json").read_text())
    prop = meta["property"]
    wt = Path(f"/var/tmp/seeded-{prop}-{os.getpid()}")
    r = sh(["git", "-C", "/repo", "worktree", "add", "--detach", str(wt), "HEAD"])
    if r.returncode != 0:
        print(r.stdout)
        return 2
    try:
        env = dict(os.environ, PYTHONPATH=str(wt / "src"), PYTHONHASHSEED="0")
        result = {}
        if not a.no_confirm:
            r0 = sh([PY, str(d / "demo.py"), str(wt / "src")], cwd=wt, env=env, timeout=600)
            result["demo_without_patch_rc"] = r0.returncode
        r = sh(["git", "apply", str(d / "patch.diff")], cwd=wt)
        if r.returncode != 0:
            print("patch does not apply:", r.stdout)
            return 2
        if not a.no_confirm:
            r1 = sh([PY, str(d / "demo.py"), str(wt / "src")], cwd=wt, env=env, timeout=600)
            result["demo_with_patch_rc"] = r1.returncode
            result["demo_with_patch_tail"] = r1.stdout[-500:]
            t = sh([PY, "-m", "pytest", "-q", "-p", "no:cacheprovider", "--timeout=900", "tests"], cwd=wt, env=env)
            m = re.search(r"(\d+) passed", t.stdout)
            result["tests_passed"] = int(m.group(1)) if m else 0
            result["tests_rc"] = t.returncode
            result["confirmed"] = (r0.returncode == 0 and r1.returncode != 0 and t.returncode == 0)
        cenv = dict(os.environ, KOREO_REPO=str(wt), PYTHONHASHSEED="0")
        cenv.pop("PYTHONPATH", None)
        if a.in_repo:
            sh(["git", "-C", "/repo", "apply", str(d / "patch.diff")])
            cenv.pop("KOREO_REPO")
        try:
            c = sh([PY, str(VERIF / "harness" / "check.py"), prop, "--tier", a.tier], cwd=VERIF, env=cenv, timeout=7200)
        finally:
            if a.in_repo:
                sh(["git", "-C", "/repo", "checkout", "--", "."])
        viol = [l for l in c.stdout.splitlines() if l.startswith("VIOLATION")]
        result["check_rc"] = c.returncode
        result["check_detected"] = c.returncode == 1 and bool(viol)
        result["check_kind"] = ("no-failing-input-found" if viol and all("no-failing-input-found" in v for v in viol)
                                else ("failing-input" if viol else "none"))
        result["check_tier"] = a.tier
        result["check_summary"] = c.stdout.strip().splitlines()[-1] if c.stdout.strip() else ""
        also = []
        for other in [x for x in a.also.split(",") if x]:
            c2 = sh([PY, str(VERIF / "harness" / "check.py"), other, "--tier", a.tier], cwd=VERIF, env=cenv, timeout=7200)
            v2 = [l for l in c2.stdout.splitlines() if l.startswith("VIOLATION")]
            kind = ("no-failing-input-found" if v2 and all("no-failing-input-found" in v for v in v2) else ("failing-input" if v2 else "none"))
            if c2.returncode == 1 and v2:
                also.append(f"check {other} ({a.tier}, {kind})")
            viol += v2
            result[f"also_{other}"] = {"rc": c2.returncode, "kind": kind}
        if also:
            meta["also_caught_by"] = "; ".join(also)
        meta.setdefault("evaluation", {}).update(result)
        (d / "meta.json").write_text(json.dumps(meta, indent=1))
        print(json.dumps({k: v for k, v in result.items() if k != "demo_with_patch_tail"}, indent=1))
        # replays written by the check against a seeded change are not evidence of anything in /repo
        for v in viol:
            m = re.search(r"replay=(\S+)", v)
            if m and Path(m.group(1)).exists():
                Path(m.group(1)).unlink()
        return 0
    finally:
        sh(["git", "-C", "/repo", "worktree", "remove", "--force", str(wt)])
        shutil.rmtree(wt, ignore_errors=True)


if __name__ == "__main__":
    sys.exit(main())
