#!/bin/bash
# usage: eval_list.sh <logfile> <dir>...   full seeded_eval (with confirmation) for each directory
cd /verif
log=$1; shift
for d in "$@"; do
  /venv/bin/python harness/seeded_eval.py seeded/$d > /dev/null 2>&1
  /venv/bin/python - "$d" >> $log <<'PY'
import json,sys
d=sys.argv[1]
try:
    e=json.load(open(f'/verif/seeded/{d}/meta.json'))["evaluation"]
    print(d, "confirmed" if e.get("confirmed") else "NOT-CONFIRMED", "detected" if e.get("check_detected") else "MISSED", e.get("check_kind"), flush=True)
except Exception as ex:
    print(d, "evaluation failed", ex, flush=True)
PY
done
