#!/bin/bash
# usage: reeval_full.sh <log> <prop>...   re-evaluates EVERY seeded change of the given properties (no re-confirmation)
cd /verif
log=$1; shift
for p in "$@"; do
  for d in $(ls -d seeded/$p-* | sort -V); do
    out=$(/venv/bin/python harness/seeded_eval.py $d --no-confirm 2>&1 | grep -E '"check_kind"' | tr -d '\n')
    echo "$d $out" >> $log
  done
done
