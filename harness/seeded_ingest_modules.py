#!/venv/bin/python
"""seeded_ingest_modules.py <worktree-prefix> M01 [M02 ...]: ingest the changes of a MODULE-centric round.

Each <prefix>Mxx/_mutants/N/meta.json names the ONE property the change breaks; the change is copied to
/verif/seeded/<that property>-<next>/ (round taken from the prefix `mutN-`, the module recorded), the scratch
worktree is removed, and the new directories are printed one per line (evaluate them with seeded_eval.py)."""
import json
import re
import shutil
import subprocess
import sys
from pathlib import Path

V = Path(__file__).resolve().parent.parent
prefix = sys.argv[1]
rnd = int(re.search(r"mut(\d+)-", prefix).group(1))
valid = {json.loads(l)["id"] for l in (V / "properties.jsonl").read_text().splitlines() if l.strip()}
for mod in sys.argv[2:]:
    src = Path(f"{prefix}{mod}/_mutants")
    if not src.is_dir():
        print(mod, "no _mutants directory", file=sys.stderr)
        continue
    for d in sorted(src.iterdir()):
        if not (d / "patch.diff").exists() or not (d / "meta.json").exists():
            continue
        m = json.loads((d / "meta.json").read_text())
        pid = str(m.get("property", "")).strip()[:3]
        if pid not in valid:
            print(mod, d.name, "names no known property:", m.get("property"), file=sys.stderr)
            continue
        existing = [int(p.name.split("-")[1]) for p in (V / "seeded").glob(f"{pid}-*")]
        dst = V / "seeded" / f"{pid}-{max(existing, default=0) + 1}"
        dst.mkdir(parents=True)
        for f in ("patch.diff", "demo.py"):
            shutil.copy(d / f, dst / f)
        m["property"] = pid
        m["round"] = rnd
        m["module"] = mod
        (dst / "meta.json").write_text(json.dumps(m, indent=1))
        print(dst.name)
    subprocess.run(["git", "-C", "/repo", "worktree", "remove", "--force", f"{prefix}{mod}"])
