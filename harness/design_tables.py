#!/venv/bin/python
"""Print the markdown tables of DESIGN.md section 0 from committed artefacts (seeded/*/meta.json, known_findings*.json)."""
import json
from pathlib import Path
V = Path(__file__).resolve().parent.parent
print("| seeded change | breaks | what it needs to manifest | confirmed | caught by (tier) | how |")
print("|---|---|---|---|---|---|")
for d in sorted((V / "seeded").iterdir()):
    m = json.loads((d / "meta.json").read_text())
    e = m.get("evaluation", {})
    also = m.get("also_caught_by", "")
    caught = f"check {m['property']} ({e.get('check_tier','?')})" if e.get("check_detected") else "**missed** by check " + m["property"]
    if also:
        caught += f"; {also}"
    how = {"failing-input": "concrete failing input", "no-failing-input-found": "broken correspondence, no-failing-input-found", "none": "-"}.get(e.get("check_kind"), "?")
    print(f"| {d.name} | {m['property']} | {m.get('summary','').replace('|','/')[:160]} — needs: {m.get('needs','').replace('|','/')[:200]} | "
          f"{'yes' if e.get('confirmed') else 'no'} (tests {e.get('tests_passed','?')}) | {caught} | {how} |")
print()
K = json.loads((V / "known_findings.json").read_text())
print("| repaired defect (fix: commit in /repo) | property |")
print("|---|---|")
for f in K["fixed"]:
    print(f"| {f['entry'].replace('|','/')} | {f['property']} |")
