#!/venv/bin/python
"""Print the markdown tables of DESIGN.md section 0 from committed artefacts (seeded/*/meta.json, known_findings*.json)."""
import json
from pathlib import Path
V = Path(__file__).resolve().parent.parent
print("| seeded change | breaks | what it needs to manifest | confirmed | caught by (tier) | how | first run |")
print("|---|---|---|---|---|---|---|")
for d in sorted((V / "seeded").iterdir()):
    m = json.loads((d / "meta.json").read_text())
    e = m.get("evaluation", {})
    also = m.get("also_caught_by", "")
    caught = f"check {m['property']} ({e.get('check_tier','?')})" if e.get("check_detected") else "**missed** by check " + m["property"]
    if also:
        caught += f"; {also}"
    how = {"failing-input": "concrete failing input", "no-failing-input-found": "broken correspondence, no-failing-input-found", "none": "-"}.get(e.get("check_kind"), "?")
    print(f"| {d.name} | {m['property']} | {m.get('summary','').replace('|','/')[:160]} — needs: {m.get('needs','').replace('|','/')[:200]} | "
          f"{'yes' if e.get('confirmed') else 'no'} (tests {e.get('tests_passed','?')}) | {caught} | {how} | {m.get('missed_first','caught')} |")
print()
K = json.loads((V / "known_findings.json").read_text())
print("| repaired defect (fix: commit in /repo) | property |")
print("|---|---|")
for f in K["fixed"]:
    print(f"| {f['entry'].replace('|','/')} | {f['property']} |")

print()
import re, sys, importlib
sys.path.insert(0, str(V / "harness"))
import common
sys.path.insert(0, str(common.SRC))
PARTIAL = {
 "C02": "interleaving at single-await granularity inside one Function is exercised, not proved",
 "C09": "PARTIAL: classification, truthfulness, dependency gating and single-function recovery are proved; the STEP_TIMEOUT bound and whole-workflow convergence are observed under the virtual-time loop only",
 "C10": "reconcile_krm_resource / Workflow call sites are exercised by oracle only (their evaluation sites are not all modelled in Coq)",
 "C12": "purity (no mutation of inputs/base/template/function) is a snapshot test — a heap-free model cannot state it; merge semantics fully proved",
 "C14": "watch lists of ResourceFunction / FunctionTest prepare are straight-line models tied by correspondence only",
 "C18": "'no case can modify the Function or fixtures' is a snapshot test (no heap in the model)",
 "C20": "PARTIAL: schema gate, rejection clauses, shape facts and extractor totality are proved; 'the prepare bodies never raise' is fuzzing of the real code",
 "C11": "lark/celpy lexer+unescape is a hand model (tested off the happy path); repr(float) is a Section parameter whose two laws are re-checked on every float a run produces",
 "C16": "asyncio ready-queue semantics are modelled (validated by per-op state comparison), not verified; hypotheses: strictly increasing clock, atomic preparers, acyclic declarations",
}
print("| id | model files | theorems (all closed under the global context) | strength / what is not proved | quick wall (s) |")
print("|---|---|---|---|---|")
for n in range(1, 21):
    pid = f"C{n:02d}"
    mod = importlib.import_module(f"props.{pid}")
    files = [f for f in common.dep_closure(list(mod.COQ_TARGETS)) if f.startswith(("model/", "gen/"))]
    txt = common.strip_coq_comments((V / "coq" / "props" / f"P_{pid}.v").read_text())
    nth = len(re.findall(r"(?m)^\s*Theorem\b", txt))
    ev = json.loads((V / "evidence" / f"{pid}.json").read_text()) if (V / "evidence" / f"{pid}.json").exists() else {}
    print(f"| {pid} | {', '.join(files)} | {nth} | {PARTIAL.get(pid, 'full on the model')} | {ev.get('wall_s', '?')} |")
