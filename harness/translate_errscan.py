#!/venv/bin/python
"""Translator: src/koreo/cel/evaluation.py::check_for_celevalerror  ->  coq/gen/ErrScan_gen.v

`check_for_celevalerror` is the scan that turns an evaluation result holding an embedded celpy error object into a
PermFail (properties C10 and C13: "never a leaked error").  It is modelled by hand as `ErrScan.scan` (true = a PermFail
is returned).  This translator regenerates, on every run, a Gallina transcription of the function from the Python
source as it is NOW; `proofs/ErrScan_sync.v` proves the hand model equal to it for every value (given enough fuel), so
a behavioural edit - a container type that is no longer descended into, keys no longer scanned, an early exit that
skips later elements - breaks a proof obligation.

Fail-closed: anything outside the shape below raises `Untranslatable`.

    def check_for_celevalerror(value, location):
        match value:
            case celpy.CELEvalError(tree=<name>):
                <assignments>; return PermFail(...)
            case celtypes.MapType() | dict():
                for <k>, <v> in value.items():
                    if <w> := check_for_celevalerror(<k or v>, location): return <w>      (one or more)
            case celtypes.ListType() | list() | tuple():
                for <v> in value:
                    if <w> := check_for_celevalerror(<v>, location): return <w>           (one or more)
        return None

Conventions (trusted base):
  * values are `ErrScan.vtree`: `VErr` is exactly the instances of celpy.CELEvalError, `VMap` exactly MapType / dict
    (items in iteration order), `VList` exactly ListType / list / tuple; the class patterns must name exactly these
    sets (anything else is rejected), so the arms are disjoint and their order is immaterial;
  * the result is a bool: true = a PermFail object (always truthy) is returned, false = None; which error is reported
    and the message prose are not modelled;
  * a `for` loop whose body is a sequence of `if w := rec(x, location): return w` is a left-to-right search;
  * the recursion is on explicit fuel (`None` when exhausted; the sync lemma shows enough fuel always exists).
"""
from __future__ import annotations

import ast
import os
import sys
from pathlib import Path

VERIF = Path(__file__).resolve().parent.parent
REPO = Path(os.environ.get("KOREO_REPO", "/repo"))
SRC = REPO / "src" / "koreo" / "cel" / "evaluation.py"
OUT = VERIF / "coq" / "gen" / "ErrScan_gen.v"
FN = "check_for_celevalerror"


class Untranslatable(Exception):
    pass


def bad(node, why=""):
    raise Untranslatable(f"{why} at line {getattr(node, 'lineno', '?')}: {ast.dump(node)[:200]}")


def class_name(p):
    """MatchClass with no sub-patterns (or only keyword capture patterns for the error class) -> dotted class name"""
    if not isinstance(p, ast.MatchClass) or p.patterns:
        bad(p, "expected a class pattern")
    c = p.cls
    if isinstance(c, ast.Name):
        name = c.id
    elif isinstance(c, ast.Attribute) and isinstance(c.value, ast.Name):
        name = f"{c.value.id}.{c.attr}"
    else:
        bad(p, "unsupported class expression")
    return name, p


def classes_of(pat):
    alts = pat.patterns if isinstance(pat, ast.MatchOr) else [pat]
    out = []
    for a in alts:
        name, p = class_name(a)
        out.append((name, p))
    return out


KINDS = {
    frozenset({"celpy.CELEvalError"}): "err",
    frozenset({"celtypes.MapType", "dict"}): "map",
    frozenset({"celtypes.ListType", "list", "tuple"}): "list",
}


def rec_test(stmt, names, loc):
    """`if w := check_for_celevalerror(x, location): return w` -> x (one of `names`)"""
    if not (isinstance(stmt, ast.If) and not stmt.orelse and len(stmt.body) == 1 and isinstance(stmt.body[0], ast.Return)):
        bad(stmt, "loop body must be `if w := rec(x, location): return w`")
    t = stmt.test
    if not (isinstance(t, ast.NamedExpr) and isinstance(t.target, ast.Name)):
        bad(stmt, "expected a walrus test")
    r = stmt.body[0].value
    if not (isinstance(r, ast.Name) and r.id == t.target.id):
        bad(stmt, "must return the value just computed")
    c = t.value
    if not (isinstance(c, ast.Call) and isinstance(c.func, ast.Name) and c.func.id == FN and len(c.args) == 2
            and not c.keywords and isinstance(c.args[0], ast.Name) and c.args[0].id in names
            and isinstance(c.args[1], ast.Name) and c.args[1].id == loc):
        bad(stmt, "expected a recursive call on a loop variable")
    return c.args[0].id


def search(calls, var_text, rest):
    """nested: rec on each var in order; first true wins; then `rest`"""
    text = rest
    for v in reversed(calls):
        text = (f"match rec {var_text[v]} with None => None | Some true => Some true | Some false =>\n"
                f"          {text} end")
    return text


def translate(src: str) -> str:
    tree = ast.parse(src)
    fn = next((n for n in tree.body if isinstance(n, ast.FunctionDef) and n.name == FN), None)
    if fn is None:
        raise Untranslatable(f"{FN} not found")
    a = fn.args
    if len(a.args) != 2 or a.vararg or a.kwarg or a.kwonlyargs or a.posonlyargs or a.defaults:
        raise Untranslatable("unexpected signature")
    val, loc = a.args[0].arg, a.args[1].arg
    body = [s for s in fn.body if not (isinstance(s, ast.Expr) and isinstance(s.value, ast.Constant))]
    if len(body) != 2 or not isinstance(body[0], ast.Match) or not isinstance(body[1], ast.Return):
        bad(fn, "expected: match value / return None")
    m, ret = body
    if not (isinstance(m.subject, ast.Name) and m.subject.id == val):
        bad(m, "match subject must be the first parameter")
    if not (ret.value is None or (isinstance(ret.value, ast.Constant) and ret.value.value is None)):
        bad(ret, "the function must end with `return None`")
    arms = {}
    for c in m.cases:
        if c.guard is not None:
            bad(c, "guards are not supported")
        cls = classes_of(c.pattern)
        kind = KINDS.get(frozenset(n for n, _ in cls))
        if kind is None or kind in arms:
            bad(c, "class pattern outside the convention (VErr / VMap / VList)")
        if kind == "err":
            p = cls[0][1]
            if any(not (isinstance(kp, ast.MatchAs) and kp.pattern is None) for kp in p.kwd_patterns):
                bad(c, "only capture patterns are allowed for the error's attributes")
            if not isinstance(c.body[-1], ast.Return):
                bad(c, "the error arm must return")
            r = c.body[-1].value
            if not (isinstance(r, ast.Call) and isinstance(r.func, ast.Name) and r.func.id == "PermFail"):
                bad(c, "the error arm must return a PermFail(...)")
            for s in c.body[:-1]:
                if not isinstance(s, ast.Assign):
                    bad(s, "only assignments before the return of the error arm")
            arms["err"] = "Some true"
        else:
            if any(p.kwd_patterns for _, p in cls):
                bad(c, "no sub-patterns on container classes")
            if len(c.body) != 1 or not isinstance(c.body[0], ast.For) or c.body[0].orelse:
                bad(c, "a container arm must be a single for loop")
            f = c.body[0]
            if kind == "map":
                it = f.iter
                if not (isinstance(it, ast.Call) and isinstance(it.func, ast.Attribute) and it.func.attr == "items"
                        and isinstance(it.func.value, ast.Name) and it.func.value.id == val and not it.args):
                    bad(f, "expected `for k, v in value.items()`")
                if not (isinstance(f.target, ast.Tuple) and len(f.target.elts) == 2
                        and all(isinstance(e, ast.Name) for e in f.target.elts)):
                    bad(f, "expected two loop variables")
                k, v = (e.id for e in f.target.elts)
                calls = [rec_test(s, {k, v}, loc) for s in f.body]
                arms["map"] = search(calls, {k: "k", v: "x"}, "go r")
            else:
                if not (isinstance(f.iter, ast.Name) and f.iter.id == val and isinstance(f.target, ast.Name)):
                    bad(f, "expected `for v in value`")
                v = f.target.id
                calls = [rec_test(s, {v}, loc) for s in f.body]
                arms["list"] = search(calls, {v: "x"}, "go r")
    if set(arms) != {"err", "map", "list"}:
        bad(m, f"arms found: {sorted(arms)}; expected the error, map and list arms")
    out = f"""(* GENERATED by harness/translate_errscan.py from src/koreo/cel/evaluation.py - do not edit.
   Transcription of {FN} (conventions: the translator's docstring). *)
From Koreo Require Import Json ErrScan.
Local Open Scope list_scope.

(* for key, subvalue in value.items(): ... *)
Definition map_loop (rec : vtree -> option bool) : list (vtree * vtree) -> option bool :=
  fix go (l : list (vtree * vtree)) : option bool :=
    match l with
    | [] => Some false
    | (k, x) :: r =>
          {arms['map']}
    end.

(* for subvalue in value: ... *)
Definition list_loop (rec : vtree -> option bool) : list vtree -> option bool :=
  fix go (l : list vtree) : option bool :=
    match l with
    | [] => Some false
    | x :: r =>
          {arms['list']}
    end.

Fixpoint scan_gen (fuel : nat) (v : vtree) : option bool :=
  match fuel with
  | O => None
  | S n =>
      match v with
      | VErr => {arms['err']}
      | VMap kvs => map_loop (scan_gen n) kvs
      | VList l => list_loop (scan_gen n) l
      | _ => Some false
      end
  end.
"""
    return out


def main():
    text = translate(SRC.read_text())
    OUT.parent.mkdir(exist_ok=True)
    if not OUT.exists() or OUT.read_text() != text:
        OUT.write_text(text)
    return 0


if __name__ == "__main__":
    try:
        sys.exit(main())
    except Untranslatable as e:
        print("UNTRANSLATABLE:", e)
        sys.exit(1)
