#!/venv/bin/python
"""Translator: src/koreo/result.py  ->  coq/gen/Outcome_gen.v

Regenerates, on every run, a Gallina transcription of the five `combine` methods of the outcome
classes (DepSkip, Skip, Ok, Retry, PermFail) from the Python source as it is NOW.  The hand-written
model (coq/model/Outcome.v), about which the C03 theorems are proved, must be provably EQUAL to this
transcription (coq/proofs/Outcome_sync.v: `combine2_gen_eq`), so a change to result.py that alters
the behaviour of a `combine` method breaks a proof obligation, not only the differential check.

Second stage (same file, Section GenTop): the module-level functions `combine` and
`unwrapped_combine` with the predicates they call (is_ok, is_error, is_skip, is_unwrapped_ok) are
transcribed too, as PARTIAL functions (`option`: None = the Python code would hold an object the
model cannot represent, or raise); Outcome_sync.v proves `combine_gen V xs = Some (combine xs)` for
every list and `unwrapped_combine_gen V us = Some (unwrapped_combine us)` for bare values and non-Ok
outcomes.  `_OkData` must be textually the copy-and-append wrapper.

Fail-closed: any Python construct outside the small subset below raises `Untranslatable`.
Conventions (part of the trusted base):
  * an outcome object is a value of `outcome V`; attribute reads become the total accessors
    f_message / f_location / f_delay / f_data (Python would raise AttributeError where the class has no
    such attribute; the isinstance guards of the source make those reads unreachable);
  * `x` in a test position (`if self.message:`) is Python truthiness of an Optional[str];
  * `_OkData([a, b])` and `d.append(e)` build `Many (elems a ++ elems b)` where `elems` of a bare
    value is the one-element list and `elems` of an `_OkData` is its list (an incoming `_OkData`
    cannot be a V; callers never hold one — hypothesis `raw` of the theorems).
"""
from __future__ import annotations

import ast
import os
import sys
from pathlib import Path

VERIF = Path(__file__).resolve().parent.parent
REPO = Path(os.environ.get("KOREO_REPO", "/repo"))
SRC = REPO / "src" / "koreo" / "result.py"
OUT = VERIF / "coq" / "gen" / "Outcome_gen.v"

CLASSES = ["DepSkip", "Skip", "Ok", "Retry", "PermFail"]


class Untranslatable(Exception):
    pass


def bad(node, why=""):
    raise Untranslatable(f"{why} at line {getattr(node, 'lineno', '?')}: {ast.dump(node)[:200]}")


# ---- expressions ----------------------------------------------------------------------------
# every translated expression is (gallina_text, type) with type in
#   'outcome' | 'ostr' (option string) | 'z' | 'okdata' | 'strlist' | 'bool'

def tr_expr(e, env):
    if isinstance(e, ast.Name):
        if e.id in ("self", "other"):
            return e.id, "outcome"
        if e.id in env:
            return env[e.id]
        bad(e, "unknown name")
    if isinstance(e, ast.Attribute) and isinstance(e.value, ast.Name) and e.value.id in ("self", "other"):
        t = {"message": "ostr", "location": "ostr", "delay": "z", "data": "okdata"}.get(e.attr)
        if t is None:
            bad(e, "unknown attribute")
        return f"(f_{e.attr} {e.value.id})", t
    if isinstance(e, ast.List):
        if not e.elts:
            return "(@nil string)", "strlist"
        bad(e, "non-empty list literal outside _OkData(...)")
    if isinstance(e, ast.Call):
        f = e.func
        # ", ".join(xs)
        if (isinstance(f, ast.Attribute) and f.attr == "join" and isinstance(f.value, ast.Constant)
                and isinstance(f.value.value, str) and len(e.args) == 1 and not e.keywords):
            xs, t = tr_expr(e.args[0], env)
            if t != "strlist":
                bad(e, "join of a non-list")
            return f'(Some (join "{f.value.value}" {xs}))', "ostr"
        # self.data.append(other.data)
        if (isinstance(f, ast.Attribute) and f.attr == "append" and len(e.args) == 1 and not e.keywords):
            d, t = tr_expr(f.value, env)
            x, tx = tr_expr(e.args[0], env)
            if t == "okdata" and tx == "okdata":
                return f"(Many (elems {d} ++ elems {x}))", "okdata"
            bad(e, "append in expression position")
        if isinstance(f, ast.Name) and f.id == "max" and len(e.args) == 2 and not e.keywords:
            a, ta = tr_expr(e.args[0], env)
            b, tb = tr_expr(e.args[1], env)
            if ta == tb == "z":
                return f"(Z.max {a} {b})", "z"
            bad(e, "max of non-integers")
        if isinstance(f, ast.Name) and f.id == "_OkData" and len(e.args) == 1 and not e.keywords \
                and isinstance(e.args[0], ast.List):
            parts = []
            for el in e.args[0].elts:
                x, tx = tr_expr(el, env)
                if tx != "okdata":
                    bad(el, "_OkData element is not a data value")
                parts.append(f"elems {x}")
            return "(Many (" + " ++ ".join(parts or ["[]"]) + "))", "okdata"
        if isinstance(f, ast.Name) and f.id in CLASSES and not e.args:
            kw = {k.arg: k.value for k in e.keywords}
            def arg(name, typ, default):
                if name not in kw:
                    return default
                x, t = tr_expr(kw.pop(name), env)
                if t != typ:
                    bad(e, f"{name} has type {t}, expected {typ}")
                return x
            if f.id == "Ok":
                d = arg("data", "okdata", None)
                loc = arg("location", "ostr", "None")
                if d is None or kw:
                    bad(e, "Ok(...) arguments")
                return f"(Ok {d} {loc})", "outcome"
            if f.id == "Retry":
                dl = arg("delay", "z", "60%Z")
                m = arg("message", "ostr", "None")
                loc = arg("location", "ostr", "None")
                if kw:
                    bad(e, "Retry(...) arguments")
                return f"(Retry {dl} {m} {loc})", "outcome"
            m = arg("message", "ostr", "None")
            loc = arg("location", "ostr", "None")
            if kw:
                bad(e, f"{f.id}(...) arguments")
            return f"({f.id} {m} {loc})", "outcome"
    bad(e, "expression")


def tr_test(t, env):
    if isinstance(t, ast.UnaryOp) and isinstance(t.op, ast.Not):
        return f"(negb {tr_test(t.operand, env)})"
    if isinstance(t, ast.Call) and isinstance(t.func, ast.Name) and t.func.id == "isinstance" and len(t.args) == 2:
        subj, cls = t.args
        names = [cls] if isinstance(cls, ast.Name) else (list(cls.elts) if isinstance(cls, ast.Tuple) else bad(t))
        ids = []
        for n in names:
            if not isinstance(n, ast.Name):
                bad(t, "isinstance class")
            ids.append(n.id)
        x, tx = tr_expr(subj, env)
        if tx == "outcome" and all(i in CLASSES for i in ids):
            return "(is_cls " + x + " [" + "; ".join("T" + i for i in ids) + "])"
        if tx == "okdata" and ids == ["_OkData"]:
            return f"(is_many {x})"
        bad(t, "isinstance")
    x, tx = tr_expr(t, env)
    if tx == "ostr":
        return f"(truthy_os {x})"
    bad(t, "test")


# ---- statements -----------------------------------------------------------------------------

def always_returns(stmts):
    if not stmts:
        return False
    s = stmts[-1]
    if isinstance(s, ast.Return):
        return True
    if isinstance(s, ast.If):
        return always_returns(s.body) and always_returns(s.orelse)
    return False


def tr_stmts(stmts, env, ind="  "):
    if not stmts:
        raise Untranslatable("control reaches the end of combine() without a return")
    s, rest = stmts[0], stmts[1:]
    if isinstance(s, ast.Return):
        if s.value is None:
            bad(s, "bare return")
        x, t = tr_expr(s.value, env)
        if t != "outcome":
            bad(s, "combine returns a non-outcome")
        return x
    if isinstance(s, ast.If):
        c = tr_test(s.test, env)
        a = tr_stmts(list(s.body) + ([] if always_returns(s.body) else rest), dict(env), ind + "  ")
        b = tr_stmts(list(s.orelse) + rest, dict(env), ind + "  ")
        return f"(if {c}\n{ind} then {a}\n{ind} else {b})"
    if isinstance(s, ast.Assign) and len(s.targets) == 1 and isinstance(s.targets[0], ast.Name):
        v = s.targets[0].id
        x, t = tr_expr(s.value, env)
        env = dict(env)
        env[v] = (f"v_{v}", t)
        return f"(let v_{v} := {x} in\n{ind}{tr_stmts(rest, env, ind)})"
    if (isinstance(s, ast.Expr) and isinstance(s.value, ast.Call) and isinstance(s.value.func, ast.Attribute)
            and s.value.func.attr == "append" and isinstance(s.value.func.value, ast.Name)
            and s.value.func.value.id in env and env[s.value.func.value.id][1] == "strlist"
            and len(s.value.args) == 1):
        v = s.value.func.value.id
        x, t = tr_expr(s.value.args[0], env)
        if t != "ostr":
            bad(s, "appending a non-string")
        return f"(let v_{v} := v_{v} ++ [opt_text {x}] in\n{ind}{tr_stmts(rest, env, ind)})"
    if isinstance(s, ast.Expr) and isinstance(s.value, ast.Constant):
        return tr_stmts(rest, env, ind)      # docstring
    bad(s, "statement")


HEADER = '''(* GENERATED by harness/translate_result.py from src/koreo/result.py — do not edit.
   A transcription of the `combine` methods of the five outcome classes. *)
From Koreo Require Import Json Outcome.
Local Open Scope list_scope.

Section Gen.
  Variable V : Type.
  Notation outcome := (outcome V).

  Inductive tag := TDepSkip | TSkip | TOk | TRetry | TPermFail.
  Definition tag_of (o : outcome) : tag :=
    match o with
    | DepSkip _ _ => TDepSkip | Skip _ _ => TSkip | Ok _ _ => TOk
    | Retry _ _ _ => TRetry | PermFail _ _ => TPermFail
    end.
  Definition tag_eqb (a b : tag) : bool :=
    match a, b with
    | TDepSkip, TDepSkip | TSkip, TSkip | TOk, TOk | TRetry, TRetry | TPermFail, TPermFail => true
    | _, _ => false
    end.
  (* isinstance(o, (A, B, ...)) *)
  Definition is_cls (o : outcome) (ts : list tag) : bool := existsb (tag_eqb (tag_of o)) ts.
  Definition is_many (d : okdata V) : bool := match d with Many _ => true | Single _ => false end.
  Definition elems (d : okdata V) : list V := match d with Single v => [v] | Many vs => vs end.
  (* attribute reads *)
  Definition f_message (o : outcome) : option string := msg o.
  Definition f_location (o : outcome) : option string := loc o.
  Definition f_delay (o : outcome) : Z := match o with Retry d _ _ => d | _ => 0%Z end.
  Definition f_data (o : outcome) : okdata V := match o with Ok d _ => d | _ => Many [] end.

'''



# ---- second stage: the module-level functions ------------------------------------------------
# combine / unwrapped_combine and the predicates they use (is_ok, is_error, is_skip, is_unwrapped_ok).
# Expressions are (gallina_text, type, partial); a partial expression has Gallina type `option T`:
# None stands for "the Python code would hold an object the model cannot represent, or raise"
# (e.g. `[combined.data]` when data is the private _OkData, `.values` of a bare value, `Ok(x)` around
# an outcome object, `.combine(x)` with a bare value).  Types: outcome | uout (an element handed to
# unwrapped_combine: a bare value or an outcome) | olist | ulist | okdata | vlist | ostr | bool.

PREDICATES = ["is_ok", "is_error", "is_skip", "is_unwrapped_ok"]
_fresh = [0]


def fresh(base="t"):
    _fresh[0] += 1
    return f"{base}{_fresh[0]}"


def bind(parts, build):
    names, wrappers = [], []
    for txt, partial in parts:
        if partial:
            n = fresh()
            wrappers.append((n, txt))
            names.append(n)
        else:
            names.append(txt)
    body, body_partial = build(names)
    if not wrappers:
        return body, body_partial
    inner = body if body_partial else f"(Some {body})"
    for n, txt in reversed(wrappers):
        inner = f"(match {txt} with Some {n} => {inner} | None => None end)"
    return inner, True


def as_outcome(x):
    text, t, partial = x
    if t == "outcome":
        return text, partial
    if t == "uout" and not partial:
        return f"(as_outcome {text})", True
    raise Untranslatable(f"cannot use a {t} as an outcome")


def t2_expr(e, env, preds):
    if isinstance(e, ast.Name):
        if e.id in env:
            return env[e.id] + (False,)
        bad(e, "unknown name")
    if isinstance(e, ast.Constant) and isinstance(e.value, bool):
        return ("true" if e.value else "false"), "bool", False
    if isinstance(e, ast.UnaryOp) and isinstance(e.op, ast.Not):
        return t2_test(e, env, preds), "bool", False
    if isinstance(e, ast.Attribute):
        x, t, partial = t2_expr(e.value, env, preds)
        if partial:
            bad(e, "attribute of a partial expression")
        if t == "outcome" and e.attr == "data":
            return f"(f_data {x})", "okdata", False
        if t == "outcome" and e.attr == "location":
            return f"(f_location {x})", "ostr", False
        if t == "okdata" and e.attr == "values":
            return f"(values_of {x})", "vlist", True
        bad(e, "attribute")
    if isinstance(e, ast.List) and len(e.elts) == 1:
        x, t, partial = t2_expr(e.elts[0], env, preds)
        if t == "okdata" and not partial:
            return f"(boxed {x})", "vlist", True
        bad(e, "list literal")
    if isinstance(e, ast.IfExp):
        c = t2_test(e.test, env, preds)
        a, pa = as_outcome(t2_expr(e.body, env, preds))
        b, pb = as_outcome(t2_expr(e.orelse, env, preds))
        if pa or pb:
            a = a if pa else f"(Some {a})"
            b = b if pb else f"(Some {b})"
        return f"(if {c} then {a} else {b})", "outcome", (pa or pb)
    if isinstance(e, ast.Call):
        f = e.func
        if isinstance(f, ast.Name) and f.id in preds:
            args = list(e.args) + [k.value for k in e.keywords if k.arg == "candidate"]
            if len(args) != 1 or len(e.args) + len(e.keywords) != 1:
                bad(e, "predicate call")
            x, t, partial = t2_expr(args[0], env, preds)
            if partial or t not in ("outcome", "uout"):
                bad(e, "predicate argument")
            return f"({f.id}_{'o' if t == 'outcome' else 'u'} {x})", "bool", False
        if isinstance(f, ast.Name) and f.id in ("Skip", "DepSkip", "PermFail") and not e.args and not e.keywords:
            return f"({f.id} None None)", "outcome", False
        if isinstance(f, ast.Name) and f.id == "Ok":
            kw = {k.arg: k.value for k in e.keywords}
            if len(e.args) == 1 and not kw:
                x, t, partial = t2_expr(e.args[0], env, preds)
                if t == "uout" and not partial:
                    return f"(wrap_val {x})", "outcome", True
                bad(e, "Ok(x)")
            if e.args or set(kw) - {"data", "location"} or "data" not in kw:
                bad(e, "Ok(...) arguments")
            d = t2_expr(kw["data"], env, preds)
            loc = t2_expr(kw["location"], env, preds) if "location" in kw else ("None", "ostr", False)
            if loc[1] != "ostr" or d[1] not in ("vlist", "okdata"):
                bad(e, "Ok(...) argument types")
            mk = (lambda n: (f"(Ok (Many {n[0]}) {n[1]})", False)) if d[1] == "vlist" else (lambda n: (f"(Ok {n[0]} {n[1]})", False))
            text, partial = bind([(d[0], d[2]), (loc[0], loc[2])], mk)
            return text, "outcome", partial
        if isinstance(f, ast.Attribute) and f.attr == "combine" and len(e.args) == 1 and not e.keywords:
            x, t, px = t2_expr(f.value, env, preds)
            if t != "outcome":
                bad(e, ".combine on a non-outcome")
            y, py = as_outcome(t2_expr(e.args[0], env, preds))
            text, partial = bind([(x, px), (y, py)], lambda n: (f"(combine2_gen V {n[0]} {n[1]})", False))
            return text, "outcome", partial
        if isinstance(f, ast.Name) and f.id == "reduce" and len(e.args) == 3 and not e.keywords \
                and isinstance(e.args[0], ast.Lambda):
            lam = e.args[0]
            la = lam.args
            if len(la.args) != 2 or la.vararg or la.kwarg or la.kwonlyargs or la.defaults:
                bad(e, "reduce lambda")
            it, tit, pit = t2_expr(e.args[1], env, preds)
            init, tinit, pinit = t2_expr(e.args[2], env, preds)
            if pit or pinit or tit not in ("olist", "ulist") or tinit != "outcome":
                bad(e, "reduce arguments")
            acc, el = la.args[0].arg, la.args[1].arg
            env2 = dict(env)
            env2[acc] = (f"l_{acc}", "outcome")
            env2[el] = (f"l_{el}", "outcome" if tit == "olist" else "uout")
            body, pb = as_outcome(t2_expr(lam.body, env2, preds))
            body = body if pb else f"(Some {body})"
            return (f"(fold_left (fun o_{acc} l_{el} => match o_{acc} with Some l_{acc} => {body} | None => None end) "
                    f"{it} (Some {init}))"), "outcome", True
    bad(e, "expression")


def t2_test(t, env, preds):
    if isinstance(t, ast.UnaryOp) and isinstance(t.op, ast.Not):
        return f"(negb {t2_test(t.operand, env, preds)})"
    if isinstance(t, ast.Call) and isinstance(t.func, ast.Name) and t.func.id == "isinstance" and len(t.args) == 2 \
            and not t.keywords:
        subj, cls = t.args
        names = [cls] if isinstance(cls, ast.Name) else (list(cls.elts) if isinstance(cls, ast.Tuple) else bad(t))
        ids = [n.id if isinstance(n, ast.Name) else bad(t, "isinstance class") for n in names]
        x, tx, partial = t2_expr(subj, env, preds)
        if partial:
            bad(t, "isinstance of a partial expression")
        if tx in ("outcome", "uout") and ids and all(i in CLASSES for i in ids):
            return f"({'is_cls' if tx == 'outcome' else 'u_is_cls'} {x} [" + "; ".join("T" + i for i in ids) + "])"
        if tx == "okdata" and ids == ["_OkData"]:
            return f"(is_many {x})"
        bad(t, "isinstance")
    x, tx, partial = t2_expr(t, env, preds)
    if partial:
        bad(t, "partial test")
    if tx == "bool":
        return x
    if tx in ("olist", "ulist"):
        return f"(nonempty_list {x})"
    bad(t, "test")


def t2_stmts(stmts, env, preds, rtype, ind="  "):
    """-> (text, partial)"""
    if not stmts:
        raise Untranslatable("control reaches the end of the function without a return")
    s, rest = stmts[0], stmts[1:]
    if isinstance(s, ast.Expr) and isinstance(s.value, ast.Constant):
        return t2_stmts(rest, env, preds, rtype, ind)
    if isinstance(s, ast.Return):
        if s.value is None:
            bad(s, "bare return")
        x, t, partial = t2_expr(s.value, env, preds)
        if rtype == "bool":
            if t != "bool" or partial:
                bad(s, "predicate returns a non-boolean")
            return x, False
        if rtype == "outcome":
            if t != "outcome":
                bad(s, "combine returns a non-outcome")
            return x, partial
        wrapc = {"outcome": "UNon", "vlist": "UList"}.get(t) or bad(s, "unwrapped_combine return type")
        return bind([(x, partial)], lambda n: (f"({wrapc} {n[0]})", False))
    if isinstance(s, ast.If):
        c = t2_test(s.test, env, preds)
        a, pa = t2_stmts(list(s.body) + ([] if always_returns(s.body) else rest), dict(env), preds, rtype, ind + "  ")
        b, pb = t2_stmts(list(s.orelse) + rest, dict(env), preds, rtype, ind + "  ")
        if pa or pb:
            a = a if pa else f"(Some {a})"
            b = b if pb else f"(Some {b})"
        return f"(if {c}\n{ind} then {a}\n{ind} else {b})", (pa or pb)
    if isinstance(s, ast.Assign) and len(s.targets) == 1 and isinstance(s.targets[0], ast.Name):
        v = s.targets[0].id
        x, t, partial = t2_expr(s.value, env, preds)
        env = dict(env)
        env[v] = (f"v_{v}", t)
        body, pb = t2_stmts(rest, env, preds, rtype, ind)
        if partial:
            body = body if pb else f"(Some {body})"
            return f"(match {x} with\n{ind} | Some v_{v} => {body}\n{ind} | None => None end)", True
        return f"(let v_{v} := {x} in\n{ind}{body})", pb
    bad(s, "statement")


TOP_HEADER = """
Section GenTop.
  Variable V : Type.
  Notation outcome := (outcome V).
  Notation uoutcome := (uoutcome V).

  (* isinstance(u, (A, B, ...)) where u may be a bare value *)
  Definition u_is_cls (u : uoutcome) (ts : list tag) : bool :=
    match u with UVal _ => false | UOut o => is_cls V o ts end.
  Definition nonempty_list {A : Type} (l : list A) : bool := match l with [] => false | _ => true end.
  (* partial operations: None = not representable / raises *)
  Definition wrap_val (u : uoutcome) : option outcome :=          (* Ok(u) *)
    match u with UVal v => Some (Ok (Single v) None) | UOut _ => None end.
  Definition as_outcome (u : uoutcome) : option outcome :=        (* u used where an outcome is needed *)
    match u with UOut o => Some o | UVal _ => None end.
  Definition boxed (d : okdata V) : option (list V) :=            (* [d] *)
    match d with Single v => Some [v] | Many _ => None end.
  Definition values_of (d : okdata V) : option (list V) :=        (* d.values *)
    match d with Many vs => Some vs | Single _ => None end.
  Local Notation is_cls := (is_cls V).
  Local Notation f_data := (f_data V).
  Local Notation f_location := (f_location V).
  Local Notation is_many := (is_many V).

"""


def translate_top(tree) -> str:
    funcs = {n.name: n for n in tree.body if isinstance(n, ast.FunctionDef)}
    out = [TOP_HEADER]
    done = []
    # predicates, in dependency order (a predicate may only call predicates already translated)
    pending = [p for p in PREDICATES]
    progress = True
    while pending and progress:
        progress = False
        for pname in list(pending):
            fn = funcs.get(pname) or bad(tree, f"function {pname} not found")
            if len(fn.args.args) != 1 or fn.args.args[0].arg != "candidate" or fn.decorator_list:
                raise Untranslatable(f"{pname} has an unexpected signature")
            try:
                texts = []
                for suffix, ty in (("o", "outcome"), ("u", "uout")):
                    body, partial = t2_stmts(list(fn.body), {"candidate": ("candidate", ty)}, done, "bool")
                    texts.append(f"  (* {pname}, result.py line {fn.lineno} *)\n"
                                 f"  Definition {pname}_{suffix} (candidate : {'outcome' if ty == 'outcome' else 'uoutcome'}) : bool :=\n  {body}.\n\n")
            except Untranslatable:
                continue
            out += texts
            done.append(pname)
            pending.remove(pname)
            progress = True
    if pending:
        # report the real reason
        fn = funcs[pending[0]]
        t2_stmts(list(fn.body), {"candidate": ("candidate", "uout")}, done, "bool")
        raise Untranslatable(f"cannot order predicates {pending}")
    for name, argty, rty, coqty in (("combine", "olist", "outcome", "option outcome"),
                                    ("unwrapped_combine", "ulist", "uresult", "option (uresult V)")):
        fn = funcs.get(name) or bad(tree, f"function {name} not found")
        if [a.arg for a in fn.args.args] != ["outcomes"] or fn.args.vararg or fn.args.kwarg or fn.args.kwonlyargs \
                or fn.decorator_list:
            raise Untranslatable(f"{name} has an unexpected signature")
        body, partial = t2_stmts(list(fn.body), {"outcomes": ("outcomes", argty)}, done, rty)
        if not partial:
            body = f"(Some {body})"
        lty = "list outcome" if argty == "olist" else "list uoutcome"
        out.append(f"  (* {name}, result.py line {fn.lineno} *)\n"
                   f"  Definition {name}_gen (outcomes : {lty}) : {coqty} :=\n  {body}.\n\n")
    out.append("End GenTop.\n")
    # _OkData.append must be a pure copy-and-append (the class-level translation relies on it)
    okd = [n for n in tree.body if isinstance(n, ast.ClassDef) and n.name == "_OkData"]
    if len(okd) != 1:
        raise Untranslatable("class _OkData not found")
    want = ("def append(self, value):\n    new = self.values[:]\n    new.append(value)\n    return _OkData(new)",
            "def __init__(self, values: list):\n    self.values = values")
    got = {ast.unparse(m) for m in okd[0].body if isinstance(m, ast.FunctionDef)}
    if got != set(want):
        raise Untranslatable("_OkData is not the copy-and-append wrapper the translation assumes")
    return "".join(out)


def translate(src_text: str) -> str:
    tree = ast.parse(src_text)
    classes = {n.name: n for n in tree.body if isinstance(n, ast.ClassDef)}
    out = [HEADER]
    for c in CLASSES:
        if c not in classes:
            raise Untranslatable(f"class {c} not found in result.py")
        meths = [m for m in classes[c].body if isinstance(m, ast.FunctionDef) and m.name == "combine"]
        if len(meths) != 1:
            raise Untranslatable(f"{c}.combine not found")
        m = meths[0]
        args = [a.arg for a in m.args.args]
        if args != ["self", "other"] or m.args.vararg or m.args.kwarg or m.args.kwonlyargs or m.decorator_list:
            raise Untranslatable(f"{c}.combine has an unexpected signature")
        body = tr_stmts(list(m.body), {})
        out.append(f"  (* {c}.combine, result.py line {m.lineno} *)\n"
                   f"  Definition combine_{c} (self other : outcome) : outcome :=\n  {body}.\n\n")
    out.append("  Definition combine2_gen (self other : outcome) : outcome :=\n    match self with\n"
               + "".join(f"    | {c} {'_ ' * (3 if c == 'Retry' else 2)}=> combine_{c} self other\n" for c in CLASSES)
               + "    end.\nEnd Gen.\n")
    _fresh[0] = 0
    out.append(translate_top(tree))
    return "".join(out)


def main():
    text = translate(SRC.read_text())
    OUT.parent.mkdir(exist_ok=True)
    if not OUT.exists() or OUT.read_text() != text:
        OUT.write_text(text)
    return 0


if __name__ == "__main__":
    try:
        sys.exit(main())
    except Untranslatable as e:
        print("UNTRANSLATABLE:", e)
        sys.exit(1)
