#!/venv/bin/python
"""Translator: src/koreo/result.py  ->  coq/gen/Outcome_gen.v

Regenerates, on every run, a Gallina transcription of the five `combine` methods of the outcome
classes (DepSkip, Skip, Ok, Retry, PermFail) from the Python source as it is NOW.  The hand-written
model (coq/model/Outcome.v), about which the C03 theorems are proved, must be provably EQUAL to this
transcription (coq/proofs/Outcome_sync.v: `combine2_gen_eq`), so a change to result.py that alters
the behaviour of a `combine` method breaks a proof obligation, not only the differential check.

Fail-closed: any Python construct outside the small subset below raises `Untranslatable`.
Conventions (part of the trusted base):
  * an outcome object is a value of `outcome V`; attribute reads become the total accessors
    f_message / f_location / f_delay / f_data (Python would raise AttributeError where the class has no
    such attribute; the isinstance guards of the source make those reads unreachable);
  * `x` in a test position (`if self.message:`) is Python truthiness of an Optional[str];
  * `_OkData([a, b])` and `d.append(e)` build `Many (elems a ++ elems b)` where `elems` of a bare
    value is the one-element list and `elems` of an `_OkData` is its list (an incoming `_OkData`
    cannot be a V; callers never hold one — hypothesis `raw` of the theorems).
"""
from __future__ import annotations

import ast
import os
import sys
from pathlib import Path

VERIF = Path(__file__).resolve().parent.parent
REPO = Path(os.environ.get("KOREO_REPO", "/repo"))
SRC = REPO / "src" / "koreo" / "result.py"
OUT = VERIF / "coq" / "gen" / "Outcome_gen.v"

CLASSES = ["DepSkip", "Skip", "Ok", "Retry", "PermFail"]


class Untranslatable(Exception):
    pass


def bad(node, why=""):
    raise Untranslatable(f"{why} at line {getattr(node, 'lineno', '?')}: {ast.dump(node)[:200]}")


# ---- expressions ----------------------------------------------------------------------------
# every translated expression is (gallina_text, type) with type in
#   'outcome' | 'ostr' (option string) | 'z' | 'okdata' | 'strlist' | 'bool'

def tr_expr(e, env):
    if isinstance(e, ast.Name):
        if e.id in ("self", "other"):
            return e.id, "outcome"
        if e.id in env:
            return env[e.id]
        bad(e, "unknown name")
    if isinstance(e, ast.Attribute) and isinstance(e.value, ast.Name) and e.value.id in ("self", "other"):
        t = {"message": "ostr", "location": "ostr", "delay": "z", "data": "okdata"}.get(e.attr)
        if t is None:
            bad(e, "unknown attribute")
        return f"(f_{e.attr} {e.value.id})", t
    if isinstance(e, ast.List):
        if not e.elts:
            return "(@nil string)", "strlist"
        bad(e, "non-empty list literal outside _OkData(...)")
    if isinstance(e, ast.Call):
        f = e.func
        # ", ".join(xs)
        if (isinstance(f, ast.Attribute) and f.attr == "join" and isinstance(f.value, ast.Constant)
                and isinstance(f.value.value, str) and len(e.args) == 1 and not e.keywords):
            xs, t = tr_expr(e.args[0], env)
            if t != "strlist":
                bad(e, "join of a non-list")
            return f'(Some (join "{f.value.value}" {xs}))', "ostr"
        # self.data.append(other.data)
        if (isinstance(f, ast.Attribute) and f.attr == "append" and len(e.args) == 1 and not e.keywords):
            d, t = tr_expr(f.value, env)
            x, tx = tr_expr(e.args[0], env)
            if t == "okdata" and tx == "okdata":
                return f"(Many (elems {d} ++ elems {x}))", "okdata"
            bad(e, "append in expression position")
        if isinstance(f, ast.Name) and f.id == "max" and len(e.args) == 2 and not e.keywords:
            a, ta = tr_expr(e.args[0], env)
            b, tb = tr_expr(e.args[1], env)
            if ta == tb == "z":
                return f"(Z.max {a} {b})", "z"
            bad(e, "max of non-integers")
        if isinstance(f, ast.Name) and f.id == "_OkData" and len(e.args) == 1 and not e.keywords \
                and isinstance(e.args[0], ast.List):
            parts = []
            for el in e.args[0].elts:
                x, tx = tr_expr(el, env)
                if tx != "okdata":
                    bad(el, "_OkData element is not a data value")
                parts.append(f"elems {x}")
            return "(Many (" + " ++ ".join(parts or ["[]"]) + "))", "okdata"
        if isinstance(f, ast.Name) and f.id in CLASSES and not e.args:
            kw = {k.arg: k.value for k in e.keywords}
            def arg(name, typ, default):
                if name not in kw:
                    return default
                x, t = tr_expr(kw.pop(name), env)
                if t != typ:
                    bad(e, f"{name} has type {t}, expected {typ}")
                return x
            if f.id == "Ok":
                d = arg("data", "okdata", None)
                loc = arg("location", "ostr", "None")
                if d is None or kw:
                    bad(e, "Ok(...) arguments")
                return f"(Ok {d} {loc})", "outcome"
            if f.id == "Retry":
                dl = arg("delay", "z", "60%Z")
                m = arg("message", "ostr", "None")
                loc = arg("location", "ostr", "None")
                if kw:
                    bad(e, "Retry(...) arguments")
                return f"(Retry {dl} {m} {loc})", "outcome"
            m = arg("message", "ostr", "None")
            loc = arg("location", "ostr", "None")
            if kw:
                bad(e, f"{f.id}(...) arguments")
            return f"({f.id} {m} {loc})", "outcome"
    bad(e, "expression")


def tr_test(t, env):
    if isinstance(t, ast.UnaryOp) and isinstance(t.op, ast.Not):
        return f"(negb {tr_test(t.operand, env)})"
    if isinstance(t, ast.Call) and isinstance(t.func, ast.Name) and t.func.id == "isinstance" and len(t.args) == 2:
        subj, cls = t.args
        names = [cls] if isinstance(cls, ast.Name) else (list(cls.elts) if isinstance(cls, ast.Tuple) else bad(t))
        ids = []
        for n in names:
            if not isinstance(n, ast.Name):
                bad(t, "isinstance class")
            ids.append(n.id)
        x, tx = tr_expr(subj, env)
        if tx == "outcome" and all(i in CLASSES for i in ids):
            return "(is_cls " + x + " [" + "; ".join("T" + i for i in ids) + "])"
        if tx == "okdata" and ids == ["_OkData"]:
            return f"(is_many {x})"
        bad(t, "isinstance")
    x, tx = tr_expr(t, env)
    if tx == "ostr":
        return f"(truthy_os {x})"
    bad(t, "test")


# ---- statements -----------------------------------------------------------------------------

def always_returns(stmts):
    if not stmts:
        return False
    s = stmts[-1]
    if isinstance(s, ast.Return):
        return True
    if isinstance(s, ast.If):
        return always_returns(s.body) and always_returns(s.orelse)
    return False


def tr_stmts(stmts, env, ind="  "):
    if not stmts:
        raise Untranslatable("control reaches the end of combine() without a return")
    s, rest = stmts[0], stmts[1:]
    if isinstance(s, ast.Return):
        if s.value is None:
            bad(s, "bare return")
        x, t = tr_expr(s.value, env)
        if t != "outcome":
            bad(s, "combine returns a non-outcome")
        return x
    if isinstance(s, ast.If):
        c = tr_test(s.test, env)
        a = tr_stmts(list(s.body) + ([] if always_returns(s.body) else rest), dict(env), ind + "  ")
        b = tr_stmts(list(s.orelse) + rest, dict(env), ind + "  ")
        return f"(if {c}\n{ind} then {a}\n{ind} else {b})"
    if isinstance(s, ast.Assign) and len(s.targets) == 1 and isinstance(s.targets[0], ast.Name):
        v = s.targets[0].id
        x, t = tr_expr(s.value, env)
        env = dict(env)
        env[v] = (f"v_{v}", t)
        return f"(let v_{v} := {x} in\n{ind}{tr_stmts(rest, env, ind)})"
    if (isinstance(s, ast.Expr) and isinstance(s.value, ast.Call) and isinstance(s.value.func, ast.Attribute)
            and s.value.func.attr == "append" and isinstance(s.value.func.value, ast.Name)
            and s.value.func.value.id in env and env[s.value.func.value.id][1] == "strlist"
            and len(s.value.args) == 1):
        v = s.value.func.value.id
        x, t = tr_expr(s.value.args[0], env)
        if t != "ostr":
            bad(s, "appending a non-string")
        return f"(let v_{v} := v_{v} ++ [opt_text {x}] in\n{ind}{tr_stmts(rest, env, ind)})"
    if isinstance(s, ast.Expr) and isinstance(s.value, ast.Constant):
        return tr_stmts(rest, env, ind)      # docstring
    bad(s, "statement")


HEADER = '''(* GENERATED by harness/translate_result.py from src/koreo/result.py — do not edit.
   A transcription of the `combine` methods of the five outcome classes. *)
From Koreo Require Import Json Outcome.
Local Open Scope list_scope.

Section Gen.
  Variable V : Type.
  Notation outcome := (outcome V).

  Inductive tag := TDepSkip | TSkip | TOk | TRetry | TPermFail.
  Definition tag_of (o : outcome) : tag :=
    match o with
    | DepSkip _ _ => TDepSkip | Skip _ _ => TSkip | Ok _ _ => TOk
    | Retry _ _ _ => TRetry | PermFail _ _ => TPermFail
    end.
  Definition tag_eqb (a b : tag) : bool :=
    match a, b with
    | TDepSkip, TDepSkip | TSkip, TSkip | TOk, TOk | TRetry, TRetry | TPermFail, TPermFail => true
    | _, _ => false
    end.
  (* isinstance(o, (A, B, ...)) *)
  Definition is_cls (o : outcome) (ts : list tag) : bool := existsb (tag_eqb (tag_of o)) ts.
  Definition is_many (d : okdata V) : bool := match d with Many _ => true | Single _ => false end.
  Definition elems (d : okdata V) : list V := match d with Single v => [v] | Many vs => vs end.
  (* attribute reads *)
  Definition f_message (o : outcome) : option string := msg o.
  Definition f_location (o : outcome) : option string := loc o.
  Definition f_delay (o : outcome) : Z := match o with Retry d _ _ => d | _ => 0%Z end.
  Definition f_data (o : outcome) : okdata V := match o with Ok d _ => d | _ => Many [] end.

'''


def translate(src_text: str) -> str:
    tree = ast.parse(src_text)
    classes = {n.name: n for n in tree.body if isinstance(n, ast.ClassDef)}
    out = [HEADER]
    for c in CLASSES:
        if c not in classes:
            raise Untranslatable(f"class {c} not found in result.py")
        meths = [m for m in classes[c].body if isinstance(m, ast.FunctionDef) and m.name == "combine"]
        if len(meths) != 1:
            raise Untranslatable(f"{c}.combine not found")
        m = meths[0]
        args = [a.arg for a in m.args.args]
        if args != ["self", "other"] or m.args.vararg or m.args.kwarg or m.args.kwonlyargs or m.decorator_list:
            raise Untranslatable(f"{c}.combine has an unexpected signature")
        body = tr_stmts(list(m.body), {})
        out.append(f"  (* {c}.combine, result.py line {m.lineno} *)\n"
                   f"  Definition combine_{c} (self other : outcome) : outcome :=\n  {body}.\n\n")
    out.append("  Definition combine2_gen (self other : outcome) : outcome :=\n    match self with\n"
               + "".join(f"    | {c} {'_ ' * (3 if c == 'Retry' else 2)}=> combine_{c} self other\n" for c in CLASSES)
               + "    end.\nEnd Gen.\n")
    return "".join(out)


def main():
    text = translate(SRC.read_text())
    OUT.parent.mkdir(exist_ok=True)
    if not OUT.exists() or OUT.read_text() != text:
        OUT.write_text(text)
    return 0


if __name__ == "__main__":
    try:
        sys.exit(main())
    except Untranslatable as e:
        print("UNTRANSLATABLE:", e)
        sys.exit(1)
