#!/venv/bin/python
"""Regenerate MANIFEST.json from harness/manifest_entries.json (kept valid at all times)."""
import json
from pathlib import Path
V = Path(__file__).resolve().parent.parent
entries = json.loads((V / "harness" / "manifest_entries.json").read_text())
checks = []
for e in entries["claimed"]:
    pid = e["id"]
    checks.append({
        "property_id": pid,
        "quick_cmd": f"/venv/bin/python /verif/harness/check.py {pid} --tier quick",
        "thorough_cmd": f"/venv/bin/python /verif/harness/check.py {pid} --tier thorough",
        "evidence_file": f"/verif/evidence/{pid}.json",
        "replay_cmd_template": f"/venv/bin/python /verif/harness/check.py {pid} --replay {{path}}",
        "engine": "coq-model+correspondence",
        "level_claimed": {"category": "proof", "text": e["text"], "design_ref": e.get("design_ref", f"DESIGN.md section 5, {pid}")},
        "level_note": e["note"],
        "technique": e.get("technique", "machine-checked proof in Coq 8.16.1 over a hand-written Gallina model, tied to /repo by a per-run differential correspondence check (vm_compute) and a direct property oracle"),
    })
m = {
    "version": 1,
    "setup_cmd": "cd /verif && /venv/bin/python harness/setup.py",
    "hooks": {
        "guard": "KOREO_CORE_VERIF",
        "enable": "no source hooks: the harness drives koreo-core through its public functions and shims module attributes in its own process",
        "baseline_off_cmd": "cd /repo && /venv/bin/python -m pytest -ra -q -p no:cacheprovider --timeout=900 --continue-on-collection-errors",
        "source_commits": [],
        "add_only": True,
    },
    "engines": [{
        "name": "coq-model+correspondence",
        "path": "/verif/coq (models, proofs, props) + /verif/harness (check.py, props/*.py)",
        "serves_properties": [e["id"] for e in entries["claimed"]],
        "kind_free_text": "Coq 8.16.1 theorems over executable Gallina models; per-run correspondence (real code vs vm_compute of the model on generated inputs) and direct property oracles",
    }],
    "checks": checks,
    "notes": entries.get("notes", ""),
    "not_applicable": entries["not_applicable"],
}
(V / "MANIFEST.json").write_text(json.dumps(m, indent=1) + "\n")
print("MANIFEST.json:", len(checks), "checks,", len(m["not_applicable"]), "not_applicable")
