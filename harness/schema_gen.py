#!/venv/bin/python
"""C20: translate the bundled CRD schemas (src/koreo/schema/*.yaml) into Gallina `schema` terms.

This is the one translator of the development.  It is FAIL-CLOSED: any JSON-Schema keyword (or keyword
shape) the Coq validator `Schema.validate` does not model raises `SchemaTranslationError`, which check.py
reports as a broken obligation.  The output `coq/gen/Schemas_gen.v` is git-ignored and rewritten (only
when its content changes) by `C20.pre_build()` on every run and by running this file as a script:

    /venv/bin/python /verif/harness/schema_gen.py            # regenerate from $KOREO_REPO (default /repo)

What it reads mirrors koreo.schema.load_validators_from_path / load_validator: every `*.yaml` in the
package directory, every YAML document of kind CustomResourceDefinition whose metadata.name is one of the
five koreo CRD names, the version named DEFAULT_API_VERSION (written here by hand: "v1beta1"), and of
that `schema.openAPIV3Schema.properties.spec` — the sub-schema koreo compiles with fastjsonschema.
"""
from __future__ import annotations

import sys
from pathlib import Path

HERE = Path(__file__).resolve().parent
if str(HERE) not in sys.path:
    sys.path.insert(0, str(HERE))

import yaml  # noqa: E402

import common  # noqa: E402
from common import cjson, clist, cnat, copt, cstr  # noqa: E402

API_VERSION = "v1beta1"          # koreo.constants.DEFAULT_API_VERSION, by hand on purpose

# metadata.name of the CRD -> (our kind name, Gallina identifier)
CRDS = {
    "valuefunctions.koreo.dev": "ValueFunction",
    "resourcefunctions.koreo.dev": "ResourceFunction",
    "resourcetemplates.koreo.dev": "ResourceTemplate",
    "workflows.koreo.dev": "Workflow",
    "functiontests.koreo.dev": "FunctionTest",
}
KINDS = ["ValueFunction", "ResourceFunction", "ResourceTemplate", "Workflow", "FunctionTest"]

TYPES = {"object": "TObject", "array": "TArray", "string": "TString", "integer": "TInteger",
         "number": "TNumber", "boolean": "TBoolean", "null": "TNull"}

# keywords fastjsonschema does not know (it silently ignores unknown keys) and that we ignore the same way
IGNORED = {"description", "nullable"}
NAT_KEYWORDS = {"minLength": "minlen", "maxLength": "maxlen", "minItems": "minitems", "maxItems": "maxitems",
                "minProperties": "minprops", "maxProperties": "maxprops"}
KNOWN = {"type", "enum", "anyOf", "oneOf", "items", "required", "properties", "additionalProperties",
         "default"} | set(NAT_KEYWORDS)


class SchemaTranslationError(Exception):
    pass


def _fail(path, msg):
    raise SchemaTranslationError(f"{'.'.join(path) or '<spec>'}: {msg}")


def _str_list(path, v, what):
    if not isinstance(v, list) or not all(isinstance(x, str) for x in v):
        _fail(path, f"`{what}` must be a list of strings, got {v!r}")
    return list(v)


def _branches(path, v, what):
    """anyOf / oneOf restricted to branches of the form {required: [..]}."""
    if not isinstance(v, list) or not v:
        _fail(path, f"`{what}` must be a non-empty list")
    out = []
    for i, b in enumerate(v):
        if not isinstance(b, dict) or set(b) != {"required"}:
            _fail(path + [f"{what}[{i}]"], f"only branches of the form {{required: [...]}} are modelled, got {b!r}")
        out.append(_str_list(path + [f"{what}[{i}]"], b["required"], "required"))
    return out


def _check_json(path, v):
    if v is None or isinstance(v, (bool, int, str)):
        return
    if isinstance(v, float):
        if v != v or v in (float("inf"), float("-inf")):
            _fail(path, "non-finite float in `default`")
        return
    if isinstance(v, list):
        for x in v:
            _check_json(path, x)
        return
    if isinstance(v, dict):
        for k, x in v.items():
            if not isinstance(k, str):
                _fail(path, f"non-string key {k!r} in `default`")
            _check_json(path, x)
        return
    _fail(path, f"`default` is not a JSON value: {v!r}")


def normalise(node, path=(), strict=True):
    """One schema node (a YAML mapping) -> plain dict with exactly the modelled fields.
    strict=False (used only by the spec GENERATORS of the plugin, so that the real code can still be
    fuzzed when the translation fails) skips what is not modelled instead of raising."""
    if not strict:
        return _normalise_lenient(node, path)
    path = list(path)
    if not isinstance(node, dict):
        _fail(path, f"schema node must be a mapping, got {node!r}")
    out = {"type": None, "enum": None, "anyof": None, "oneof": None, "minlen": None, "maxlen": None,
           "minitems": None, "maxitems": None, "minprops": None, "maxprops": None, "required": [],
           "addl": True, "default": None, "has_default": False, "items": None, "props": None}
    for key, v in node.items():
        if not isinstance(key, str):
            _fail(path, f"non-string keyword {key!r}")
        if key in IGNORED or key.startswith("x-kubernetes-"):
            continue
        if key not in KNOWN:
            _fail(path, f"keyword `{key}` is not modelled by coq/model/Schema.v")
        if key == "type":
            if not isinstance(v, str) or v not in TYPES:
                _fail(path, f"`type` must be one of {sorted(TYPES)}, got {v!r}")
            out["type"] = v
        elif key == "enum":
            out["enum"] = _str_list(path, v, "enum")
        elif key == "anyOf":
            out["anyof"] = _branches(path, v, "anyOf")
        elif key == "oneOf":
            out["oneof"] = _branches(path, v, "oneOf")
        elif key in NAT_KEYWORDS:
            if isinstance(v, bool) or not isinstance(v, int) or v < 0 or v > 4000:
                _fail(path, f"`{key}` must be a small non-negative integer, got {v!r}")
            out[NAT_KEYWORDS[key]] = v
        elif key == "required":
            out["required"] = _str_list(path, v, "required")
        elif key == "additionalProperties":
            if not isinstance(v, bool):
                _fail(path, f"only `additionalProperties: true|false` is modelled, got {v!r}")
            out["addl"] = v
        elif key == "default":
            _check_json(path, v)
            out["default"] = v
            out["has_default"] = True
        elif key == "items":
            out["items"] = normalise(v, path + ["items"])
        elif key == "properties":
            if not isinstance(v, dict):
                _fail(path, "`properties` must be a mapping")
            props = []
            for pk, pv in v.items():
                if not isinstance(pk, str):
                    _fail(path, f"non-string property name {pk!r}")
                props.append((pk, normalise(pv, path + [pk])))
            out["props"] = props
    return out


def _normalise_lenient(node, path):
    if not isinstance(node, dict):
        return normalise({}, path)
    out = normalise({}, path)
    for key, v in node.items():
        if key == "properties" and isinstance(v, dict):
            out["props"] = [(pk, _normalise_lenient(pv, list(path) + [pk])) for pk, pv in v.items() if isinstance(pk, str)]
        elif key == "items":
            out["items"] = _normalise_lenient(v, list(path) + ["items"])
        else:
            try:
                one = normalise({key: v}, path)
            except SchemaTranslationError:
                continue
            for f, val in one.items():
                if f not in ("props", "items") and val != normalise({}, path)[f]:
                    out[f] = val
    return out


def load_spec_schemas(schema_dir: Path | None = None) -> dict[str, dict]:
    """kind -> the raw `openAPIV3Schema.properties.spec` mapping, found the way koreo.schema finds it."""
    schema_dir = schema_dir or (common.SRC / "koreo" / "schema")
    found: dict[str, dict] = {}
    for f in sorted(schema_dir.glob("*.yaml")):
        with f.open() as fh:
            for chunk in yaml.load_all(fh, Loader=yaml.SafeLoader):
                if not isinstance(chunk, dict) or chunk.get("kind") != "CustomResourceDefinition":
                    continue
                kind = CRDS.get((chunk.get("metadata") or {}).get("name"))
                if not kind:
                    continue
                for ver in (chunk.get("spec") or {}).get("versions") or []:
                    if ver.get("name") != API_VERSION:
                        continue
                    spec = ((((ver.get("schema") or {}).get("openAPIV3Schema") or {}).get("properties") or {})
                            .get("spec"))
                    if spec is None:
                        raise SchemaTranslationError(f"{f.name}: no openAPIV3Schema.properties.spec for {kind}")
                    if kind in found:
                        raise SchemaTranslationError(f"{f.name}: second CRD for {kind} {API_VERSION}")
                    found[kind] = spec
    missing = [k for k in KINDS if k not in found]
    if missing:
        raise SchemaTranslationError(f"no bundled {API_VERSION} CRD schema found for {missing} in {schema_dir}")
    return found


def load_normalised(schema_dir: Path | None = None, strict=True) -> dict[str, dict]:
    return {k: normalise(v, [k], strict=strict) for k, v in load_spec_schemas(schema_dir).items()}


# ---- Gallina printing ---------------------------------------------------------

def _c_strs(xs):
    return clist(xs, cstr)


def to_gallina(n: dict, indent=1) -> str:
    pad = "  " * indent
    c = ("(mkC %s %s %s %s %s %s %s %s %s %s %s %s %s)" % (
        copt(n["type"], lambda t: TYPES[t]),
        copt(n["enum"], _c_strs),
        copt(n["anyof"], lambda bs: clist(bs, _c_strs)),
        copt(n["oneof"], lambda bs: clist(bs, _c_strs)),
        copt(n["minlen"], cnat), copt(n["maxlen"], cnat),
        copt(n["minitems"], cnat), copt(n["maxitems"], cnat),
        copt(n["minprops"], cnat), copt(n["maxprops"], cnat),
        _c_strs(n["required"]),
        "true" if n["addl"] else "false",
        ("(Some %s)" % cjson(n["default"])) if n["has_default"] else "None"))
    items = "None" if n["items"] is None else "(Some\n%s%s)" % (pad + "  ", to_gallina(n["items"], indent + 1))
    if n["props"] is None:
        props = "None"
    else:
        props = "(Some [" + ";".join(
            "\n%s(%s,\n%s %s)" % (pad + "  ", cstr(k), pad + "  ", to_gallina(v, indent + 2)) for k, v in n["props"]
        ) + "])"
    return "(Sch %s\n%s%s\n%s%s)" % (c, pad, items, pad, props)


def render(schemas: dict[str, dict]) -> str:
    out = ["(* GENERATED by harness/schema_gen.py from src/koreo/schema/*.yaml — do not edit, not committed. *)",
           "From Koreo Require Import Json Schema.",
           "Local Open Scope list_scope.", ""]
    for k in KINDS:
        out.append(f"Definition S_{k} : schema :=\n  {to_gallina(schemas[k])}.\n")
    out.append("Inductive kind := " + " | ".join("K_" + k for k in KINDS) + ".\n")
    out.append("Definition schema_of (k : kind) : schema :=\n  match k with\n" +
               "\n".join(f"  | K_{k} => S_{k}" for k in KINDS) + "\n  end.\n")
    return "\n".join(out)


def generate(schema_dir: Path | None = None, out: Path | None = None) -> Path:
    """(Re)write coq/gen/Schemas_gen.v if its content changed; return its path."""
    out = out or (common.COQ / "gen" / "Schemas_gen.v")
    body = render(load_normalised(schema_dir))
    out.parent.mkdir(parents=True, exist_ok=True)
    if not out.exists() or out.read_text() != body:
        tmp = out.with_suffix(".v.tmp")
        tmp.write_text(body)
        tmp.replace(out)
    return out


if __name__ == "__main__":
    p = generate()
    print(f"wrote {p} from {common.SRC / 'koreo' / 'schema'}")
