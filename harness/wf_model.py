"""Workflow scenario generator + realiser for the Workflow model (coq/model/Workflow.v), analogous to rf_model.py.

A *scenario* is a plain dict:

  {"name": "wf-main", "trigger": {...}, "existing": [object names already in the cluster],
   "subs": {name: {"steps": [...]}},            # sub-workflows, cached before the main one (in this order)
   "steps": [step, ...],
   "edit": None | ["deps", index, [labels]]}     # optional hand edit of the PREPARED structure

  step = {"label", "inputs": [[key, expr], ...] | None, "skip": expr | None, "foreach": [expr, inputKey] | None,
          "logic": ["fn", name] | ["sub", name] | ["switch", expr, [[case, ["fn"|"sub", name], is_default], ...]],
          "cond": [type, name] | None, "state": [[key, expr], ...] | None}

  expr = ["C", json] | ["S", label, [path]] | ["P", [path]] | ["I", [path]] | ["V", [path]] | ["E"]
       | ["L", [expr]] | ["M", [[key, expr]]]          (model: Workflow.expr)

`realise()` turns it into REAL specs (expressions printed as CEL source), caches the function library and the
sub-workflows through koreo.cache.prepare_and_cache with the real prepare_* functions; `run()` reconciles the
prepared Workflow with the real reconcile_workflow against the in-memory cluster while recording — through in-process
shims of module attributes of koreo.workflow.reconcile — every evaluation of Logic (path of step labels / forEach
indices, target, inputs received), every `_reconcile_steps` outcome map and every API call with the step path it was
made under.  `c_case()` prints (scenario, observation) as Gallina for corr/Corr_C01.v.

The function library (what `fn_sem` is instantiated with in the correspondence check, Corr_C01.std_fn_sem):
  echo   ValueFunction     return {got: =inputs}
  bycls  ValueFunction     outcome class forced by inputs.cls (skip / depskip / retry7 / retry30 / permfail / err),
                           otherwise Ok {got: =inputs, chk: 0}
  null   ValueFunction     no return: Ok null
  res    ResourceFunction  object widgets/ns1/<inputs.name>: present -> GET, Ok {got: =inputs};
                           absent -> GET, POST, Retry 11
  resd   ResourceFunction  object dwidgets/ns1/<inputs.name> whose target holds a list compared as a set
                           (x-koreo-compare-as-set); a present object has DRIFTED in that list:
                           present -> GET, PATCH, Retry 13; absent -> GET, POST, Retry 11
"""
from __future__ import annotations

import asyncio
import contextvars
import copy
import itertools
import json
import re

import drivers
from cluster import Cluster
from common import cbool, cjson, clist, cnat, copt, cpair, cstr, cz

WORKFLOW_KEY = "wf-key"
OWNER = ("ns1", {"apiVersion": "v1", "kind": "Parent", "name": "parent", "uid": "uid-parent",
                 "blockOwnerDeletion": True, "controller": False})
NS = "ns1"
CLS_WORDS = ["ok", "skip", "depskip", "retry7", "retry30", "permfail", "err"]
FN_NAMES = ["echo", "bycls", "null", "res", "resl", "resd"]
RES_FNS = ("res", "resl", "resd")
RES_CREATE_DELAY = 11
RES_PATCH_DELAY = 13

FUNCTIONS = {
    "echo": ("vf", {"return": {"got": "=inputs"}}),
    "bycls": ("vf", {
        "preconditions": [
            {"assert": "=inputs.cls != 'skip'", "skip": {"message": "forced skip"}},
            {"assert": "=inputs.cls != 'depskip'", "depSkip": {"message": "forced depskip"}},
            {"assert": "=inputs.cls != 'retry7'", "retry": {"message": "forced retry", "delay": 7}},
            {"assert": "=inputs.cls != 'retry30'", "retry": {"message": "forced retry", "delay": 30}},
            {"assert": "=inputs.cls != 'permfail'", "permFail": {"message": "forced permfail"}}],
        "return": {"got": "=inputs", "chk": "=inputs.cls == 'err' ? inputs.nope : 0"}}),
    "null": ("vf", {"preconditions": [{"assert": "=true", "ok": {}}]}),
    "res": ("rf", {
        "apiConfig": {"apiVersion": "example.dev/v1", "kind": "Widget", "plural": "widgets",
                      "name": "=inputs.name", "namespace": NS, "owned": False},
        "resource": {"spec": {"tag": "static"}},
        "create": {"delay": RES_CREATE_DELAY},
        "return": {"got": "=inputs"}}),
}
# the same ResourceFunction on another kind and WITHOUT `plural`: the plural is looked up through api.lookup_kind on
# first use in the process (kind_lookup's cache is reset before every run, so every pass starts cold)
FUNCTIONS["resl"] = ("rf", {
    "apiConfig": {"apiVersion": "example.dev/v1", "kind": "Gadget",
                  "name": "=inputs.name", "namespace": NS, "owned": False},
    "resource": {"spec": {"tag": "static"}},
    "create": {"delay": RES_CREATE_DELAY},
    "return": {"got": "=inputs"}})


# a ResourceFunction whose present object has drifted inside a list compared as a set: one pass reads, compares
# (validate.py's compare-as-set branch reports the difference) and patches  (added for seeded C02-17)
FUNCTIONS["resd"] = ("rf", {
    "apiConfig": {"apiVersion": "example.dev/v1", "kind": "Dwidget", "plural": "dwidgets",
                  "name": "=inputs.name", "namespace": NS, "owned": False},
    "resource": {"spec": {"tag": "static", "x-koreo-compare-as-set": ["tags"], "tags": ["a", "b"]}},
    "create": {"delay": RES_CREATE_DELAY},
    "update": {"patch": {"delay": RES_PATCH_DELAY}},
    "return": {"got": "=inputs"}})


_gadget_counter = itertools.count()


def canon_kinds(obs):
    """the kind of `resl` is fresh in every run (Gad<N>: kr8s keeps the looked-up plural on a process-wide class, so
    only a new kind makes the lookup cold); observations name it Gadget / gadgets"""
    return json.loads(re.sub(r"Gad\d+", "Gadget", re.sub(r"gad\d+s", "gadgets", json.dumps(obs))))


def stored_gadget(name, kind="Gadget"):
    return {"apiVersion": "example.dev/v1", "kind": kind, "metadata": {"name": name, "namespace": NS},
            "spec": {"tag": "static"}}


def stored_dwidget(name):
    return {"apiVersion": "example.dev/v1", "kind": "Dwidget", "metadata": {"name": name, "namespace": NS},
            "spec": {"tag": "static", "tags": ["c", "a"]}}


def stored_widget(name):
    return {"apiVersion": "example.dev/v1", "kind": "Widget", "metadata": {"name": name, "namespace": NS},
            "spec": {"tag": "static"}}


def res_rid(name, fn="res"):
    kind = {"res": "Widget", "resd": "Dwidget"}.get(fn, "Gadget")
    return {"apiVersion": "example.dev/v1", "kind": kind, "plural": kind.lower() + "s", "name": name, "readonly": False,
            "namespace": NS, "resourceFunction": fn}


# --------------------------------------------------------------------------------------------
# expressions: CEL source, python evaluation, references
# --------------------------------------------------------------------------------------------

class EvalError(Exception):
    pass


def cel_lit(v) -> str:
    if v is None:
        return "null"
    if v is True:
        return "true"
    if v is False:
        return "false"
    if isinstance(v, int):
        return str(v)
    if isinstance(v, str):
        return json.dumps(v)
    if isinstance(v, list):
        return "[" + ", ".join(cel_lit(x) for x in v) + "]"
    if isinstance(v, dict):
        return "{" + ", ".join(f"{json.dumps(k)}: {cel_lit(x)}" for k, x in v.items()) + "}"
    raise TypeError(type(v))


def _dotted(root, path):
    out = root
    for seg in path:
        out += ("." + seg) if re.fullmatch(r"[A-Za-z_][A-Za-z0-9_]*", seg) else f"[{json.dumps(seg)}]"
    return out


_IDENT = re.compile(r"[A-Za-z_][A-Za-z0-9_]*\Z")


def steps_ref(label, path) -> str:
    """`steps.<label>…` where the label is an identifier (and then only sometimes), else `steps['label']…` /
    `steps["label"]…`: CRD labels are ^\\w+$, so they may start with a digit, be all digits or only underscores"""
    import zlib
    pick = zlib.crc32(repr((label, list(path))).encode()) % 4
    if _IDENT.match(label) and pick < 2:
        head = "steps." + label
    elif pick % 2 == 0:
        head = f"steps['{label}']"
    else:
        head = f'steps["{label}"]'
    return _dotted(head, path)


def cel_src(e) -> str:
    k = e[0]
    if k == "C":
        return cel_lit(e[1])
    if k == "S":
        return steps_ref(e[1], e[2])
    if k == "P":
        return _dotted("parent", e[1])
    if k == "I":
        return _dotted("inputs", e[1])
    if k == "V":
        return _dotted("value", e[1])
    if k == "E":
        return "1/0"
    if k == "L":
        return "[" + ", ".join(cel_src(x) for x in e[1]) + "]"
    if k == "M":
        return "{" + ", ".join(f"{json.dumps(kk)}: {cel_src(x)}" for kk, x in e[1]) + "}"
    if k == "W":
        # the SAME value as e[2], written so that the reference sits only inside a macro body / an index
        # expression / a map literal / a function-call argument (what the dependency extractor has to see through)
        inner = cel_src(e[2])
        return {"mac": f"[0].map(i, {inner})[0]", "idx": f"[{inner}][0]", "fld": '{"k": ' + inner + "}.k",
                "fl": f"flatten([[{inner}]])[0]", "macf": f"[{inner}].filter(i, true)[0]"}[e[1]]
    if k == "H":
        ref = steps_ref(e[1], e[2])
        return f"[0].map(i, has({ref}) ? {ref} : {cel_src(e[3])})[0]"
    if k == "F":
        return f"flatten({cel_src(e[1])})"
    if k == "U":
        return f"[{e[1]}({', '.join(cel_src(a) for a in e[2])}), {cel_src(e[3])}][1]"
    if k == "SA":
        return "steps"
    if k == "SZ":
        return "size(steps)"
    if k == "SI":
        return f"{json.dumps(e[1])} in steps"
    raise ValueError(k)


def spec_leaf(e):
    """an expression as a value inside a `inputs:` / `state:` mapping of a real spec"""
    k = e[0]
    if k == "C":
        return copy.deepcopy(e[1])
    if k == "M":
        return {kk: spec_leaf(x) for kk, x in e[1]}
    if k == "L":
        return [spec_leaf(x) for x in e[1]]
    return "=" + cel_src(e)


def spec_map(kvs):
    return {k: spec_leaf(e) for k, e in kvs}


def spec_expr(e) -> str:
    """an expression at a site that must be a Koreo Expression string (skipIf, itemIn, switchOn)"""
    return "=" + cel_src(e)


def get_path(v, path):
    for p in path:
        if not isinstance(v, dict) or p not in v:
            raise EvalError(f"no {p}")
        v = v[p]
    return v


def py_eval(e, env):
    """env: {"steps": {label: value}, "parent": value, "inputs": value|absent, "value": value|absent}"""
    k = e[0]
    if k == "C":
        return copy.deepcopy(e[1])
    if k == "S":
        if e[1] not in env.get("steps", {}):
            raise EvalError(f"no step {e[1]}")
        return copy.deepcopy(get_path(env["steps"][e[1]], e[2]))
    if k in ("P", "I", "V"):
        root = {"P": "parent", "I": "inputs", "V": "value"}[k]
        if root not in env:
            raise EvalError(f"no {root}")
        return copy.deepcopy(get_path(env[root], e[1]))
    if k == "E":
        raise EvalError("1/0")
    if k == "L":
        return [py_eval(x, env) for x in e[1]]
    if k == "M":
        return {kk: py_eval(x, env) for kk, x in e[1]}
    if k == "W":
        return py_eval(e[2], env)
    if k == "H":
        try:
            return py_eval(["S", e[1], e[2]], env)
        except EvalError:
            return py_eval(e[3], env)
    if k == "F":
        v = py_eval(e[1], env)
        if not isinstance(v, list) or not all(isinstance(x, list) for x in v):
            raise EvalError("flatten")
        return [y for x in v for y in x]
    if k == "U":
        for a in e[2]:
            py_eval(a, env)
        return py_eval(e[3], env)
    if k in ("SA", "SZ", "SI"):
        # `steps` as a whole: exactly the referenced steps' values; unbound when the step references nothing
        st = env.get("steps") or {}
        if not st:
            raise EvalError("steps is not bound")
        return copy.deepcopy(st) if k == "SA" else (len(st) if k == "SZ" else (e[1] in st))
    raise ValueError(k)


def expr_refs(e) -> set:
    k = e[0]
    if k == "S":
        return {e[1]}
    if k == "L":
        return set().union(*[expr_refs(x) for x in e[1]]) if e[1] else set()
    if k == "M":
        return set().union(*[expr_refs(x) for _, x in e[1]]) if e[1] else set()
    if k == "W":
        return expr_refs(e[2])
    if k == "H":
        return {e[1]} | expr_refs(e[3])
    if k == "F":
        return expr_refs(e[1])
    if k == "U":
        return set().union(expr_refs(e[3]), *[expr_refs(a) for a in e[2]])
    return set()


def step_refs(step) -> set:
    """labels the step's expressions mention (what prepare's dynamic_input_keys must cover)"""
    out = set()
    for _, e in step.get("inputs") or []:
        out |= expr_refs(e)
    for _, e in step.get("state") or []:
        out |= expr_refs(e)
    if step.get("skip"):
        out |= expr_refs(step["skip"])
    if step.get("foreach"):
        out |= expr_refs(step["foreach"][0])
    if step["logic"][0] == "switch":
        out |= expr_refs(step["logic"][1])
    return out


# --------------------------------------------------------------------------------------------
# real specs
# --------------------------------------------------------------------------------------------

def logic_ref(lr):
    kind = {"fn": None, "sub": "Workflow"}[lr[0]]
    if lr[0] == "fn":
        kind = "ResourceFunction" if FUNCTIONS.get(lr[1], ("vf",))[0] == "rf" else "ValueFunction"
    return {"kind": kind, "name": lr[1]}


def step_spec(step) -> dict:
    s = {"label": step["label"]}
    lg = step["logic"]
    if lg[0] == "switch":
        cases = []
        for case, lr, is_default in lg[2]:
            c = {"case": case, **logic_ref(lr)}
            if is_default:
                c["default"] = True
            cases.append(c)
        s["refSwitch"] = {"switchOn": spec_expr(lg[1]), "cases": cases}
    else:
        s["ref"] = logic_ref(lg)
    if step.get("inputs") is not None:
        s["inputs"] = spec_map(step["inputs"])
    if step.get("skip") is not None:
        s["skipIf"] = spec_expr(step["skip"])
    if step.get("foreach") is not None:
        s["forEach"] = {"itemIn": spec_expr(step["foreach"][0]), "inputKey": step["foreach"][1]}
    if step.get("cond") is not None:
        s["condition"] = {"type": step["cond"][0], "name": step["cond"][1]}
    if step.get("state") is not None:
        s["state"] = spec_map(step["state"])
    return s


def workflow_spec(steps) -> dict:
    return {"steps": [step_spec(s) for s in steps]}


class Real:
    def __init__(self):
        self.main = None          # prepared structure.Workflow
        self.subs = {}            # name -> prepared Workflow
        self.fns = {}             # name -> prepared function
        self.ident = []           # [(object, ("fn"|"sub", name))]

    def target_of(self, obj):
        for o, t in self.ident:
            if o is obj:
                return t
        return None


async def realise(sc) -> Real:
    from koreo import cache
    from koreo.value_function.structure import ValueFunction
    from koreo.value_function.prepare import prepare_value_function
    from koreo.resource_function.structure import ResourceFunction
    from koreo.resource_function.prepare import prepare_resource_function
    from koreo.workflow.structure import Workflow
    from koreo.workflow.prepare import prepare_workflow
    r = Real()
    r.gadget_kind = f"Gad{next(_gadget_counter)}"
    for name, (kind, spec) in FUNCTIONS.items():
        if name == "resl":
            spec = copy.deepcopy(spec)
            spec["apiConfig"]["kind"] = r.gadget_kind
        cls, prep = (ValueFunction, prepare_value_function) if kind == "vf" else (ResourceFunction, prepare_resource_function)
        p = await cache.prepare_and_cache(cls, prep, {"name": name, "resourceVersion": "1"}, copy.deepcopy(spec))
        assert isinstance(p, cls), f"library function {name} did not prepare: {p!r}"
        r.fns[name] = p
        r.ident.append((p, ("fn", name)))
    for name, sub in sc.get("subs", {}).items():
        p = await cache.prepare_and_cache(Workflow, prepare_workflow, {"name": name, "resourceVersion": "1"},
                                          workflow_spec(sub["steps"]))
        assert isinstance(p, Workflow), f"prepare_workflow({name}) returned {p!r}"
        r.subs[name] = p
        r.ident.append((p, ("sub", name)))
    p = await cache.prepare_and_cache(Workflow, prepare_workflow, {"name": sc["name"], "resourceVersion": "1"},
                                      workflow_spec(sc["steps"]))
    assert isinstance(p, Workflow), f"prepare_workflow returned {p!r}"
    ed = sc.get("edit")
    if ed and ed[0] == "deps":
        steps = list(p.steps)
        if hasattr(steps[ed[1]], "dynamic_input_keys"):
            steps[ed[1]] = steps[ed[1]]._replace(dynamic_input_keys=list(ed[2]))
            p = p._replace(steps=steps)
    r.main = p
    return r


# --------------------------------------------------------------------------------------------
# running the real code with recording shims
# --------------------------------------------------------------------------------------------

PATH: contextvars.ContextVar = contextvars.ContextVar("wf_model_path", default=())
IN_ITEM: contextvars.ContextVar = contextvars.ContextVar("wf_model_in_item", default=False)


class TCluster(Cluster):
    """Cluster that remembers under which step path a call was made; latency keyed by (object name, method)."""

    def __init__(self, *a, lat=None, **kw):
        super().__init__(*a, **kw)
        self.lat = lat or {}
        self.lookup_calls = []

    async def _gate(self, method, info):
        i = self.n
        self.n += 1
        rec = {"i": i, "method": method, **info, "path": PATH.get()}
        self.calls.append(rec)
        d = self.lat.get((info.get("name"), method))
        if d:
            await asyncio.sleep(d)
        rec["done_at"] = asyncio.get_event_loop().time()
        return None


    async def lookup_kind(self, kind: str):
        base = kind.split(".")[0]
        rec = {"kind": base, "path": PATH.get()}
        self.lookup_calls.append(rec)
        d = self.lat.get((re.sub(r"Gad\d+", "Gadget", base), "LOOKUP"))
        if d:
            await asyncio.sleep(d)
        rec["done_at"] = asyncio.get_event_loop().time()
        return await super().lookup_kind(kind)


SKIP_RE = re.compile(r"^(Skip \(message=.*\)|User Skip)$", re.S)
DEPSKIP_RE = re.compile(r"^(Dependency Skip \(message=.*\)|Dependency Violation Skip)$", re.S)


def canon_value(v):
    """plain python; skip outcomes encoded by _outcome_encoder become the tags the model uses"""
    if isinstance(v, str):
        if SKIP_RE.match(v):
            return "<Skip>"
        if DEPSKIP_RE.match(v):
            return "<DepSkip>"
        return v
    if isinstance(v, dict):
        return {k: canon_value(x) for k, x in v.items()}
    if isinstance(v, list):
        return [canon_value(x) for x in v]
    return v


def canon_out(o) -> dict:
    """{'cls', 'delay'?, 'value'?}"""
    c = drivers.canon_outcome(o)
    out = {"cls": c["cls"]}
    if c["cls"] == "Retry":
        out["delay"] = c["delay"]
    if c["cls"] == "Ok":
        out["value"] = canon_value(c["value"])
        if c.get("has_error"):
            out["has_error"] = True
    return out


def canon_rids(r):
    if r is None:
        return None
    if isinstance(r, list):
        return ["many", [canon_rids(x) for x in r]]
    if isinstance(r, dict) and set(r.keys()) == {"workflow", "resources"}:
        return ["wf", r["workflow"], [[k, canon_rids(v)] for k, v in r["resources"].items()]]
    if isinstance(r, dict) and not r:
        return ["empty"]
    return ["res", drivers.to_py(r)]


def canon_result(res) -> dict:
    overall = res.result
    if isinstance(overall, list):
        ov = {"cls": "Ok", "values": canon_value(drivers.to_py(overall))}
    else:
        ov = canon_out(overall)
        if ov["cls"] == "Ok":       # cannot happen: unwrapped_combine returns a list or a non-Ok outcome
            ov = {"cls": "Ok", "values": ["<not-a-list>", ov.get("value")]}
    return {"result": ov,
            "conds": [[c["type"], c["reason"]] for c in res.conditions],
            "cond_status": sorted({c["status"] for c in res.conditions}),
            "state": canon_value(drivers.to_py(res.state)),
            "state_errs": list(res.state_errors.keys()),
            "rids": canon_rids(res.resource_ids)}


_STEP_LOC = re.compile(r"\.spec\.steps\.(\w+?)(?:\[(\d+)\])?(?:\.refSwitch.*)?$")


class Recorder:
    def __init__(self, real: Real):
        self.real = real
        self.trace = []          # {"path": [[label, idx]...], "tgt": [kind, name], "inputs": value}
        self.outcomes = {}       # path tuple -> [[label, canon_out, canon_rids]...]
        self.results = {}        # path tuple -> canon_result of the (nested) reconcile_workflow
        self.messages = {}       # path (json) -> {label: [message, location]} of the non-Ok outcomes (prose: only
                                 # ever compared between two runs of the SAME workflow)
        self.events = []         # top-level completion order: ["step", label] | ["item", label, idx]
        self.raised = []

    def install(self):
        import koreo.workflow.reconcile as R
        from koreo.workflow import structure
        rec = self
        self._R = R
        self._orig = (R._reconcile_step_logic, R._reconcile_steps, R.reconcile_workflow, R._reconcile_step)
        o_logic, o_steps, o_wf, o_step = self._orig

        async def step_shim(**kw):
            res = await o_step(**kw)
            if PATH.get() == ():
                rec.events.append(["step", kw["step"].label])
            return res

        async def logic_shim(**kw):
            logic = kw["logic"]
            loc = kw["location"]
            assert loc.startswith(WORKFLOW_KEY + ".spec.steps."), loc
            m = _STEP_LOC.search(loc)
            label, idx = m.group(1), (int(m.group(2)) if m.group(2) is not None else None)
            if PATH.get() == () and idx is not None and not IN_ITEM.get():
                # the outermost evaluation for a forEach item: its end is the item task's end
                tok = IN_ITEM.set(True)
                try:
                    return await logic_shim(**kw)
                finally:
                    IN_ITEM.reset(tok)
                    rec.events.append(["item", label, idx])
            if isinstance(logic, structure.LogicSwitch):
                return await o_logic(**kw)
            path = PATH.get() + ((label, idx),)
            tgt = rec.real.target_of(logic)
            if tgt is not None:
                rec.trace.append({"path": [list(p) for p in path], "tgt": list(tgt),
                                  "inputs": canon_value(drivers.to_py(kw["inputs"]))})
            tok = PATH.set(path)
            try:
                return await o_logic(**kw)
            finally:
                PATH.reset(tok)

        async def steps_shim(**kw):
            out = await o_steps(**kw)
            rec.outcomes[PATH.get()] = [[k, canon_out(v.result), canon_rids(v.resource_ids)] for k, v in out[0].items()]
            rec.messages[json.dumps([list(p) for p in PATH.get()])] = {
                k: [getattr(v.result, "message", None), getattr(v.result, "location", None)] for k, v in out[0].items()
                if hasattr(v.result, "message")}
            return out

        async def wf_shim(**kw):
            res = await o_wf(**kw)
            rec.results[PATH.get()] = canon_result(res)
            return res

        R._reconcile_step_logic, R._reconcile_steps, R.reconcile_workflow = logic_shim, steps_shim, wf_shim
        R._reconcile_step = step_shim
        return wf_shim

    def uninstall(self):
        R = self._R
        R._reconcile_step_logic, R._reconcile_steps, R.reconcile_workflow, R._reconcile_step = self._orig


def prepared_info(real: Real, name=None):
    """what prepare made of a workflow: steps_ready class and, per step, deps / error outcome"""
    from koreo import result
    from koreo.workflow import structure
    p = real.main if name is None else real.subs[name]
    ready = None if result.is_ok(p.steps_ready) else canon_out(p.steps_ready)
    steps = []
    for s in p.steps:
        if isinstance(s, structure.ErrorStep):
            steps.append({"label": s.label, "error": canon_out(s.outcome)})
        else:
            steps.append({"label": s.label, "deps": sorted(s.dynamic_input_keys)})
    return {"ready": ready, "steps": steps}


def run(sc, lat=None, virtual=True):
    """Prepare and reconcile `sc` with the real code.  Returns the observation dict."""
    drivers.reset_all()

    async def go():
        real = await realise(sc)
        cluster = TCluster(lat=lat)
        for n in sc.get("existing", []):
            cluster.put(stored_widget(n), plural="widgets")
            cluster.put(stored_gadget(n, real.gadget_kind), plural=real.gadget_kind.lower() + "s")
            cluster.put(stored_dwidget(n), plural="dwidgets")
        before = cluster.snapshot()
        rec = Recorder(real)
        entry = rec.install()
        import celpy
        try:
            try:
                res = await entry(api=cluster, workflow_key=WORKFLOW_KEY, owner=copy.deepcopy(OWNER),
                                  trigger=celpy.json_to_cel(copy.deepcopy(sc["trigger"])), workflow=real.main)
                top = canon_result(res)
                rec.messages["<result>"] = {
                    "conditions": [[c.get("type"), c.get("message"), c.get("location")] for c in res.conditions],
                    "overall": [getattr(res.result, "message", None), getattr(res.result, "location", None)],
                    "state_errors": dict(res.state_errors)}
            except Exception as e:        # noqa: BLE001 - the class is the observation
                top = {"raised": type(e).__name__, "msg": str(e)[:300]}
        finally:
            rec.uninstall()
        calls = [{"method": c["method"], "name": c["name"], "path": [list(p) for p in c["path"]],
                  "done_at": c.get("done_at")} for c in cluster.calls]
        # attach each call to the invocation it was made under
        for t in rec.trace:
            t["calls"] = [[c["method"], c["name"]] for c in calls if c["path"] == t["path"]]
        return {"top": top,
                "outcomes": rec.outcomes.get((), []),
                "nested_outcomes": {json.dumps([list(p) for p in k]): v for k, v in rec.outcomes.items() if k != ()},
                "nested_results": {json.dumps([list(p) for p in k]): v for k, v in rec.results.items() if k != ()},
                "trace": rec.trace,
                "events": rec.events,
                "messages": rec.messages,
                "lookups": [{"kind": c["kind"], "path": [list(p) for p in c["path"]]} for c in cluster.lookup_calls],
                "calls": calls,
                "prepared": prepared_info(real),
                "prepared_subs": {n: prepared_info(real, n) for n in real.subs},
                "objects_before": sorted(before.keys()),
                "objects_after": cluster.snapshot()}

    try:
        return canon_kinds(drivers.run_async(go(), virtual=virtual))
    finally:
        drivers.reset_all()


# --------------------------------------------------------------------------------------------
# python reference simulation (used by the generator to pick meaningful expressions; the
# correspondence check is against the Coq model, the oracle is in props/C01.py)
# --------------------------------------------------------------------------------------------

def fn_sim(name, inputs, existing):
    """-> (out, rid, calls); out = ("Ok", value) | (cls, delay|None)"""
    if name == "echo":
        return ("Ok", {"got": copy.deepcopy(inputs)}), None, []
    if name == "null":
        return ("Ok", None), None, []
    if name == "bycls":
        c = inputs.get("cls") if isinstance(inputs, dict) else None
        if not isinstance(c, str):
            return ("PermFail", None), None, []
        m = {"skip": ("Skip", None), "depskip": ("DepSkip", None), "retry7": ("Retry", 7), "retry30": ("Retry", 30),
             "permfail": ("PermFail", None), "err": ("PermFail", None)}
        if c in m:
            return m[c], None, []
        return ("Ok", {"got": copy.deepcopy(inputs), "chk": 0}), None, []
    if name in RES_FNS:
        n = inputs.get("name") if isinstance(inputs, dict) else None
        if not isinstance(n, str):
            return ("PermFail", None), None, []
        if n in existing and name == "resd":
            return ("Retry", RES_PATCH_DELAY), res_rid(n, name), [["GET", n], ["PATCH", n]]
        if n in existing:
            return ("Ok", {"got": copy.deepcopy(inputs)}), res_rid(n, name), [["GET", n]]
        return ("Retry", RES_CREATE_DELAY), res_rid(n, name), [["GET", n], ["POST", n]]
    return ("PermFail", None), None, []


SEV = {"DepSkip": 0, "Skip": 1, "Ok": 2, "Retry": 3, "PermFail": 4}


def combine_sim(outs):
    """class/delay/values of unwrapped_combine over [("Ok", v) | (cls, delay)]"""
    if not outs:
        return ("Skip", None)
    top = max(SEV[o[0]] for o in outs)
    if top == 2:
        return ("Ok", [o[1] for o in outs if o[0] == "Ok"])
    if top == 3:
        return ("Retry", max(o[1] for o in outs if o[0] == "Retry"))
    if top == 4:
        return ("PermFail", None)
    # only skips: the last Skip if any (Skip beats DepSkip; later same-class one replaces), else DepSkip
    return ("Skip", None) if top == 1 else ("DepSkip", None)


def simulate(sc, steps=None, trigger=None, depth=0):
    """sequential reference run -> {"outcomes": {label: out}, "result": out, "state": {...}}"""
    steps = sc["steps"] if steps is None else steps
    trigger = sc["trigger"] if trigger is None else trigger
    existing = set(sc.get("existing", []))
    labels = [s["label"] for s in steps]
    seen = set()
    for s in steps:
        if s["label"] in seen or any(r not in seen for r in step_refs(s)) or _missing_logic(sc, s):
            return {"outcomes": {}, "result": ("PermFail", None), "state": {}, "not_ready": True}
        seen.add(s["label"])
    done = {}

    def logic_sim(lr, inputs, env):
        if lr[0] == "fn":
            return fn_sim(lr[1], inputs, existing)[0]
        if lr[0] == "sub":
            sub = simulate(sc, sc["subs"][lr[1]]["steps"], inputs, depth + 1)
            return ("Ok", sub["state"]) if sub["result"][0] == "Ok" else sub["result"]
        if lr[0] == "switch":
            try:
                v = py_eval(lr[1], {**env, "inputs": inputs})
            except EvalError:
                return ("PermFail", None)
            if isinstance(v, bool) or not isinstance(v, (str, int)):
                return ("PermFail", None)
            sel = None
            for case, target, is_default in lr[2]:
                if case == v:
                    sel = target
            if sel is None:
                for case, target, is_default in lr[2]:
                    if is_default:
                        sel = target
            if sel is None:
                return ("PermFail", None)
            return logic_sim(sel, inputs, env)
        raise ValueError(lr)

    for s in steps:
        refs = sorted(step_refs(s))
        bad = [d for d in refs if done[d][0] != "Ok"]
        if bad:
            done[s["label"]] = ("DepSkip", None)
            continue
        env = {"steps": {d: done[d][1] for d in refs}, "parent": trigger}
        try:
            inputs = py_eval(["M", s["inputs"]], env) if s.get("inputs") else {}
        except EvalError:
            done[s["label"]] = ("PermFail", None)
            continue
        if s.get("skip") is not None:
            try:
                k = py_eval(s["skip"], env)
            except EvalError:
                done[s["label"]] = ("PermFail", None)
                continue
            if not isinstance(k, bool):
                done[s["label"]] = ("PermFail", None)
                continue
            if k:
                done[s["label"]] = ("Skip", None)
                continue
        if s.get("foreach") is not None:
            try:
                items = py_eval(s["foreach"][0], env)
            except EvalError:
                done[s["label"]] = ("PermFail", None)
                continue
            if not isinstance(items, list):
                done[s["label"]] = ("PermFail", None)
                continue
            outs = []
            for it in items:
                ii = copy.deepcopy(inputs)
                ii[s["foreach"][1]] = it
                outs.append(logic_sim(s["logic"], ii, env))
            errs = [o for o in outs if o[0] in ("Retry", "PermFail")]
            if errs:
                done[s["label"]] = combine_sim(errs)
            else:
                done[s["label"]] = ("Ok", [o[1] if o[0] == "Ok" else f"<{o[0]}>" for o in outs])
            continue
        done[s["label"]] = logic_sim(s["logic"], inputs, env)
    state = {}
    for s in steps:
        o = done[s["label"]]
        if s.get("state") and o[0] == "Ok":
            try:
                state.update(py_eval(["M", s["state"]], {"value": o[1]}))
            except EvalError:
                pass
    return {"outcomes": done, "result": combine_sim([done[l] for l in labels]), "state": state}


def _missing_logic(sc, s):
    lg = s["logic"]
    refs = [lg] if lg[0] != "switch" else [c[1] for c in lg[2]]
    for r in refs:
        if r[0] == "fn" and r[1] not in FUNCTIONS:
            return True
        if r[0] == "sub" and r[1] not in sc.get("subs", {}):
            return True
    return False


# --------------------------------------------------------------------------------------------
# Gallina
# --------------------------------------------------------------------------------------------

def c_path(p):
    return clist(p, cstr)


def c_expr(e):
    k = e[0]
    if k == "C":
        return f"(EConst {cjson(e[1])})"
    if k == "S":
        return f"(EStep {cstr(e[1])} {c_path(e[2])})"
    if k == "P":
        return f"(EParent {c_path(e[1])})"
    if k == "I":
        return f"(EInputs {c_path(e[1])})"
    if k == "V":
        return f"(EValue {c_path(e[1])})"
    if k == "E":
        return "EErr"
    if k == "L":
        return "(EList " + clist(e[1], c_expr) + ")"
    if k == "M":
        return "(EMap " + c_emap(e[1]) + ")"
    if k == "W":
        return c_expr(e[2])
    if k == "H":
        return f"(EHas {cstr(e[1])} {c_path(e[2])} {c_expr(e[3])})"
    if k == "F":
        return f"(EFlatten {c_expr(e[1])})"
    if k == "U":
        return f"(EUse {clist(e[2], c_expr)} {c_expr(e[3])})"
    if k == "SA":
        return "EStepsAll"
    if k == "SZ":
        return "EStepsSize"
    if k == "SI":
        return f"(EStepsIn {cstr(e[1])})"
    raise ValueError(k)


def c_emap(kvs):
    return clist(kvs, lambda kv: cpair(cstr(kv[0]), c_expr(kv[1])))


def c_nonok(o):
    c = o["cls"]
    if c == "Retry":
        return f"(NRetry {cz(o['delay'])})"
    return {"DepSkip": "NDepSkip", "Skip": "NSkip", "PermFail": "NPermFail"}[c]


def c_sout(o):
    if o["cls"] == "Ok":
        return f"(SVal {cjson(o.get('value'))})"
    return f"(SNon {c_nonok(o)})"


def c_logic(sc, lg, prepared_subs, depth=0):
    if lg[0] == "fn":
        return f"(LFn {cstr(lg[1])})"
    if lg[0] == "sub":
        info = prepared_subs[lg[1]]
        return (f"(LSub {cstr(lg[1])} {copt(info['ready'], c_nonok)} "
                f"{c_steps(sc, sc['subs'][lg[1]]['steps'], info, prepared_subs, depth + 1)})")
    if lg[0] == "switch":
        cases = clist(lg[2], lambda c: cpair(cstr(c[0]), c_logic(sc, c[1], prepared_subs, depth)))
        dflt = None
        for c in lg[2]:
            if c[2]:
                dflt = c[1]
        d = "None" if dflt is None else f"(Some {c_logic(sc, dflt, prepared_subs, depth)})"
        return f"(LSwitch {c_expr(lg[1])} {cases} {d})"
    raise ValueError(lg)


def c_steps(sc, steps, info, prepared_subs, depth=0):
    out = []
    assert len(steps) == len(info["steps"]), (len(steps), info)
    for s, pi in zip(steps, info["steps"]):
        if "error" in pi:
            out.append(f"(mkStep {cstr(pi['label'])} [] None None None (LErr {c_nonok(pi['error'])}) None None)")
            continue
        fe = "None" if not s.get("foreach") else f"(Some ({c_expr(s['foreach'][0])}, {cstr(s['foreach'][1])}))"
        cond = "None" if not s.get("cond") else f"(Some ({cstr(s['cond'][0])}, {cstr(s['cond'][1])}))"
        # `inputs: {}` / `state: {}` prepare to None (prepare_map_expression: `if not spec`)
        inputs = "None" if not s.get("inputs") else f"(Some {c_emap(s['inputs'])})"
        state = "None" if not s.get("state") else f"(Some {c_emap(s['state'])})"
        out.append(f"(mkStep {cstr(pi['label'])} {clist(pi['deps'], cstr)} {inputs} {copt(s.get('skip'), c_expr)} "
                   f"{fe} {c_logic(sc, s['logic'], prepared_subs, depth)} {cond} {state})")
    return "[" + ";\n  ".join(out) + "]"


def c_rids(r):
    if r is None:
        return "RNone"
    if r[0] == "many":
        return "(RMany " + clist(r[1], c_rids) + ")"
    if r[0] == "wf":
        return f"(RWf {cstr(r[1])} " + clist(r[2], lambda kv: cpair(cstr(kv[0]), c_rids(kv[1]))) + ")"
    if r[0] == "empty":
        return "REmpty"
    return f"(RRes {cjson(r[1])})"


def c_inv(t):
    path = clist(t["path"], lambda p: cpair(cstr(p[0]), copt(p[1], cnat)))
    tgt = f"(TgFn {cstr(t['tgt'][1])})" if t["tgt"][0] == "fn" else f"(TgSub {cstr(t['tgt'][1])})"
    calls = clist(t.get("calls", []), lambda c: cpair(cstr(c[0]), cstr(c[1])))
    return "{| i_path := %s; i_tgt := %s; i_inputs := %s; i_calls := %s |}" % (path, tgt, cjson(t["inputs"]), calls)


def c_result(ov):
    if ov["cls"] == "Ok":
        return f"(OList {clist(ov['values'], cjson)})"
    return f"(ONon {c_nonok(ov)})"


def c_obs(o):
    top = o["top"]
    return ("{| o_result := %s; o_outcomes := %s; o_conds := %s; o_state := %s; o_state_errs := %s; "
            "o_rids := %s; o_trace := %s; o_calls := %s |}" % (
                c_result(top["result"]),
                clist(o["outcomes"], lambda x: cpair(cstr(x[0]), c_sout(x[1]))),
                clist(top["conds"], lambda c: cpair(cstr(c[0]), cstr(c[1]))),
                cjson(top["state"]), clist(top["state_errs"], cstr), c_rids(top["rids"]),
                clist(o["trace"], c_inv),
                clist(o["calls"], lambda c: cpair(cstr(c["method"]), cstr(c["name"])))))


def c_workflow(sc, o):
    info = o["prepared"]
    if sc.get("edit") and sc["edit"][0] == "deps":
        info = copy.deepcopy(info)
        if "deps" in info["steps"][sc["edit"][1]]:
            info["steps"][sc["edit"][1]]["deps"] = list(sc["edit"][2])
    return (f"{cstr(sc['name'])} {copt(info['ready'], c_nonok)}\n  "
            f"{c_steps(sc, sc['steps'], info, o['prepared_subs'])}\n  {cjson(sc['trigger'])}")


def c_case(sc, o):
    """Corr_C01.case"""
    return f"(mkCase {clist(sc.get('existing', []), cstr)} {c_workflow(sc, o)}\n  {c_obs(o)})"


# --------------------------------------------------------------------------------------------
# random scenarios
# --------------------------------------------------------------------------------------------

SAFE_STR = ["x", "y", "hello", "v one", "Zeta", "a-b", "one", "two"]
KEYS = ["a", "b", "c", "k", "v", "n", "m", "p", "q", "flag", "lst", "obj"]
STATE_KEYS = ["s1", "s2", "s3", "s4"]
COND_TYPES = ["Alpha", "Beta", "Gamma"]
CASES = ["one", "two", "three"]


def C(v):
    return ["C", v]


def rand_scalar(rng):
    return rng.choice([0, 1, 2, -3, 17, True, False, None, "x", "y", "hello", "v one", 10 ** 12])


def rand_const(rng, depth=2):
    r = rng.random()
    if depth <= 0 or r < 0.6:
        return rand_scalar(rng)
    if r < 0.8:
        return [rand_const(rng, depth - 1) for _ in range(rng.choice([0, 1, 2, 3]))]
    return {k: rand_const(rng, depth - 1) for k in rng.sample(KEYS, rng.choice([0, 1, 2]))}


def paths_into(v, pre=()):
    out = [(list(pre), v)]
    if isinstance(v, dict):
        for k, x in v.items():
            if re.fullmatch(r"[A-Za-z_][A-Za-z0-9_]*", k):
                out += paths_into(x, pre + (k,))
    return out


def steps_like(rng):
    """a sub-document whose keys look like step references: parent.spec.steps.<label>…, …num_steps.total, …steps_total"""
    labels = [f"st{i:02d}" for i in range(0, 8)] + ["build", "zz9"]
    return {l: {"image": f"img-{l}", "flag": rng.random() < 0.3, "lst": [l, 1], "sel": rng.choice(CASES)}
            for l in rng.sample(labels, rng.choice([2, 3, 5]))}


def rand_trigger(rng):
    t = _rand_trigger(rng)
    if rng.random() < 0.6:
        t["spec"]["steps"] = steps_like(rng)
        t["spec"]["num_steps"] = {"total": len(t["spec"]["steps"])}
        t["spec"]["steps_total"] = rng.choice([1, 2])
    return t


def _rand_trigger(rng):
    return {"spec": {"y": rng.choice([5, 0, "hello"]), "flag": rng.random() < 0.5, "off": False,
                     "lst": [rand_scalar(rng) for _ in range(rng.choice([0, 1, 2, 3]))],
                     "sel": rng.choice(CASES + ["zzz"]), "lol": [[1, 2], ["x"]]},
            "metadata": {"name": "trigger-1"}}


class Gen:
    """builds one workflow (main or sub) step by step, simulating as it goes"""

    def __init__(self, rng, sc, in_sub=False, sample_parent=None, prefix="st"):
        self.rng, self.sc, self.in_sub, self.prefix = rng, sc, in_sub, prefix
        self.parent = sample_parent if in_sub else sc["trigger"]
        self.steps = []
        self.needs = []       # (sub only) parent keys that must hold distinct object names
        # per-workflow error budget: scales the probability of failing expressions / failing Logic
        self.err = sc.get("err_rate", 1.0)

    def sim(self):
        return simulate(self.sc, self.steps, self.parent)["outcomes"]

    def make_label(self, idx):
        """labels over the whole CRD-legal alphabet (^\\w+$, 3..45 characters)"""
        style = self.rng.choice(["id", "id", "id", "id", "digit", "alldigit", "under", "long", "mixed"])
        p = self.prefix
        return {"id": f"{p}{idx:02d}", "digit": f"{idx}fa_{p}", "alldigit": f"{idx:03d}", "under": "_" * (3 + idx),
                "long": (f"L{idx:02d}_{p}_" + "x" * 45)[:45], "mixed": f"St_{idx}A{p}"}[style]

    def ref_expr(self, done, want=None):
        """an expression reading an earlier step or the parent; want: None | 'bool' | 'list' | 'str'"""
        rng = self.rng
        cands = []
        labels = [s["label"] for s in self.steps]
        pool = [l for l in labels if done[l][0] == "Ok"]
        pick_ok = pool and (rng.random() < 0.8 or want)
        if pick_ok:
            for l in (pool if want else [rng.choice(pool)]):
                for p, v in paths_into(done[l][1]):
                    cands.append((["S", l, p], v))
        if not want and labels and not pick_ok:
            l = rng.choice(labels)
            return ["S", l, rng.choice([[], ["got"]])]
        for p, v in paths_into(self.parent):
            cands.append((["P", p], v))
        if want == "bool":
            cands = [c for c in cands if isinstance(c[1], bool)]
        elif want == "list":
            cands = [c for c in cands if isinstance(c[1], list)]
        elif want == "str":
            cands = [c for c in cands if isinstance(c[1], str)]
        if not cands:
            return None
        e, v = copy.deepcopy(rng.choice(cands))
        if rng.random() < 0.06 * self.err:
            e[-1] = e[-1] + ["nope"]        # a path that does not exist: evaluation error
            return e
        return self.dress(e, v, cands)

    def dress(self, e, v, cands):
        """sometimes write the reference so that it sits only inside a macro body / index expression / literal /
        function-call argument, behind has(), or next to a koreo CEL helper applied to the referenced value"""
        rng = self.rng
        r = rng.random()
        if r < 0.22:
            return ["W", rng.choice(["mac", "idx", "fld", "fl", "macf"]), e]
        if r < 0.30 and e[0] == "S" and e[2]:
            return ["H", e[1], e[2], C(rng.choice(["dflt", 0, None]))]
        if r < 0.36 and isinstance(v, list) and v and all(isinstance(x, list) for x in v):
            return ["F", e]
        if r < 0.52:
            # a helper applied to (a part of) some referenced value; what is kept is this or another reference
            he, hv = copy.deepcopy(rng.choice(cands))
            if isinstance(hv, dict):
                call = rng.choice([("overlay", [he, C({"zz": 1})]), ("to_json", [he])])
            elif isinstance(hv, str):
                call = rng.choice([("lower", [he]), ("split", [he, C("-")])])
            elif isinstance(hv, list) and all(isinstance(x, list) for x in hv):
                call = ("flatten", [he])
            else:
                call = ("to_json", [he])
            return ["U", call[0], call[1], e]
        return e

    def target(self, allow_sub=True, allow_res=True):
        rng = self.rng
        subs = list(self.sc.get("subs", {}).keys()) if allow_sub else []
        if allow_res and rng.random() < self.sc.get("res_bias", 0):
            return ["fn", rng.choice(["res", "res", "resl"])]
        r = rng.random()
        if r < 0.3:
            return ["fn", "echo"]
        if r < 0.62:
            return ["fn", "bycls"]
        if r < 0.65:
            return ["fn", "null"]
        if r < 0.8 and allow_res:
            return ["fn", rng.choice(["res", "res", "resl"])]
        if subs:
            return ["sub", rng.choice(subs)]
        return ["fn", "echo"]

    def add_step(self):
        rng, sc = self.rng, self.sc
        done = self.sim()
        idx = len(self.steps)
        label = self.make_label(idx)
        step = {"label": label, "inputs": None, "skip": None, "foreach": None, "logic": None, "cond": None, "state": None}
        inputs = []
        used = set()

        def put(k, e):
            if k not in used:
                used.add(k)
                inputs.append([k, e])

        # ---- logic
        if rng.random() < 0.12:
            cases = rng.sample(CASES, rng.choice([1, 2, 3]))
            has_default = rng.random() < 0.5
            di = rng.randrange(len(cases)) if has_default else -1
            distinct = [["fn", "echo"], ["fn", "bycls"], ["fn", "null"]]
            rng.shuffle(distinct)          # different functions per case: the trace shows which one ran
            entries = [[c, (distinct[i] if rng.random() < 0.6 else self.target()), i == di] for i, c in enumerate(cases)]
            r = rng.random()
            if r < 0.6:
                on = ["I", ["sel"]]
                put("sel", C(rng.choice(CASES + CASES + ["zzz", 7, True])))
            elif r < 0.7:
                on = self.ref_expr(done, want="str") or C("one")
            elif r < 0.8:
                # an inputs path with a segment named `steps` followed by a label (existing / later / unknown)
                lab = rng.choice([s_["label"] for s_ in self.steps] + [f"{self.prefix}{len(self.steps) + 2:02d}", "build"])
                on = ["I", ["cfg", "steps", lab]]
                put("cfg", C({"steps": {lab: rng.choice(CASES)}, "num_steps": 2}))
            elif r < 1 - 0.05 * self.err:
                on = C(rng.choice(CASES + ["zzz"]))
            else:
                on = ["E"]
            step["logic"] = ["switch", on, entries]
            targets = [e[1] for e in entries]
        else:
            step["logic"] = self.target()
            targets = [step["logic"]]
        tnames = {("res" if t[1] in RES_FNS else t[1]) for t in targets if t[0] == "fn"}
        need_keys = []
        for t in targets:
            if t[0] == "sub":
                for k in sc["subs"][t[1]].get("needs", []):
                    if k not in need_keys:
                        need_keys.append(k)

        # ---- forEach
        fe_key = None
        if rng.random() < 0.22:
            r = rng.random()
            n = rng.choice([1, 2, 3, 4, 2, 3, rng.randrange(11, 16)])      # sometimes > 10 items (index 10 vs 2)
            if step["logic"][0] == "switch" and "res" not in tnames and not need_keys and r < 0.7:
                # refSwitch x forEach: switchOn depends on the ITEM, items select different cases
                sels = [rng.choice(CASES + CASES + ["zzz"]) for _ in range(n)]
                if rng.random() < 0.5:
                    fe_key, items = "sel", sels
                    step["logic"][1] = ["I", ["sel"]]
                else:
                    fe_key, items = "item", [{"kind": c, "n": i} for i, c in enumerate(sels)]
                    step["logic"][1] = ["I", ["item", "kind"]]
                inputs[:] = [kv for kv in inputs if kv[0] != fe_key]
            elif "res" in tnames and not self.in_sub:
                fe_key, items = "name", [f"obj-{label}-{i}" for i in range(n)]
            elif "res" in tnames:
                fe_key = None
            elif need_keys:
                if len(need_keys) == 1 and not self.in_sub:
                    fe_key, items = need_keys[0], [f"obj-{label}-{i}" for i in range(n)]
            elif "bycls" in tnames and r < 0.75:
                heavy = rng.random() < 0.4 * self.err
                words = CLS_WORDS if heavy else ["ok", "ok", "ok", "skip", "depskip"]
                fe_key, items = "cls", [rng.choice(words) for _ in range(n)]
            elif "bycls" not in tnames or True:
                fe_key, items = "item", ([rand_const(rng, 1) for _ in range(n)] if rng.random() < 0.5 else
                                         [f"it{i}" for i in range(n)])
            if fe_key is not None:
                r2 = rng.random()
                src = C(items)
                if fe_key == "item" and r2 < 0.3 and step["logic"][0] != "switch":
                    src = self.ref_expr(done, want="list") or src
                elif r2 < 0.36:
                    src = C([])
                elif r2 < 0.36 + 0.04 * self.err:
                    src = C(rng.choice([5, "x", {"a": 1}, None]))
                elif r2 < 0.36 + 0.07 * self.err:
                    src = ["E"]
                step["foreach"] = [src, fe_key]
                used.add(fe_key)
                if rng.random() < 0.3:
                    # the step's own inputs also define the key named by inputKey: every iteration still gets its item
                    shadow = self.ref_expr(done) if rng.random() < 0.4 else None
                    inputs.append([fe_key, shadow or C(rng.choice(["static", "ok", 0, f"obj-{label}-static"]))])
        # ---- inputs the Logic needs
        if "bycls" in tnames and fe_key != "cls":
            words = ["ok"] * 8 + ["skip", "depskip"] + (CLS_WORDS if rng.random() < self.err else [])
            put("cls", C(rng.choice(words)))
        if "res" in tnames and fe_key != "name":
            if self.in_sub:
                k = f"n{len(self.needs)}"
                self.needs.append(k)
                put("name", ["P", [k]])
            else:
                put("name", C(f"obj-{label}"))
        for k in need_keys:
            if k != fe_key:
                if self.in_sub:
                    # a sub-workflow may be evaluated several times: object names always come from its caller
                    k2 = f"n{len(self.needs)}"
                    self.needs.append(k2)
                    put(k, ["P", [k2]])
                else:
                    put(k, C(f"obj-{label}-{k}"))
        sample = {"sel": rng.choice(CASES), "a": rng.choice([1, 2]), "flag": rng.random() < 0.3, "lst": [1, "x"]}
        for t in targets:
            if t[0] == "sub":
                for k in sc["subs"][t[1]].get("reads", []):
                    if k in sample and k != fe_key and rng.random() < 1 - 0.15 * self.err:
                        put(k, C(sample[k]))
        # ---- data inputs
        for _ in range(rng.choice([0, 0, 1, 1, 2, 3])):
            e = self.ref_expr(done) if (self.steps or rng.random() < 0.5) else None
            if e is not None:
                put(rng.choice(KEYS), e)
        for _ in range(rng.choice([0, 0, 1, 2])):
            put(rng.choice(KEYS), C(rand_const(rng)))
        if rng.random() < 0.15:
            put("lol", C([[rand_scalar(rng) for _ in range(rng.choice([1, 2]))] for _ in range(rng.choice([1, 2, 3]))]))
        if rng.random() < 0.12 and self.steps:
            # the `steps` map as a whole: must hold exactly the referenced steps
            put("seen", rng.choice([["SA"], ["SZ"], ["SI", rng.choice(self.steps)["label"]],
                                    ["M", [["all", ["SA"]], ["n", ["SZ"]]]]]))
        if rng.random() < 0.03 * self.err:
            put(rng.choice(KEYS), ["E"])
        if rng.random() < 0.08:
            inner = [x for x in [self.ref_expr(done), C(rand_scalar(rng))] if x is not None]
            put(rng.choice(KEYS), rng.choice([["L", inner], ["M", [[f"k{i}", x] for i, x in enumerate(inner)]]]))
        if inputs or rng.random() < 0.3:
            rng.shuffle(inputs)
            step["inputs"] = inputs
        # ---- skipIf
        if rng.random() < 0.28:
            r = rng.random()
            if r < 0.45:
                step["skip"] = C(rng.random() < 0.4)
            elif r < 0.85:
                step["skip"] = self.ref_expr(done, want="bool") or C(False)
            elif r < 1 - 0.05 * self.err:
                step["skip"] = C(rng.choice([5, "x", None])) if rng.random() < self.err else C(False)
            else:
                step["skip"] = ["E"]
        # ---- condition, state
        if rng.random() < 0.3:
            step["cond"] = [rng.choice(COND_TYPES), f"thing {label}"]
        if rng.random() < 0.35:
            st = []
            for k in rng.sample(STATE_KEYS, rng.choice([1, 1, 2])):
                r = rng.random()
                st.append([k, ["V", []] if r < 0.45 else (["V", ["got"]] if r < 0.8 else C(rand_const(rng, 1)))])
            step["state"] = st
        self.steps.append(step)
        return step


def _gen_sub(rng, sc, name, depth):
    g = Gen(rng, sc, in_sub=True, sample_parent={"n0": "obj-x-n0", "n1": "obj-x-n1", "n2": "obj-x-n2",
                                                  "sel": "one", "a": 1, "flag": True, "lst": [1, 2]},
            prefix=f"{name.replace('-', '')}x")
    for _ in range(rng.choice([1, 1, 2, 3, 4])):
        g.add_step()
    reads = set()

    def scan(v):
        if isinstance(v, list):
            if len(v) == 2 and v[0] == "P" and isinstance(v[1], list):
                if v[1]:
                    reads.add(v[1][0])
                return
            for x in v:
                scan(x)
        elif isinstance(v, dict):
            for x in v.values():
                scan(x)
    scan(g.steps)
    # registered afterwards: no self reference
    sc["subs"][name] = {"steps": g.steps, "needs": g.needs, "reads": sorted(reads - set(g.needs))}


def _break(rng, steps, how):
    """make prepare reject the workflow (steps_ready not Ok)"""
    if how == "dup" and len(steps) >= 2:
        i, j = sorted(rng.sample(range(len(steps)), 2))
        steps[j]["label"] = steps[i]["label"]
        return True
    if how == "missing":
        s = rng.choice(steps)
        if s["logic"][0] == "fn":
            s["logic"] = ["fn", "absent-fn"]
            return True
        return False
    if how == "order":
        for j, s in enumerate(steps):
            refs = step_refs(s)
            if refs:
                i = [t["label"] for t in steps].index(sorted(refs)[0])
                steps[i], steps[j] = steps[j], steps[i]
                return True
        return False
    return False


def all_object_names(sc):
    names = set()

    def walk(v):
        if isinstance(v, str) and v.startswith("obj-"):
            names.add(v)
        elif isinstance(v, list):
            for x in v:
                walk(x)
        elif isinstance(v, dict):
            for x in v.values():
                walk(x)
    walk(sc["steps"])
    walk(sc.get("subs", {}))
    return sorted(names)


def rand_scenario(rng, nsteps=None, broken=None, res_bias=0):
    sc = {"name": "wf-main", "trigger": rand_trigger(rng), "existing": [], "subs": {}, "steps": [], "edit": None,
          "err_rate": rng.choice([0.0, 0.0, 0.3, 1.0]), "res_bias": res_bias}
    for i in range(rng.choice([0, 0, 1, 1, 2])):
        _gen_sub(rng, sc, f"sub-{i}", 1)
    g = Gen(rng, sc)
    sc["steps"] = g.steps
    n = nsteps if nsteps is not None else rng.choice([1, 2, 3, 3, 4, 5, 6, 8, 10, 12, 16, 20])
    for _ in range(n):
        g.add_step()
    names = all_object_names(sc)
    sc["existing"] = [x for x in names if rng.random() < 0.5]
    if broken is None:
        r = rng.random()
        broken = "dup" if r < 0.03 else "missing" if r < 0.06 else "order" if r < 0.09 else \
                 "sub" if r < 0.12 else "edit" if r < 0.14 else None
    sc["broken"] = None
    if broken in ("dup", "missing", "order"):
        if _break(rng, sc["steps"], broken):
            sc["broken"] = broken
    elif broken == "sub" and sc["subs"]:
        name = rng.choice(sorted(sc["subs"]))
        if _break(rng, sc["subs"][name]["steps"], rng.choice(["dup", "missing"])):
            sc["broken"] = "sub"
    elif broken == "edit" and len(sc["steps"]) >= 2:
        i = rng.randrange(len(sc["steps"]) - 1)
        later = sc["steps"][rng.randrange(i + 1, len(sc["steps"]))]["label"]
        sc["edit"] = ["deps", i, sorted(step_refs(sc["steps"][i]) | {later})]
        sc["broken"] = "edit"
    return sc


def c_events(evs):
    return clist(evs, lambda e: f"(EvStep {cstr(e[1])})" if e[0] == "step" else f"(EvItem {cstr(e[1])} {cnat(e[2])})")


def c_sched_case(sc, o):
    """Corr_C02.scase"""
    return f"(mkSCase {c_case(sc, o)} {c_events(o['events'])})"


def shares_objects(o) -> bool:
    """the run violates the hypothesis 'steps act on pairwise distinct objects': an object was touched by two
    different evaluations of Logic"""
    by = {}
    for c in o["calls"]:
        by.setdefault(c["name"], set()).add(json.dumps(c["path"]))
    return any(len(v) > 1 for v in by.values())
