"""Shared machinery for the koreo-core verification checks.

Every check (`check.py Cxx`) does:
  1. build the Coq model + theorems it needs (full .vo build of those targets),
  2. re-check `props/P_Cxx.v`, read `Print Assumptions`, scan for forbidden
     vernacular,
  3. run the property's plugin: generate inputs from one PRNG, run the real
     koreo code on them, evaluate the Coq model on the same inputs with
     vm_compute (correspondence) and run a direct property oracle,
  4. write evidence/Cxx.json, print VIOLATION / KNOWN-FINDING lines.
"""
from __future__ import annotations

import fcntl
import hashlib
import json
import math
import os
import random
import re
import shutil
import subprocess
import sys
import time
from dataclasses import dataclass, field
from pathlib import Path

VERIF = Path(__file__).resolve().parent.parent
COQ = VERIF / "coq"
REPO = Path(os.environ.get("KOREO_REPO", "/repo"))
SRC = REPO / "src"
WORK = VERIF / ".work"
EVIDENCE = VERIF / "evidence"
REPLAYS = VERIF / "replays"
CORPUS = VERIF / "corpus"
KNOWN = VERIF / "known_findings.json"

FORBIDDEN = re.compile(
    r"\b(Admitted|admit|Axiom|Axioms|Parameter|Parameters|Conjecture|Conjectures|"
    r"Admit Obligations|Unset Guard Checking|Unset Positivity Checking|"
    r"Unset Universe Checking|bypass_check|type-in-type|impredicative-set)\b"
)

# axioms of Coq's own standard library that a theorem may depend on (each use
# is listed per theorem in the evidence file).  Nothing else is accepted.
ALLOWED_AXIOMS: set[str] = set()

TRUSTED_BASE = [
    "Coq 8.16.1 kernel (coqc); vm_compute used for Examples, witnesses and correspondence evaluation; no native_compute",
    "hand-written Gallina model of the anchored koreo-core functions (modelled, not verified)",
    "correspondence check: the model is evaluated in coqc on the inputs the real code was run on (differential testing; bounded by generator quality)",
    "Python harness (generators, canonicalisation, oracle) and CPython 3.13 / cel-python 0.3.0 / lark 0.12 / kr8s 0.20.7 / fastjsonschema 2.21.1 as installed",
]


# --------------------------------------------------------------------------
# Gallina term printers
# --------------------------------------------------------------------------

def cz(n: int) -> str:
    return f"({n})%Z" if n < 0 else f"{n}%Z"


def cnat(n: int) -> str:
    assert 0 <= n < 5000, n
    return f"{n}%nat"


def cN(n: int) -> str:
    return f"{n}%N"


def cbool(b: bool) -> str:
    return "true" if b else "false"


def cstr(s: str | bytes) -> str:
    b = s.encode("utf-8", "surrogatepass") if isinstance(s, str) else s
    if all(0x20 <= c < 0x7F for c in b):
        return '"' + b.decode("ascii").replace('"', '""') + '"%string'
    return "(bs [" + ";".join(str(c) for c in b) + "]%N)"


def copt(x, f) -> str:
    return "None" if x is None else f"(Some {f(x)})"


def clist(xs, f) -> str:
    return "[" + "; ".join(f(x) for x in xs) + "]"


def cpair(a: str, b: str) -> str:
    return f"({a}, {b})"


def float_dyadic(x: float) -> tuple[int, int]:
    """finite float -> (m, e) with x == m * 2**e, m odd or (0, 0)."""
    if x == 0:
        return (0, 0)
    p, q = x.as_integer_ratio()
    e = -(q.bit_length() - 1)
    while p % 2 == 0:
        p //= 2
        e += 1
    return (p, e)


def cjson(v) -> str:
    if v is None:
        return "JNull"
    if v is True or v is False:
        return f"(JBool {cbool(v)})"
    if isinstance(v, int):
        return f"(JInt {cz(v)})"
    if isinstance(v, float):
        if math.isnan(v) or math.isinf(v):
            raise ValueError("non-finite float has no JSON model")
        m, e = float_dyadic(v)
        return f"(JFloat {cz(m)} {cz(e)})"
    if isinstance(v, str):
        return f"(JStr {cstr(v)})"
    if isinstance(v, (list, tuple)):
        return "(JList " + clist(v, cjson) + ")"
    if isinstance(v, dict):
        return "(JMap " + clist(v.items(), lambda kv: cpair(cstr(kv[0]), cjson(kv[1]))) + ")"
    raise TypeError(f"no JSON model for {type(v)}")


def jsonable(v):
    """Make an arbitrary observed Python value JSON-serialisable for replay files."""
    try:
        json.dumps(v)
        return v
    except (TypeError, ValueError):
        if isinstance(v, dict):
            return {str(k): jsonable(x) for k, x in v.items()}
        if isinstance(v, (list, tuple, set, frozenset)):
            return [jsonable(x) for x in v]
        return repr(v)


# --------------------------------------------------------------------------
# Coq build / evaluation
# --------------------------------------------------------------------------

def _run(cmd, cwd=None, timeout=1800, env=None):
    return subprocess.run(cmd, cwd=cwd, timeout=timeout, env=env, text=True,
                          stdout=subprocess.PIPE, stderr=subprocess.STDOUT)


def coq_sources() -> list[str]:
    out = []
    for d in ("model", "gen", "proofs", "corr", "props"):
        out += sorted(str(p.relative_to(COQ)) for p in (COQ / d).glob("*.v"))
    return out


def write_coqproject():
    body = "-Q . Koreo\n-arg -w -arg -notation-overridden,-deprecated-hint-without-locality,-deprecated-instance-without-locality,-ambiguous-paths\n"
    body += "\n".join(coq_sources()) + "\n"
    p = COQ / "_CoqProject"
    if not p.exists() or p.read_text() != body:
        p.write_text(body)
        return True
    return False


class BuildError(Exception):
    def __init__(self, log):
        super().__init__("coq build failed")
        self.log = log


def coq_build(targets: list[str] | None, jobs=16, clean=False) -> str:
    """Full (.vo) build of the given targets (None = everything) under a lock."""
    COQ.mkdir(exist_ok=True)
    with open(COQ / ".build.lock", "w") as lock:
        fcntl.flock(lock, fcntl.LOCK_EX)
        changed = write_coqproject()
        if changed or not (COQ / "Makefile").exists():
            r = _run(["coq_makefile", "-f", "_CoqProject", "-o", "Makefile"], cwd=COQ)
            if r.returncode != 0:
                raise BuildError(r.stdout)
        if clean:
            _run(["make", "clean"], cwd=COQ)
        cmd = ["timeout", "3000", "make", f"-j{jobs}"] + (targets or [])
        r = _run(cmd, cwd=COQ, timeout=3100)
        if r.returncode != 0:
            raise BuildError(r.stdout[-6000:])
        return r.stdout


def coqc_file(path: Path, timeout=600) -> subprocess.CompletedProcess:
    return _run(["timeout", str(timeout), "coqc", "-Q", str(COQ), "Koreo",
                 "-w", "-notation-overridden,-deprecated-hint-without-locality,-ambiguous-paths",
                 str(path)], cwd=path.parent, timeout=timeout + 10)


def print_assumptions(prop_file: Path, workdir: Path) -> dict[str, list[str]]:
    """Re-check the property file and return {theorem: [axioms]} from Print Assumptions."""
    tmp = workdir / ("Recheck_" + prop_file.name)
    shutil.copy(prop_file, tmp)
    r = coqc_file(tmp)
    if r.returncode != 0:
        raise BuildError(r.stdout[-4000:])
    names = re.findall(r"^Print Assumptions\s+([A-Za-z0-9_'.]+)\s*\.", prop_file.read_text(), re.M)
    # output: either "Closed under the global context" or "Axioms:\n name : type ..."
    blocks = re.split(r"(?m)^(?=Closed under the global context|Axioms:)", r.stdout)
    blocks = [b for b in blocks if b.startswith("Closed") or b.startswith("Axioms:")]
    res = {}
    if len(blocks) != len(names):
        raise BuildError("could not match Print Assumptions output to theorem names:\n" + r.stdout[-3000:])
    for n, b in zip(names, blocks):
        if b.startswith("Closed"):
            res[n] = []
        else:
            res[n] = re.findall(r"(?m)^([A-Za-z_][A-Za-z0-9_'.]*)\s*:", b[len("Axioms:"):])
    return res


def dep_closure(targets: list[str]) -> list[str]:
    """.v files (relative to COQ) that the given .vo targets transitively Require."""
    by_stem = {Path(r).stem: r for r in coq_sources()}
    todo = [t[:-1] if t.endswith(".vo") else t for t in targets]
    seen: list[str] = []
    while todo:
        rel = todo.pop()
        if rel in seen or not (COQ / rel).exists():
            continue
        seen.append(rel)
        txt = strip_coq_comments((COQ / rel).read_text())
        for m in re.finditer(r"From\s+Koreo\s+Require\s+(?:Import|Export)?\s*([^.]*)\.", txt):
            for name in m.group(1).split():
                name = name.split(".")[-1]
                if name in by_stem:
                    todo.append(by_stem[name])
    return sorted(seen)


def hygiene_scan(files: list[str] | None = None) -> list[str]:
    """Forbidden vernacular in the given files (default: the whole development)."""
    hits = []
    for rel in (files if files is not None else coq_sources()):
        txt = (COQ / rel).read_text()
        txt = strip_coq_comments(txt)
        for m in FORBIDDEN.finditer(txt):
            line = txt.count("\n", 0, m.start()) + 1
            hits.append(f"{rel}:{line}: {m.group(0)}")
        if re.search(r"(?m)^\s*(Variable|Variables|Hypothesis|Hypotheses)\b", txt):
            # allowed only inside a Section: check nesting
            depth = 0
            for ln, l in enumerate(txt.splitlines(), 1):
                if re.match(r"\s*Section\b", l):
                    depth += 1
                elif re.match(r"\s*End\b", l) and depth > 0:
                    depth -= 1
                elif re.match(r"\s*(Variable|Variables|Hypothesis|Hypotheses)\b", l) and depth == 0:
                    hits.append(f"{rel}:{ln}: {l.strip()} outside a Section")
    return hits


def strip_coq_comments(txt: str) -> str:
    out, depth, i, n = [], 0, 0, len(txt)
    instr = False
    while i < n:
        c = txt[i]
        if depth == 0 and c == '"':
            instr = not instr
            out.append(c)
            i += 1
            continue
        if not instr and txt.startswith("(*", i):
            depth += 1
            i += 2
            continue
        if not instr and depth > 0 and txt.startswith("*)", i):
            depth -= 1
            i += 2
            continue
        if depth == 0:
            out.append(c)
        elif c == "\n":
            out.append(c)
        i += 1
    return "".join(out)


def count_obligations(files: list[Path]) -> tuple[int, int]:
    ob = done = 0
    for f in files:
        txt = strip_coq_comments(f.read_text())
        ob += len(re.findall(r"(?m)^\s*(?:Local\s+|Global\s+)?(?:Theorem|Lemma|Example|Corollary|Fact|Remark|Proposition)\b", txt))
        done += len(re.findall(r"\b(?:Qed|Defined)\s*\.", txt))
    return ob, done


def eval_cases(corr_module: str, case_terms: list[str], workdir: Path,
               check_fn="check_case", shard=400, jobs=8, extra_imports=()) -> tuple[set[int], str | None]:
    """Evaluate `check_fn case` in Coq for every case; return indices where it is false.

    Returns (bad_indices, error_log_or_None)."""
    workdir.mkdir(parents=True, exist_ok=True)
    shards = [case_terms[i:i + shard] for i in range(0, len(case_terms), shard)]
    files = []
    for si, sh in enumerate(shards):
        p = workdir / f"cases_{corr_module}_{si}.v"
        with open(p, "w") as f:
            f.write(f"From Koreo Require Import CorrLib {corr_module}.\n")
            for imp in extra_imports:
                f.write(f"From Koreo Require Import {imp}.\n")
            f.write("Local Open Scope list_scope.\n")
            f.write("Definition cases := [\n")
            f.write(";\n".join(sh))
            f.write("\n].\n")
            f.write(f"Eval vm_compute in (bad_indices {check_fn} cases).\n")
        files.append(p)
    bad: set[int] = set()
    procs = []
    errors = []
    pending = list(enumerate(files))
    running: list[tuple[int, subprocess.Popen]] = []

    def start(si, p):
        return subprocess.Popen(
            ["bash", "-c", "ulimit -s unlimited 2>/dev/null; exec timeout 900 coqc -Q %s Koreo -w none %s" % (COQ, p)],
            cwd=workdir, stdout=subprocess.PIPE, stderr=subprocess.STDOUT, text=True)

    while pending or running:
        while pending and len(running) < jobs:
            si, p = pending.pop(0)
            running.append((si, start(si, p)))
        si, pr = running.pop(0)
        out, _ = pr.communicate()
        m = re.search(r"=\s*\[(.*?)\]\s*:\s*list nat", out, re.S)
        if pr.returncode != 0 or not m:
            errors.append(f"shard {si}: rc={pr.returncode}\n{out[-3000:]}")
            continue
        body = m.group(1).strip()
        if body:
            for tok in body.split(";"):
                bad.add(si * shard + int(tok.strip().split("%")[0]))
    for p in files:
        for ext in (".v", ".vo", ".vok", ".vos", ".glob"):
            q = p.with_suffix(ext)
            if q.exists():
                q.unlink()
        aux = p.parent / ("." + p.stem + ".aux")
        if aux.exists():
            aux.unlink()
    return bad, ("\n".join(errors) if errors else None)


# --------------------------------------------------------------------------
# known findings
# --------------------------------------------------------------------------

def load_known() -> dict:
    """known_findings.json plus per-property files known_findings.d/Cxx.json (same shape).
    Read-only: nothing is ever added at run time."""
    out = {"known": [], "fixed": []}
    files = ([KNOWN] if KNOWN.exists() else []) + sorted((VERIF / "known_findings.d").glob("*.json"))
    for f in files:
        d = json.loads(f.read_text())
        out["known"] += d.get("known", [])
        out["fixed"] += d.get("fixed", [])
    return out


def known_match(prop: str, signature: str) -> dict | None:
    for k in load_known().get("known", []):
        if k["property"] == prop and k["signature"] == signature:
            return k
    return None


# --------------------------------------------------------------------------
# the per-run context handed to plugins
# --------------------------------------------------------------------------

@dataclass
class Failure:
    """An oracle failure: the property does not hold on this input."""
    signature: str          # stable identifier of *what* fails (used for known findings)
    what: str               # human description
    case: object            # the (minimised) input
    observed: object = None
    expected: object = None


@dataclass
class Ctx:
    prop: str
    tier: str
    seed: int
    workdir: Path
    rng: random.Random = None
    cases: int = 0                      # evaluations
    nontrivial_keys: set = field(default_factory=set)
    samples: list = field(default_factory=list)
    dist: dict = field(default_factory=dict)
    mismatches: list = field(default_factory=list)   # (name, case, detail)
    failures: list = field(default_factory=list)     # Failure
    notes: list = field(default_factory=list)
    traces: int = 0
    corr_errors: list = field(default_factory=list)

    def __post_init__(self):
        self.rng = random.Random(self.seed)

    def quick(self) -> bool:
        return self.tier == "quick"

    def count(self, key: str, n: int = 1):
        self.dist[key] = self.dist.get(key, 0) + n

    def note_case(self, case, nontrivial: bool, key=None):
        self.cases += 1
        if nontrivial:
            k = key if key is not None else hashlib.sha1(
                json.dumps(jsonable(case), sort_keys=True, default=repr).encode()).hexdigest()
            self.nontrivial_keys.add(k)
        if len(self.samples) < 5 and nontrivial:
            self.samples.append(jsonable(case))

    def mismatch(self, name: str, case, detail=None):
        self.mismatches.append((name, jsonable(case), jsonable(detail)))

    def fail(self, f: Failure):
        self.failures.append(f)

    def correspond(self, name: str, corr_module: str, cases: list, terms: list[str],
                   check_fn="check_case", extra_imports=()):
        """Evaluate the model on `terms`; record mismatches against `cases`."""
        t0 = time.time()
        bad, err = eval_cases(corr_module, terms, self.workdir / "coq", check_fn=check_fn,
                              extra_imports=extra_imports)
        self.traces += len(terms) if not err else 0
        self.count(f"corr:{name}:cases", len(terms))
        self.dist[f"corr:{name}:secs"] = round(time.time() - t0, 1)
        if err:
            self.corr_errors.append(f"{name}: {err}")
        for i in sorted(bad):
            self.mismatch(name, cases[i])
        return bad


def corpus_cases(prop: str) -> list:
    d = CORPUS / prop
    out = []
    if d.is_dir():
        for p in sorted(d.glob("*.json")):
            out.append(json.loads(p.read_text()))
    return out


def shrink_list(xs: list, still_fails) -> list:
    """Greedy delta-debugging on a list: drop chunks/elements while `still_fails(xs)`."""
    xs = list(xs)
    n = max(1, len(xs) // 2)
    while n >= 1:
        i = 0
        changed = False
        while i < len(xs):
            cand = xs[:i] + xs[i + n:]
            try:
                ok = still_fails(cand)
            except Exception:
                ok = False
            if ok:
                xs = cand
                changed = True
            else:
                i += n
        if not changed:
            n //= 2
    return xs
