#!/venv/bin/python
"""MANIFEST.setup_cmd: full .vo build of the whole Coq development, offline."""
import sys
from pathlib import Path
sys.path.insert(0, str(Path(__file__).resolve().parent))
import common

# translators: regenerate the model files that are derived from /repo's current source
import importlib
for plug in sorted((Path(__file__).resolve().parent / "props").glob("C*.py")):
    mod = importlib.import_module(f"props.{plug.stem}")
    if hasattr(mod, "pre_build"):
        mod.pre_build()

try:
    out = common.coq_build(None)
except common.BuildError as e:
    print(e.log)
    sys.exit(1)
hits = common.hygiene_scan()
if hits:
    print("forbidden vernacular:\n" + "\n".join(hits))
    sys.exit(1)
print("coq development built:", len(common.coq_sources()), "files")
