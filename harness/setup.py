#!/venv/bin/python
"""MANIFEST.setup_cmd: offline full (.vo) build of the Coq development behind every claimed check.

1. translators regenerate the model files derived from /repo's current source (plugins' pre_build),
2. `make` builds the COQ_TARGETS of every property claimed in MANIFEST.json (and what they depend on),
3. the forbidden-vernacular scan runs over everything those targets depend on.
"""
import importlib
import json
import sys
from pathlib import Path

HERE = Path(__file__).resolve().parent
sys.path.insert(0, str(HERE))
import common  # noqa: E402

sys.path.insert(0, str(common.SRC))

claimed = [c["property_id"] for c in json.loads((HERE.parent / "MANIFEST.json").read_text())["checks"]]
targets: list[str] = []
for pid in claimed:
    mod = importlib.import_module(f"props.{pid}")
    if hasattr(mod, "pre_build"):
        mod.pre_build()
    for t in mod.COQ_TARGETS:
        if t not in targets:
            targets.append(t)
try:
    common.coq_build(targets)
except common.BuildError as e:
    print(e.log)
    sys.exit(1)
hits = common.hygiene_scan(common.dep_closure(targets))
if hits:
    print("forbidden vernacular:\n" + "\n".join(hits))
    sys.exit(1)
print("coq development built for", ", ".join(claimed), "-", len(common.dep_closure(targets)), "files")
