#!/venv/bin/python
"""MANIFEST.setup_cmd: full .vo build of the whole Coq development, offline."""
import sys
from pathlib import Path
sys.path.insert(0, str(Path(__file__).resolve().parent))
import common

try:
    out = common.coq_build(None)
except common.BuildError as e:
    print(e.log)
    sys.exit(1)
hits = common.hygiene_scan()
if hits:
    print("forbidden vernacular:\n" + "\n".join(hits))
    sys.exit(1)
print("coq development built:", len(common.coq_sources()), "files")
