(* CrossModel_proofs.v — the hand-written models of the SAME Python function
   that different properties use are provably equal.

   functions._deep_overlay is modelled three times (each model is tied to the
   code by its own property's correspondence check): ResourceFn.merge_val
   (C06/C07/C09), Overlay.deep_overlay_v (C12) and FnTestRun.deep_overlay
   (C18).  evaluation._overlay_applier over an evaluated overlay document is
   modelled as ResourceFn.overlay_doc and, declaratively, as Overlay.merge_doc.
   These lemmas make the models check each other. *)
From Koreo Require Import Json.
From Koreo Require ResourceFn Overlay FnTestRun.
Local Open Scope list_scope.

(* ---------- _deep_overlay: ResourceFn.merge_val = FnTestRun.deep_overlay ---------- *)

Lemma merge_val_eq_fntest (ov res : json) :
  ResourceFn.merge_val res ov = FnTestRun.deep_overlay res ov.
Proof.
  revert res. induction ov as [| | | | | |okvs IH] using json_ind'; intros res;
    try (destruct res; reflexivity).
  destruct res as [| | | | | |rkvs]; try reflexivity.
  cbn [ResourceFn.merge_val FnTestRun.deep_overlay]. f_equal.
  revert rkvs. induction okvs as [|[k v] r IHr]; intros acc; [reflexivity|].
  inversion IH as [|? ? Hv Hr]; subst. cbn [snd] in Hv.
  specialize (IHr Hr).
  assert (E : match lookup k acc, v with
              | Some (JMap rm), JMap _ => ResourceFn.merge_val (JMap rm) v
              | _, _ => v
              end =
              match lookup k acc with
              | Some (JMap rv) => match v with
                                  | JMap _ => FnTestRun.deep_overlay (JMap rv) v
                                  | _ => v
                                  end
              | _ => v
              end).
  { destruct (lookup k acc) as [[| | | | | |rm]|]; try (destruct v; reflexivity).
    destruct v; try reflexivity. apply Hv. }
  rewrite E. apply IHr.
Qed.

(* ---------- _deep_overlay: ResourceFn.merge_val = Overlay.deep_overlay_v ---------- *)

Lemma merge_val_eq_overlay (ov : json) (rkvs : list (string * json)) :
  ResourceFn.merge_val (JMap rkvs) ov =
  match ov with
  | JMap _ => JMap (Overlay.deep_overlay_v ov rkvs)
  | _ => ov
  end.
Proof.
  revert rkvs. induction ov as [| | | | | |okvs IH] using json_ind'; intros rkvs; try reflexivity.
  cbn [ResourceFn.merge_val Overlay.deep_overlay_v]. f_equal.
  revert rkvs. induction okvs as [|[k v] r IHr]; intros acc; [reflexivity|].
  inversion IH as [|? ? Hv Hr]; subst. cbn [snd] in Hv.
  cbn [fold_left]. rewrite <- (IHr Hr). clear IHr. f_equal.
  destruct (lookup k acc) as [[| | | | | |rm]|]; try (destruct v; reflexivity).
  destruct v; try reflexivity.
  rewrite Hv. reflexivity.
Qed.

Corollary deep_overlay_three_models_agree (om rkvs : list (string * json)) :
  ResourceFn.merge_val (JMap rkvs) (JMap om) = JMap (Overlay.deep_overlay om rkvs) /\
  FnTestRun.deep_overlay (JMap rkvs) (JMap om) = JMap (Overlay.deep_overlay om rkvs).
Proof.
  split.
  - apply (merge_val_eq_overlay (JMap om)).
  - rewrite <- merge_val_eq_fntest. apply (merge_val_eq_overlay (JMap om)).
Qed.

(* ---------- _overlay_applier: ResourceFn.overlay_doc = Overlay.merge_doc ---------- *)

From Koreo Require Import Overlay_proofs.
From Coq Require Import Bool.

(* the two evaluated-overlay-document types are the same type *)
Fixpoint conv (d : ResourceFn.odoc) : Overlay.otree :=
  match d with
  | ResourceFn.OLeaf v => Overlay.OLeaf v
  | ResourceFn.ONode kvs =>
      Overlay.ONode ((fix go (l : list (string * ResourceFn.odoc)) : list (string * Overlay.otree) :=
                        match l with
                        | [] => []
                        | (k, c) :: r => (k, conv c) :: go r
                        end) kvs)
  end.

(* dict keys are unique at every node of the overlay document *)
Fixpoint odoc_wf (d : ResourceFn.odoc) : bool :=
  match d with
  | ResourceFn.OLeaf _ => true
  | ResourceFn.ONode kvs =>
      nodup_str (map fst kvs) &&
      (fix go (l : list (string * ResourceFn.odoc)) : bool :=
         match l with
         | [] => true
         | (_, c) :: r => odoc_wf c && go r
         end) kvs
  end.

Definition sub_base (k : string) (base : list (string * json)) : list (string * json) :=
  match lookup k base with Some (JMap m) => m | _ => [] end.

Lemma sub_base_as_map k base : sub_base k base = Overlay.as_map (Overlay.get_or_null k base).
Proof.
  unfold sub_base, Overlay.get_or_null. destruct (lookup k base) as [[| | | | | |m]|]; reflexivity.
Qed.

Lemma wf_sub_base k base : wf (JMap base) = true -> wf (JMap (sub_base k base)) = true.
Proof.
  intros H. rewrite sub_base_as_map. apply wf_as_map, wf_get_or_null, H.
Qed.

Lemma wf_keys_NoDup m : wf (JMap m) = true -> NoDup (keys m).
Proof. intros H. apply wf_map_iff in H. tauto. Qed.

Section OdocInd.
  Variable P : ResourceFn.odoc -> Prop.
  Hypothesis Hleaf : forall v, P (ResourceFn.OLeaf v).
  Hypothesis Hnode : forall kvs, Forall (fun kv => P (snd kv)) kvs -> P (ResourceFn.ONode kvs).
  Fixpoint odoc_ind' (d : ResourceFn.odoc) : P d :=
    match d with
    | ResourceFn.OLeaf v => Hleaf v
    | ResourceFn.ONode kvs =>
        Hnode kvs ((fix go (l : list (string * ResourceFn.odoc)) : Forall (fun kv => P (snd kv)) l :=
                      match l with
                      | [] => Forall_nil _
                      | (k, c) :: r => Forall_cons (k, c) (odoc_ind' c) (go r)
                      end) kvs)
    end.
End OdocInd.

Definition conv_kvs (l : list (string * ResourceFn.odoc)) : list (string * Overlay.otree) :=
  map (fun kc => (fst kc, conv (snd kc))) l.

Lemma conv_node kvs : conv (ResourceFn.ONode kvs) = Overlay.ONode (conv_kvs kvs).
Proof.
  cbn [conv]. f_equal. induction kvs as [|[k c] r IH]; [reflexivity|]. cbn [conv_kvs map fst snd]. now rewrite IH.
Qed.

Lemma odoc_wf_node kvs :
  odoc_wf (ResourceFn.ONode kvs) = true ->
  NoDup (map fst kvs) /\ Forall (fun kc => odoc_wf (snd kc) = true) kvs.
Proof.
  cbn [odoc_wf]. rewrite andb_true_iff. intros [Hn Hc]. split; [now apply nodup_str_NoDup|].
  induction kvs as [|[k c] r IH]; [constructor|].
  rewrite andb_true_iff in Hc. destruct Hc as [Hc Hr]. constructor; [exact Hc|].
  apply IH; [|exact Hr]. cbn [map fst nodup_str] in Hn. rewrite andb_true_iff in Hn. tauto.
Qed.

(* the value the applier stores under key k *)
Definition nv (base : list (string * json)) (k : string) (dv : ResourceFn.odoc) : json :=
  match dv with
  | ResourceFn.OLeaf v => v
  | ResourceFn.ONode _ => ResourceFn.overlay_doc (sub_base k base) dv
  end.

Lemma overlay_doc_node base kvs :
  ResourceFn.overlay_doc base (ResourceFn.ONode kvs) =
  JMap (fold_left setk (map (fun kc => (fst kc, nv base (fst kc) (snd kc))) kvs) base).
Proof.
  cbn [ResourceFn.overlay_doc]. f_equal. generalize base at 2 4 as acc.
  induction kvs as [|[k dv] r IH]; intros acc; [reflexivity|].
  cbn [map fold_left fst snd]. unfold setk at 2. cbn [fst snd]. rewrite <- IH.
  unfold nv, sub_base. destruct dv; reflexivity.
Qed.

Lemma merge_doc_node_as_map m bv1 bv2 :
  Overlay.as_map bv1 = Overlay.as_map bv2 ->
  Overlay.merge_doc (Overlay.ONode m) bv1 = Overlay.merge_doc (Overlay.ONode m) bv2.
Proof. intros E. cbn [Overlay.merge_doc]. now rewrite E. Qed.

(* ResourceFn's imperative model of _overlay_applier computes the declarative
   deep merge of Overlay.v (C12's reference semantics) *)
Theorem overlay_doc_is_merge_doc (d : ResourceFn.odoc) :
  odoc_wf d = true -> forall base, wf (JMap base) = true ->
  ResourceFn.overlay_doc base d = Overlay.merge_doc (conv d) (JMap base).
Proof.
  induction d as [v|kvs IH] using odoc_ind'; intros Hwf base Hb; [reflexivity|].
  destruct (odoc_wf_node _ Hwf) as [Hnd Hch].
  rewrite overlay_doc_node, conv_node. cbn [Overlay.merge_doc Overlay.as_map]. f_equal.
  rewrite merge_keys_plain by now apply wf_keys_NoDup.
  rewrite fold_setk_merge_plain.
  - f_equal. unfold conv_kvs. rewrite !map_map. apply map_ext_in. intros [k dv] Hin. cbn [fst snd]. f_equal.
    rewrite Forall_forall in IH, Hch. specialize (IH _ Hin). specialize (Hch _ Hin). cbn [snd] in IH, Hch.
    destruct dv as [v|sub]; [reflexivity|].
    unfold nv. rewrite (IH Hch (sub_base k base) (wf_sub_base _ _ Hb)).
    rewrite conv_node. apply merge_doc_node_as_map.
    cbn [Overlay.as_map]. apply sub_base_as_map.
  - unfold keys, keys. rewrite map_map. cbn [fst]. exact Hnd.
  - now apply wf_keys_NoDup.
Qed.
