(* FnTestMatch_proofs.v — lemmas about model/FnTestMatch.v
   (function_test/run.py: the FunctionTest comparator and verdict functions,
   as repaired by commits 58c8051 and 87fca03).

   Contents
     1. basics: mand, membership, lookups, depth, fuel
     2. the declarative relation [equiv] ("equal, nothing missing, nothing
        extra, modulo the set / map directives")
     3. tmatch_exact: the comparator accepts exactly [equiv] — no side condition
     5. deviations: [apart], [deviates1], single_deviation_fails (both sides)
     6. the outcome matcher
     7. the verdict functions, MockApi, _merge_overlay
     8. regressions for the three repaired defects, observations, and totality:
        a [regular] expectation never makes the comparator raise *)
From Koreo Require Import Json Outcome FnTestMatch.
From Coq Require Import Lia Arith Permutation.
Local Open Scope nat_scope.
Local Open Scope list_scope.

Arguments dict_match : simpl never.
Arguments entries_match : simpl never.
Arguments entry_match : simpl never.
Arguments list_match : simpl never.
Arguments set_match : simpl never.
Arguments set_keys : simpl never.
Arguments map_fields : simpl never.
Arguments keyed_list : simpl never.
Arguments object_list : simpl never.
Arguments strict_eq : simpl never.
Arguments py_eq : simpl never.

(* ------------------------------------------------------------------ *)
(* 1. basics                                                           *)
(* ------------------------------------------------------------------ *)

Lemma mand_true : forall x y, mand x y = MDone true <-> x = MDone true /\ y = MDone true.
Proof.
  intros [[|]| |] [[|]| |]; cbn; split; intros H; try discriminate;
    try (destruct H; discriminate); auto.
Qed.

Lemma mand_not_fuel : forall x y, x <> MFuel -> y <> MFuel -> mand x y <> MFuel.
Proof. intros [[|]| |] [[|]| |]; cbn; congruence. Qed.

Lemma mand_done : forall x y a b, x = MDone a -> y = MDone b -> mand x y = MDone (a && b).
Proof. intros; subst; reflexivity. Qed.

Lemma mem_str_In k l : mem_str k l = true <-> In k l.
Proof.
  induction l as [|x l IH]; cbn; [split; [discriminate|tauto]|].
  rewrite Bool.orb_true_iff, IH, String.eqb_eq. split; intros [H|H]; auto.
Qed.

Lemma lookup_In {A} k (kvs : list (string * A)) v : lookup k kvs = Some v -> In k (map fst kvs).
Proof.
  induction kvs as [|[k' v'] r IH]; cbn; [discriminate|].
  destruct (String.eqb k k') eqn:E; [apply String.eqb_eq in E; auto|auto].
Qed.

Lemma In_lookup {A} k (kvs : list (string * A)) : In k (map fst kvs) -> exists v, lookup k kvs = Some v.
Proof.
  induction kvs as [|[k' v'] r IH]; cbn; [tauto|].
  intros [H|H]; destruct (String.eqb k k') eqn:E; eauto.
  subst. now rewrite String.eqb_refl in E.
Qed.

Lemma lookup_In_pair {A} k (kvs : list (string * A)) v : lookup k kvs = Some v -> In (k, v) kvs.
Proof.
  induction kvs as [|[k' v'] r IH]; cbn; [discriminate|].
  destruct (String.eqb k k') eqn:E; [apply String.eqb_eq in E; intros [= ->]; subst; auto|auto].
Qed.

Lemma lookup_none_notin {A} k (kvs : list (string * A)) : lookup k kvs = None <-> ~ In k (map fst kvs).
Proof.
  split.
  - intros H Hin. apply In_lookup in Hin as [v Hv]. congruence.
  - intros H. destruct (lookup k kvs) eqn:E; [|reflexivity]. apply lookup_In in E. tauto.
Qed.

Lemma plain_keys_In k kvs : In k (plain_keys kvs) <-> In k (map fst kvs) /\ is_directive k = false.
Proof.
  unfold plain_keys. rewrite filter_In, Bool.negb_true_iff. tauto.
Qed.

(* ---------- depth ---------- *)

Definition kvs_depth (kvs : list (string * json)) : nat :=
  (fix go (l : list (string * json)) : nat :=
     match l with [] => O | (_, v) :: r => Nat.max (depth v) (go r) end) kvs.

Lemma depth_map kvs : depth (JMap kvs) = S (kvs_depth kvs).
Proof. reflexivity. Qed.

Lemma depth_pos j : 1 <= depth j.
Proof. destruct j; cbn; lia. Qed.

Lemma kvs_depth_In kvs k v : In (k, v) kvs -> depth v <= kvs_depth kvs.
Proof.
  induction kvs as [|[k' v'] r IH]; cbn; [tauto|].
  intros [[= -> ->]|H]; [lia|]. specialize (IH H). unfold kvs_depth in IH. lia.
Qed.

Lemma kvs_depth_le kvs d : (forall k v, In (k, v) kvs -> depth v <= d) -> kvs_depth kvs <= d.
Proof.
  induction kvs as [|[k' v'] r IH]; cbn; intros H; [lia|].
  assert (depth v' <= d) by (apply (H k'); auto).
  assert (kvs_depth r <= d) by (apply IH; intros; eapply H; eauto).
  unfold kvs_depth in *. lia.
Qed.

Lemma depth_lookup k kvs v : lookup k kvs = Some v -> depth v < depth (JMap kvs).
Proof.
  intros H. apply lookup_In_pair, kvs_depth_In in H. rewrite depth_map. lia.
Qed.

Lemma depth_in_list l x : In x l -> depth x < depth (JList l).
Proof.
  cbn. induction l as [|y l IH]; cbn; [tauto|]. intros [->|H]; [lia|]. specialize (IH H). lia.
Qed.

Lemma depth_nth l i x : nth_error l i = Some x -> depth x < depth (JList l).
Proof. intros H. apply depth_in_list. eapply nth_error_In; eauto. Qed.

Lemma set_key_In {A} k (v : A) acc k' v' :
  In (k', v') (set_key k v acc) -> (k', v') = (k, v) \/ In (k', v') acc.
Proof.
  induction acc as [|[k0 v0] r IH]; cbn.
  - intros [H|[]]; auto.
  - destruct (String.eqb k k0) eqn:E.
    + apply String.eqb_eq in E; subst. cbn. intros [[= <- <-]|H]; auto.
    + cbn. intros [H|H]; auto. destruct (IH H); auto.
Qed.

Section WithKeyText.
  Variable key_text : json -> string.
  Notation keyed := (keyed key_text).
  Notation keyed_list := (keyed_list key_text).
  Notation tmatch_fuel := (tmatch_fuel key_text).
  Notation tmatch := (tmatch key_text).
  Notation dict_match := (dict_match key_text).
  Notation entries_match := (entries_match key_text).
  Notation entry_match := (entry_match key_text).

  Lemma keyed_In fields l : forall acc o k v,
    keyed fields l acc = Some o -> In (k, v) o -> In v l \/ In (k, v) acc.
  Proof.
    induction l as [|it r IH]; cbn; intros acc o k v H Hin.
    - injection H as <-. auto.
    - destruct (item_key key_text it fields) as [k0|]; [|discriminate].
      destruct (IH _ _ _ _ H Hin) as [H1|H1]; auto.
      apply set_key_In in H1 as [[= -> ->]|H1]; auto.
  Qed.

  Lemma object_list_inv v l : object_list v = Some l -> v = JList l /\ forallb is_map l = true.
  Proof.
    unfold FnTestMatch.object_list. destruct v; try discriminate.
    destruct (forallb is_map l0) eqn:E; [|discriminate]. intros [= <-]. auto.
  Qed.

  (* the synthesised dict is no deeper than the list it comes from *)
  Lemma depth_keyed fields l o : keyed fields l [] = Some o -> depth (JMap o) <= depth (JList l).
  Proof.
    intros H. rewrite depth_map.
    assert (kvs_depth o <= depth (JList l) - 1).
    { apply kvs_depth_le. intros k x Hin.
      destruct (keyed_In _ _ _ _ _ _ H Hin) as [H1|[]].
      apply depth_in_list in H1. lia. }
    pose proof (depth_pos (JList l)). lia.
  Qed.

  (* ---------- the fuel supplied by [tmatch] suffices ---------- *)

  Lemma entries_not_fuel rec sk mf tk ak ks :
    (forall k v w, In k ks -> lookup k tk = Some v -> lookup k ak = Some w ->
                   entry_match rec sk mf k v w <> MFuel) ->
    entries_match rec sk mf tk ak ks <> MFuel.
  Proof.
    induction ks as [|k r IH]; intros H; unfold FnTestMatch.entries_match; [discriminate|].
    fold (entries_match rec sk mf tk ak r).
    apply mand_not_fuel.
    - destruct (lookup k tk) eqn:E1; [|discriminate]. destruct (lookup k ak) eqn:E2; [|discriminate].
      apply H; cbn; auto.
    - apply IH. intros; eapply H; cbn; eauto.
  Qed.

  Lemma list_match_not_fuel rec tl : forall al,
    (forall x y, In x tl -> rec x y false <> MFuel) -> list_match rec tl al <> MFuel.
  Proof.
    induction tl as [|x tr IH]; intros al H; unfold FnTestMatch.list_match; [discriminate|].
    destruct al as [|y ar]; [discriminate|]. fold (list_match rec tr ar).
    apply mand_not_fuel; [apply H; cbn; auto|apply IH; intros; apply H; cbn; auto].
  Qed.

  Theorem tmatch_fuel_suffices : forall n t a s, depth t <= n -> tmatch_fuel n t a s <> MFuel.
  Proof.
    induction n as [|n IH]; intros t a s Hd; [pose proof (depth_pos t); lia|].
    destruct t, a; cbn [FnTestMatch.tmatch_fuel]; try discriminate.
    - (* list, list *)
      destruct s; [discriminate|].
      destruct (Nat.eqb _ _); [|discriminate].
      apply list_match_not_fuel. intros x y Hin. apply IH.
      apply depth_in_list in Hin. lia.
    - (* map, map *)
      unfold FnTestMatch.dict_match.
      destruct (set_keys kvs) as [sk|]; [|discriminate].
      destruct (map_fields kvs) as [mf|]; [|discriminate].
      apply mand_not_fuel; [discriminate|].
      apply entries_not_fuel. intros k v w _ Hv Hw.
      unfold FnTestMatch.entry_match.
      destruct (lookup k mf) as [fields|] eqn:Ef.
      + destruct (object_list v) as [lv|] eqn:E1; [|discriminate].
        destruct (object_list w) as [lw|]; [|discriminate].
        destruct (keyed fields lv []) as [tobj|] eqn:Et; [|discriminate].
        destruct (keyed fields lw []) as [aobj|]; [|discriminate].
        apply IH. apply object_list_inv in E1 as [-> _]. apply depth_keyed in Et.
        apply depth_lookup in Hv. lia.
      + apply IH. apply depth_lookup in Hv. lia.
  Qed.

  Corollary tmatch_never_out_of_fuel t a : tmatch t a <> MFuel.
  Proof. apply tmatch_fuel_suffices. lia. Qed.

  (* ------------------------------------------------------------------ *)
  (* 2. the declarative relation                                          *)
  (* ------------------------------------------------------------------ *)

  (* values compared with Python == : null, numbers, strings *)
  Definition plain_scalar (j : json) : bool :=
    match j with JNull | JInt _ | JFloat _ _ | JStr _ => true | _ => false end.

    (* [equiv s t a]: the actual value [a] is what the expectation [t]
       describes; [s] says that [t] sits under a key its object lists in
       x-koreo-compare-as-set *)
    Inductive equiv : bool -> json -> json -> Prop :=
    | Eq_scalar s t a :
        plain_scalar t = true -> plain_scalar a = true -> py_eq t a = true -> equiv s t a
    | Eq_bool s b : equiv s (JBool b) (JBool b)
    | Eq_list tl al :
        List.length tl = List.length al ->
        (forall i x y, nth_error tl i = Some x -> nth_error al i = Some y -> equiv false x y) ->
        equiv false (JList tl) (JList al)
    | Eq_set tl al :
        Forall (fun x => hashable x = true) tl -> Forall (fun x => hashable x = true) al ->
        (* members: Python ==, a boolean only equal to a boolean *)
        (forall x, In x tl -> exists y, In y al /\ strict_eq x y = true) ->
        (forall y, In y al -> exists x, In x tl /\ strict_eq x y = true) ->
        equiv true (JList tl) (JList al)
    | Eq_map s tk ak sk mf :
        set_keys tk = Some sk -> map_fields tk = Some mf ->
        (* nothing missing, nothing extra *)
        (forall k, is_directive k = false -> (In k (map fst tk) <-> In k (map fst ak))) ->
        (* a map-directed key holds a list of objects on both sides ... *)
        (forall k v w fields, is_directive k = false ->
           lookup k tk = Some v -> lookup k ak = Some w -> lookup k mf = Some fields ->
           keyed_list fields v <> None /\ keyed_list fields w <> None) ->
        (* ... and the two collections, keyed by the fields, are equivalent as objects *)
        (forall k v w fields tobj aobj, is_directive k = false ->
           lookup k tk = Some v -> lookup k ak = Some w -> lookup k mf = Some fields ->
           keyed_list fields v = Some tobj -> keyed_list fields w = Some aobj ->
           equiv false (JMap tobj) (JMap aobj)) ->
        (* every other key: equivalent values, as a set if so directed *)
        (forall k v w, is_directive k = false ->
           lookup k tk = Some v -> lookup k ak = Some w -> lookup k mf = None ->
           equiv (mem_str k sk) v w) ->
        equiv s (JMap tk) (JMap ak).

  (* ------------------------------------------------------------------ *)
  (* 3. the comparator accepts exactly [equiv]                            *)
  (* ------------------------------------------------------------------ *)

  Notation equivX := equiv.

  Lemma entries_match_true rec sk mf tk ak ks :
    entries_match rec sk mf tk ak ks = MDone true <->
    (forall k v w, In k ks -> lookup k tk = Some v -> lookup k ak = Some w ->
                   entry_match rec sk mf k v w = MDone true).
  Proof.
    induction ks as [|k r IH]; unfold FnTestMatch.entries_match.
    - split; [intros _ k v w []|reflexivity].
    - fold (entries_match rec sk mf tk ak r). rewrite mand_true, IH. split.
      + intros [H1 H2] k' v w [<-|Hin] Hv Hw; [now rewrite Hv, Hw in H1|eauto].
      + intros H. split.
        * destruct (lookup k tk) eqn:E1; [|reflexivity]. destruct (lookup k ak) eqn:E2; [|reflexivity].
          apply H; cbn; auto.
        * intros; eapply H; cbn; eauto.
  Qed.

  Lemma list_match_true rec tl : forall al,
    List.length tl = List.length al ->
    (list_match rec tl al = MDone true <->
     forall i x y, nth_error tl i = Some x -> nth_error al i = Some y -> rec x y false = MDone true).
  Proof.
    induction tl as [|x tr IH]; intros [|y ar] Hl; cbn in Hl; try discriminate;
      unfold FnTestMatch.list_match.
    - split; [intros _ [|i] ? ? H; discriminate|reflexivity].
    - fold (list_match rec tr ar). rewrite mand_true, (IH ar) by lia. split.
      + intros [H1 H2] [|i] x' y' Hx Hy; cbn in *; [congruence|eauto].
      + intros H. split; [apply (H 0); reflexivity|]. intros i. apply (H (S i)).
  Qed.

  Lemma keys_ok_iff tk ak :
    forallb (fun k => mem_str k (map fst ak)) (plain_keys tk) &&
    forallb (fun k => mem_str k (map fst tk)) (plain_keys ak) = true <->
    (forall k, is_directive k = false -> (In k (map fst tk) <-> In k (map fst ak))).
  Proof.
    rewrite Bool.andb_true_iff, !forallb_forall. split.
    - intros [H1 H2] k Hk. split; intros Hin.
      + apply mem_str_In, H1, plain_keys_In; auto.
      + apply mem_str_In, H2, plain_keys_In; auto.
    - intros H. split; intros k Hk; apply plain_keys_In in Hk as [Hin Hd]; apply mem_str_In, (H k Hd), Hin.
  Qed.

  Lemma dyadic_eqb_sym a b : dyadic_eqb a b = dyadic_eqb b a.
  Proof. destruct a, b. unfold dyadic_eqb. rewrite Z.min_comm. apply Z.eqb_sym. Qed.

  Lemma py_eq_sym_hashable x y : hashable x = true -> hashable y = true -> py_eq x y = py_eq y x.
  Proof.
    intros Hx Hy.
    destruct x, y; cbn in Hx, Hy; try discriminate; unfold py_eq; cbn -[dyadic_eqb];
      try reflexivity; try apply dyadic_eqb_sym; apply String.eqb_sym.
  Qed.

  Lemma strict_eq_sym_hashable x y : hashable x = true -> hashable y = true -> strict_eq x y = strict_eq y x.
  Proof.
    intros Hx Hy. unfold FnTestMatch.strict_eq. rewrite (py_eq_sym_hashable x y Hx Hy). f_equal.
    destruct (is_bool x), (is_bool y); reflexivity.
  Qed.

  Lemma set_match_iff tl al :
    set_match tl al = true <->
    Forall (fun x => hashable x = true) tl /\ Forall (fun x => hashable x = true) al /\
    (forall x, In x tl -> exists y, In y al /\ strict_eq x y = true) /\
    (forall y, In y al -> exists x, In x tl /\ strict_eq x y = true).
  Proof.
    unfold FnTestMatch.set_match, in_strict.
    rewrite !Bool.andb_true_iff, !forallb_forall, !Forall_forall. split.
    - intros [[[H1 H2] H3] H4]. repeat split; auto.
      + intros x Hx. apply H3, existsb_exists in Hx. exact Hx.
      + intros y Hy. pose proof (H4 y Hy) as H. apply existsb_exists in H as [x [Hx Hxy]].
        exists x. split; auto. rewrite strict_eq_sym_hashable; auto.
    - intros (H1 & H2 & H3 & H4). repeat split; auto.
      + intros x Hx. apply existsb_exists. auto.
      + intros y Hy. apply existsb_exists. destruct (H4 y Hy) as [x [Hx Hxy]].
        exists x. split; auto. rewrite strict_eq_sym_hashable; auto.
  Qed.

  Ltac inv_equiv H := inversion H; subst; clear H; try discriminate; try (cbn in *; discriminate).

  Theorem tmatch_fuel_exact : forall n t a s,
    depth t <= n -> (tmatch_fuel n t a s = MDone true <-> equivX s t a).
  Proof.
    induction n as [|n IH]; intros t a s Hd; [pose proof (depth_pos t); lia|].
    destruct t, a; cbn [FnTestMatch.tmatch_fuel];
      (* mismatched kinds: the comparator says False and no rule applies *)
      try solve [split; [discriminate|intros H; inv_equiv H]];
      (* two plain scalars *)
      try solve [split; [intros H; apply Eq_scalar; try reflexivity; congruence
                        |intros H; inv_equiv H; f_equal; assumption]].
    - (* bool, bool *)
      split.
      + intros [= H]. apply Bool.eqb_prop in H. subst. apply Eq_bool.
      + intros H. inv_equiv H. now rewrite Bool.eqb_reflx.
    - (* list, list *)
      destruct s.
      + split.
        * intros [= H]. apply set_match_iff in H as (H1 & H2 & H3 & H4). now apply Eq_set.
        * intros H. inv_equiv H. f_equal. apply set_match_iff. auto.
      + destruct (Nat.eqb (List.length l) (List.length l0)) eqn:El.
        * apply Nat.eqb_eq in El. rewrite (list_match_true _ _ _ El). split.
          -- intros H. apply Eq_list; auto. intros i x y Hx Hy. apply IH; eauto.
             apply depth_nth in Hx. lia.
          -- intros H. inv_equiv H. intros i x y Hx Hy. apply IH; eauto.
             apply depth_nth in Hx. lia.
        * apply Nat.eqb_neq in El. split; [discriminate|]. intros H. inv_equiv H. lia.
    - (* map, map *)
      unfold FnTestMatch.dict_match. split.
      + destruct (set_keys kvs) as [sk|] eqn:Esk; [|discriminate].
        destruct (map_fields kvs) as [mf|] eqn:Emf; [|discriminate].
        rewrite mand_true. intros [Hk He]. injection Hk as Hk. pose proof (proj1 (keys_ok_iff _ _) Hk) as Hk'.
        rewrite entries_match_true in He.
        assert (Hent : forall k v w, is_directive k = false -> lookup k kvs = Some v ->
                         lookup k kvs0 = Some w -> entry_match (tmatch_fuel n) sk mf k v w = MDone true).
        { intros k v w Hdk Hv Hw. apply He; auto. apply plain_keys_In. split; auto.
          eapply lookup_In; eauto. }
        apply Eq_map with (sk := sk) (mf := mf); auto.
        * intros k v w fields Hdk Hv Hw Hf. specialize (Hent k v w Hdk Hv Hw).
          unfold FnTestMatch.entry_match in Hent. rewrite Hf in Hent.
          unfold FnTestMatch.keyed_list.
          destruct (object_list v); [|discriminate]. destruct (object_list w); [|discriminate].
          destruct (keyed fields l []); [|discriminate].
          destruct (keyed fields l0 []); [|discriminate]. split; discriminate.
        * intros k v w fields tobj aobj Hdk Hv Hw Hf Ht Ha. specialize (Hent k v w Hdk Hv Hw).
          unfold FnTestMatch.entry_match in Hent. rewrite Hf in Hent.
          unfold FnTestMatch.keyed_list in Ht, Ha.
          destruct (object_list v) as [lv|] eqn:Ev; [|discriminate].
          destruct (object_list w) as [lw|]; [|discriminate].
          rewrite Ht, Ha in Hent. apply IH in Hent; auto.
          apply object_list_inv in Ev as [-> _]. apply depth_keyed in Ht. apply depth_lookup in Hv. lia.
        * intros k v w Hdk Hv Hw Hf. specialize (Hent k v w Hdk Hv Hw).
          unfold FnTestMatch.entry_match in Hent. rewrite Hf in Hent.
          apply IH in Hent; auto. apply depth_lookup in Hv. lia.
      + intros H. inversion H as [? ? ? Hp|?|?|?|s' tk ak sk mf Hsk Hmf Hk Hn Hm Ho]; subst; [discriminate|].
        rewrite Hsk, Hmf. apply mand_true. split.
        * f_equal. apply keys_ok_iff. exact Hk.
        * apply entries_match_true. intros k v w Hin Hv Hw.
          apply plain_keys_In in Hin as [_ Hdk].
          unfold FnTestMatch.entry_match. destruct (lookup k mf) as [fields|] eqn:Hf.
          -- destruct (Hn k v w fields Hdk Hv Hw Hf) as [N1 N2].
             destruct (keyed_list fields v) as [tobj|] eqn:Et; [|congruence].
             destruct (keyed_list fields w) as [aobj|] eqn:Ea; [|congruence].
             pose proof (Hm k v w fields tobj aobj Hdk Hv Hw Hf Et Ea) as Hx.
             unfold FnTestMatch.keyed_list in Et, Ea.
             destruct (object_list v) as [lv|] eqn:Ev; [|discriminate].
             destruct (object_list w) as [lw|]; [|discriminate].
             rewrite Et, Ea. apply IH; [|exact Hx].
             apply object_list_inv in Ev as [-> _]. apply depth_keyed in Et. apply depth_lookup in Hv. lia.
          -- apply IH; [|eapply Ho; eauto]. apply depth_lookup in Hv. lia.
  Qed.

  (* the comparator passes exactly when the actual value is what the
     expectation describes.  No side condition. *)
  Theorem tmatch_exact t a : tmatch t a = MDone true <-> equivX false t a.
  Proof. apply tmatch_fuel_exact. lia. Qed.


  (* ------------------------------------------------------------------ *)
  (* 5. deviations                                                        *)
  (* ------------------------------------------------------------------ *)

  (* no directive-named key anywhere *)
  Fixpoint dfree (j : json) : bool :=
    match j with
    | JList l => forallb dfree l
    | JMap kvs =>
        (fix go (l : list (string * json)) : bool :=
           match l with
           | [] => true
           | (k, v) :: r => negb (is_directive k) && dfree v && go r
           end) kvs
    | _ => true
    end.

  Lemma dfree_map_In kvs k v :
    dfree (JMap kvs) = true -> In (k, v) kvs -> is_directive k = false /\ dfree v = true.
  Proof.
    induction kvs as [|[k0 v0] r IH]; cbn; [tauto|].
    rewrite !Bool.andb_true_iff, Bool.negb_true_iff. intros [[H1 H2] H3] [[= -> ->]|Hin]; auto.
  Qed.

  Lemma dfree_lookup kvs k v : dfree (JMap kvs) = true -> lookup k kvs = Some v -> dfree v = true.
  Proof. intros H Hl. apply lookup_In_pair in Hl. eapply dfree_map_In; eauto. Qed.

  Lemma dfree_no_directive kvs d : dfree (JMap kvs) = true -> is_directive d = true -> lookup d kvs = None.
  Proof.
    intros H Hd. destruct (lookup d kvs) eqn:E; [|reflexivity].
    apply lookup_In_pair in E. destruct (dfree_map_In _ _ _ H E). congruence.
  Qed.

  Lemma dfree_set_keys kvs : dfree (JMap kvs) = true -> set_keys kvs = Some [].
  Proof. intros H. unfold FnTestMatch.set_keys. now rewrite (dfree_no_directive _ K_SET H). Qed.

  Lemma dfree_map_fields kvs : dfree (JMap kvs) = true -> map_fields kvs = Some [].
  Proof. intros H. unfold FnTestMatch.map_fields. now rewrite (dfree_no_directive _ K_MAP H). Qed.

  Lemma dfree_nth l i x : dfree (JList l) = true -> nth_error l i = Some x -> dfree x = true.
  Proof. cbn. rewrite forallb_forall. intros H Hn. apply H. eapply nth_error_In; eauto. Qed.

  (* an expectation without directives never makes the comparator raise *)
  Lemma entries_done rec sk mf tk ak ks :
    (forall k v w, In k ks -> lookup k tk = Some v -> lookup k ak = Some w ->
                   exists b, entry_match rec sk mf k v w = MDone b) ->
    exists b, entries_match rec sk mf tk ak ks = MDone b.
  Proof.
    induction ks as [|k r IH]; intros H; unfold FnTestMatch.entries_match; [eauto|].
    fold (entries_match rec sk mf tk ak r).
    destruct IH as [b2 Hb2]; [intros; eapply H; cbn; eauto|]. rewrite Hb2.
    destruct (lookup k tk) eqn:E1; [|cbn; eauto]. destruct (lookup k ak) eqn:E2; [|cbn; eauto].
    destruct (H k _ _ (or_introl eq_refl) E1 E2) as [b1 Hb1]. rewrite Hb1. cbn. eauto.
  Qed.

  Lemma list_match_done rec tl : forall al,
    (forall x y, In x tl -> exists b, rec x y false = MDone b) -> exists b, list_match rec tl al = MDone b.
  Proof.
    induction tl as [|x tr IH]; intros al H; unfold FnTestMatch.list_match; [eauto|].
    destruct al as [|y ar]; [eauto|]. fold (list_match rec tr ar).
    destruct (H x y (or_introl eq_refl)) as [b1 Hb1]. destruct (IH ar) as [b2 Hb2]; [intros; apply H; cbn; auto|].
    rewrite Hb1, Hb2. cbn. eauto.
  Qed.

  Lemma dfree_no_raise : forall n t a s,
    dfree t = true -> depth t <= n -> exists b, tmatch_fuel n t a s = MDone b.
  Proof.
    induction n as [|n IH]; intros t a s Hf Hd; [pose proof (depth_pos t); lia|].
    destruct t, a; cbn [FnTestMatch.tmatch_fuel]; eauto.
    - destruct s; eauto. destruct (Nat.eqb _ _); eauto.
      apply list_match_done. intros x y Hin. apply IH.
      + cbn in Hf. rewrite forallb_forall in Hf. auto.
      + apply depth_in_list in Hin. lia.
    - unfold FnTestMatch.dict_match. rewrite (dfree_set_keys _ Hf), (dfree_map_fields _ Hf).
      destruct (entries_done (tmatch_fuel n) [] [] kvs kvs0 (plain_keys kvs)) as [b Hb].
      + intros k v w _ Hv Hw. unfold FnTestMatch.entry_match. cbn [lookup]. apply IH.
        * eapply dfree_lookup; eauto.
        * apply depth_lookup in Hv. lia.
      + rewrite Hb. cbn. eauto.
  Qed.

  (* kinds of values the comparator keeps apart *)
  Definition kind (j : json) : nat :=
    match j with JBool _ => 1 | JList _ => 2 | JMap _ => 3 | _ => 0 end.

  Lemma plain_scalar_kind j : plain_scalar j = true <-> kind j = 0.
  Proof. destruct j; cbn; split; congruence. Qed.

  Lemma equiv_kind s t a : equiv s t a -> kind t = kind a.
  Proof.
    destruct 1; try reflexivity.
    apply plain_scalar_kind in H, H0. congruence.
  Qed.

  (* ---------- Python == on null / numbers / strings is an equivalence ---------- *)

  Lemma dyadic_eqb_spec m1 e1 m2 e2 :
    dyadic_eqb (m1, e1) (m2, e2) = true <->
    (forall e0, (e0 <= e1)%Z -> (e0 <= e2)%Z -> (m1 * 2 ^ (e1 - e0) = m2 * 2 ^ (e2 - e0))%Z).
  Proof.
    unfold dyadic_eqb. rewrite Z.eqb_eq. set (e := Z.min e1 e2). split.
    - intros H e0 H1 H2.
      assert (He : (e0 <= e)%Z) by (unfold e; lia).
      replace (e1 - e0)%Z with ((e1 - e) + (e - e0))%Z by lia.
      replace (e2 - e0)%Z with ((e2 - e) + (e - e0))%Z by lia.
      rewrite !Z.pow_add_r by (unfold e; lia). rewrite !Z.mul_assoc, H. reflexivity.
    - intros H. apply H; unfold e; lia.
  Qed.

  Lemma dyadic_eqb_weak m1 e1 m2 e2 e0 :
    (e0 <= e1)%Z -> (e0 <= e2)%Z -> (m1 * 2 ^ (e1 - e0) = m2 * 2 ^ (e2 - e0))%Z ->
    dyadic_eqb (m1, e1) (m2, e2) = true.
  Proof.
    intros H1 H2 H. unfold dyadic_eqb. rewrite Z.eqb_eq. set (e := Z.min e1 e2).
    assert (He : (e0 <= e)%Z) by (unfold e; lia).
    replace (e1 - e0)%Z with ((e1 - e) + (e - e0))%Z in H by lia.
    replace (e2 - e0)%Z with ((e2 - e) + (e - e0))%Z in H by lia.
    rewrite !Z.pow_add_r in H by (unfold e; lia). rewrite !Z.mul_assoc in H.
    apply Z.mul_reg_r in H; [exact H|]. apply Z.pow_nonzero; lia.
  Qed.

  Lemma dyadic_eqb_eucl a b c : dyadic_eqb a b = true -> dyadic_eqb a c = true -> dyadic_eqb b c = true.
  Proof.
    destruct a as [m0 e0], b as [m1 e1], c as [m2 e2]. intros H1 H2.
    set (e := Z.min e0 (Z.min e1 e2)).
    apply (dyadic_eqb_weak _ _ _ _ e); [unfold e; lia|unfold e; lia|].
    rewrite dyadic_eqb_spec in H1, H2.
    rewrite <- (H1 e), <- (H2 e) by (unfold e; lia). reflexivity.
  Qed.

  Lemma py_eq_plain_eucl u x y :
    plain_scalar u = true -> plain_scalar x = true -> plain_scalar y = true ->
    py_eq u x = true -> py_eq u y = true -> py_eq x y = true.
  Proof.
    intros Hu Hx Hy.
    destruct u, x, y; cbn in Hu, Hx, Hy; try discriminate; unfold py_eq; cbn -[dyadic_eqb];
      try discriminate; try reflexivity; try apply dyadic_eqb_eucl.
    rewrite !String.eqb_eq. congruence.
  Qed.

  Lemma py_eq_plain_sym x y : plain_scalar x = true -> plain_scalar y = true -> py_eq x y = py_eq y x.
  Proof. intros Hx Hy. apply py_eq_sym_hashable; destruct x, y; cbn in *; congruence. Qed.

  (* ---------- [apart x y]: the two documents differ somewhere ---------- *)

  Inductive apart : json -> json -> Prop :=
  | Ap_kind x y : kind x <> kind y -> apart x y
  | Ap_scalar x y : kind x = 0 -> kind y = 0 -> py_eq x y = false -> apart x y
  | Ap_bool b1 b2 : b1 <> b2 -> apart (JBool b1) (JBool b2)
  | Ap_len l l' : List.length l <> List.length l' -> apart (JList l) (JList l')
  | Ap_elem l l' i x y :
      nth_error l i = Some x -> nth_error l' i = Some y -> apart x y -> apart (JList l) (JList l')
  | Ap_key_l k kvs kvs' :
      is_directive k = false -> In k (map fst kvs) -> ~ In k (map fst kvs') -> apart (JMap kvs) (JMap kvs')
  | Ap_key_r k kvs kvs' :
      is_directive k = false -> ~ In k (map fst kvs) -> In k (map fst kvs') -> apart (JMap kvs) (JMap kvs')
  | Ap_val k kvs kvs' v w :
      is_directive k = false -> lookup k kvs = Some v -> lookup k kvs' = Some w -> apart v w ->
      apart (JMap kvs) (JMap kvs').

  Section Excl.
    Notation equivG := equiv.

    Ltac inv H := inversion H; subst; clear H; try discriminate; try (cbn in *; discriminate).

    (* inversion principles with stable names *)
    Lemma equiv_plain_r s u x : equivG s u x -> kind x = 0 -> plain_scalar u = true /\ py_eq u x = true.
    Proof. intros H Hk. inv H; auto. Qed.
    Lemma equiv_plain_l s x u : equivG s x u -> kind x = 0 -> plain_scalar u = true /\ py_eq x u = true.
    Proof. intros H Hk. inv H; auto. Qed.
    Lemma equiv_bool_r s u b : equivG s u (JBool b) -> u = JBool b.
    Proof. intros H. inv H; auto. Qed.
    Lemma equiv_bool_l s u b : equivG s (JBool b) u -> u = JBool b.
    Proof. intros H. inv H; auto. Qed.
    Lemma equiv_list_r u l : equivG false u (JList l) ->
      exists tl, u = JList tl /\ List.length tl = List.length l /\
        (forall i x y, nth_error tl i = Some x -> nth_error l i = Some y -> equivG false x y).
    Proof. intros H. inv H; eauto. Qed.
    Lemma equiv_list_l u l : equivG false (JList l) u ->
      exists al, u = JList al /\ List.length l = List.length al /\
        (forall i x y, nth_error l i = Some x -> nth_error al i = Some y -> equivG false x y).
    Proof. intros H. inv H; eauto. Qed.

    Definition map_facts (tk ak : list (string * json)) : Prop :=
      exists sk mf, set_keys tk = Some sk /\ map_fields tk = Some mf /\
        (forall k, is_directive k = false -> (In k (map fst tk) <-> In k (map fst ak))) /\
        (forall k v w, is_directive k = false -> lookup k tk = Some v -> lookup k ak = Some w ->
           lookup k mf = None -> equivG (mem_str k sk) v w).
    Lemma equiv_map_r s u ak : equivG s u (JMap ak) -> exists tk, u = JMap tk /\ map_facts tk ak.
    Proof. intros H. inv H. eexists; split; [reflexivity|]. exists sk, mf. auto. Qed.
    Lemma equiv_map_l s u tk : equivG s (JMap tk) u -> exists ak, u = JMap ak /\ map_facts tk ak.
    Proof. intros H. inv H. eexists; split; [reflexivity|]. exists sk, mf. auto. Qed.

    Lemma map_facts_dfree tk ak k v w :
      map_facts tk ak -> dfree (JMap tk) = true -> is_directive k = false ->
      lookup k tk = Some v -> lookup k ak = Some w -> equivG false v w.
    Proof.
      intros (sk & mf & Hsk & Hmf & _ & Ho) Hf Hd Hv Hw.
      rewrite (dfree_set_keys _ Hf) in Hsk. rewrite (dfree_map_fields _ Hf) in Hmf.
      injection Hsk as <-. injection Hmf as <-. apply (Ho k v w); auto.
    Qed.

    Lemma map_facts_keys tk ak k :
      map_facts tk ak -> is_directive k = false -> (In k (map fst tk) <-> In k (map fst ak)).
    Proof. intros (sk & mf & _ & _ & Hk & _). apply Hk. Qed.

    (* one directive-free expectation cannot describe two documents that are apart *)
    Lemma apart_excl_actual : forall x y, apart x y ->
      forall u, dfree u = true -> equivG false u x -> equivG false u y -> False.
    Proof.
      induction 1 as [x y Hk|x y Hx Hy Hne|b1 b2 Hb|l l' Hl|l l' i x y Hx Hy Hap IH
                     |k kvs kvs' Hd Hin Hnin|k kvs kvs' Hd Hnin Hin|k kvs kvs' v w Hd Hv Hw Hap IH];
        intros u Hf H1 H2.
      - apply equiv_kind in H1, H2. congruence.
      - destruct (equiv_plain_r _ _ _ H1 Hx) as [Pu E1]. destruct (equiv_plain_r _ _ _ H2 Hy) as [_ E2].
        apply plain_scalar_kind in Hx, Hy.
        rewrite (py_eq_plain_eucl u x y) in Hne; auto; discriminate.
      - apply equiv_bool_r in H1, H2. congruence.
      - apply equiv_list_r in H1 as (tl & -> & L1 & _). apply equiv_list_r in H2 as (tl' & [= <-] & L2 & _).
        congruence.
      - apply equiv_list_r in H1 as (tl & -> & L1 & P1). apply equiv_list_r in H2 as (tl' & [= <-] & L2 & P2).
        assert (Hi : i < List.length tl) by (rewrite L1; apply nth_error_Some; congruence).
        apply nth_error_Some in Hi. destruct (nth_error tl i) as [ui|] eqn:Eu; [|congruence].
        apply (IH ui); eauto. eapply dfree_nth; eauto.
      - apply equiv_map_r in H1 as (tk & -> & F1). apply equiv_map_r in H2 as (tk' & [= <-] & F2).
        apply Hnin. apply (map_facts_keys _ _ _ F2 Hd). apply (map_facts_keys _ _ _ F1 Hd). exact Hin.
      - apply equiv_map_r in H1 as (tk & -> & F1). apply equiv_map_r in H2 as (tk' & [= <-] & F2).
        apply Hnin. apply (map_facts_keys _ _ _ F1 Hd). apply (map_facts_keys _ _ _ F2 Hd). exact Hin.
      - apply equiv_map_r in H1 as (tk & -> & F1). apply equiv_map_r in H2 as (tk' & [= <-] & F2).
        assert (Hk : In k (map fst tk)).
        { apply (map_facts_keys _ _ _ F1 Hd). eapply lookup_In; eauto. }
        apply In_lookup in Hk as [uv Huv].
        apply (IH uv).
        + eapply dfree_lookup; eauto.
        + exact (map_facts_dfree _ _ _ _ _ F1 Hf Hd Huv Hv).
        + exact (map_facts_dfree _ _ _ _ _ F2 Hf Hd Huv Hw).
    Qed.

    (* two directive-free expectations that are apart cannot describe the same document *)
    Lemma apart_excl_expected : forall x y, apart x y ->
      forall u, dfree x = true -> dfree y = true -> equivG false x u -> equivG false y u -> False.
    Proof.
      induction 1 as [x y Hk|x y Hx Hy Hne|b1 b2 Hb|l l' Hl|l l' i x y Hx Hy Hap IH
                     |k kvs kvs' Hd Hin Hnin|k kvs kvs' Hd Hnin Hin|k kvs kvs' v w Hd Hv Hw Hap IH];
        intros u Hfx Hfy H1 H2.
      - apply equiv_kind in H1, H2. congruence.
      - destruct (equiv_plain_l _ _ _ H1 Hx) as [Pu E1]. destruct (equiv_plain_l _ _ _ H2 Hy) as [_ E2].
        apply plain_scalar_kind in Hx, Hy.
        rewrite (py_eq_plain_eucl u x y) in Hne; auto; try discriminate;
          rewrite py_eq_plain_sym; auto.
      - apply equiv_bool_l in H1, H2. congruence.
      - apply equiv_list_l in H1 as (al & -> & L1 & _). apply equiv_list_l in H2 as (al' & [= <-] & L2 & _).
        congruence.
      - apply equiv_list_l in H1 as (al & -> & L1 & P1). apply equiv_list_l in H2 as (al' & [= <-] & L2 & P2).
        assert (Hi : i < List.length al) by (rewrite <- L1; apply nth_error_Some; congruence).
        apply nth_error_Some in Hi. destruct (nth_error al i) as [ui|] eqn:Eu; [|congruence].
        apply (IH ui); [exact (dfree_nth _ _ _ Hfx Hx)|exact (dfree_nth _ _ _ Hfy Hy)|eapply P1; eauto|eapply P2; eauto].
      - apply equiv_map_l in H1 as (ak & -> & F1). apply equiv_map_l in H2 as (ak' & [= <-] & F2).
        apply Hnin. apply (map_facts_keys _ _ _ F2 Hd). apply (map_facts_keys _ _ _ F1 Hd). exact Hin.
      - apply equiv_map_l in H1 as (ak & -> & F1). apply equiv_map_l in H2 as (ak' & [= <-] & F2).
        apply Hnin. apply (map_facts_keys _ _ _ F1 Hd). apply (map_facts_keys _ _ _ F2 Hd). exact Hin.
      - apply equiv_map_l in H1 as (ak & -> & F1). apply equiv_map_l in H2 as (ak' & [= <-] & F2).
        assert (Hk : In k (map fst ak)).
        { apply (map_facts_keys _ _ _ F1 Hd). eapply lookup_In; eauto. }
        apply In_lookup in Hk as [uv Huv].
        apply (IH uv).
        + exact (dfree_lookup _ _ _ Hfx Hv).
        + exact (dfree_lookup _ _ _ Hfy Hw).
        + exact (map_facts_dfree _ _ _ _ _ F1 Hfx Hd Hv Huv).
        + exact (map_facts_dfree _ _ _ _ _ F2 Hfy Hd Hw Huv).
    Qed.
  End Excl.


  (* ---------- one-step perturbations ---------- *)

  Fixpoint upd_nth {A} (i : nat) (x : A) (l : list A) : list A :=
    match l, i with
    | [], _ => []
    | _ :: r, O => x :: r
    | h :: r, S i' => h :: upd_nth i' x r
    end.

  Lemma nth_upd_nth {A} (l : list A) : forall i x x', nth_error l i = Some x -> nth_error (upd_nth i x' l) i = Some x'.
  Proof. induction l as [|h r IH]; intros [|i] x x'; cbn; try discriminate; eauto. Qed.

  Lemma lookup_set_key {A} k (v : A) kvs : lookup k (set_key k v kvs) = Some v.
  Proof.
    induction kvs as [|[k0 v0] r IH]; cbn; [now rewrite String.eqb_refl|].
    destruct (String.eqb k k0) eqn:E; cbn; rewrite E; auto.
  Qed.

  Lemma del_key_notin {A} k (kvs : list (string * A)) : ~ In k (map fst (del_key k kvs)).
  Proof.
    induction kvs as [|[k0 v0] r IH]; cbn; [tauto|].
    destruct (String.eqb k k0) eqn:E; [exact IH|]. cbn. intros [H|H]; [|tauto].
    subst. now rewrite String.eqb_refl in E.
  Qed.

  (* a single deviation made at the root of a document *)
  Inductive dev_root : json -> json -> Prop :=
  (* retyped: null/number/string <-> bool <-> array <-> object *)
  | DR_kind x y : kind x <> kind y -> dev_root x y
  (* changed leaf (or null/number/string retyped) — anything Python == tells apart;
     1 -> 1.0 is NOT a deviation *)
  | DR_scalar x y : kind x = 0 -> kind y = 0 -> py_eq x y = false -> dev_root x y
  | DR_bool b : dev_root (JBool b) (JBool (negb b))
  | DR_missing kvs k :
      is_directive k = false -> In k (map fst kvs) -> dev_root (JMap kvs) (JMap (del_key k kvs))
  | DR_extra kvs k v :
      is_directive k = false -> ~ In k (map fst kvs) -> dev_root (JMap kvs) (JMap (kvs ++ [(k, v)]))
  | DR_len l l' : List.length l <> List.length l' -> dev_root (JList l) (JList l')
  (* reorder: a permutation that moves two distinct elements onto each other's place *)
  | DR_swap l l' i j x y :
      Permutation l l' -> nth_error l i = Some x -> nth_error l j = Some y -> apart x y ->
      nth_error l' i = Some y -> nth_error l' j = Some x -> dev_root (JList l) (JList l').

  (* ... or at any depth, below non-directive keys and list positions *)
  Inductive deviates1 : json -> json -> Prop :=
  | D_here x y : dev_root x y -> deviates1 x y
  | D_elem l i x x' :
      nth_error l i = Some x -> deviates1 x x' -> deviates1 (JList l) (JList (upd_nth i x' l))
  | D_val kvs k v v' :
      is_directive k = false -> lookup k kvs = Some v -> deviates1 v v' ->
      deviates1 (JMap kvs) (JMap (set_key k v' kvs)).

  Lemma dev_root_apart x y : dev_root x y -> apart x y.
  Proof.
    destruct 1 as [x y H|x y H1 H2 H3|b|kvs k H1 H2|kvs k v H1 H2|l l' H|l l' i j x y Hp Hi Hj Hap Hi' Hj'].
    - now apply Ap_kind.
    - now apply Ap_scalar.
    - apply Ap_bool. destruct b; discriminate.
    - eapply Ap_key_l; eauto. apply del_key_notin.
    - eapply Ap_key_r; eauto. rewrite map_app. apply in_or_app. right. cbn. auto.
    - now apply Ap_len.
    - exact (Ap_elem l l' i x y Hi Hi' Hap).
  Qed.

  Lemma deviates1_apart x y : deviates1 x y -> apart x y.
  Proof.
    induction 1.
    - now apply dev_root_apart.
    - eapply Ap_elem; eauto. eapply nth_upd_nth; eauto.
    - eapply Ap_val; eauto. apply lookup_set_key.
  Qed.

  (* An expectation without directives that describes the actual value rejects
     every value that differs from it somewhere ... *)
  Theorem apart_actual_fails t a a' :
    dfree t = true -> equivX false t a -> apart a a' -> tmatch t a' = MDone false.
  Proof.
    intros Hf He Hap.
    destruct (dfree_no_raise (depth t) t a' false Hf (le_n _)) as [[|] Hb]; [|exact Hb].
    exfalso. apply tmatch_exact in Hb. eapply apart_excl_actual; eauto.
  Qed.

  (* ... in particular every single deviation, at any depth *)
  Theorem single_deviation_fails t a a' :
    dfree t = true -> equivX false t a -> deviates1 a a' -> tmatch t a' = MDone false.
  Proof. intros Hf He Hd. apply (apart_actual_fails t a a'); auto. now apply deviates1_apart. Qed.

  (* the property's own quantifier: perturb the ASSERTION, keep the behaviour *)
  Theorem apart_expected_fails t t' a :
    dfree t = true -> dfree t' = true -> equivX false t a -> apart t t' -> tmatch t' a = MDone false.
  Proof.
    intros Hf Hf' He Hap.
    destruct (dfree_no_raise (depth t') t' a false Hf' (le_n _)) as [[|] Hb]; [|exact Hb].
    exfalso. apply tmatch_exact in Hb. eapply apart_excl_expected; eauto.
  Qed.

  Theorem single_deviation_of_assertion_fails t t' a :
    dfree t = true -> dfree t' = true -> equivX false t a -> deviates1 t t' -> tmatch t' a = MDone false.
  Proof. intros Hf Hf' He Hd. apply (apart_expected_fails t t' a); auto. now apply deviates1_apart. Qed.


  (* ------------------------------------------------------------------ *)
  (* 6. the outcome matcher                                               *)
  (* ------------------------------------------------------------------ *)

  Local Open Scope string_scope.

  Lemma prefixb_spec p : forall s, prefixb p s = true <-> exists q, s = p ++ q.
  Proof.
    induction p as [|c p IH]; intros s; cbn.
    - split; eauto.
    - destruct s as [|d s]; [split; [discriminate|intros [q Hq]; discriminate]|].
      rewrite Bool.andb_true_iff, Ascii.eqb_eq, IH. split.
      + intros [-> [q ->]]. eauto.
      + intros [q [= -> ->]]. eauto.
  Qed.

  Lemma contains_unfold x s :
    contains x s = prefixb x s || match s with EmptyString => false | String _ r => contains x r end.
  Proof. destruct s; reflexivity. Qed.

  Lemma contains_spec x : forall s, contains x s = true <-> exists p q, s = p ++ x ++ q.
  Proof.
    intros s. split.
    - induction s as [|c s IH]; rewrite contains_unfold, Bool.orb_true_iff.
      + intros [H|H]; [|discriminate]. apply prefixb_spec in H as [q ->]. exists "", q. reflexivity.
      + intros [H|H].
        * apply prefixb_spec in H as [q ->]. exists "", q. reflexivity.
        * destruct (IH H) as (p & q & ->). exists (String c p), q. reflexivity.
    - intros (p & q & ->). induction p as [|c p IH]; rewrite contains_unfold, Bool.orb_true_iff.
      + left. apply prefixb_spec. exists q. reflexivity.
      + right. exact IH.
  Qed.

  (* "the message is contained, case-insensitively; '' matches anything" *)
  Definition msg_contained (em am : option string) : Prop :=
    opt_text em = "" \/
    (opt_text am <> "" /\ exists p q, lower (opt_text am) = p ++ lower (opt_text em) ++ q).

  Lemma msg_ok_iff em am : msg_ok em am = true <-> msg_contained em am.
  Proof.
    unfold msg_ok, msg_contained, truthy_os, str_nonempty.
    destruct (String.eqb (opt_text em) "") eqn:E1; cbn.
    - apply String.eqb_eq in E1. tauto.
    - apply String.eqb_neq in E1. rewrite Bool.andb_true_iff, Bool.negb_true_iff, String.eqb_neq, contains_spec.
      tauto.
  Qed.

  (* the assertion "expectOutcome e" holds of what the Function returned *)
  Inductive outcome_holds : option (outcome json) -> uoutcome json -> Prop :=
  | OH_ok a : is_unwrapped_ok a = true -> outcome_holds None a
  | OH_retry ed em el ad am al :
      msg_contained em am -> (ed = 0 \/ ed = ad)%Z ->
      outcome_holds (Some (Retry ed em el)) (UOut (Retry ad am al))
  | OH_permfail em el am al :
      msg_contained em am -> outcome_holds (Some (PermFail em el)) (UOut (PermFail am al))
  | OH_depskip em el am al :
      msg_contained em am -> outcome_holds (Some (DepSkip em el)) (UOut (DepSkip am al))
  | OH_skip em el am al :
      msg_contained em am -> outcome_holds (Some (Skip em el)) (UOut (Skip am al)).

  (* what prepare can put into an ExpectOutcome: None or a non-Ok outcome *)
  Definition preparable (e : option (outcome json)) : Prop :=
    match e with Some (Ok _ _) => False | _ => True end.

  Lemma expect_outcome_preparable spec e : expect_outcome_of spec = PExpect e -> preparable e.
  Proof.
    unfold expect_outcome_of.
    repeat match goal with
           | |- context [match ?x with _ => _ end] => destruct x; try discriminate
           end; intros [= <-]; exact I.
  Qed.

  Theorem outcome_match_iff e a :
    preparable e -> (outcome_match key_text e a = MDone true <-> outcome_holds e a).
  Proof.
    intros Hp.
    destruct e as [[em el|em el|d el|ed em el|em el]|]; cbn in Hp; try contradiction;
      destruct a as [v|[am al|am al|d' al|ad am al|am al]]; cbn [FnTestMatch.outcome_match];
      try solve [split; [discriminate|intros H; inversion H]];
      try solve [split; [intros [= H]; apply msg_ok_iff in H; now constructor
                        |intros H; inversion H; subst; f_equal; now apply msg_ok_iff]];
      try solve [split; [intros [= H]; now constructor|intros H; inversion H; subst; f_equal; assumption]];
      try solve [split; [intros _; constructor; reflexivity|intros _; reflexivity]].
    split.
    - intros [= H]. apply Bool.andb_true_iff in H as [H1 H2]. apply msg_ok_iff in H1.
      apply Bool.orb_true_iff in H2. rewrite !Z.eqb_eq in H2. now constructor.
    - intros H. inversion H; subst. f_equal. apply Bool.andb_true_iff. split; [now apply msg_ok_iff|].
      apply Bool.orb_true_iff. rewrite !Z.eqb_eq. assumption.
  Qed.

  (* dead through prepare, live for a direct caller: an expected Ok whose data
     is falsy passes against ANY actual outcome *)
  Lemma outcome_match_expected_ok_falsy_passes_anything :
    outcome_match key_text (Some (Ok (Single JNull) None)) (UOut (PermFail (Some "boom") None)) = MDone true.
  Proof. reflexivity. Qed.

  Local Close Scope string_scope.

  (* ------------------------------------------------------------------ *)
  (* 7. the verdict functions, MockApi, _merge_overlay                    *)
  (* ------------------------------------------------------------------ *)

  (* expectReturn passes iff the Function returned a value (not Retry/PermFail/
     Skip/DepSkip — in particular no resource mutation was attempted, which
     yields Retry) and the value is what the expectation describes *)
  Theorem verdict_return_iff e a :
    verdict_return key_text e a = MDone true <-> exists v, a = UVal v /\ equivX false e v.
  Proof.
    destruct a as [v|o]; cbn.
    - rewrite tmatch_exact. split; [eauto|intros (v' & [= <-] & H); exact H].
    - split; [discriminate|intros (v' & [=] & _)].
  Qed.

  (* expectResource passes iff an API call was made, the Function reported the
     Retry that goes with a mutation, and the object the mock materialised —
     without the last-applied annotation — is what the expectation describes *)
  Theorem verdict_resource_iff e mat a :
    e <> JNull ->
    (verdict_resource key_text e mat a = MDone true <->
     exists m m' d msg loc, mat = Some m /\ a = UOut (Retry d msg loc) /\
                            strip_last_applied m = Some m' /\ equivX false e m').
  Proof.
    intros He. unfold FnTestMatch.verdict_resource.
    destruct mat as [m|].
    - destruct a as [v|[| | |d msg loc|]]; try solve [split; [discriminate|intros (?&?&?&?&?&_&[=]&_)]].
      destruct (strip_last_applied m) as [m'|] eqn:Es.
      + rewrite tmatch_exact. split.
        * intros H. exists m, m', d, msg, loc. auto.
        * intros (m0 & m0' & ? & ? & ? & [= <-] & _ & Hs & H). rewrite Es in Hs. injection Hs as <-. exact H.
      + split; [discriminate|]. intros (m0 & m0' & ? & ? & ? & [= <-] & _ & Hs & _). congruence.
    - destruct e; try congruence; cbn; split; try discriminate; intros (?&?&?&?&?&[=]&_).
  Qed.

  Theorem verdict_delete_iff b o :
    verdict key_text (ExpectDelete b) o = MDone true <-> ob_deleted o = b.
  Proof. cbn. split; [intros [= H]; now apply Bool.eqb_prop|intros ->; now rewrite Bool.eqb_reflx]. Qed.

  Theorem verdict_outcome_iff e o :
    preparable e -> (verdict key_text (ExpectOutcome e) o = MDone true <-> outcome_holds e (ob_actual o)).
  Proof. intros Hp. cbn. now apply outcome_match_iff. Qed.

End WithKeyText.

(* ---------- _strip_last_applied_annotation ---------- *)

(* on what koreo sends (metadata.annotations is an object holding the
   last-applied annotation): that annotation is removed, and `annotations`
   with it when it was the only one *)
Lemma strip_last_applied_sent kvs md an v :
  lookup "metadata" kvs = Some (JMap md) -> lookup "annotations" md = Some (JMap an) ->
  lookup LAST_APPLIED an = Some v ->
  strip_last_applied (JMap kvs) =
  Some (JMap (set_key "metadata"
                (JMap (if Nat.eqb (List.length an) 1 then del_key "annotations" md
                       else set_key "annotations" (JMap (del_key LAST_APPLIED an)) md)) kvs)).
Proof.
  intros Hm Ha Hl. unfold strip_last_applied.
  destruct kvs as [|kv kvs']; [discriminate|]. rewrite Hm, Ha. cbn [py_len].
  destruct an as [|a1 [|a2 an']]; [discriminate|reflexivity|]. cbn [List.length Nat.eqb].
  now rewrite Hl.
Qed.

(* observations on objects koreo never sends (no last-applied annotation):
   a sole foreign annotation is dropped, two foreign annotations raise KeyError *)
Lemma strip_drops_sole_foreign_annotation :
  strip_last_applied (JMap [("metadata", JMap [("annotations", JMap [("team", JStr "core")])])]%string)
  = Some (JMap [("metadata", JMap [])]%string).
Proof. reflexivity. Qed.

Lemma strip_raises_without_last_applied :
  strip_last_applied
    (JMap [("metadata", JMap [("annotations", JMap [("a", JStr "1"); ("b", JStr "2")])])]%string) = None.
Proof. reflexivity. Qed.

(* ---------- _merge_overlay / MockApi ---------- *)

Lemma lookup_set_key_other {A} k k0 (v : A) kvs : k <> k0 -> lookup k (set_key k0 v kvs) = lookup k kvs.
Proof.
  intros Hne. induction kvs as [|[k1 v1] r IH]; cbn.
  - destruct (String.eqb k k0) eqn:E; [apply String.eqb_eq in E; congruence|reflexivity].
  - destruct (String.eqb k0 k1) eqn:E1; cbn.
    + apply String.eqb_eq in E1. subst.
      destruct (String.eqb k k1) eqn:E; [apply String.eqb_eq in E; congruence|reflexivity].
    + destruct (String.eqb k k1); auto.
Qed.

Lemma fold_set_key_lookup (o : list (string * json)) : forall b k,
  NoDup (map fst o) ->
  lookup k (fold_left (fun acc kv => set_key (fst kv) (snd kv) acc) o b) =
  match lookup k o with Some v => Some v | None => lookup k b end.
Proof.
  induction o as [|[k0 v0] r IH]; intros b k Hnd; cbn [fold_left lookup fst snd]; [reflexivity|].
  inversion Hnd as [|? ? Hnin Hnd']; subst. rewrite IH by assumption.
  destruct (String.eqb k k0) eqn:E.
  - apply String.eqb_eq in E. subst.
    assert (lookup k0 r = None) as -> by (apply lookup_none_notin; exact Hnin).
    apply lookup_set_key.
  - apply String.eqb_neq in E. destruct (lookup k r); [reflexivity|]. now apply lookup_set_key_other.
Qed.

(* what the mock does with a body sent over an existing resource: every
   top-level key of the body replaces the current one wholesale; the other
   top-level keys of the current resource stay *)
Theorem merge_overlay_toplevel b o :
  NoDup (map fst o) ->
  exists m, merge_overlay (JMap b) (JMap o) = Some (JMap m) /\
            forall k, lookup k m = match lookup k o with Some v => Some v | None => lookup k b end.
Proof. intros Hnd. eexists. split; [reflexivity|]. intros k. now apply fold_set_key_lookup. Qed.

(* it is NOT a deep merge: a nested key the body does not mention is lost *)
Lemma merge_overlay_not_deep :
  merge_overlay (JMap [("a", JMap [("x", JInt 1); ("y", JInt 2)])]%string)
                (JMap [("a", JMap [("x", JInt 9)])]%string)
  = Some (JMap [("a", JMap [("x", JInt 9)])]%string).
Proof. reflexivity. Qed.

Lemma mock_calls_app m cs c :
  mock_calls m (cs ++ [c]) = match mock_calls m cs with Some m' => mock_call m' c | None => None end.
Proof.
  revert m. induction cs as [|c0 r IH]; intros m; cbn.
  - destruct (mock_call m c); reflexivity.
  - destruct (mock_call m c0); [apply IH|reflexivity].
Qed.

Definition is_delete (c : api_call) : bool := match c with CallDelete => true | _ => false end.

Lemma mock_call_deleted m c m' :
  mock_call m c = Some m' -> m_deleted m' = m_deleted m || is_delete c.
Proof.
  destruct c; cbn.
  - intros [= <-]. cbn. now rewrite Bool.orb_true_r.
  - destruct (m_current m) as [cur|]; [destruct (py_truthy cur); [destruct (merge_overlay cur body)|]|];
      try discriminate; intros [= <-]; cbn; now rewrite Bool.orb_false_r.
Qed.

(* expectDelete looks at a flag that is set iff a DELETE was issued *)
Theorem mock_deleted_iff cur cs m :
  mock_calls (mock_init cur) cs = Some m -> (m_deleted m = true <-> In CallDelete cs).
Proof.
  assert (G : forall l m0 m1, mock_calls m0 l = Some m1 ->
                              m_deleted m1 = m_deleted m0 || existsb is_delete l).
  { induction l as [|c r IH]; intros m0 m1; cbn.
    - intros [= <-]. now rewrite Bool.orb_false_r.
    - destruct (mock_call m0 c) as [m'|] eqn:E; [|discriminate]. intros H.
      rewrite (IH _ _ H), (mock_call_deleted _ _ _ E). now rewrite Bool.orb_assoc. }
  intros H. rewrite (G _ _ _ H). cbn. rewrite existsb_exists. split.
  - intros (c & Hin & Hc). destruct c; [exact Hin|discriminate].
  - intros Hin. exists CallDelete. auto.
Qed.

Section Sent.
  Variable key_text : json -> string.

  (* "expectResource only when a create or patch was attempted": if the
     expectation names at least one ordinary key, a passing expectResource
     means the last API call the Function made sent a body *)
  Theorem resource_pass_needs_send cur cs m ek a k :
    mock_calls (mock_init cur) cs = Some m ->
    In k (plain_keys ek) ->
    verdict_resource key_text (JMap ek) (m_mat m) a = MDone true ->
    exists cs' body, cs = cs' ++ [CallSend body].
  Proof.
    intros Hm Hk Hv.
    destruct cs as [|c0 r].
    - cbn in Hm. injection Hm as <-. cbn in Hv. discriminate.
    - destruct (@exists_last _ (c0 :: r)) as (cs' & c & Hc); [discriminate|]. rewrite Hc in *.
      rewrite mock_calls_app in Hm. destruct (mock_calls (mock_init cur) cs') as [m'|]; [|discriminate].
      destruct c as [|body]; [|eauto]. exfalso.
      cbn in Hm. injection Hm as <-. cbn [m_mat] in Hv.
      apply verdict_resource_iff in Hv as (m0 & m0' & d & msg & loc & [= <-] & _ & Hs & He); [|discriminate].
      cbn in Hs. injection Hs as <-.
      apply plain_keys_In in Hk as [Hin Hd].
      inversion He as [? ? ? Hp|?|?|?|s' tk ak sk mf Hsk Hmf Hkeys _ _ _]; subst; [discriminate|].
      apply (Hkeys k Hd) in Hin. exact Hin.
  Qed.

  (* the side condition is needed: an expectation made only of directive
     keys passes against the {} the mock materialises for a DELETE *)
  Lemma resource_directive_only_passes_on_delete :
    exists m, (mock_calls (mock_init (Some (JMap [("kind"%string, JStr "K"%string)]))) [CallDelete] = Some m) /\
      (verdict_resource key_text (JMap [(K_SET, JList [])]) (m_mat m)
                        (UOut (Retry 15%Z (Some "Deleting"%string) None)) = MDone true).
  Proof. eexists. split; reflexivity. Qed.
End Sent.

(* ------------------------------------------------------------------ *)
(* 8. regressions, observations, totality                              *)
(* ------------------------------------------------------------------ *)

Section Regressions.
  Variable key_text : json -> string.
  Local Open Scope string_scope.

  (* the three repaired defects (F1, F2, F2b of notes/C19.md): now failing verdicts *)
  Lemma set_bool_number_kept_apart :
    tmatch key_text (JMap [("l", JList [JBool true; JStr "z"]); (K_SET, JList [JStr "l"])])
                    (JMap [("l", JList [JStr "z"; JInt 1])]) = MDone false.
  Proof. reflexivity. Qed.

  Lemma map_actual_not_a_list_fails :
    tmatch key_text (JMap [("items", JList [JMap [("name", JStr "a")]]); (K_MAP, JMap [("items", JList [JStr "name"])])])
                    (JMap [("items", JNull)]) = MDone false.
  Proof. reflexivity. Qed.

  Lemma map_actual_item_not_an_object_fails :
    tmatch key_text (JMap [("items", JList [JMap [("name", JStr "a")]]); (K_MAP, JMap [("items", JList [JStr "name"])])])
                    (JMap [("items", JList [JInt 5])]) = MDone false.
  Proof. reflexivity. Qed.

  Lemma map_empty_string_is_not_the_empty_list :
    tmatch key_text (JMap [("items", JList []); (K_MAP, JMap [("items", JList [JStr "name"])])])
                    (JMap [("items", JStr "")]) = MDone false.
  Proof. reflexivity. Qed.

  (* an EXPECTED value that is not a list of objects under a map directive
     matches nothing, not even itself *)
  Lemma map_expected_not_a_list_fails :
    tmatch key_text (JMap [("items", JStr "text"); (K_MAP, JMap [("items", JList [JStr "name"])])])
                    (JMap [("items", JStr "text")]) = MDone false.
  Proof. reflexivity. Qed.

  (* observation: directive-named keys of the ACTUAL value are invisible *)
  Lemma actual_directive_key_ignored :
    tmatch key_text (JMap [("a", JInt 1)]) (JMap [("a", JInt 1); (K_SET, JList [JStr "a"])]) = MDone true.
  Proof. reflexivity. Qed.

  (* observation: duplicates collapse under both directives (documented
     "set" / "collection keyed by" semantics) *)
  Lemma set_duplicates_collapse :
    tmatch key_text (JMap [("l", JList [JInt 1; JInt 2]); (K_SET, JList [JStr "l"])])
                    (JMap [("l", JList [JInt 2; JInt 1; JInt 1])]) = MDone true.
  Proof. reflexivity. Qed.

  (* observation: a malformed directive VALUE in the assertion still raises *)
  Lemma malformed_directive_value_raises :
    tmatch key_text (JMap [("a", JInt 1); (K_SET, JInt 5)]) (JMap [("a", JInt 1)]) = MRaised.
  Proof. reflexivity. Qed.
End Regressions.

(* ---------- totality: a well-formed expectation never makes the comparator raise ---------- *)

Section Regular.
  Variable key_text : json -> string.

  Definition all_plain (ks : list string) : bool := forallb (fun k => negb (is_directive k)) ks.

  (* what [regular] asks of the value under a non-directive key *)
  Definition entry_ok (reg : json -> bool) (sk : list string) (mf : list (string * list json))
             (k : string) (v : json) : bool :=
    match lookup k mf with
    | Some fields =>
        (* map-directed: hashable key fields; if the value is a list of objects,
           every object is regular and no key text is a directive name *)
        forallb hashable fields &&
        match v with
        | JList l =>
            if forallb is_map l
            then forallb reg l &&
                 match keyed key_text fields l [] with
                 | Some o => all_plain (map fst o)
                 | None => false
                 end
            else true
        | _ => true
        end
    | None =>
        match v with
        | JList items => if mem_str k sk then true else forallb reg items
        | _ => reg v
        end
    end.

  (* [regular t]: every directive value in t has the documented shape (an
     array of names / an object of arrays of names) *)
  Fixpoint regular (t : json) : bool :=
    match t with
    | JList l => forallb regular l
    | JMap kvs =>
        match set_keys kvs, map_fields kvs with
        | Some sk, Some mf =>
            (fix go (l : list (string * json)) : bool :=
               match l with
               | [] => true
               | (k, v) :: r => (is_directive k || entry_ok regular sk mf k v) && go r
               end) kvs
        | _, _ => false
        end
    | _ => true
    end.

  Definition regular_s (s : bool) (t : json) : bool :=
    match t with
    | JList l => if s then true else forallb regular l
    | _ => regular t
    end.

  Lemma regular_s_false t : regular_s false t = regular t.
  Proof. destruct t; reflexivity. Qed.

  Lemma regular_map_inv tk :
    regular (JMap tk) = true ->
    exists sk mf, set_keys tk = Some sk /\ map_fields tk = Some mf /\
      forall k v, In (k, v) tk -> is_directive k = false -> entry_ok regular sk mf k v = true.
  Proof.
    cbn [regular]. destruct (set_keys tk) as [sk|]; [|discriminate].
    destruct (map_fields tk) as [mf|]; [|discriminate]. intros H. exists sk, mf. repeat split.
    induction tk as [|[k0 v0] r IH]; [intros ? ? []|].
    apply Bool.andb_true_iff in H as [H1 H2]. intros k v [[= -> ->]|Hin] Hd; [|eauto].
    rewrite Hd in H1. exact H1.
  Qed.

  Lemma all_plain_no_directive (o : list (string * json)) d :
    all_plain (map fst o) = true -> is_directive d = true -> lookup d o = None.
  Proof.
    intros H Hd. apply lookup_none_notin. intros Hin.
    unfold all_plain in H. rewrite forallb_forall in H. apply H in Hin. rewrite Hd in Hin. discriminate.
  Qed.

  Lemma regular_keyed o :
    all_plain (map fst o) = true -> (forall k v, In (k, v) o -> regular v = true) -> regular (JMap o) = true.
  Proof.
    intros Hp Hv. cbn [regular].
    unfold set_keys, map_fields.
    rewrite (all_plain_no_directive o K_SET Hp eq_refl), (all_plain_no_directive o K_MAP Hp eq_refl).
    induction o as [|[k0 v0] r IH]; [reflexivity|].
    cbn in Hp. apply Bool.andb_true_iff in Hp as [Hp0 Hp]. apply Bool.negb_true_iff in Hp0.
    rewrite Hp0. cbn [orb]. apply Bool.andb_true_iff. split.
    - unfold entry_ok. cbn [lookup mem_str]. specialize (Hv k0 v0 (or_introl eq_refl)).
      destruct v0; auto.
    - apply IH; auto. intros; eapply Hv; cbn; eauto.
  Qed.

  Lemma obj_key_total obj fields :
    forallb hashable fields = true -> exists ks, obj_key key_text obj fields = Some ks.
  Proof.
    induction fields as [|f r IH]; cbn; [eauto|]. rewrite Bool.andb_true_iff. intros [Hf Hr].
    destruct (IH Hr) as [ks ->]. destruct f; cbn in Hf; try discriminate; cbn; eauto.
  Qed.

  Lemma keyed_total fields l :
    forallb hashable fields = true -> forallb is_map l = true ->
    forall acc, exists o, keyed key_text fields l acc = Some o.
  Proof.
    intros Hf. induction l as [|it r IH]; cbn; [eauto|]. rewrite Bool.andb_true_iff. intros [Hi Hr] acc.
    destruct it; cbn in Hi; try discriminate.
    unfold item_key. destruct fields as [|f0 fr]; [apply IH; auto|].
    destruct (obj_key_total kvs (f0 :: fr) Hf) as [ks ->]. cbn. apply IH; auto.
  Qed.

  (* whatever the actual value, a regular expectation yields a verdict *)
  Theorem regular_no_raise : forall n t a s,
    regular_s s t = true -> depth t <= n -> exists b, tmatch_fuel key_text n t a s = MDone b.
  Proof.
    induction n as [|n IH]; intros t a s Hr Hd; [pose proof (depth_pos t); lia|].
    destruct t, a; cbn [FnTestMatch.tmatch_fuel]; eauto.
    - destruct s; eauto. destruct (Nat.eqb _ _); eauto.
      apply list_match_done. intros x y Hin. apply IH.
      + rewrite regular_s_false. cbn in Hr. rewrite forallb_forall in Hr. auto.
      + apply depth_in_list in Hin. lia.
    - change (regular_s s (JMap kvs)) with (regular (JMap kvs)) in Hr.
      destruct (regular_map_inv _ Hr) as (sk & mf & Hsk & Hmf & Hent).
      unfold FnTestMatch.dict_match. rewrite Hsk, Hmf.
      destruct (entries_done key_text (tmatch_fuel key_text n) sk mf kvs kvs0 (plain_keys kvs)) as [b Hb].
      + intros k v w Hin Hv Hw. apply plain_keys_In in Hin as [_ Hdk].
        pose proof (Hent k v (lookup_In_pair _ _ _ Hv) Hdk) as Eok.
        unfold entry_ok in Eok. unfold FnTestMatch.entry_match.
        destruct (lookup k mf) as [fields|].
        * apply Bool.andb_true_iff in Eok as [Hh Eok].
          destruct (object_list v) as [lv|] eqn:Ev; [|eauto].
          destruct (object_list w) as [lw|] eqn:Ew; [|eauto].
          apply object_list_inv in Ev as [-> Mv]. apply object_list_inv in Ew as [-> Mw].
          rewrite Mv in Eok. apply Bool.andb_true_iff in Eok as [Ereg Ek].
          destruct (keyed key_text fields lv []) as [o|] eqn:Eo; [|discriminate].
          destruct (keyed_total fields lw Hh Mw []) as [ao ->].
          apply IH.
          -- rewrite regular_s_false. apply regular_keyed; auto. intros k' v' Hin'.
             destruct (keyed_In key_text _ _ _ _ _ _ Eo Hin') as [Hi|[]].
             rewrite forallb_forall in Ereg. auto.
          -- apply depth_keyed in Eo. apply depth_lookup in Hv. lia.
        * apply IH.
          -- unfold regular_s. destruct v; auto.
          -- apply depth_lookup in Hv. lia.
      + rewrite Hb. cbn. eauto.
  Qed.

  Theorem regular_total t a : regular t = true -> exists b, tmatch key_text t a = MDone b.
  Proof. intros Hr. apply regular_no_raise; [now rewrite regular_s_false|lia]. Qed.
End Regular.
