From Koreo Require Import Json Outcome FnTestMatch.
Local Open Scope list_scope.
Lemma mand_true : forall x y, mand x y = MDone true <-> x = MDone true /\ y = MDone true.
Proof.
  intros [[|]| |] [[|]| |]; cbn; split; intros H; try discriminate; try (destruct H; discriminate); auto.
Qed.
