(* Predicates_sync.v — the hand-written model of predicate_helpers.predicate_to_koreo_result
   (Predicates.decide / Predicates.p2k, on which every C13 theorem and the function heads of C10 rest) is
   EQUAL to the transcription regenerated from the current source on every run (gen/Predicates_gen.v, by
   harness/translate_predicates.py).  If predicate_helpers.py changes the behaviour of the function
   (case order, keys, outcome class, message / delay / location, a case that no longer returns), this
   proof breaks. *)
From Koreo Require Import Json Outcome ErrScan Predicates Predicates_gen.
Local Open Scope list_scope.

(* each generated case arm, in the vocabulary of the hand model *)
Lemma case_1_spec loc e :
  case_1 loc (VMap e) =
  match vlookup "assert" e with
  | None => None
  | Some _ => match sub_map "ok" e with Some _ => Some (Done None) | None => None end
  end.
Proof.
  unfold case_1, sub_map.
  destruct (vlookup "assert" e) as [a|]; [|reflexivity].
  destruct (vlookup "ok" e) as [[]|]; reflexivity.
Qed.

Lemma case_2_spec loc e :
  case_2 loc (VMap e) =
  match vlookup "assert" e with
  | None => None
  | Some _ => match msg_in "depSkip" e with
              | Some m => Some (Done (Some (DepSkip (fmt m) (Some loc))))
              | None => None
              end
  end.
Proof.
  unfold case_2, msg_in, sub_map.
  destruct (vlookup "assert" e) as [a|]; [|reflexivity].
  destruct (vlookup "depSkip" e) as [[]|]; try reflexivity.
Qed.

Lemma case_3_spec loc e :
  case_3 loc (VMap e) =
  match vlookup "assert" e with
  | None => None
  | Some _ => match msg_in "skip" e with
              | Some m => Some (Done (Some (Skip (fmt m) (Some loc))))
              | None => None
              end
  end.
Proof.
  unfold case_3, msg_in, sub_map.
  destruct (vlookup "assert" e) as [a|]; [|reflexivity].
  destruct (vlookup "skip" e) as [[]|]; try reflexivity.
Qed.

Lemma case_4_spec loc e :
  case_4 loc (VMap e) =
  match vlookup "assert" e with
  | None => None
  | Some _ => match retry_in e with
              | Some (m, d) =>
                  Some (match delay_of d with
                        | Some z => Done (Some (Retry z (fmt m) (Some loc)))
                        | None => Raised ValueError
                        end)
              | None => None
              end
  end.
Proof.
  unfold case_4, retry_in, sub_map.
  destruct (vlookup "assert" e) as [a|]; [|reflexivity].
  destruct (vlookup "retry" e) as [[]|]; try reflexivity.
  destruct (vlookup "message" kvs); [|reflexivity].
  destruct (vlookup "delay" kvs); reflexivity.
Qed.

Lemma case_5_spec loc e :
  case_5 loc (VMap e) =
  match vlookup "assert" e with
  | None => None
  | Some _ => match msg_in "permFail" e with
              | Some m => Some (Done (Some (PermFail (fmt m) (Some loc))))
              | None => None
              end
  end.
Proof.
  unfold case_5, msg_in, sub_map.
  destruct (vlookup "assert" e) as [a|]; [|reflexivity].
  destruct (vlookup "permFail" e) as [[]|]; try reflexivity.
Qed.

Lemma decide_is_transcription : forall loc p, decide loc p = decide_gen loc p.
Proof.
  intros loc p.
  destruct p as [| b | z | m e | s | t | | l | kvs]; try reflexivity.
  unfold decide_gen.
  rewrite case_1_spec, case_2_spec, case_3_spec, case_4_spec, case_5_spec.
  unfold decide, case_6, msg_unknown_pred.
  destruct (vlookup "assert" kvs) as [a|]; [|reflexivity].
  destruct (sub_map "ok" kvs); [reflexivity|].
  destruct (msg_in "depSkip" kvs); [reflexivity|].
  destruct (msg_in "skip" kvs); [reflexivity|].
  destruct (retry_in kvs) as [[m d]|]; [reflexivity|].
  destruct (msg_in "permFail" kvs); reflexivity.
Qed.

Lemma p2k_is_transcription : forall loc ps, p2k loc ps = p2k_gen loc ps.
Proof.
  intros loc [|p ps]; [reflexivity|].
  unfold p2k, p2k_gen. apply decide_is_transcription.
Qed.

(* the transcription has the six arms the model has (ok, depSkip, skip, retry, permFail, unknown) *)
Lemma n_cases_is_six : n_cases = 6%nat.
Proof. reflexivity. Qed.
