(* Workflow_proofs.v — lemmas about model/Workflow.v (workflow/reconcile.py).

   Main facts:
   * [final_fix]: under [deps_closed] and distinct labels the sequential
     done-map F is a FIXED POINT of the step function: the entry of every
     step s is [run_step_g rl s parent F] — what a step does depends only on
     the final outcomes of its dependencies.  Everything else is case analysis
     on [step_plan].
   * [trace_filter_label]: the evaluations of Logic recorded under label l are
     exactly the trace of step l.
   These are also what Sched_proofs.v (C02) builds on. *)
From Koreo Require Import Json Outcome Workflow.
From Coq Require Import Lia.
Local Open Scope list_scope.

(* ------------------------------------------------------------------ *)
(* association lists                                                    *)
(* ------------------------------------------------------------------ *)

Lemma mem_str_In k l : mem_str k l = true <-> In k l.
Proof.
  induction l as [|x l IH]; cbn.
  - split; [discriminate|tauto].
  - rewrite Bool.orb_true_iff, IH, String.eqb_eq. split; intros [H|H]; auto.
Qed.

Lemma lookup_app_in {A} k (a b : list (string * A)) :
  In k (map fst a) -> lookup k (a ++ b) = lookup k a.
Proof.
  induction a as [|[k' v] a IH]; cbn; [tauto|].
  intros [H|H]; destruct (String.eqb k k') eqn:E; auto.
  subst. now rewrite String.eqb_refl in E.
Qed.

Lemma lookup_app_notin {A} k (a b : list (string * A)) :
  ~ In k (map fst a) -> lookup k (a ++ b) = lookup k b.
Proof.
  induction a as [|[k' v] a IH]; cbn; [tauto|].
  intros H. destruct (String.eqb k k') eqn:E.
  - apply String.eqb_eq in E. subst. tauto.
  - apply IH. tauto.
Qed.

Lemma lookup_some_in {A} k (a : list (string * A)) v : lookup k a = Some v -> In (k, v) a.
Proof.
  induction a as [|[k' w] a IH]; cbn; [discriminate|].
  destruct (String.eqb k k') eqn:E.
  - apply String.eqb_eq in E. subst. intros [= ->]. now left.
  - intros H. right. auto.
Qed.

Lemma lookup_in_keys {A} k (a : list (string * A)) v : lookup k a = Some v -> In k (map fst a).
Proof. intros H. apply lookup_some_in in H. now apply (in_map fst) in H. Qed.

Lemma lookup_none_notin {A} k (a : list (string * A)) : lookup k a = None -> ~ In k (map fst a).
Proof.
  induction a as [|[k' w] a IH]; cbn; [tauto|].
  destruct (String.eqb k k') eqn:E; [discriminate|].
  intros H [H'|H']; [|now apply IH].
  subst. now rewrite String.eqb_refl in E.
Qed.

Lemma in_keys_lookup {A} k (a : list (string * A)) : In k (map fst a) -> exists v, lookup k a = Some v.
Proof.
  intros H. destruct (lookup k a) eqn:E; [eauto|].
  now apply lookup_none_notin in E.
Qed.

Lemma lookup_nodup_in {A} k v (a : list (string * A)) :
  NoDup (map fst a) -> In (k, v) a -> lookup k a = Some v.
Proof.
  induction a as [|[k' w] a IH]; cbn; [tauto|].
  intros ND [H|H].
  - injection H as -> ->. now rewrite String.eqb_refl.
  - inversion ND as [|? ? Hn ND']; subst.
    destruct (String.eqb k k') eqn:E; [|auto].
    apply String.eqb_eq in E. subst. exfalso. apply Hn.
    now apply (in_map fst) in H.
Qed.

Lemma lookup_map_snd {A B} (f : A -> B) k (a : list (string * A)) :
  lookup k (map (fun kv => (fst kv, f (snd kv))) a) = option_map f (lookup k a).
Proof.
  induction a as [|[k' w] a IH]; cbn; [reflexivity|].
  destruct (String.eqb k k'); auto.
Qed.

(* ------------------------------------------------------------------ *)
(* mapi                                                                 *)
(* ------------------------------------------------------------------ *)

Lemma mapi_from_in {A B} (f : nat -> A -> B) n l x :
  In x (mapi_from f n l) <-> exists k a, nth_error l k = Some a /\ x = f (n + k)%nat a.
Proof.
  revert n. induction l as [|a l IH]; intros n; cbn.
  - split; [tauto|]. intros (k & a & H & _). destruct k; discriminate.
  - rewrite IH. split.
    + intros [H|(k & b & H & ->)].
      * exists 0%nat, a. split; [reflexivity|]. now rewrite Nat.add_0_r.
      * exists (S k), b. split; [exact H|]. f_equal. lia.
    + intros (k & b & H & ->). destruct k as [|k]; cbn in H.
      * injection H as ->. left. now rewrite Nat.add_0_r.
      * right. exists k, b. split; [exact H|]. f_equal. lia.
Qed.

Lemma mapi_in {A B} (f : nat -> A -> B) l x :
  In x (mapi f l) <-> exists k a, nth_error l k = Some a /\ x = f k a.
Proof. unfold mapi. now rewrite mapi_from_in. Qed.

Lemma map_nth_error_inv {A B} (f : A -> B) l k b :
  nth_error (map f l) k = Some b -> exists a, nth_error l k = Some a /\ f a = b.
Proof.
  revert k. induction l as [|a l IH]; intros [|k]; cbn; try discriminate.
  - intros [= <-]. eauto.
  - apply IH.
Qed.

Lemma mapi_from_map {A B C} (f : nat -> B -> C) (g : A -> B) n l :
  mapi_from f n (map g l) = mapi_from (fun k a => f k (g a)) n l.
Proof. revert n. induction l as [|a l IH]; intros n; cbn; [reflexivity|now rewrite IH]. Qed.

Lemma mapi_from_length {A B} (f : nat -> A -> B) n l : List.length (mapi_from f n l) = List.length l.
Proof. revert n. induction l as [|a l IH]; intros n; cbn; [reflexivity|now rewrite IH]. Qed.

Lemma map_mapi_from {A B C} (g : B -> C) (f : nat -> A -> B) n l :
  map g (mapi_from f n l) = mapi_from (fun k a => g (f k a)) n l.
Proof. revert n. induction l as [|a l IH]; intros n; cbn; [reflexivity|now rewrite IH]. Qed.

Lemma mapi_from_ext {A B} (f g : nat -> A -> B) n l :
  (forall k a, f k a = g k a) -> mapi_from f n l = mapi_from g n l.
Proof. intros H. revert n. induction l as [|a l IH]; intros n; cbn; [reflexivity|now rewrite H, IH]. Qed.

(* ------------------------------------------------------------------ *)
(* paths of trace entries                                               *)
(* ------------------------------------------------------------------ *)

Definition head_is (l : string) (i : inv) : bool :=
  match i_path i with
  | (l', _) :: _ => String.eqb l l'
  | [] => false
  end.

Definition direct (i : inv) : bool :=
  match i_path i with [_] => true | _ => false end.

Lemma head_is_push l seg i : head_is l (push seg i) = String.eqb l (fst seg).
Proof. destruct seg. reflexivity. Qed.

Lemma filter_all {A} (f : A -> bool) l : Forall (fun x => f x = true) l -> filter f l = l.
Proof. induction 1 as [|x l H _ IH]; cbn; [reflexivity|]. now rewrite H, IH. Qed.

Lemma filter_none {A} (f : A -> bool) l : Forall (fun x => f x = false) l -> filter f l = [].
Proof. induction 1 as [|x l H _ IH]; cbn; [reflexivity|]. now rewrite H, IH. Qed.

Lemma filter_concat {A} (f : A -> bool) (ls : list (list A)) :
  filter f (List.concat ls) = List.concat (map (filter f) ls).
Proof.
  induction ls as [|l ls IH]; cbn; [reflexivity|].
  now rewrite filter_app, IH.
Qed.

(* ------------------------------------------------------------------ *)
(* the dependency gate                                                  *)
(* ------------------------------------------------------------------ *)

Definition dep_ok (done : list (string * lres)) (d : string) : Prop :=
  exists lr v, lookup d done = Some lr /\ r_out lr = SVal v.

(* the `steps` map a gated-open step sees: exactly its dependencies' values *)
Definition dep_vals (deps : list string) (done : list (string * lres)) : list (string * json) :=
  flat_map (fun d => match lookup d done with
                     | Some lr => match r_out lr with SVal v => [(d, v)] | SNon _ => [] end
                     | None => []
                     end) deps.

Lemma gate_open deps done oks :
  gate deps done = GOpen oks -> Forall (dep_ok done) deps /\ oks = dep_vals deps done.
Proof.
  revert oks. induction deps as [|d r IH]; cbn; intros oks.
  - intros [= <-]. split; [constructor|reflexivity].
  - destruct (lookup d done) as [lr|] eqn:E; [|discriminate].
    destruct (r_out lr) as [v|o] eqn:Eo; [|discriminate].
    destruct (gate r done) as [b|oks'] eqn:G; [discriminate|].
    intros [= <-]. destruct (IH _ eq_refl) as [F ->]. split.
    + constructor; [|exact F]. now exists lr, v.
    + reflexivity.
Qed.

Lemma gate_open_iff deps done :
  Forall (dep_ok done) deps <-> gate deps done = GOpen (dep_vals deps done).
Proof.
  split; [|intros H; now apply gate_open in H].
  induction 1 as [|d r (lr & v & E & Eo) _ IH]; cbn; [reflexivity|].
  now rewrite E, Eo, IH.
Qed.

Lemma gate_blocked deps done :
  ~ Forall (dep_ok done) deps -> exists d, gate deps done = GBlocked d.
Proof.
  intros H. destruct (gate deps done) as [d|oks] eqn:G; [eauto|].
  apply gate_open in G. tauto.
Qed.

(* the first non-Ok dependency, in `dependencies` order, decides *)
Lemma gate_blocked_first deps done d :
  gate deps done = GBlocked d ->
  exists pre post, deps = pre ++ d :: post /\ Forall (dep_ok done) pre /\ ~ dep_ok done d.
Proof.
  induction deps as [|x r IH]; cbn; [discriminate|].
  destruct (lookup x done) as [lr|] eqn:E.
  - destruct (r_out lr) as [v|o] eqn:Eo.
    + destruct (gate r done) as [b|oks] eqn:G; [|discriminate].
      intros [= ->]. destruct (IH eq_refl) as (pre & post & -> & F & N).
      exists (x :: pre), post. repeat split; auto. constructor; auto. now exists lr, v.
    + intros [= ->]. exists [], r. repeat split; auto.
      intros (lr' & v & E' & Eo'). congruence.
  - intros [= ->]. exists [], r. repeat split; auto.
    intros (lr' & v & E' & _). congruence.
Qed.

Lemma gate_ext deps a b :
  (forall d, In d deps -> lookup d a = lookup d b) -> gate deps a = gate deps b.
Proof.
  induction deps as [|d r IH]; cbn; intros H; [reflexivity|].
  rewrite (H d (or_introl eq_refl)), IH; auto.
Qed.

Lemma step_plan_ext s parent a b :
  (forall d, In d (s_deps s) -> lookup d a = lookup d b) -> step_plan s parent a = step_plan s parent b.
Proof. intros H. unfold step_plan. now rewrite (gate_ext _ a b H). Qed.

(* ------------------------------------------------------------------ *)
(* what step_plan decides                                               *)
(* ------------------------------------------------------------------ *)

(* the gate of [s] is open: not an ErrorStep, every dependency Ok, the inputs
   evaluate to [base] over exactly the dependencies' values and the trigger,
   and skipIf is absent or false *)
Definition step_open (s : step) (parent : json) (done : list (string * lres)) (base : json) : Prop :=
  is_error_step s = false /\
  Forall (dep_ok done) (s_deps s) /\
  eval_inputs (s_inputs s) (step_env (dep_vals (s_deps s) done) parent) = Some base /\
  (eval_skip (s_skip s) (step_env (dep_vals (s_deps s) done) parent) = SkNone \/
   eval_skip (s_skip s) (step_env (dep_vals (s_deps s) done) parent) = SkBool false).

Definition the_env (s : step) (parent : json) (done : list (string * lres)) : env :=
  step_env (dep_vals (s_deps s) done) parent.

Lemma plan_done_mk s parent done r :
  step_plan s parent done = PDone r -> exists o, r = mk o.
Proof.
  unfold step_plan.
  destruct (s_logic s); try (intros [= <-]; eauto);
  (destruct (gate (s_deps s) done); [intros [= <-]; eauto|];
   destruct (eval_inputs _ _); [|intros [= <-]; eauto];
   destruct (eval_skip _ _) as [| | |[|]]; try (intros [= <-]; eauto);
   (destruct (s_foreach s) as [[it key]|]; [|discriminate];
    destruct (eval it _) as [[| | | | |[|? ?]|]|]; try (intros [= <-]; eauto); discriminate)).
Qed.

Lemma plan_call s parent done inputs en :
  step_plan s parent done = PCall inputs en ->
  step_open s parent done inputs /\ en = the_env s parent done /\ s_foreach s = None.
Proof.
  unfold step_plan, step_open, the_env, is_error_step.
  destruct (s_logic s); try discriminate;
  (destruct (gate (s_deps s) done) as [|oks] eqn:G; [discriminate|];
   apply gate_open in G; destruct G as [F ->];
   destruct (eval_inputs _ _) as [b|] eqn:Ei; [|discriminate];
   destruct (eval_skip _ _) as [| | |[|]] eqn:Es; try discriminate;
   (destruct (s_foreach s) as [[it key]|];
    [destruct (eval it _) as [[| | | | |[|? ?]|]|]; discriminate|];
    intros [= <- <-]; repeat split; auto)).
Qed.

Lemma plan_each s parent done its en :
  step_plan s parent done = PEach its en ->
  exists base it key items,
    step_open s parent done base /\ en = the_env s parent done /\
    s_foreach s = Some (it, key) /\ eval it en = Some (JList items) /\ items <> [] /\
    its = map (fun item => set_input key item base) items.
Proof.
  unfold step_plan, step_open, the_env, is_error_step.
  destruct (s_logic s); try discriminate;
  (destruct (gate (s_deps s) done) as [|oks] eqn:G; [discriminate|];
   apply gate_open in G; destruct G as [F ->];
   destruct (eval_inputs _ _) as [b|] eqn:Ei; [|discriminate];
   destruct (eval_skip _ _) as [| | |[|]] eqn:Es; try discriminate;
   (destruct (s_foreach s) as [[it key]|]; [|discriminate];
    destruct (eval it _) as [[| | | | |[|x xs]|]|] eqn:Ee; try discriminate;
    intros [= <- <-]; exists b, it, key, (x :: xs); repeat split; auto; discriminate)).
Qed.

(* a dependency that is not Ok: DepSkip, decided without evaluating anything *)
Lemma plan_blocked s parent done :
  is_error_step s = false -> ~ Forall (dep_ok done) (s_deps s) ->
  step_plan s parent done = PDone (mk (SNon NDepSkip)).
Proof.
  intros He Hn. apply gate_blocked in Hn. destruct Hn as [d G].
  unfold step_plan, is_error_step in *. rewrite G.
  destruct (s_logic s); try reflexivity. discriminate.
Qed.

Lemma plan_skip s parent done base :
  is_error_step s = false -> Forall (dep_ok done) (s_deps s) ->
  eval_inputs (s_inputs s) (the_env s parent done) = Some base ->
  eval_skip (s_skip s) (the_env s parent done) = SkBool true ->
  step_plan s parent done = PDone (mk (SNon NSkip)).
Proof.
  intros He F Ei Es. apply gate_open_iff in F.
  unfold step_plan, is_error_step, the_env in *. rewrite F, Ei, Es.
  destruct (s_logic s); try reflexivity. discriminate.
Qed.

Lemma plan_open_call s parent done base :
  step_open s parent done base -> s_foreach s = None ->
  step_plan s parent done = PCall base (the_env s parent done).
Proof.
  intros (He & F & Ei & Es) Hf. apply gate_open_iff in F.
  unfold step_plan, is_error_step, the_env in *. rewrite F, Ei, Hf.
  destruct (s_logic s); try discriminate; destruct Es as [-> | ->]; reflexivity.
Qed.

Lemma plan_open_each s parent done base it key x xs :
  step_open s parent done base -> s_foreach s = Some (it, key) ->
  eval it (the_env s parent done) = Some (JList (x :: xs)) ->
  step_plan s parent done =
    PEach (map (fun item => set_input key item base) (x :: xs)) (the_env s parent done).
Proof.
  intros (He & F & Ei & Es) Hf Hi. apply gate_open_iff in F.
  unfold step_plan, is_error_step, the_env in *. rewrite F, Ei, Hf, Hi.
  destruct (s_logic s); try discriminate; destruct Es as [-> | ->]; reflexivity.
Qed.

(* ------------------------------------------------------------------ *)
(* run_step_g                                                           *)
(* ------------------------------------------------------------------ *)

Section Generic.
  Variable rl : logic -> json -> env -> lres.

  Lemma run_step_ext s parent a b :
    (forall d, In d (s_deps s) -> lookup d a = lookup d b) ->
    run_step_g rl s parent a = run_step_g rl s parent b.
  Proof. intros H. unfold run_step_g. now rewrite (step_plan_ext s parent a b H). Qed.

  Lemma foreach_assemble_trace rs : r_trace (foreach_assemble rs) = List.concat (map r_trace rs).
  Proof. reflexivity. Qed.

  (* every recorded evaluation of Logic of step s is under the label of s *)
  Lemma run_step_heads s parent done :
    Forall (fun i => head_is (s_label s) i = true) (r_trace (run_step_g rl s parent done)).
  Proof.
    unfold run_step_g. destruct (step_plan s parent done) as [r|inputs en|its en] eqn:P.
    - apply plan_done_mk in P. destruct P as [o ->]. constructor.
    - cbn. apply Forall_forall. intros i Hi. apply in_map_iff in Hi.
      destruct Hi as (i' & <- & _). rewrite head_is_push. apply String.eqb_refl.
    - rewrite foreach_assemble_trace. apply Forall_forall. intros i Hi.
      apply in_concat in Hi. destruct Hi as (tr & Htr & Hi).
      apply in_map_iff in Htr. destruct Htr as (r & <- & Hr).
      apply mapi_in in Hr. destruct Hr as (k & a & _ & ->). cbn in Hi.
      apply in_map_iff in Hi. destruct Hi as (i' & <- & _).
      rewrite head_is_push. apply String.eqb_refl.
  Qed.

  (* an evaluation of Logic happened: the gate was open and it is one of these *)
  Lemma run_step_trace_inv s parent done i :
    In i (r_trace (run_step_g rl s parent done)) ->
    exists base,
      step_open s parent done base /\
      match s_foreach s with
      | None =>
          exists i', In i' (r_trace (rl (s_logic s) base (the_env s parent done))) /\
                     i = push (s_label s, None) i'
      | Some (it, key) =>
          exists items k item i',
            eval it (the_env s parent done) = Some (JList items) /\
            nth_error items k = Some item /\
            In i' (r_trace (rl (s_logic s) (set_input key item base) (the_env s parent done))) /\
            i = push (s_label s, Some k) i'
      end.
  Proof.
    unfold run_step_g. destruct (step_plan s parent done) as [r|inputs en|its en] eqn:P.
    - apply plan_done_mk in P. destruct P as [o ->]. intros [].
    - apply plan_call in P. destruct P as (Ho & -> & Hf). cbn. intros Hi.
      apply in_map_iff in Hi. destruct Hi as (i' & <- & Hi').
      exists inputs. split; [exact Ho|]. rewrite Hf. eauto.
    - apply plan_each in P. destruct P as (base & it & key & items & Ho & -> & Hf & He & _ & ->).
      rewrite foreach_assemble_trace. intros Hi.
      apply in_concat in Hi. destruct Hi as (tr & Htr & Hi).
      apply in_map_iff in Htr. destruct Htr as (r & <- & Hr).
      apply mapi_in in Hr. destruct Hr as (k & a & Hk & ->). cbn in Hi.
      apply in_map_iff in Hi. destruct Hi as (i' & <- & Hi').
      apply map_nth_error_inv in Hk. destruct Hk as (item & Hk & <-).
      exists base. split; [exact Ho|]. rewrite Hf.
      exists items, k, item, i'. auto.
  Qed.
End Generic.

(* ------------------------------------------------------------------ *)
(* run_steps_g: the done-map                                            *)
(* ------------------------------------------------------------------ *)

Section Steps.
  Variable rl : logic -> json -> env -> lres.
  Variable parent : json.

  Notation final ss := (run_steps_g rl ss parent []).

  Lemma run_steps_app a b done :
    run_steps_g rl (a ++ b) parent done = run_steps_g rl b parent (run_steps_g rl a parent done).
  Proof. revert done. induction a as [|s a IH]; intros done; cbn; [reflexivity|apply IH]. Qed.

  Lemma run_steps_snoc ss s done :
    run_steps_g rl (ss ++ [s]) parent done =
    run_steps_g rl ss parent done ++
      [(s_label s, run_step_g rl s parent (run_steps_g rl ss parent done))].
  Proof. now rewrite run_steps_app. Qed.

  Lemma run_steps_keys ss done :
    map fst (run_steps_g rl ss parent done) = map fst done ++ map s_label ss.
  Proof.
    revert done. induction ss as [|s ss IH]; intros done; cbn.
    - now rewrite app_nil_r.
    - rewrite IH, map_app. cbn. now rewrite <- app_assoc.
  Qed.

  Lemma run_steps_extends ss done :
    exists ext, run_steps_g rl ss parent done = done ++ ext.
  Proof.
    revert done. induction ss as [|s ss IH]; intros done; cbn.
    - exists []. now rewrite app_nil_r.
    - destruct (IH (done ++ [(s_label s, run_step_g rl s parent done)])) as [ext E].
      rewrite E, <- app_assoc. eauto.
  Qed.

  (* every entry of the final map is the result of its step on the map of the steps before it *)
  Lemma final_in ss l r :
    In (l, r) (final ss) ->
    exists pre s post, ss = pre ++ s :: post /\ l = s_label s /\
                       r = run_step_g rl s parent (final pre).
  Proof.
    induction ss as [|s ss IH] using rev_ind; cbn; [tauto|].
    rewrite run_steps_snoc. intros H. apply in_app_or in H. destruct H as [H|[H|[]]].
    - destruct (IH H) as (pre & s' & post & -> & -> & ->).
      exists pre, s', (post ++ [s]). rewrite <- app_assoc. auto.
    - injection H as <- <-. exists ss, s, []. auto.
  Qed.

  Lemma final_split pre s post :
    exists ext, final (pre ++ s :: post) =
                final pre ++ (s_label s, run_step_g rl s parent (final pre)) :: ext.
  Proof.
    rewrite run_steps_app. cbn.
    destruct (run_steps_extends post (final pre ++ [(s_label s, run_step_g rl s parent (final pre))]))
      as [ext E].
    rewrite E, <- app_assoc. cbn. eauto.
  Qed.

  Lemma final_lookup_prefix pre s post d :
    In d (map s_label pre) -> lookup d (final (pre ++ s :: post)) = lookup d (final pre).
  Proof.
    intros H. destruct (final_split pre s post) as [ext ->].
    apply lookup_app_in. now rewrite run_steps_keys.
  Qed.

  Lemma final_lookup_self pre s post :
    ~ In (s_label s) (map s_label pre) ->
    lookup (s_label s) (final (pre ++ s :: post)) = Some (run_step_g rl s parent (final pre)).
  Proof.
    intros H. destruct (final_split pre s post) as [ext ->].
    rewrite lookup_app_notin by now rewrite run_steps_keys.
    cbn. now rewrite String.eqb_refl.
  Qed.

  (* deps_closed: every dependency of a (non-error) step names an earlier step *)
  Lemma deps_closed_from_split seen pre s post :
    deps_closed_from seen (pre ++ s :: post) = true -> is_error_step s = false ->
    forall d, In d (s_deps s) -> In d (seen ++ map s_label pre).
  Proof.
    revert seen. induction pre as [|p pre IH]; intros seen; cbn.
    - intros H He d Hd. rewrite He in H. apply andb_prop in H. destruct H as [H _].
      rewrite forallb_forall in H. rewrite app_nil_r. now apply mem_str_In, H.
    - intros H He d Hd. apply andb_prop in H. destruct H as [_ H].
      specialize (IH _ H He d Hd). rewrite <- app_assoc in IH. exact IH.
  Qed.

  Lemma deps_closed_split pre s post :
    deps_closed (pre ++ s :: post) = true -> is_error_step s = false ->
    forall d, In d (s_deps s) -> In d (map s_label pre).
  Proof. intros H He d Hd. exact (deps_closed_from_split [] pre s post H He d Hd). Qed.

  Lemma error_step_run s a b : is_error_step s = true -> run_step_g rl s parent a = run_step_g rl s parent b.
  Proof.
    unfold is_error_step, run_step_g, step_plan. destruct (s_logic s); try discriminate. reflexivity.
  Qed.

  (* THE FIXED POINT: what a step does depends only on the final outcomes of its dependencies *)
  Lemma final_fix ss :
    deps_closed ss = true -> NoDup (map s_label ss) ->
    forall s, In s ss ->
      lookup (s_label s) (final ss) = Some (run_step_g rl s parent (final ss)).
  Proof.
    intros Hc Hn s Hs. apply in_split in Hs. destruct Hs as (pre & post & ->).
    assert (~ In (s_label s) (map s_label pre)) as Hnot.
    { rewrite map_app in Hn. cbn in Hn. apply NoDup_remove_2 in Hn.
      intros H. apply Hn. apply in_or_app. now left. }
    rewrite (final_lookup_self pre s post Hnot). f_equal.
    destruct (is_error_step s) eqn:He; [now apply error_step_run|].
    apply run_step_ext. intros d Hd. symmetry. apply final_lookup_prefix.
    exact (deps_closed_split pre s post Hc He d Hd).
  Qed.

  Lemma final_entry ss l r :
    deps_closed ss = true -> NoDup (map s_label ss) -> In (l, r) (final ss) ->
    exists s, In s ss /\ s_label s = l /\ r = run_step_g rl s parent (final ss).
  Proof.
    intros Hc Hn H.
    assert (NoDup (map fst (final ss))) as Hk by now rewrite run_steps_keys.
    pose proof (lookup_nodup_in l r _ Hk H) as Hl.
    destruct (final_in ss l r H) as (pre & s & post & -> & -> & _).
    assert (In s (pre ++ s :: post)) as Hs by (apply in_or_app; right; now left).
    rewrite (final_fix _ Hc Hn s Hs) in Hl. injection Hl as <-. eauto.
  Qed.

  (* ---------- the trace, label by label ---------- *)

  Definition trace_of (done : list (string * lres)) : list inv :=
    List.concat (map (fun lr => r_trace (snd lr)) done).

  Lemma final_heads ss :
    Forall (fun lr => Forall (fun i => head_is (fst lr) i = true) (r_trace (snd lr))) (final ss).
  Proof.
    apply Forall_forall. intros [l r] H. destruct (final_in ss l r H) as (pre & s & post & _ & -> & ->).
    apply run_step_heads.
  Qed.

  Lemma head_is_other l l' tr :
    l <> l' -> Forall (fun i => head_is l' i = true) tr -> Forall (fun i => head_is l i = false) tr.
  Proof.
    intros Hne. apply Forall_impl. intros i. unfold head_is.
    destruct (i_path i) as [|[l0 ?] ?]; [discriminate|].
    intros H. apply String.eqb_eq in H. subst. now apply String.eqb_neq.
  Qed.

  (* the evaluations of Logic recorded under label l are exactly the trace of step l *)
  Lemma trace_filter_label (done : list (string * lres)) l :
    NoDup (map fst done) ->
    Forall (fun lr => Forall (fun i => head_is (fst lr) i = true) (r_trace (snd lr))) done ->
    filter (head_is l) (trace_of done) =
    match lookup l done with Some r => r_trace r | None => [] end.
  Proof.
    unfold trace_of. induction done as [|[l' r] done IH]; cbn; [reflexivity|].
    intros Hn Hf. inversion Hn as [|? ? Hnot Hn']; subst. inversion Hf as [|? ? Hr Hf']; subst.
    cbn in Hr. rewrite filter_app, (IH Hn' Hf').
    destruct (String.eqb l l') eqn:E.
    - apply String.eqb_eq in E. subst l'.
      rewrite (filter_all _ _ Hr).
      destruct (lookup l done) eqn:El; [|apply app_nil_r].
      apply lookup_in_keys in El. tauto.
    - apply String.eqb_neq in E. now rewrite (filter_none _ _ (head_is_other l l' _ E Hr)).
  Qed.

  Lemma in_trace_of done i :
    In i (trace_of done) <-> exists l r, In (l, r) done /\ In i (r_trace r).
  Proof.
    unfold trace_of. rewrite in_concat. split.
    - intros (tr & H & Hi). apply in_map_iff in H. destruct H as ([l r] & <- & H). eauto.
    - intros (l & r & H & Hi). exists (r_trace r). split; [|exact Hi].
      apply in_map_iff. exists (l, r). auto.
  Qed.
End Steps.

(* ------------------------------------------------------------------ *)
(* run_logic                                                            *)
(* ------------------------------------------------------------------ *)

(* induction on logic through refSwitch cases (not into sub-workflows) *)
Section LogicInd.
  Variable P : logic -> Prop.
  Hypothesis Hfn : forall f, P (LFn f).
  Hypothesis Hsub : forall n r ss, P (LSub n r ss).
  Hypothesis Hsw : forall on cases d,
      Forall (fun c => P (snd c)) cases -> (forall lg, d = Some lg -> P lg) -> P (LSwitch on cases d).
  Hypothesis Herr : forall o, P (LErr o).

  Fixpoint logic_ind' (lg : logic) : P lg :=
    match lg with
    | LFn f => Hfn f
    | LSub n r ss => Hsub n r ss
    | LSwitch on cases d =>
        Hsw on cases d
            ((fix go (l : list (string * logic)) : Forall (fun c => P (snd c)) l :=
                match l with
                | [] => Forall_nil _
                | (k, x) :: r => Forall_cons (k, x) (logic_ind' x) (go r)
                end) cases)
            (match d as d0 return (forall lg, d0 = Some lg -> P lg) with
             | Some x => fun lg e => match e in (_ = y) return (match y with Some z => P z | None => True end)
                                     with eq_refl => logic_ind' x end
             | None => fun lg e => match e in (_ = y) return (match y with Some z => P z | None => True end)
                                   with eq_refl => I end
             end)
    | LErr o => Herr o
    end.
End LogicInd.

Lemma find_case_in v cases lg : find_case v cases = Some lg -> In lg (map snd cases).
Proof.
  induction cases as [|[k x] r IH]; cbn; [discriminate|].
  destruct (find_case v r) as [y|].
  - intros [= <-]. right. now apply IH.
  - destruct (String.eqb k v); [|discriminate]. intros [= <-]. now left.
Qed.

Lemma select_case_in on cases d inputs en lg :
  select_case on cases d inputs en = Some lg -> In lg (map snd cases) \/ d = Some lg.
Proof.
  unfold select_case. destruct (eval_switch on inputs en); try discriminate.
  - destruct (find_case v cases) eqn:E.
    + intros [= <-]. left. eapply find_case_in; eauto.
    + auto.
  - auto.
Qed.

(* where a Logic ends up once its refSwitches have selected: a Function or
   a sub-workflow ([RTo]), or nothing to evaluate ([RStop]) *)
Inductive rres := RTo (lg : logic) | RStop (o : nonok).

Inductive resolves (inputs : json) (en : env) : logic -> rres -> Prop :=
| rs_fn f : resolves inputs en (LFn f) (RTo (LFn f))
| rs_sub n r ss : resolves inputs en (LSub n r ss) (RTo (LSub n r ss))
| rs_err o : resolves inputs en (LErr o) (RStop o)
| rs_sw_none on cases d :
    select_case on cases d inputs en = None -> resolves inputs en (LSwitch on cases d) (RStop NPermFail)
| rs_sw on cases d lg r :
    select_case on cases d inputs en = Some lg -> resolves inputs en lg r ->
    resolves inputs en (LSwitch on cases d) r.

Lemma resolves_total inputs en lg : exists r, resolves inputs en lg r.
Proof.
  induction lg as [f|n r ss|on cases d IHc IHd|o] using logic_ind'.
  - eexists. constructor.
  - eexists. constructor.
  - destruct (select_case on cases d inputs en) as [lg|] eqn:E.
    + assert (exists r, resolves inputs en lg r) as [r Hr].
      { apply select_case_in in E. destruct E as [E|E].
        - apply in_map_iff in E. destruct E as ([k x] & <- & Hin).
          rewrite Forall_forall in IHc. exact (IHc _ Hin).
        - now apply IHd. }
      exists r. eapply rs_sw; eauto.
    + eexists. now apply rs_sw_none.
  - eexists. constructor.
Qed.

Lemma resolves_leaf inputs en lg lg' :
  resolves inputs en lg (RTo lg') ->
  (exists f, lg' = LFn f) \/ (exists n r ss, lg' = LSub n r ss).
Proof.
  intros H. remember (RTo lg') as r eqn:Er. induction H; try discriminate; auto.
  - injection Er as <-. eauto.
  - injection Er as <-. right. eauto.
Qed.

Lemma resolves_det inputs en lg r1 r2 :
  resolves inputs en lg r1 -> resolves inputs en lg r2 -> r1 = r2.
Proof.
  intros H. revert r2. induction H; intros r2 H2; inversion H2; subst; try congruence; auto.
  apply IHresolves. congruence.
Qed.

Section Logic.
  Variable fn_sem : fid -> json -> fres.
  Notation rl := (run_logic fn_sem).

  Lemma run_logic_switch on cases d inputs en :
    rl (LSwitch on cases d) inputs en =
    match select_case on cases d inputs en with
    | Some lg => rl lg inputs en
    | None => mk (SNon NPermFail)
    end.
  Proof.
    unfold select_case. cbn [run_logic].
    destruct (eval_switch on inputs en) as [| |v|]; try reflexivity.
    - assert (forall cs,
        (fix pick (cs : list (string * logic)) : option lres :=
           match cs with
           | [] => None
           | (k, lg') :: r =>
               match pick r with
               | Some x => Some x
               | None => if String.eqb k v then Some (rl lg' inputs en) else None
               end
           end) cs = option_map (fun lg => rl lg inputs en) (find_case v cs)) as Hp.
      { induction cs as [|[k x] r IH]; [reflexivity|].
        cbn [find_case]. rewrite IH.
        destruct (find_case v r); [reflexivity|]. cbn. destruct (String.eqb k v); reflexivity. }
      rewrite Hp. destruct (find_case v cases); cbn; [reflexivity|].
      destruct d; reflexivity.
  Qed.

  (* evaluating a Logic is evaluating what it resolves to *)
  Lemma resolves_run inputs en lg r :
    resolves inputs en lg r ->
    rl lg inputs en = match r with RTo lg' => rl lg' inputs en | RStop o => mk (SNon o) end.
  Proof.
    induction 1; try reflexivity.
    - rewrite run_logic_switch, H. reflexivity.
    - rewrite run_logic_switch, H. exact IHresolves.
  Qed.

  (* the one record an evaluation makes for itself (before the step's label is pushed) *)
  Definition own_entry (lg : logic) (inputs : json) : option inv :=
    match lg with
    | LFn f => Some {| i_path := []; i_tgt := TgFn f; i_inputs := inputs;
                       i_calls := f_calls (fn_sem f inputs) |}
    | LSub n _ _ => Some {| i_path := []; i_tgt := TgSub n; i_inputs := inputs; i_calls := [] |}
    | _ => None
    end.

  Definition nested_trace (lg : logic) (inputs : json) : list inv :=
    match lg with
    | LSub n r ss => w_trace (run_workflow fn_sem n r ss inputs)
    | _ => []
    end.

  Lemma leaf_trace lg inputs en :
    (exists f, lg = LFn f) \/ (exists n r ss, lg = LSub n r ss) ->
    exists e, own_entry lg inputs = Some e /\ r_trace (rl lg inputs en) = e :: nested_trace lg inputs.
  Proof. intros [[f ->]|(n & r & ss & ->)]; eexists; split; reflexivity. Qed.
End Logic.

(* ------------------------------------------------------------------ *)
(* specification vocabulary over the REPORTED per-step outcomes         *)
(* ------------------------------------------------------------------ *)

Definition out_ok (outs : list (string * sout)) (d : string) : Prop :=
  exists v, lookup d outs = Some (SVal v).

(* "exactly those steps' return values": label ↦ value for the dependencies *)
Definition out_vals (deps : list string) (outs : list (string * sout)) : list (string * json) :=
  flat_map (fun d => match lookup d outs with Some (SVal v) => [(d, v)] | _ => [] end) deps.

(* the environment a step's expressions are evaluated in *)
Definition step_env_o (s : step) (trigger : json) (outs : list (string * sout)) : env :=
  step_env (out_vals (s_deps s) outs) trigger.

(* the step's gate is open and its inputs expression evaluates to [base] *)
Definition gate_open_o (s : step) (trigger : json) (outs : list (string * sout)) (base : json) : Prop :=
  is_error_step s = false /\
  Forall (out_ok outs) (s_deps s) /\
  eval_inputs (s_inputs s) (step_env_o s trigger outs) = Some base /\
  (eval_skip (s_skip s) (step_env_o s trigger outs) = SkNone \/
   eval_skip (s_skip s) (step_env_o s trigger outs) = SkBool false).

Definition well_formed (ss : list step) : Prop :=
  deps_closed ss = true /\ NoDup (map s_label ss).

Definition outs_of (done : list (string * lres)) : list (string * sout) :=
  map (fun lr => (fst lr, r_out (snd lr))) done.

Definition path_head (p : list pseg) : option string :=
  match p with (l, _) :: _ => Some l | [] => None end.

Lemma out_ok_iff done d : out_ok (outs_of done) d <-> dep_ok done d.
Proof.
  unfold out_ok, dep_ok, outs_of. rewrite lookup_map_snd. split.
  - intros (v & H). destruct (lookup d done) as [lr|]; [|discriminate].
    injection H as H. eauto.
  - intros (lr & v & -> & H). cbn. rewrite H. eauto.
Qed.

Lemma out_vals_eq deps done : out_vals deps (outs_of done) = dep_vals deps done.
Proof.
  unfold out_vals, dep_vals, outs_of. induction deps as [|d r IH]; cbn; [reflexivity|].
  rewrite IH, lookup_map_snd. destruct (lookup d done) as [lr|]; cbn; [|reflexivity].
  destruct (r_out lr); reflexivity.
Qed.

Lemma gate_open_o_iff s trigger done base :
  gate_open_o s trigger (outs_of done) base <-> step_open s trigger done base.
Proof.
  unfold gate_open_o, step_open, step_env_o. rewrite out_vals_eq.
  assert (Forall (out_ok (outs_of done)) (s_deps s) <-> Forall (dep_ok done) (s_deps s)) as ->.
  { rewrite !Forall_forall. split; intros H d Hd; apply out_ok_iff; auto. }
  tauto.
Qed.

Lemma env_o_eq s trigger done : step_env_o s trigger (outs_of done) = the_env s trigger done.
Proof. unfold step_env_o, the_env. now rewrite out_vals_eq. Qed.

(* ------------------------------------------------------------------ *)
(* the workflow level                                                   *)
(* ------------------------------------------------------------------ *)

Section Workflow.
  Variable fn_sem : fid -> json -> fres.
  Notation rl := (run_logic fn_sem).

  Lemma assemble_outcomes name ss done : w_outcomes (assemble name ss done) = outs_of done.
  Proof. unfold assemble. destruct (collect_state _ _ _). reflexivity. Qed.

  Lemma assemble_trace name ss done : w_trace (assemble name ss done) = trace_of done.
  Proof. unfold assemble. destruct (collect_state _ _ _). reflexivity. Qed.

  Lemma assemble_result name ss done :
    w_result (assemble name ss done) = unwrapped_combine (map (fun lr => to_u (r_out (snd lr))) done).
  Proof. unfold assemble. destruct (collect_state _ _ _). reflexivity. Qed.

  Lemma run_workflow_ready name ss trigger :
    deps_closed ss = true ->
    run_workflow fn_sem name None ss trigger = assemble name ss (run_steps fn_sem ss trigger []).
  Proof. intros H. unfold run_workflow, run_wf_g. now rewrite H. Qed.

  (* evaluations of Logic inside a (sub-)workflow run are always under a step label *)
  Lemma wf_trace_nonempty name ready ss trigger :
    Forall (fun i => i_path i <> []) (w_trace (run_workflow fn_sem name ready ss trigger)).
  Proof.
    unfold run_workflow, run_wf_g. destruct ready; [constructor|].
    destruct (deps_closed ss); [|constructor].
    rewrite assemble_trace. apply Forall_forall. intros i Hi.
    apply in_trace_of in Hi. destruct Hi as (l & r & Hin & Hi).
    pose proof (final_heads rl trigger ss) as Hf. rewrite Forall_forall in Hf.
    specialize (Hf _ Hin). cbn in Hf. rewrite Forall_forall in Hf. specialize (Hf _ Hi).
    unfold head_is in Hf. destruct (i_path i); [discriminate|discriminate].
  Qed.

  Section Fixed.
    Variables (name : string) (ss : list step) (trigger : json).
    Hypothesis WF : well_formed ss.

    Let W := run_workflow fn_sem name None ss trigger.
    Let F := run_steps fn_sem ss trigger [].

    Lemma W_outcomes : w_outcomes W = outs_of F.
    Proof. unfold W. rewrite run_workflow_ready by apply WF. apply assemble_outcomes. Qed.

    Lemma W_trace : w_trace W = trace_of F.
    Proof. unfold W. rewrite run_workflow_ready by apply WF. apply assemble_trace. Qed.

    Lemma F_keys_nodup : NoDup (map fst F).
    Proof. unfold F, run_steps. rewrite run_steps_keys. apply WF. Qed.

    (* per step: its reported outcome and the evaluations recorded under its label *)
    Lemma step_result s :
      In s ss ->
      lookup (s_label s) (w_outcomes W) = Some (r_out (run_step_g rl s trigger F)) /\
      filter (head_is (s_label s)) (w_trace W) = r_trace (run_step_g rl s trigger F).
    Proof.
      intros Hs. destruct WF as [Hc Hn].
      pose proof (final_fix rl trigger ss Hc Hn s Hs) as Hl.
      change (run_steps_g rl ss trigger []) with F in Hl.
      split.
      - rewrite W_outcomes. unfold outs_of. now rewrite lookup_map_snd, Hl.
      - rewrite W_trace, (trace_filter_label F (s_label s) F_keys_nodup (final_heads rl trigger ss)).
        now rewrite Hl.
    Qed.

    Lemma trace_entry_step i l idx rest :
      In i (w_trace W) -> i_path i = (l, idx) :: rest ->
      exists s, In s ss /\ s_label s = l /\ In i (r_trace (run_step_g rl s trigger F)).
    Proof.
      intros Hi Hp. destruct WF as [Hc Hn]. rewrite W_trace in Hi.
      apply in_trace_of in Hi. destruct Hi as (l' & r & Hin & Hi).
      destruct (final_entry rl trigger ss l' r Hc Hn Hin) as (s & Hs & <- & ->).
      exists s. split; [exact Hs|]. split; [|exact Hi].
      pose proof (run_step_heads rl s trigger (run_steps_g rl ss trigger [])) as Hh.
      rewrite Forall_forall in Hh. specialize (Hh _ Hi). unfold head_is in Hh. rewrite Hp in Hh.
      now apply String.eqb_eq.
    Qed.

    (* ---------- gate ---------- *)

    Lemma invocation_inv i l idx rest :
      In i (w_trace W) -> i_path i = (l, idx) :: rest ->
      exists s base,
        In s ss /\ s_label s = l /\ gate_open_o s trigger (w_outcomes W) base /\
        match s_foreach s with
        | None =>
            idx = None /\
            exists i', In i' (r_trace (rl (s_logic s) base (step_env_o s trigger (w_outcomes W)))) /\
                       i = push (l, None) i'
        | Some (it, key) =>
            exists items k item i',
              eval it (step_env_o s trigger (w_outcomes W)) = Some (JList items) /\
              idx = Some k /\ nth_error items k = Some item /\
              In i' (r_trace (rl (s_logic s) (set_input key item base)
                                 (step_env_o s trigger (w_outcomes W)))) /\
              i = push (l, Some k) i'
        end.
    Proof.
      intros Hi Hp. destruct (trace_entry_step i l idx rest Hi Hp) as (s & Hs & <- & Hin).
      apply run_step_trace_inv in Hin. destruct Hin as (base & Ho & Hm).
      exists s, base. rewrite W_outcomes, gate_open_o_iff, env_o_eq.
      split; [exact Hs|]. split; [reflexivity|]. split; [exact Ho|].
      destruct (s_foreach s) as [[it key]|].
      - destruct Hm as (items & k & item & i' & He & Hk & Hin & ->).
        exists items, k, item, i'. cbn in Hp. inversion Hp; subst. auto.
      - destruct Hm as (i' & Hin & ->). cbn in Hp. inversion Hp; subst. eauto.
    Qed.

    (* an evaluation's own record carries exactly the inputs the Logic was given *)
    Lemma direct_entry lg inputs en i' :
      In i' (r_trace (rl lg inputs en)) -> i_path i' = [] ->
      i_inputs i' = inputs /\
      exists lg', resolves inputs en lg (RTo lg') /\ own_entry fn_sem lg' inputs = Some i'.
    Proof.
      intros Hin Hp. destruct (resolves_total inputs en lg) as [r Hr].
      rewrite (resolves_run fn_sem inputs en lg r Hr) in Hin. destruct r as [lg'|o]; [|destruct Hin].
      destruct (leaf_trace fn_sem lg' inputs en (resolves_leaf _ _ _ _ Hr)) as (e & He & Ht).
      rewrite Ht in Hin. destruct Hin as [<-|Hin].
      - split; [|eauto]. destruct lg'; cbn in He; try discriminate; injection He as <-; reflexivity.
      - exfalso. destruct lg'; cbn in Hin; try contradiction.
        pose proof (wf_trace_nonempty name0 ready steps inputs) as Hne.
        rewrite Forall_forall in Hne. exact (Hne _ Hin Hp).
    Qed.

    Theorem gate_thm i l idx rest :
      In i (w_trace W) -> i_path i = (l, idx) :: rest ->
      exists s base, In s ss /\ s_label s = l /\ gate_open_o s trigger (w_outcomes W) base.
    Proof.
      intros Hi Hp. destruct (invocation_inv i l idx rest Hi Hp) as (s & base & Hs & Hl & Ho & _).
      eauto.
    Qed.

    Theorem inputs_exact_thm i l idx :
      In i (w_trace W) -> i_path i = [(l, idx)] ->
      exists s base,
        In s ss /\ s_label s = l /\ gate_open_o s trigger (w_outcomes W) base /\
        match s_foreach s, idx with
        | None, None => i_inputs i = base
        | Some (it, key), Some k =>
            exists items item,
              eval it (step_env_o s trigger (w_outcomes W)) = Some (JList items) /\
              nth_error items k = Some item /\ i_inputs i = set_input key item base
        | _, _ => False
        end.
    Proof.
      intros Hi Hp. destruct (invocation_inv i l idx [] Hi Hp) as (s & base & Hs & Hl & Ho & Hm).
      exists s, base. split; [exact Hs|]. split; [exact Hl|]. split; [exact Ho|].
      destruct (s_foreach s) as [[it key]|].
      - destruct Hm as (items & k & item & i' & He & -> & Hk & Hin & ->).
        exists items, item. split; [exact He|]. split; [exact Hk|].
        cbn in Hp. injection Hp as Hp.
        exact (proj1 (direct_entry _ _ _ _ Hin Hp)).
      - destruct Hm as (-> & i' & Hin & ->). cbn in Hp. injection Hp as Hp.
        exact (proj1 (direct_entry _ _ _ _ Hin Hp)).
    Qed.

    (* ---------- what is recorded under a label, and the calls attributed to it ---------- *)

    Lemma calls_of_in tr pc :
      In pc (calls_of tr) -> exists i, In i tr /\ fst pc = i_path i /\ In (snd pc) (i_calls i).
    Proof.
      unfold calls_of. intros H. apply in_flat_map in H. destruct H as (i & Hi & H).
      apply in_map_iff in H. destruct H as (c & <- & Hc). eauto.
    Qed.

    Lemma no_entries_no_calls l :
      filter (head_is l) (w_trace W) = [] ->
      forall pc, In pc (calls_of (w_trace W)) -> path_head (fst pc) <> Some l.
    Proof.
      intros Hf pc Hpc Hh. apply calls_of_in in Hpc. destruct Hpc as (i & Hi & Hp & _).
      assert (In i (filter (head_is l) (w_trace W))) as Hin.
      { apply filter_In. split; [exact Hi|]. unfold head_is. rewrite <- Hp.
        destruct (fst pc) as [|[l' ?] ?]; [discriminate|]. cbn in Hh. injection Hh as ->.
        apply String.eqb_refl. }
      rewrite Hf in Hin. exact Hin.
    Qed.

    Theorem depskip_thm s :
      In s ss -> is_error_step s = false ->
      (exists d, In d (s_deps s) /\ ~ out_ok (w_outcomes W) d) ->
      lookup (s_label s) (w_outcomes W) = Some (SNon NDepSkip) /\
      filter (head_is (s_label s)) (w_trace W) = [] /\
      (forall pc, In pc (calls_of (w_trace W)) -> path_head (fst pc) <> Some (s_label s)).
    Proof.
      intros Hs He (d & Hd & Hn). destruct (step_result s Hs) as [Ho Ht].
      assert (step_plan s trigger F = PDone (mk (SNon NDepSkip))) as Hp.
      { apply plan_blocked; [exact He|]. intros Hall. apply Hn.
        rewrite W_outcomes. apply out_ok_iff. rewrite Forall_forall in Hall. auto. }
      unfold run_step_g in Ho, Ht. rewrite Hp in Ho, Ht. cbn in Ho, Ht.
      repeat split; auto. now apply no_entries_no_calls.
    Qed.

    Theorem skip_thm s base :
      In s ss -> is_error_step s = false ->
      Forall (out_ok (w_outcomes W)) (s_deps s) ->
      eval_inputs (s_inputs s) (step_env_o s trigger (w_outcomes W)) = Some base ->
      eval_skip (s_skip s) (step_env_o s trigger (w_outcomes W)) = SkBool true ->
      lookup (s_label s) (w_outcomes W) = Some (SNon NSkip) /\
      filter (head_is (s_label s)) (w_trace W) = [] /\
      (forall pc, In pc (calls_of (w_trace W)) -> path_head (fst pc) <> Some (s_label s)).
    Proof.
      intros Hs He Hd Hi Hk. destruct (step_result s Hs) as [Ho Ht].
      rewrite W_outcomes in Hd, Hi, Hk. rewrite env_o_eq in Hi, Hk.
      assert (Forall (dep_ok F) (s_deps s)) as Hd'.
      { rewrite Forall_forall in *. intros d H. apply out_ok_iff. auto. }
      pose proof (plan_skip s trigger F base He Hd' Hi Hk) as Hp.
      unfold run_step_g in Ho, Ht. rewrite Hp in Ho, Ht. cbn in Ho, Ht.
      repeat split; auto. now apply no_entries_no_calls.
    Qed.

    (* ---------- an open gate: exactly these evaluations ---------- *)

    Lemma open_call s base :
      In s ss -> gate_open_o s trigger (w_outcomes W) base -> s_foreach s = None ->
      let r := rl (s_logic s) base (step_env_o s trigger (w_outcomes W)) in
      lookup (s_label s) (w_outcomes W) = Some (r_out r) /\
      filter (head_is (s_label s)) (w_trace W) = map (push (s_label s, None)) (r_trace r).
    Proof.
      intros Hs Ho Hf r. destruct (step_result s Hs) as [Hout Ht].
      unfold r. rewrite W_outcomes in Ho |- *. rewrite env_o_eq. apply gate_open_o_iff in Ho.
      pose proof (plan_open_call s trigger F base Ho Hf) as Hp.
      rewrite W_outcomes in Hout.
      unfold run_step_g in Hout, Ht. rewrite Hp in Hout, Ht. cbn [push_l r_out r_trace] in Hout, Ht.
      auto.
    Qed.

    Lemma open_each s base it key items :
      In s ss -> gate_open_o s trigger (w_outcomes W) base -> s_foreach s = Some (it, key) ->
      eval it (step_env_o s trigger (w_outcomes W)) = Some (JList items) ->
      let en := step_env_o s trigger (w_outcomes W) in
      let rs := map (fun item => rl (s_logic s) (set_input key item base) en) items in
      lookup (s_label s) (w_outcomes W) =
        Some (match items with [] => SVal (JList []) | _ => r_out (foreach_assemble rs) end) /\
      filter (head_is (s_label s)) (w_trace W) =
        List.concat (mapi (fun k item =>
                             map (push (s_label s, Some k))
                                 (r_trace (rl (s_logic s) (set_input key item base) en))) items).
    Proof.
      intros Hs Ho Hf He en rs. destruct (step_result s Hs) as [Hout Ht].
      unfold rs, en. rewrite W_outcomes in Ho, He |- *. rewrite env_o_eq in He |- *.
      apply gate_open_o_iff in Ho.
      destruct items as [|x xs].
      - assert (step_plan s trigger F = PDone (mk (SVal (JList [])))) as Hp.
        { destruct Ho as (Her & Fd & Ei & Es). apply gate_open_iff in Fd.
          unfold step_plan, is_error_step, the_env in *. rewrite Fd, Ei, Hf, He.
          destruct (s_logic s); try discriminate; destruct Es as [-> | ->]; reflexivity. }
        rewrite W_outcomes in Hout.
        unfold run_step_g in Hout, Ht. rewrite Hp in Hout, Ht. cbn [mk r_out r_trace] in Hout, Ht.
        auto.
      - pose proof (plan_open_each s trigger F base it key x xs Ho Hf He) as Hp.
        rewrite W_outcomes in Hout.
        unfold run_step_g in Hout, Ht. rewrite Hp in Hout, Ht.
        split.
        + rewrite Hout. f_equal. unfold foreach_assemble. cbn [r_out].
          unfold mapi. rewrite mapi_from_map.
          assert (forall n l,
            map r_out (mapi_from (fun k a => push_l (s_label s, Some k)
                        (rl (s_logic s) (set_input key a base) (the_env s trigger F))) n l) =
            map r_out (map (fun item => rl (s_logic s) (set_input key item base) (the_env s trigger F)) l)) as Hm.
          { intros n l. revert n. induction l as [|a l IH]; intros n; cbn; [reflexivity|now rewrite IH]. }
          now rewrite Hm.
        + rewrite Ht, foreach_assemble_trace. unfold mapi. rewrite mapi_from_map, map_mapi_from.
          reflexivity.
    Qed.

    (* ---------- the statements of P_C01.v ---------- *)

    Theorem gate_expanded i l idx rest :
      In i (w_trace W) -> i_path i = (l, idx) :: rest ->
      exists s, In s ss /\ s_label s = l /\ is_error_step s = false /\
        (forall d, In d (s_deps s) -> exists v, lookup d (w_outcomes W) = Some (SVal v)) /\
        (eval_skip (s_skip s) (step_env_o s trigger (w_outcomes W)) = SkNone \/
         eval_skip (s_skip s) (step_env_o s trigger (w_outcomes W)) = SkBool false).
    Proof.
      intros Hi Hp. destruct (gate_thm i l idx rest Hi Hp) as (s & base & Hs & Hl & He & Hd & _ & Hk).
      exists s. repeat split; auto. intros d Hd'. rewrite Forall_forall in Hd. exact (Hd d Hd').
    Qed.

    (* a plain `ref` step whose gate is open: one evaluation, of that Function, on exactly [base] *)
    Theorem fn_thm s base f :
      In s ss -> gate_open_o s trigger (w_outcomes W) base -> s_foreach s = None -> s_logic s = LFn f ->
      lookup (s_label s) (w_outcomes W) = Some (f_out (fn_sem f base)) /\
      filter (head_is (s_label s)) (w_trace W) =
        [ {| i_path := [(s_label s, None)]; i_tgt := TgFn f; i_inputs := base;
             i_calls := f_calls (fn_sem f base) |} ].
    Proof.
      intros Hs Ho Hf Hl. destruct (open_call s base Hs Ho Hf) as [H1 H2].
      rewrite Hl in H1, H2. auto.
    Qed.

    (* an Ok sub-workflow contributes its STATE; what it evaluates is its own run on [base] *)
    Theorem sub_thm s base n r sub :
      In s ss -> gate_open_o s trigger (w_outcomes W) base -> s_foreach s = None ->
      s_logic s = LSub n r sub ->
      let w := run_workflow fn_sem n r sub base in
      lookup (s_label s) (w_outcomes W) =
        Some (match w_result w with
              | UList _ => SVal (JMap (w_state w))
              | UNon o => of_outcome o
              end) /\
      filter (head_is (s_label s)) (w_trace W) =
        map (push (s_label s, None))
            ({| i_path := []; i_tgt := TgSub n; i_inputs := base; i_calls := [] |} :: w_trace w).
    Proof.
      intros Hs Ho Hf Hl w. destruct (open_call s base Hs Ho Hf) as [H1 H2].
      rewrite Hl in H1, H2. auto.
    Qed.

    (* a refSwitch step evaluates exactly the selected case (or, with none selected, nothing) *)
    Theorem switch_thm s base on cases d :
      In s ss -> gate_open_o s trigger (w_outcomes W) base -> s_foreach s = None ->
      s_logic s = LSwitch on cases d ->
      match select_case on cases d base (step_env_o s trigger (w_outcomes W)) with
      | None =>
          lookup (s_label s) (w_outcomes W) = Some (SNon NPermFail) /\
          filter (head_is (s_label s)) (w_trace W) = []
      | Some lg =>
          let r := rl lg base (step_env_o s trigger (w_outcomes W)) in
          lookup (s_label s) (w_outcomes W) = Some (r_out r) /\
          filter (head_is (s_label s)) (w_trace W) = map (push (s_label s, None)) (r_trace r)
      end.
    Proof.
      intros Hs Ho Hf Hl. destruct (open_call s base Hs Ho Hf) as [H1 H2].
      rewrite Hl, run_logic_switch in H1, H2.
      destruct (select_case on cases d base (step_env_o s trigger (w_outcomes W))); auto.
    Qed.

    (* whatever the Logic: at most one evaluation is recorded directly under (label, index) *)
    Lemma direct_at_most_one lg inputs en :
      (List.length (filter (fun i => match i_path i with [] => true | _ => false end)
                           (r_trace (rl lg inputs en))) <= 1)%nat.
    Proof.
      destruct (resolves_total inputs en lg) as [r Hr].
      rewrite (resolves_run fn_sem inputs en lg r Hr). destruct r as [lg'|o]; [|cbn; lia].
      destruct (leaf_trace fn_sem lg' inputs en (resolves_leaf _ _ _ _ Hr)) as (e & He & ->).
      cbn [filter]. assert (filter (fun i => match i_path i with [] => true | _ => false end)
                                   (nested_trace fn_sem lg' inputs) = []) as ->.
      { apply filter_none. destruct lg'; cbn; try constructor.
        eapply Forall_impl; [|apply wf_trace_nonempty]. intros i Hi. cbn in Hi.
        destruct (i_path i); [congruence|reflexivity]. }
      destruct (match i_path e with [] => true | _ => false end); cbn; lia.
    Qed.

    (* forEach: the evaluations are those of item 0, item 1, … in source order,
       item k having received exactly item k under inputKey *)
    Theorem foreach_thm s base it key items :
      In s ss -> gate_open_o s trigger (w_outcomes W) base -> s_foreach s = Some (it, key) ->
      eval it (step_env_o s trigger (w_outcomes W)) = Some (JList items) ->
      filter (head_is (s_label s)) (w_trace W) =
        List.concat (mapi (fun k item =>
                             map (push (s_label s, Some k))
                                 (r_trace (rl (s_logic s) (set_input key item base)
                                              (step_env_o s trigger (w_outcomes W))))) items).
    Proof. intros Hs Ho Hf He. exact (proj2 (open_each s base it key items Hs Ho Hf He)). Qed.

    Theorem foreach_fn_thm s base it key items f :
      In s ss -> gate_open_o s trigger (w_outcomes W) base -> s_foreach s = Some (it, key) ->
      eval it (step_env_o s trigger (w_outcomes W)) = Some (JList items) -> s_logic s = LFn f ->
      filter (head_is (s_label s)) (w_trace W) =
        mapi (fun k item => {| i_path := [(s_label s, Some k)]; i_tgt := TgFn f;
                               i_inputs := set_input key item base;
                               i_calls := f_calls (fn_sem f (set_input key item base)) |}) items.
    Proof.
      intros Hs Ho Hf He Hl. rewrite (foreach_thm s base it key items Hs Ho Hf He), Hl.
      clear He. unfold mapi. generalize 0%nat.
      induction items as [|x xs IH]; intros n; cbn; [reflexivity|]. now rewrite IH.
    Qed.

    (* evaluations recorded deeper under a label are those of the sub-workflow's own run,
       whose trigger is the inputs of the evaluation recorded at (label, index) *)
    Theorem nested_thm i l idx seg rest :
      In i (w_trace W) -> i_path i = (l, idx) :: seg :: rest ->
      exists n r sub inputs,
        In {| i_path := [(l, idx)]; i_tgt := TgSub n; i_inputs := inputs; i_calls := [] |} (w_trace W) /\
        In {| i_path := seg :: rest; i_tgt := i_tgt i; i_inputs := i_inputs i; i_calls := i_calls i |}
           (w_trace (run_workflow fn_sem n r sub inputs)).
    Proof.
      intros Hi Hp.
      destruct (invocation_inv i l idx (seg :: rest) Hi Hp) as (s & base & Hs & Hl & Ho & Hm).
      assert (forall inputs i',
                In i' (r_trace (rl (s_logic s) inputs (step_env_o s trigger (w_outcomes W)))) ->
                i_path i' = seg :: rest ->
                exists n r sub,
                  In {| i_path := []; i_tgt := TgSub n; i_inputs := inputs; i_calls := [] |}
                     (r_trace (rl (s_logic s) inputs (step_env_o s trigger (w_outcomes W)))) /\
                  In i' (w_trace (run_workflow fn_sem n r sub inputs))) as Hnest.
      { intros inputs i' Hin Hp'.
        destruct (resolves_total inputs (step_env_o s trigger (w_outcomes W)) (s_logic s)) as [rr Hr].
        rewrite (resolves_run fn_sem _ _ _ _ Hr) in Hin |- *. destruct rr as [lg'|o]; [|destruct Hin].
        destruct (leaf_trace fn_sem lg' inputs (step_env_o s trigger (w_outcomes W))
                             (resolves_leaf _ _ _ _ Hr)) as (e & He & Ht).
        rewrite Ht in Hin |- *. destruct Hin as [<-|Hin].
        - destruct lg'; cbn in He; try discriminate; injection He as <-; cbn in Hp'; discriminate.
        - destruct lg' as [f|n r sub|? ? ?|?]; cbn in Hin; try contradiction.
          exists n, r, sub. cbn in He. injection He as <-. split; [now left|exact Hin]. }
      assert (forall i', i = push (l, idx) i' -> i_path i' = seg :: rest /\
                {| i_path := seg :: rest; i_tgt := i_tgt i; i_inputs := i_inputs i; i_calls := i_calls i |} = i')
        as Hpop.
      { intros i' ->. cbn in Hp. injection Hp as Hp. split; [exact Hp|].
        destruct i'; cbn in *. now subst. }
      subst l. destruct (s_foreach s) as [[it key]|] eqn:Hf.
      - destruct Hm as (items & k & item & i' & He & -> & Hk & Hin & Hi').
        destruct (Hpop i' Hi') as [Hp' Hrec]. rewrite Hrec.
        destruct (Hnest _ i' Hin Hp') as (n & r & sub & Hown & Hsub).
        exists n, r, sub, (set_input key item base). split; [|exact Hsub].
        assert (In (push (s_label s, Some k)
                         {| i_path := []; i_tgt := TgSub n; i_inputs := set_input key item base; i_calls := [] |})
                   (filter (head_is (s_label s)) (w_trace W))) as Hfin.
        { rewrite (foreach_thm s base it key items Hs Ho Hf He). apply in_concat.
          eexists. split.
          - apply mapi_in. exists k, item. split; [exact Hk|reflexivity].
          - apply in_map. exact Hown. }
        apply filter_In in Hfin. exact (proj1 Hfin).
      - destruct Hm as (-> & i' & Hin & Hi').
        destruct (Hpop i' Hi') as [Hp' Hrec]. rewrite Hrec.
        destruct (Hnest _ i' Hin Hp') as (n & r & sub & Hown & Hsub).
        exists n, r, sub, base. split; [|exact Hsub].
        assert (In (push (s_label s, None)
                         {| i_path := []; i_tgt := TgSub n; i_inputs := base; i_calls := [] |})
                   (filter (head_is (s_label s)) (w_trace W))) as Hfin.
        { rewrite (proj2 (open_call s base Hs Ho Hf)). apply in_map. exact Hown. }
        apply filter_In in Hfin. exact (proj1 Hfin).
    Qed.
  End Fixed.

  (* steps not ready: nothing runs *)
  Theorem not_ready_thm name o ss trigger :
    let w := run_workflow fn_sem name (Some o) ss trigger in
    w_trace w = [] /\ w_outcomes w = [] /\ w_result w = UNon (nonok_outcome o) /\
    w_state w = [] /\ w_conds w = [("Ready", reason_of_nonok o)].
  Proof. cbn. auto. Qed.
End Workflow.
