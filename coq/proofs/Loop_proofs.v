(* Loop_proofs.v — proofs about model/Loop.v (property C16).

   Structure:
     1. helpers (fupd, finite sets as lists)
     2. the invariants: [M] (plumbing: handles / tasks / queues / graph / times),
        [KInv] (per key: cache entry <-> queue, subscriptions, watcher task)
     3. frame lemmas: which fields each operation leaves alone
     4. preservation of M / KInv by the micro-operations
     5. preservation by Offer / Delete / the three kinds of handles / Yield
     6. the pending-event invariant and coherence when idle
     7. progress *)
From Coq Require Import List Arith Bool Lia Permutation.
From Koreo Require Import Loop.
Import ListNotations.
Local Open Scope nat_scope.
Local Open Scope list_scope.

Set Implicit Arguments.

(* ------------------------------------------------------------------ helpers *)

Lemma fupd_eq : forall A (f : nat -> A) k v, fupd f k v k = v.
Proof. intros. unfold fupd. now rewrite Nat.eqb_refl. Qed.

Lemma fupd_neq : forall A (f : nat -> A) k v x, x <> k -> fupd f k v x = f x.
Proof. intros. unfold fupd. destruct (Nat.eqb_spec x k); congruence. Qed.

Lemma fupd_cases : forall A (f : nat -> A) k v x,
  (x = k /\ fupd f k v x = v) \/ (x <> k /\ fupd f k v x = f x).
Proof. intros. unfold fupd. destruct (Nat.eqb_spec x k); auto. Qed.

Ltac fupd_case x k :=
  let E := fresh "E" in
  destruct (Nat.eq_dec x k) as [E | E];
  [ try subst; rewrite ?fupd_eq in * | rewrite ?(fupd_neq _ _ E) in * ].

Lemma memb_In : forall x l, memb x l = true <-> In x l.
Proof.
  intros. unfold memb. rewrite existsb_exists. split.
  - intros (y & Hy & E). apply Nat.eqb_eq in E. now subst.
  - intros H. exists x. split; auto. apply Nat.eqb_refl.
Qed.

Lemma memb_false : forall x l, memb x l = false <-> ~ In x l.
Proof.
  intros. rewrite <- memb_In. destruct (memb x l); split; congruence.
Qed.

Lemma memb_spec : forall x l, reflect (In x l) (memb x l).
Proof.
  intros. destruct (memb x l) eqn:E; constructor.
  - now apply memb_In.
  - now apply memb_false.
Qed.

Lemma set_add_In : forall x y l, In y (set_add x l) <-> y = x \/ In y l.
Proof.
  intros. unfold set_add. destruct (memb x l) eqn:E.
  - apply memb_In in E. split; auto. intros [-> | ]; auto.
  - simpl. split; intros [ | ]; auto.
Qed.

Lemma set_add_NoDup : forall x l, NoDup l -> NoDup (set_add x l).
Proof.
  intros. unfold set_add. destruct (memb x l) eqn:E; auto.
  apply memb_false in E. now constructor.
Qed.

Lemma set_remove_In : forall x y l, In y (set_remove x l) <-> y <> x /\ In y l.
Proof.
  intros. unfold set_remove. rewrite filter_In.
  destruct (Nat.eqb_spec y x); simpl; split; intros; try tauto.
  destruct H; discriminate.
Qed.

Lemma set_remove_NoDup : forall x l, NoDup l -> NoDup (set_remove x l).
Proof. intros. unfold set_remove. now apply NoDup_filter. Qed.

Lemma dedup_In : forall x l, In x (dedup l) <-> In x l.
Proof. intros. unfold dedup. apply nodup_In. Qed.

Lemma dedup_NoDup : forall l, NoDup (dedup l).
Proof. intros. unfold dedup. apply NoDup_nodup. Qed.

Lemma dedup_nil_inv : forall l, dedup l = [] -> l = [].
Proof.
  intros [ | x l] H; auto. exfalso.
  assert (In x (dedup (x :: l))) by (apply dedup_In; now left).
  rewrite H in H0. destruct H0.
Qed.

(* --------------------------------------------------------------- invariants *)

Notation status s tid := (t_status (tasks s tid)).

(* [tid] is the re-preparer that _REPREPARE_TASKS holds for its resource *)
Definition cur (s : state) (tid : nat) : Prop := rtasks s (t_key (tasks s tid)) = Some tid.

Definition cached (s : state) (k : nat) : Prop := cache s k <> None.

(* plumbing; [run] is the task being stepped right now, if any *)
Record M (run : option nat) (s : state) : Prop := {
  m_err : err s = None;
  m_nodup : NoDup (ready s);
  m_start : forall tid, In (HStart tid) (ready s) <-> status s tid = TNew;
  m_wake : forall tid, In (HWake tid) (ready s) <-> status s tid = TWoken;
  m_donecb : forall tid, In (HDoneCb tid) (ready s) -> tid < nt s /\ status s tid = TDone;
  m_running : forall tid, status s tid = TRunning <-> run = Some tid;
  m_fresh : forall tid, nt s <= tid -> tasks s tid = dummy_task;
  m_getter : forall q g, q_getter (heap s q) = Some g <->
                         (status s g = TWaiting /\ t_queue (tasks s g) = Some q);
  m_qid : forall k q, queues s k = Some q -> q < nq s;
  m_qinj : forall k k' q, queues s k = Some q -> queues s k' = Some q -> k = k';
  m_tq : forall tid q, t_queue (tasks s tid) = Some q -> q < nq s;
  m_wait_empty : forall tid q, status s tid = TWaiting -> t_queue (tasks s tid) = Some q ->
                               q_items (heap s q) = [];
  m_rt : forall k tid, rtasks s k = Some tid -> tid < nt s /\ t_key (tasks s tid) = k;
  m_noncur : forall tid, ~ cur s tid ->
             status s tid = TDone \/
             (t_cancel (tasks s tid) = true /\ (status s tid = TNew \/ status s tid = TWoken));
  m_inverse : forall k r, In r (subs s k) <-> In k (rsubs s r);
  m_rs_nodup : forall r, NoDup (rsubs s r);
  m_upward : forall k r, In r (subs s k) -> k < r /\ r < bound s;
  m_ptime : forall k p, ptimes s k = Some p -> p <= clock s;
  m_etime : forall q n t, In (ERes n t) (q_items (heap s q)) -> t <= clock s;
  m_wait_q : forall tid, status s tid = TWaiting -> t_queue (tasks s tid) <> None
}.

(* per key, part 1: what depends only on the dicts *)
Record KC (s : state) (k : nat) : Prop := {
  k_cq : cache s k <> None -> queues s k <> None;
  k_noleak : queues s k <> None -> cache s k <> None;
  k_subs : subs s k = match cache s k with Some e => dedup (c_deps e) | None => [] end;
  k_seen : forall e, cache s k = Some e -> map fst (c_seen e) = c_deps e;
  k_pt : cache s k <> None -> ptimes s k <> None;
  k_need : forall e, cache s k = Some e -> c_deps e <> [] -> rtasks s k <> None;
  k_own : rtasks s k <> None -> cache s k <> None
}.

(* part 2: the registered queue is alive *)
Definition Klive (s : state) (k : nat) : Prop :=
  forall q, queues s k = Some q ->
  q_shut (heap s q) = false /\ ~ In EKill (q_items (heap s q)).

(* part 3: the watcher task is alive and, once started, reads the registered queue *)
Definition Ktask (s : state) (k : nat) : Prop :=
  forall tid, rtasks s k = Some tid ->
  t_cancel (tasks s tid) = false /\ status s tid <> TDone /\
  (status s tid <> TNew -> t_queue (tasks s tid) = queues s k).

Definition KInv (s : state) (k : nat) : Prop := KC s k /\ Klive s k /\ Ktask s k.

Definition Inv (run : option nat) (s : state) : Prop := M run s /\ forall k, KInv s k.

Arguments fupd : simpl never.

Ltac ssimpl :=
  cbn [cache subs rsubs queues heap nq tasks nt rtasks ptimes clock ready gens bound err
       set_cache set_subs set_rsubs set_queues set_heap set_nq set_tasks set_nt set_rtasks
       set_ptimes set_clock set_ready set_gens set_bound upd_task upd_queue call_soon tick
       bump raise_bound
       q_items q_shut q_getter t_key t_queue t_status t_cancel t_cancelled
       with_status with_cancel with_queue ended] in *.

Ltac splits := repeat match goal with |- _ /\ _ => split end.

Lemma in_snoc : forall A (x y : A) l, In x (l ++ [y]) <-> In x l \/ x = y.
Proof. intros. rewrite in_app_iff. simpl. intuition. Qed.

Lemma NoDup_snoc : forall A (y : A) l, NoDup l -> ~ In y l -> NoDup (l ++ [y]).
Proof.
  induction l as [ | a l IH]; simpl; intros Hn Hy.
  - constructor; auto.
  - inversion Hn; subst. constructor.
    + rewrite in_snoc. intros [ | ->]; tauto.
    + apply IH; auto.
Qed.

(* ------------------------------------------------------------- wake / put *)

Lemma put_event_M : forall run s q e,
  M run s -> (forall n t, e = ERes n t -> t <= clock s) ->
  M run (put_event q e s).
Proof.
  intros run s q e HM He. unfold put_event.
  destruct (q_shut (heap s q)) eqn:Hshut; auto.
  destruct (q_getter (heap s q)) as [g | ] eqn:Hget.
  - (* a getter is woken *)
    pose proof (proj1 (m_getter HM q g) Hget) as [Hst Hq].
    unfold wake. ssimpl. rewrite Hst.
    destruct HM. constructor; ssimpl; auto.
    + apply NoDup_snoc; auto. rewrite m_wake0. rewrite Hst. discriminate.
    + intros tid. rewrite in_snoc. ssimpl.
      fupd_case tid g; ssimpl.
      * rewrite m_start0, Hst. split; [intros [ | ]|]; discriminate.
      * rewrite m_start0. split; [intros [ | ]|]; auto; discriminate.
    + intros tid. rewrite in_snoc. ssimpl.
      fupd_case tid g; ssimpl.
      * split; auto.
      * rewrite m_wake0. split; [intros [ | ]|]; auto. congruence.
    + intros tid. rewrite in_snoc. ssimpl.
      intros [H | H]; [ | discriminate]. apply m_donecb0 in H. destruct H as [H1 H].
      split; auto. fupd_case tid g; ssimpl; auto. congruence.
    + intros tid. ssimpl. fupd_case tid g; ssimpl; auto.
      rewrite <- m_running0, Hst. split; discriminate.
    + intros tid Hge. fupd_case tid g; auto.
      rewrite (m_fresh0 _ Hge) in Hst. discriminate.
    + intros q' g'. ssimpl.
      fupd_case q' q; ssimpl; fupd_case g' g; ssimpl.
      * split; [discriminate | intros []; discriminate].
      * split; [discriminate | ]. intros [H1 H2].
        assert (q_getter (heap s q) = Some g') by (apply m_getter0; auto). congruence.
      * rewrite m_getter0, Hst. split; intros [H1 H2]; congruence.
      * apply m_getter0.
    + intros tid q'. fupd_case tid g; ssimpl; eauto.
    + intros tid q'. ssimpl.
      fupd_case tid g; ssimpl; [discriminate | ].
      intros H1 H2. fupd_case q' q; ssimpl; eauto.
      assert (q_getter (heap s q) = Some tid) by (apply m_getter0; auto). congruence.
    + intros k tid H. fupd_case tid g; ssimpl; eauto.
    + intros tid. unfold cur in *. ssimpl.
      fupd_case tid g; ssimpl; auto.
      intros Hc. destruct (m_noncur0 g Hc) as [H | [_ [H | H]]]; congruence.
    + intros q' n t. fupd_case q' q; ssimpl; eauto.
      intros [H | H]; eauto.
    + intros tid. fupd_case tid g; ssimpl; auto.
  - (* nobody waits *)
    destruct HM. constructor; ssimpl; auto.
    + intros q' g'. fupd_case q' q; ssimpl; auto.
      split; [discriminate | ]. intros H. apply m_getter0 in H. congruence.
    + intros tid q' H1 H2. fupd_case q' q; ssimpl; eauto.
      assert (q_getter (heap s q) = Some tid) by (apply m_getter0; auto). congruence.
    + intros q' n t. fupd_case q' q; ssimpl; eauto.
      intros [H | H]; eauto.
Qed.

(* [s'] differs from [s] only by events [e] pushed on queues that are not shut
   down and by getters woken (TWaiting -> TWoken, wake-up handle appended) *)
Record Mild (e : event) (s s' : state) : Prop := {
  f_cache : cache s' = cache s;
  f_subs : subs s' = subs s;
  f_rsubs : rsubs s' = rsubs s;
  f_queues : queues s' = queues s;
  f_nq : nq s' = nq s;
  f_nt : nt s' = nt s;
  f_rtasks : rtasks s' = rtasks s;
  f_ptimes : ptimes s' = ptimes s;
  f_clock : clock s' = clock s;
  f_gens : gens s' = gens s;
  f_bound : bound s' = bound s;
  f_err : err s' = err s;
  f_shut : forall q, q_shut (heap s' q) = q_shut (heap s q);
  f_items_mono : forall q x, In x (q_items (heap s q)) -> In x (q_items (heap s' q));
  f_items_new : forall q x, In x (q_items (heap s' q)) ->
                In x (q_items (heap s q)) \/ (x = e /\ q_shut (heap s q) = false);
  f_key : forall tid, t_key (tasks s' tid) = t_key (tasks s tid);
  f_tq : forall tid, t_queue (tasks s' tid) = t_queue (tasks s tid);
  f_cancel : forall tid, t_cancel (tasks s' tid) = t_cancel (tasks s tid);
  f_status : forall tid, status s' tid = status s tid \/
                         (status s tid = TWaiting /\ status s' tid = TWoken)
}.

Lemma Mild_refl : forall e s, Mild e s s.
Proof. intros. constructor; auto. Qed.

Lemma Mild_trans : forall e s1 s2 s3, Mild e s1 s2 -> Mild e s2 s3 -> Mild e s1 s3.
Proof.
  intros e s1 s2 s3 A B. constructor; intros.
  1-12: (destruct A, B; congruence).
  - rewrite (f_shut B), (f_shut A); auto.
  - apply (f_items_mono B), (f_items_mono A); auto.
  - apply (f_items_new B) in H. destruct H as [H | [H1 H2]].
    + apply (f_items_new A) in H. auto.
    + right. split; auto. now rewrite <- (f_shut A).
  - rewrite (f_key B), (f_key A); auto.
  - rewrite (f_tq B), (f_tq A); auto.
  - rewrite (f_cancel B), (f_cancel A); auto.
  - destruct (f_status B tid) as [H | [H1 H2]], (f_status A tid) as [H' | [H1' H2']];
      try (left; congruence); right; split; congruence.
Qed.

Lemma put_event_Mild : forall q e s, Mild e s (put_event q e s).
Proof.
  intros. unfold put_event.
  destruct (q_shut (heap s q)) eqn:Hshut; [apply Mild_refl | ].
  destruct (q_getter (heap s q)) as [g | ].
  - unfold wake. ssimpl.
    destruct (t_status (tasks s g)) eqn:Hst;
      (constructor; ssimpl; auto; intros;
       try (fupd_case q0 q; ssimpl; simpl in *; intuition (auto; congruence));
       try (fupd_case tid g; ssimpl; auto)).
  - constructor; ssimpl; auto; intros;
      try (fupd_case q0 q; ssimpl; simpl in *; intuition (auto; congruence)).
Qed.

Lemma put_event_delivers : forall q e s,
  q_shut (heap s q) = false -> In e (q_items (heap (put_event q e s) q)).
Proof.
  intros. unfold put_event. rewrite H.
  destruct (q_getter (heap s q)) as [g | ].
  - unfold wake. destruct (t_status _); ssimpl; rewrite fupd_eq; simpl; auto.
  - ssimpl. rewrite fupd_eq. simpl; auto.
Qed.

Definition puts (e : event) (l : list nat) (s : state) : state :=
  fold_left (fun st q => put_event q e st) l s.

Lemma puts_Mild : forall e l s, Mild e s (puts e l s).
Proof.
  induction l as [ | q l IH]; intros; simpl.
  - apply Mild_refl.
  - eapply Mild_trans; [apply put_event_Mild | apply IH].
Qed.

Lemma puts_M : forall run e l s,
  M run s -> (forall n t, e = ERes n t -> t <= clock s) -> M run (puts e l s).
Proof.
  induction l as [ | q l IH]; intros; simpl; auto.
  apply IH.
  - apply put_event_M; auto.
  - rewrite (f_clock (put_event_Mild q e s)). auto.
Qed.

Lemma puts_delivers : forall e l s q,
  In q l -> q_shut (heap s q) = false -> In e (q_items (heap (puts e l s) q)).
Proof.
  induction l as [ | q' l IH]; intros s q Hin Hs; simpl in *; [tauto | ].
  destruct Hin as [-> | Hin].
  - apply (f_items_mono (puts_Mild e l _)). now apply put_event_delivers.
  - apply IH; auto. now rewrite (f_shut (put_event_Mild q' e s)).
Qed.

(* the per-key invariants survive mild changes, unless a Kill was pushed *)
Lemma Mild_KC : forall e s s' k, Mild e s s' -> KC s k -> KC s' k.
Proof.
  intros e s s' k F K. destruct K. destruct F.
  constructor; rewrite ?f_cache0, ?f_queues0, ?f_subs0, ?f_rtasks0, ?f_ptimes0; auto.
Qed.

Lemma Mild_Klive : forall e s s' k, Mild e s s' -> e <> EKill -> Klive s k -> Klive s' k.
Proof.
  intros e s s' k F He K q Hq. rewrite (f_queues F) in Hq.
  destruct (K _ Hq) as [H1 H2]. rewrite (f_shut F). split; auto.
  intros H. apply (f_items_new F) in H. destruct H as [H | [H _]]; auto.
Qed.

Lemma Mild_Ktask : forall e s s' k, Mild e s s' -> Ktask s k -> Ktask s' k.
Proof.
  intros e s s' k F K tid H. rewrite (f_rtasks F) in H.
  destruct (K _ H) as (H2 & H3 & H4).
  rewrite (f_cancel F), (f_tq F), (f_queues F). repeat split; auto.
  - destruct (f_status F tid) as [E | [E1 E2]]; congruence.
  - intros Hs. apply H4. destruct (f_status F tid) as [E | [E1 E2]]; congruence.
Qed.

Lemma Mild_K : forall e s s' k, Mild e s s' -> e <> EKill -> KInv s k -> KInv s' k.
Proof.
  intros e s s' k F He (A & B & C). split; [ | split].
  - eapply Mild_KC; eauto.
  - eapply Mild_Klive; eauto.
  - eapply Mild_Ktask; eauto.
Qed.

(* ------------------------------------------------------- subscribe_only_to *)

Lemma check_cycles_ok : forall (sr : nat -> list nat) B sb,
  (forall k r, In r (sr k) -> k < r /\ r < B) ->
  forall fuel lo to_check,
  (forall x, In x to_check -> lo <= x /\ x < B /\ sb < x) ->
  B - lo < fuel ->
  check_cycles fuel sr sb to_check = Some false.
Proof.
  intros sr B sb Hup. induction fuel as [ | f IH]; intros lo tc Htc Hf; [lia | ].
  simpl. destruct tc as [ | a tc']; auto.
  destruct (memb sb (a :: tc')) eqn:Hm.
  - apply memb_In in Hm. apply Htc in Hm. lia.
  - apply IH with (lo := S lo).
    + intros x Hx. rewrite dedup_In in Hx. apply in_flat_map in Hx.
      destruct Hx as (c & Hc & Hx). apply Htc in Hc. apply Hup in Hx. lia.
    + assert (lo < B) by (specialize (Htc a (or_introl eq_refl)); lia). lia.
Qed.

Definition sub_result (sb : nat) (rs : list nat) (s : state) : state :=
  let new := dedup rs in
  let current := subs s sb in
  set_subs (fupd (subs s) sb new)
    (set_rsubs (fun r =>
        if memb r new && negb (memb r current) then set_add sb (rsubs s r)
        else if memb r current && negb (memb r new) then set_remove sb (rsubs s r)
        else rsubs s r) s).

Lemma subscribe_only_to_eq : forall run s sb rs,
  M run s -> (forall r, In r rs -> sb < r /\ r < bound s) ->
  subscribe_only_to sb rs s = sub_result sb rs s.
Proof.
  intros run s sb rs HM Hrs. unfold subscribe_only_to.
  rewrite check_cycles_ok with (B := bound s) (lo := 0); auto.
  - apply (m_upward HM).
  - intros x Hx. rewrite dedup_In in Hx. apply Hrs in Hx. lia.
  - lia.
Qed.

Lemma sub_result_M : forall run s sb rs,
  M run s -> (forall r, In r rs -> sb < r /\ r < bound s) ->
  M run (sub_result sb rs s).
Proof.
  intros run s sb rs HM Hrs. destruct HM. unfold sub_result.
  constructor; ssimpl; auto.
  - (* inverse *)
    intros k r.
    destruct (memb_spec r (dedup rs)) as [Hn | Hn];
      destruct (memb_spec r (subs s sb)) as [Hc | Hc]; simpl;
      fupd_case k sb; rewrite ?set_add_In, ?set_remove_In, <- ?m_inverse0; try tauto.
  - intros r.
    destruct (memb r (dedup rs) && negb (memb r (subs s sb))); [now apply set_add_NoDup | ].
    destruct (memb r (subs s sb) && negb (memb r (dedup rs))); [now apply set_remove_NoDup | auto].
  - intros k r. fupd_case k sb; auto. rewrite dedup_In. auto.
Qed.

Lemma sub_result_K : forall s sb rs k, k <> sb -> KInv s k -> KInv (sub_result sb rs s) k.
Proof.
  intros s sb rs k Hk (A & B & C). unfold sub_result. split; [ | split].
  - destruct A. constructor; ssimpl; auto. now rewrite fupd_neq.
  - exact B.
  - exact C.
Qed.

(* --------------------------------------------------- simple field updates *)

Lemma tick_M : forall run s, M run s -> M run (tick s).
Proof.
  intros run s HM. destruct HM. constructor; ssimpl; auto.
  - intros k p H. apply m_ptime0 in H. lia.
  - intros q n t H. apply m_etime0 in H. lia.
Qed.

Lemma KC_same : forall s s' k,
  cache s' k = cache s k -> queues s' k = queues s k -> subs s' k = subs s k ->
  ptimes s' k = ptimes s k -> rtasks s' k = rtasks s k -> KC s k -> KC s' k.
Proof.
  intros s s' k E1 E2 E3 E4 E5 K. destruct K.
  constructor; rewrite ?E1, ?E2, ?E3, ?E4, ?E5; auto.
Qed.

Lemma tick_K : forall s k, KInv s k -> KInv (tick s) k.
Proof.
  intros s k (A & B & C). split; [ | split]; [ | exact B | exact C].
  apply KC_same with (s := s); auto.
Qed.

Lemma raise_bound_K : forall k' deps s k, KInv s k -> KInv (raise_bound k' deps s) k.
Proof.
  intros k' deps s k (A & B & C). split; [ | split]; [ | exact B | exact C].
  apply KC_same with (s := s); auto.
Qed.

Lemma raise_bound_M : forall run k deps s, M run s -> M run (raise_bound k deps s).
Proof.
  intros run k deps s HM. destruct HM. unfold raise_bound. constructor; ssimpl; auto.
  intros k' r H. apply m_upward0 in H. lia.
Qed.

Lemma raise_bound_deps : forall k deps s r,
  In r (k :: deps) -> r < bound (raise_bound k deps s).
Proof.
  intros. unfold raise_bound. ssimpl.
  pose proof (list_max_le (k :: deps) (list_max (k :: deps))) as [H1 _].
  specialize (H1 (le_n _)). rewrite Forall_forall in H1. apply H1 in H. lia.
Qed.

Lemma puts_other : forall e l s q, ~ In q l -> heap (puts e l s) q = heap s q.
Proof.
  induction l as [ | q' l IH]; intros s q Hn; simpl in *; auto.
  rewrite IH by tauto.
  unfold put_event. destruct (q_shut (heap s q')); auto.
  assert (q <> q') by (intros ->; tauto).
  destruct (q_getter (heap s q')) as [g | ].
  - unfold wake. destruct (t_status _); ssimpl; now rewrite fupd_neq.
  - ssimpl. now rewrite fupd_neq.
Qed.

Section WithOrd.
  Variable ord : nat -> list nat -> list nat.
  Hypothesis ord_perm : forall t l, Permutation (ord t l) l.

  Notation notify := (notify ord).
  Notation register := (register ord).
  Notation deregister := (deregister ord).
  Notation handle_notifications := (handle_notifications ord).
  Notation offer := (offer ord).
  Notation delete := (delete ord).
  Notation reprepare := (reprepare ord).
  Notation monitor_loop := (monitor_loop ord).
  Notation monitor := (monitor ord).
  Notation run_handle := (run_handle ord).
  Notation run_handles := (run_handles ord).
  Notation yield := (yield ord).
  Notation step := (step ord).
  Notation run := (run ord).

  Lemma notify_puts : forall n t s,
    notify n t s = puts (ERes n t) (active_queues ord n t s) s.
  Proof. reflexivity. Qed.

  Lemma notify_Mild : forall n t s, Mild (ERes n t) s (notify n t s).
  Proof. intros. rewrite notify_puts. apply puts_Mild. Qed.

  Lemma notify_M : forall run n t s, M run s -> t <= clock s -> M run (notify n t s).
  Proof.
    intros. rewrite notify_puts. apply puts_M; auto. intros n' t' E. inversion E; subst; auto.
  Qed.

  Lemma notify_K : forall n t s k, KInv s k -> KInv (notify n t s) k.
  Proof. intros. eapply Mild_K; eauto using notify_Mild. discriminate. Qed.

  Lemma active_queues_In : forall n t s q,
    In q (active_queues ord n t s) <-> exists r, In r (rsubs s n) /\ queues s r = Some q.
  Proof.
    intros. unfold active_queues. rewrite in_flat_map. split.
    - intros (r & Hr & Hq). exists r. split.
      + eapply Permutation_in; eauto.
      + destruct (queues s r); simpl in Hq; [ | tauto]. destruct Hq; [congruence | tauto].
    - intros (r & Hr & Hq). exists r. split.
      + eapply Permutation_in; [apply Permutation_sym; apply ord_perm | auto].
      + rewrite Hq. simpl. auto.
  Qed.

  (* every subscriber with a live queue gets the event *)
  Lemma notify_delivers : forall n t s r q,
    In r (rsubs s n) -> queues s r = Some q -> q_shut (heap s q) = false ->
    In (ERes n t) (q_items (heap (notify n t s) q)).
  Proof.
    intros. rewrite notify_puts. apply puts_delivers; auto.
    apply active_queues_In. eauto.
  Qed.

  (* a queue that belongs to no subscriber is left alone *)
  Lemma notify_other : forall n t s q,
    (forall r, In r (rsubs s n) -> queues s r <> Some q) ->
    heap (notify n t s) q = heap s q.
  Proof.
    intros. rewrite notify_puts. apply puts_other.
    rewrite active_queues_In. intros (r & Hr & Hq). eapply H; eauto.
  Qed.


  (* ----------------------------------------------------------- register *)

  Definition alloc (k : nat) (s : state) : state :=
    set_nq (S (nq s)) (set_heap (fupd (heap s) (nq s) new_queue)
                         (set_queues (fupd (queues s) k (Some (nq s))) s)).

  Lemma alloc_M : forall run k s, M run s -> M run (alloc k s).
  Proof.
    intros run k s HM. destruct HM. unfold alloc. constructor; ssimpl; auto.
    - intros q g. fupd_case q (nq s); auto. simpl. split; [discriminate | ].
      intros [_ H]. apply m_tq0 in H. lia.
    - intros k' q. fupd_case k' k.
      + intros H; inversion H; lia.
      + intros H. apply m_qid0 in H. lia.
    - intros k1 k2 q. fupd_case k1 k; fupd_case k2 k; auto.
      + intros H1 H2. inversion H1; subst. apply m_qid0 in H2. lia.
      + intros H1 H2. inversion H2; subst. apply m_qid0 in H1. lia.
      + apply m_qinj0.
    - intros tid q H. apply m_tq0 in H. lia.
    - intros tid q H1 H2. pose proof (m_tq0 _ _ H2). rewrite fupd_neq by lia. eauto.
    - intros q n t. fupd_case q (nq s); eauto. simpl. tauto.
  Qed.

  Lemma alloc_K : forall run k s k', M run s -> k' <> k -> KInv s k' -> KInv (alloc k s) k'.
  Proof.
    intros run k s k' HM Hk (A & B & C). unfold alloc. split; [ | split].
    - destruct A. constructor; ssimpl; rewrite ?fupd_neq by auto; auto.
    - intros q. ssimpl. rewrite fupd_neq by auto. intros Hq.
      pose proof (m_qid HM _ Hq). rewrite fupd_neq by lia. auto.
    - intros tid. ssimpl. rewrite fupd_neq by auto. auto.
  Qed.

  (* what register does to the resource itself and to everybody else *)
  Lemma register_spec : forall run k s,
    M run s -> (forall k', KInv s k') ->
    let (q, s') := register k s in
    M run s' /\ (forall k', k' <> k -> KInv s' k') /\
    queues s' k = Some q /\ Klive s' k /\ Ktask s' k /\
    cache s' = cache s /\ subs s' = subs s /\ rsubs s' = rsubs s /\ rtasks s' = rtasks s /\
    ptimes s' = ptimes s /\ gens s' = gens s /\ bound s' = bound s /\
    clock s <= clock s' /\ (queues s k <> None -> s' = s).
  Proof.
    intros run k s HM HK. unfold register.
    destruct (queues s k) as [q | ] eqn:Hq.
    - destruct (HK k) as (A & B & C). splits; auto; try apply HK.
    - fold (alloc k s).
      set (s1 := tick (alloc k s)).
      assert (HM1 : M run s1) by (apply tick_M, alloc_M; auto).
      pose proof (notify_Mild k (clock s1) s1) as F.
      split; [apply notify_M; auto | ].
      split.
      { intros k' Hk'. apply notify_K. apply tick_K. apply (alloc_K (run := run)); auto. }
      rewrite (f_queues F), (f_cache F), (f_subs F), (f_rsubs F), (f_rtasks F),
        (f_ptimes F), (f_gens F), (f_bound F), (f_clock F).
      unfold s1, alloc. ssimpl. rewrite fupd_eq.
      splits; auto; try congruence.
      + (* live *)
        eapply Mild_Klive; eauto; [discriminate | ].
        intros q. unfold s1, alloc. ssimpl. rewrite fupd_eq. intros E; inversion E; subst.
        rewrite fupd_eq. simpl. auto.
      + (* task: there is none *)
        eapply Mild_Ktask; eauto.
        intros tid. unfold s1, alloc. ssimpl. intros Ht.
        destruct (HK k) as (A & _ & _).
        exfalso. apply (k_cq A); auto. apply (k_own A). congruence.
  Qed.

  (* -------------------------------------------------------- create_task *)

  Lemma create_task_M : forall run k s,
    M run s -> rtasks s k = None -> M run (create_task k s).
  Proof.
    intros run k s HM Hr. destruct HM. unfold create_task.
    assert (Hd : tasks s (nt s) = dummy_task) by (apply m_fresh0; lia).
    constructor; ssimpl; auto.
    - apply NoDup_snoc; auto. rewrite m_start0, Hd. discriminate.
    - intros tid. rewrite in_snoc. fupd_case tid (nt s); ssimpl.
      + split; auto.
      + rewrite m_start0. split; [intros [ | H] | ]; auto. inversion H; congruence.
    - intros tid. rewrite in_snoc. fupd_case tid (nt s); ssimpl.
      + rewrite m_wake0, Hd. simpl. split; [intros [ | ] | ]; discriminate.
      + rewrite m_wake0. split; [intros [ | ] | ]; auto. discriminate.
    - intros tid. rewrite in_snoc. intros [H | H]; [ | discriminate].
      apply m_donecb0 in H. destruct H. rewrite fupd_neq by lia. split; auto.
    - intros tid. fupd_case tid (nt s); ssimpl; auto.
      rewrite <- m_running0, Hd. simpl. split; discriminate.
    - intros tid Hge. rewrite fupd_neq by lia. apply m_fresh0. lia.
    - intros q g. fupd_case g (nt s); ssimpl; auto.
      rewrite m_getter0, Hd. simpl. split; intros [? ?]; discriminate.
    - intros tid q. fupd_case tid (nt s); ssimpl; eauto. discriminate.
    - intros tid q. fupd_case tid (nt s); ssimpl; eauto. discriminate.
    - intros k' tid. fupd_case k' k.
      + intros H. inversion H; subst. rewrite fupd_eq. simpl. auto.
      + intros H. destruct (m_rt0 _ _ H). rewrite fupd_neq by lia. split; auto.
    - intros tid. unfold cur in *. ssimpl. fupd_case tid (nt s); ssimpl.
      + tauto.
      + intros Hc. apply m_noncur0. intros Hc'. apply Hc.
        fupd_case (t_key (tasks s tid)) k; auto. congruence.
    - intros tid. fupd_case tid (nt s); ssimpl; auto. discriminate.
  Qed.

  Lemma create_task_K : forall run k s k',
    M run s -> k' <> k -> KInv s k' -> KInv (create_task k s) k'.
  Proof.
    intros run k s k' HM Hk (A & B & C). unfold create_task. split; [ | split].
    - apply KC_same with (s := s); ssimpl; auto. now rewrite fupd_neq.
    - exact B.
    - intros tid. ssimpl. rewrite fupd_neq by auto. intros H.
      destruct (m_rt HM _ H). rewrite fupd_neq by lia. auto.
  Qed.

  Lemma create_task_Ktask : forall k s, Ktask (create_task k s) k.
  Proof.
    intros k s tid. unfold create_task. ssimpl. rewrite fupd_eq.
    intros H; inversion H; subst. rewrite fupd_eq. simpl.
    splits; auto; try discriminate. congruence.
  Qed.

  (* ------------------------------------------------ _handle_notifications *)

  Lemma bump_M : forall run k s, M run s -> M run (bump k s).
  Proof. intros run k s HM. destruct HM. unfold bump. constructor; ssimpl; auto. Qed.

  Lemma bump_K : forall k s k', KInv s k' -> KInv (bump k s) k'.
  Proof.
    intros k s k' (A & B & C). split; [ | split]; [ | exact B | exact C].
    apply KC_same with (s := s); auto.
  Qed.

  Lemma set_ptimes_M : forall run k p s,
    M run s -> p <= clock s -> M run (set_ptimes (fupd (ptimes s) k (Some p)) s).
  Proof.
    intros run k p s HM Hp. destruct HM. constructor; ssimpl; auto.
    intros k' p'. fupd_case k' k; eauto. intros E; inversion E; subst; auto.
  Qed.

  Lemma hn_Inv : forall run k deps started finished wp s e q,
    M run s -> (forall k', k' <> k -> KInv s k') ->
    cache s k = Some e -> c_deps e = deps -> map fst (c_seen e) = deps ->
    queues s k = Some q -> Klive s k -> Ktask s k ->
    (forall r, In r deps -> k < r /\ r < bound s) ->
    started <= clock s -> finished <= clock s ->
    (wp = true \/ (deps <> [] -> rtasks s k <> None)) ->
    Inv run (handle_notifications k deps started finished wp s).
  Proof.
    intros run k deps started finished wp s e q HM HK Hc Hd Hseen Hq Hlive Htask Hup Hst Hfin Hwp.
    unfold handle_notifications.
    set (s1 := set_ptimes (fupd (ptimes s) k (Some started)) s).
    assert (HM1 : M run s1) by (apply set_ptimes_M; auto).
    rewrite (subscribe_only_to_eq (run := run)) by auto.
    set (s2 := sub_result k deps s1).
    assert (HM2 : M run s2) by (apply sub_result_M; auto).
    pose proof (notify_Mild k finished s2) as F.
    set (s3 := notify k finished s2) in *.
    assert (HM3 : M run (bump k s3)) by (apply bump_M, notify_M; auto).
    assert (HK3 : forall k', k' <> k -> KInv (bump k s3) k').
    { intros k' Hk'. apply bump_K, notify_K, sub_result_K; auto.
      destruct (HK _ Hk') as (A & B & C). split; [ | split]; [ | exact B | exact C].
      apply KC_same with (s := s); auto. unfold s1; ssimpl. now rewrite fupd_neq. }
    assert (Hlive3 : Klive (bump k s3) k).
    { change (Klive s3 k). eapply Mild_Klive; eauto. discriminate. }
    assert (Htask3 : Ktask (bump k s3) k).
    { change (Ktask s3 k). eapply Mild_Ktask; eauto. }
    assert (Ec : cache (bump k s3) k = Some e) by (ssimpl; rewrite (f_cache F); auto).
    assert (Eq : queues (bump k s3) k = Some q) by (ssimpl; rewrite (f_queues F); auto).
    assert (Es : subs (bump k s3) k = dedup deps).
    { ssimpl. rewrite (f_subs F). unfold s2, sub_result. ssimpl. apply fupd_eq. }
    assert (Ep : ptimes (bump k s3) k = Some started).
    { ssimpl. rewrite (f_ptimes F). unfold s2, sub_result, s1. ssimpl. apply fupd_eq. }
    assert (Er : rtasks (bump k s3) k = rtasks s k) by (ssimpl; rewrite (f_rtasks F); auto).
    assert (HKC : (deps <> [] -> rtasks s k <> None) -> KC (bump k s3) k).
    { intros Hn. constructor; rewrite ?Ec, ?Eq, ?Es, ?Ep, ?Er; try congruence.
      all: intros e' E; inversion E; subst; auto. }
    destruct deps as [ | d deps'] eqn:Edeps.
    { split; auto. intros k'. destruct (Nat.eq_dec k' k) as [-> | Hk']; auto.
      split; [ | split]; auto; try (apply HKC; congruence). }
    rewrite <- Edeps in *.
    destruct wp.
    2:{ split; auto. intros k'. destruct (Nat.eq_dec k' k) as [-> | Hk']; auto.
        split; [ | split]; auto; try (apply HKC; destruct Hwp; auto; discriminate). }
    destruct (rtasks (bump k s3) k) as [tid | ] eqn:Ert.
    { split; auto. intros k'. destruct (Nat.eq_dec k' k) as [-> | Hk']; auto.
      split; [ | split]; auto; try (apply HKC; rewrite <- Er; congruence). }
    split; [apply create_task_M; auto | ].
    intros k'. destruct (Nat.eq_dec k' k) as [-> | Hk'].
    - split; [ | split].
      + unfold create_task.
        constructor; ssimpl; rewrite ?fupd_eq, ?Ec, ?Eq, ?Es, ?Ep; try congruence.
        all: intros e' E; inversion E; subst; auto.
      + exact Hlive3.
      + apply create_task_Ktask.
    - apply (create_task_K (run := run)); auto.
  Qed.

  (* ---------------------------------------------------------------- Offer *)

  Lemma set_cache_M : forall run c s, M run s -> M run (set_cache c s).
  Proof. intros run c s HM. destruct HM. constructor; ssimpl; auto. Qed.

  Lemma map_fst_seen_now : forall deps s, map fst (seen_now deps s) = deps.
  Proof.
    intros. unfold seen_now. rewrite map_map. simpl. apply map_id.
  Qed.

  Definition upward_deps (k : nat) (deps : list nat) : Prop := forall d, In d deps -> k < d.

  Lemma offer_Inv : forall run k v deps s,
    Inv run s -> upward_deps k deps -> Inv run (offer k v deps s).
  Proof.
    intros run k v deps s [HM HK] Hup. unfold offer.
    destruct (match cache s k with Some e => c_version e =? v | None => false end); [split; auto | ].
    set (s0 := raise_bound k deps s).
    set (s1 := tick s0).
    assert (HM1 : M run s1) by (apply tick_M, raise_bound_M; auto).
    assert (HK1 : forall k', KInv s1 k') by (intros; apply tick_K, raise_bound_K; auto).
    pose proof (register_spec k HM1 HK1) as R.
    destruct (register k s1) as [q s2]. simpl.
    destruct R as (HM2 & HK2 & Hq & Hlive & Htask & Ec & Es & Ers & Ert & Ept & Eg & Eb & Hclk & _).
    eapply hn_Inv with (q := q).
    - apply set_cache_M, tick_M; eauto.
    - intros k' Hk'. destruct (HK2 _ Hk') as (A & B & C).
      split; [ | split]; [ | exact B | exact C].
      apply KC_same with (s := s2); auto. ssimpl. now rewrite fupd_neq.
    - ssimpl. apply fupd_eq.
    - reflexivity.
    - simpl. apply map_fst_seen_now.
    - exact Hq.
    - exact Hlive.
    - exact Htask.
    - intros r Hr. split; auto. ssimpl. rewrite Eb.
      apply (@raise_bound_deps k deps s r). now right.
    - unfold s1, s0 in *. ssimpl. lia.
    - ssimpl. lia.
    - auto.
  Qed.

  (* --------------------------------------------------------------- Delete *)

  Lemma put_event_other : forall q e s q', q' <> q -> heap (put_event q e s) q' = heap s q'.
  Proof.
    intros. change (put_event q e s) with (puts e [q] s). apply puts_other.
    simpl. intros [ | ]; auto.
  Qed.

  Lemma put_event_getter : forall q e s,
    q_shut (heap s q) = false -> q_getter (heap (put_event q e s) q) = None.
  Proof.
    intros. unfold put_event. rewrite H.
    destruct (q_getter (heap s q)) as [g | ].
    - unfold wake. destruct (t_status _); ssimpl; now rewrite fupd_eq.
    - ssimpl. now rewrite fupd_eq.
  Qed.

  Lemma kill_q_M : forall run q s, M run s -> M run (kill_q q s).
  Proof.
    intros run q s HM. unfold kill_q.
    destruct (q_shut (heap s q)) eqn:Hs; auto.
    assert (HM1 : M run (put_event q EKill s)) by (apply put_event_M; auto; discriminate).
    pose proof (put_event_getter q EKill s Hs) as Hg.
    set (s1 := put_event q EKill s) in *.
    destruct HM1. constructor; ssimpl; auto.
    - intros q' g. fupd_case q' q; ssimpl; auto. rewrite <- m_getter0, Hg. tauto.
    - intros tid q' H1 H2. fupd_case q' q; ssimpl; eauto.
    - intros q' n t. fupd_case q' q; ssimpl; eauto.
  Qed.

  Lemma kill_q_K : forall q s k, queues s k <> Some q -> KInv s k -> KInv (kill_q q s) k.
  Proof.
    intros q s k Hq (A & B & C). unfold kill_q.
    destruct (q_shut (heap s q)) eqn:Hs; [split; auto | ].
    pose proof (put_event_Mild q EKill s) as F.
    split; [ | split].
    - apply KC_same with (s := put_event q EKill s); auto. eapply Mild_KC; eauto.
    - intros q' Hq'. ssimpl. rewrite (f_queues F) in Hq'.
      assert (q' <> q) by congruence.
      rewrite fupd_neq by auto. rewrite put_event_other by auto. auto.
    - change (Ktask (put_event q EKill s) k). eapply Mild_Ktask; eauto.
  Qed.

  Definition unregister (k q : nat) (s : state) : state :=
    upd_queue q (fun Q => mkQ [] (q_shut Q) (q_getter Q))
              (set_queues (fupd (queues s) k None) s).

  Lemma unregister_M : forall run k q s, M run s -> M run (unregister k q s).
  Proof.
    intros run k q s HM. destruct HM. unfold unregister. constructor; ssimpl; auto.
    - intros q' g. fupd_case q' q; ssimpl; auto.
    - intros k' q'. fupd_case k' k; eauto. discriminate.
    - intros k1 k2 q'. fupd_case k1 k; fupd_case k2 k; eauto; discriminate.
    - intros tid q' H1 H2. fupd_case q' q; ssimpl; eauto.
    - intros q' n t. fupd_case q' q; ssimpl; eauto. simpl. tauto.
  Qed.

  Lemma unregister_K : forall run k q s k',
    M run s -> queues s k = Some q -> k' <> k -> KInv s k' -> KInv (unregister k q s) k'.
  Proof.
    intros run k q s k' HM Hq Hk (A & B & C). unfold unregister. split; [ | split].
    - apply KC_same with (s := s); auto. ssimpl. now rewrite fupd_neq.
    - intros q'. ssimpl. rewrite fupd_neq by auto. intros Hq'.
      assert (q' <> q) by (intros ->; apply Hk; eapply (m_qinj HM); eauto).
      rewrite fupd_neq by auto. auto.
    - intros tid. ssimpl. rewrite fupd_neq by auto. auto.
  Qed.

  (* pop the re-preparer from _REPREPARE_TASKS and cancel it *)
  Lemma popcancel_M : forall k tid s,
    M None s -> rtasks s k = Some tid ->
    M None (cancel tid (set_rtasks (fupd (rtasks s) k None) s)).
  Proof.
    intros k tid s HM Hr.
    destruct (m_rt HM _ Hr) as [Hlt Hkey].
    assert (Hnr : status s tid <> TRunning).
    { intros H. apply (m_running HM) in H. discriminate. }
    assert (Hnc : forall tid', tid' <> tid ->
              fupd (rtasks s) k None (t_key (tasks s tid')) <> Some tid' -> ~ cur s tid').
    { intros tid' Hne H Hc. apply H. unfold cur in Hc.
      fupd_case (t_key (tasks s tid')) k; auto. congruence. }
    unfold cancel. ssimpl.
    destruct (t_status (tasks s tid)) eqn:Hst; try congruence.
    - (* TNew *)
      destruct HM. constructor; ssimpl; auto.
      + intros tid'. fupd_case tid' tid; ssimpl; auto; try (rewrite m_start0, Hst; tauto).
      + intros tid'. fupd_case tid' tid; ssimpl; auto; try (rewrite m_wake0, Hst; tauto).
      + intros tid' H. destruct (m_donecb0 _ H). split; auto.
        fupd_case tid' tid; ssimpl; auto.
      + intros tid'. fupd_case tid' tid; ssimpl; auto; try (rewrite <- m_running0, Hst; tauto).
      + intros tid' Hge. rewrite fupd_neq by lia. auto.
      + intros q g. fupd_case g tid; ssimpl; auto; try (rewrite m_getter0, Hst; tauto).
      + intros tid' q. fupd_case tid' tid; ssimpl; eauto.
      + intros tid' q. fupd_case tid' tid; ssimpl; eauto.
      + intros k' tid'. fupd_case k' k; [discriminate | ]. intros H.
        destruct (m_rt0 _ _ H). split; auto. fupd_case tid' tid; ssimpl; auto.
      + intros tid'. unfold cur. ssimpl. fupd_case tid' tid; ssimpl.
        * rewrite Hst. auto.
        * intros Hc. apply m_noncur0. auto.
      + intros tid'. fupd_case tid' tid; ssimpl; auto.
    - (* TWaiting: the getter future is cancelled *)
      destruct (t_queue (tasks s tid)) as [q | ] eqn:Htq;
        [ | exfalso; eapply (m_wait_q HM); eauto ].
      destruct HM. constructor; ssimpl; auto.
      + apply NoDup_snoc; auto. rewrite m_wake0, Hst. discriminate.
      + intros tid'. rewrite in_snoc. fupd_case tid' tid; ssimpl.
        * rewrite m_start0, Hst. split; [intros [ | ] | ]; discriminate.
        * rewrite m_start0. split; [intros [ | ] | ]; auto. discriminate.
      + intros tid'. rewrite in_snoc. fupd_case tid' tid; ssimpl.
        * split; auto.
        * rewrite m_wake0. split; [intros [ | H] | ]; auto. inversion H; congruence.
      + intros tid'. rewrite in_snoc. intros [H | H]; [ | discriminate].
        destruct (m_donecb0 _ H). split; auto.
        fupd_case tid' tid; ssimpl; auto. congruence.
      + intros tid'. fupd_case tid' tid; ssimpl; auto. split; discriminate.
      + intros tid' Hge. rewrite fupd_neq by lia. auto.
      + intros q' g. fupd_case q' q; ssimpl; fupd_case g tid; ssimpl.
        * split; [discriminate | intros []; discriminate].
        * split; [discriminate | ]. intros [H1 H2].
          assert (q_getter (heap s q) = Some g) by (apply m_getter0; auto).
          assert (q_getter (heap s q) = Some tid) by (apply m_getter0; auto). congruence.
        * rewrite m_getter0, Hst. split; intros [H1 H2]; congruence.
        * apply m_getter0.
      + intros tid' q'. fupd_case tid' tid; ssimpl; eauto.
      + intros tid' q'. fupd_case tid' tid; ssimpl; [discriminate | ].
        intros H1 H2. fupd_case q' q; ssimpl; eauto.
      + intros k' tid'. fupd_case k' k; [discriminate | ]. intros H.
        destruct (m_rt0 _ _ H). split; auto. fupd_case tid' tid; ssimpl; auto.
      + intros tid'. unfold cur. ssimpl. fupd_case tid' tid; ssimpl; auto.
      + intros q' n t. fupd_case q' q; ssimpl; eauto.
      + intros tid'. fupd_case tid' tid; ssimpl; auto; try discriminate.
    - (* TWoken *)
      destruct HM. constructor; ssimpl; auto.
      + intros tid'. fupd_case tid' tid; ssimpl; auto; try (rewrite m_start0, Hst; tauto).
      + intros tid'. fupd_case tid' tid; ssimpl; auto; try (rewrite m_wake0, Hst; tauto).
      + intros tid' H. destruct (m_donecb0 _ H). split; auto.
        fupd_case tid' tid; ssimpl; auto.
      + intros tid'. fupd_case tid' tid; ssimpl; auto; try (rewrite <- m_running0, Hst; tauto).
      + intros tid' Hge. rewrite fupd_neq by lia. auto.
      + intros q g. fupd_case g tid; ssimpl; auto; try (rewrite m_getter0, Hst; tauto).
      + intros tid' q. fupd_case tid' tid; ssimpl; eauto.
      + intros tid' q. fupd_case tid' tid; ssimpl; eauto.
      + intros k' tid'. fupd_case k' k; [discriminate | ]. intros H.
        destruct (m_rt0 _ _ H). split; auto. fupd_case tid' tid; ssimpl; auto.
      + intros tid'. unfold cur. ssimpl. fupd_case tid' tid; ssimpl.
        * rewrite Hst. auto.
        * intros Hc. apply m_noncur0. auto.
      + intros tid'. fupd_case tid' tid; ssimpl; auto.
    - (* TDone *)
      destruct HM. constructor; ssimpl; auto.
      + intros k' tid'. fupd_case k' k; [discriminate | ]. auto.
      + intros tid'. unfold cur. ssimpl. destruct (Nat.eq_dec tid' tid) as [-> | Hne]; auto.
  Qed.

  Lemma cancel_frame : forall tid s,
    let s' := cancel tid s in
    cache s' = cache s /\ subs s' = subs s /\ queues s' = queues s /\ rtasks s' = rtasks s /\
    ptimes s' = ptimes s /\
    (forall q, q_items (heap s' q) = q_items (heap s q) /\ q_shut (heap s' q) = q_shut (heap s q)) /\
    (forall tid', tid' <> tid -> tasks s' tid' = tasks s tid').
  Proof.
    intros. unfold s', cancel.
    destruct (t_status (tasks s tid)); ssimpl; splits; auto;
      try (intros tid' Hne; rewrite fupd_neq by auto; reflexivity).
    - destruct (t_queue (tasks s tid)) as [q' | ]; ssimpl; auto.
    - destruct (t_queue (tasks s tid)) as [q' | ]; ssimpl; auto.
    - destruct (t_queue (tasks s tid)) as [q' | ]; ssimpl; auto.
    - destruct (t_queue (tasks s tid)) as [q' | ]; ssimpl; auto.
    - destruct (t_queue (tasks s tid)) as [q' | ]; ssimpl; auto.
    - intros q. destruct (t_queue (tasks s tid)) as [q' | ]; ssimpl; auto.
      destruct (Nat.eq_dec q q') as [-> | Hne]; [rewrite fupd_eq | rewrite fupd_neq by auto]; auto.
    - intros tid' Hne. destruct (t_queue (tasks s tid)) as [q' | ]; ssimpl; now rewrite fupd_neq.
  Qed.

  Lemma popcancel_K : forall k tid s k',
    M None s -> rtasks s k = Some tid -> k' <> k -> KInv s k' ->
    KInv (cancel tid (set_rtasks (fupd (rtasks s) k None) s)) k'.
  Proof.
    intros k tid s k' HM Hr Hk (A & B & C).
    pose proof (cancel_frame tid (set_rtasks (fupd (rtasks s) k None) s)) as F.
    cbv zeta in F. destruct F as (F1 & F2 & F3 & F4 & F5 & F6 & F7).
    split; [ | split].
    - apply KC_same with (s := s); auto; try (rewrite ?F1, ?F2, ?F3, ?F5; reflexivity).
      rewrite F4. ssimpl. now rewrite fupd_neq.
    - intros q. rewrite F3. intros Hq. destruct (F6 q) as [-> ->]. apply B. exact Hq.
    - intros tid'. rewrite F4, F3. ssimpl. rewrite fupd_neq by auto. intros H.
      assert (tid' <> tid).
      { intros ->. destruct (m_rt HM _ H), (m_rt HM _ Hr). congruence. }
      rewrite F7 by auto. apply C. exact H.
  Qed.

  Lemma delete_Inv : forall k s, Inv None s -> Inv None (delete k s).
  Proof.
    intros k s [HM HK]. unfold delete.
    destruct (cache s k) as [e | ] eqn:Hc; [ | split; auto].
    destruct (HK k) as (A & B & C).
    destruct (queues s k) as [q | ] eqn:Hq; [ | exfalso; apply (k_cq A); congruence].
    destruct (B _ Hq) as [Hshut Hnokill].
    set (s1 := tick s).
    set (s2 := set_cache (fupd (cache s1) k None) s1).
    assert (HM2 : M None s2) by (apply set_cache_M, tick_M; auto).
    assert (HK2 : forall k', k' <> k -> KInv s2 k').
    { intros k' Hk'. destruct (HK k') as (A' & B' & C').
      split; [ | split]; [ | exact B' | exact C'].
      apply KC_same with (s := s); auto. unfold s2. ssimpl. now rewrite fupd_neq. }
    unfold kill_resource. change (queues s2 k) with (queues s k). rewrite Hq.
    set (s3 := kill_q q s2).
    assert (HM3 : M None s3) by (apply kill_q_M; auto).
    assert (Hother : forall k', k' <> k -> queues s k' <> Some q).
    { intros k' Hk' H. apply Hk'. eapply (m_qinj HM); eauto. }
    assert (HK3 : forall k', k' <> k -> KInv s3 k').
    { intros k' Hk'. apply kill_q_K; auto. apply Hother; auto. }
    assert (Hctl3 : queues s3 = queues s /\ rtasks s3 = rtasks s /\ bound s3 = bound s /\
                    subs s3 = subs s /\ cache s3 = cache s2 /\ clock s3 = clock s1 /\
                    q_shut (heap s3 q) = true).
    { unfold s3, kill_q. change (q_shut (heap s2 q)) with (q_shut (heap s q)). rewrite Hshut.
      pose proof (put_event_Mild q EKill s2) as F. ssimpl. rewrite fupd_eq.
      rewrite (f_queues F), (f_rtasks F), (f_bound F), (f_subs F), (f_cache F), (f_clock F).
      splits; auto. }
    destruct Hctl3 as (Eq3 & Er3 & Eb3 & Es3 & Ec3 & Ecl3 & Hshut3).
    (* deregister *)
    assert (Hnil : forall bb r, In r (@nil nat) -> k < r /\ r < bb) by (intros bb r Hr; destruct Hr).
    unfold deregister.
    rewrite (subscribe_only_to_eq (run := None)) by auto.
    set (s4 := sub_result k [] s3).
    assert (HM4 : M None s4) by (apply sub_result_M; auto).
    assert (HK4 : forall k', k' <> k -> KInv s4 k') by (intros; apply sub_result_K; auto).
    change (queues s4 k) with (queues s3 k). rewrite Eq3, Hq.
    assert (Ek4 : kill_q q s4 = s4).
    { unfold kill_q. change (q_shut (heap s4 q)) with (q_shut (heap s3 q)). now rewrite Hshut3. }
    rewrite Ek4. fold (unregister k q s4).
    set (s5 := unregister k q s4).
    assert (HM5 : M None s5) by (apply unregister_M; auto).
    assert (HK5 : forall k', k' <> k -> KInv s5 k').
    { intros k' Hk'. apply (unregister_K (run := None)); auto.
      change (queues s4 k) with (queues s3 k). now rewrite Eq3. }
    pose proof (notify_Mild k (clock s1) s5) as F.
    set (s6 := notify k (clock s1) s5) in *.
    assert (HM6 : M None (bump k s6)).
    { apply bump_M, notify_M; auto. unfold s5, unregister, s4, sub_result. ssimpl. rewrite Ecl3. auto. }
    assert (HK6 : forall k', k' <> k -> KInv (bump k s6) k') by (intros; apply bump_K, notify_K; auto).
    assert (Ec6 : cache (bump k s6) k = None).
    { ssimpl. rewrite (f_cache F). unfold s5, unregister, s4, sub_result. ssimpl.
      rewrite Ec3. unfold s2. ssimpl. apply fupd_eq. }
    assert (Eq6 : queues (bump k s6) k = None).
    { ssimpl. rewrite (f_queues F). unfold s5, unregister. ssimpl. apply fupd_eq. }
    assert (Es6 : subs (bump k s6) k = []).
    { ssimpl. rewrite (f_subs F). unfold s5, unregister, s4, sub_result. ssimpl. apply fupd_eq. }
    assert (Er6 : rtasks (bump k s6) = rtasks s).
    { ssimpl. rewrite (f_rtasks F). unfold s5, unregister, s4, sub_result. ssimpl. auto. }
    destruct (rtasks (bump k s6) k) as [tid | ] eqn:Hr.
    - split; [apply popcancel_M; auto | ].
      intros k'. destruct (Nat.eq_dec k' k) as [-> | Hk']; [ | apply popcancel_K; auto].
      pose proof (cancel_frame tid (set_rtasks (fupd (rtasks (bump k s6)) k None) (bump k s6))) as G.
      cbv zeta in G. destruct G as (F1 & F2 & F3 & F4 & F5 & F6 & F7).
      split; [ | split].
      + constructor; rewrite ?F1, ?F2, ?F3, ?F4, ?F5; ssimpl; rewrite ?fupd_eq;
          rewrite ?Ec6, ?Eq6, ?Es6; try congruence.
        all: intros e' E; discriminate.
      + intros q'. rewrite F3. ssimpl. rewrite Eq6. discriminate.
      + intros tid'. rewrite F4. ssimpl. rewrite fupd_eq. discriminate.
    - split; auto.
      intros k'. destruct (Nat.eq_dec k' k) as [-> | Hk']; auto.
      split; [ | split].
      + constructor; rewrite ?Ec6, ?Eq6, ?Es6, ?Hr; try congruence.
        all: intros e' E; discriminate.
      + intros q'. rewrite Eq6. discriminate.
      + intros tid'. rewrite Hr. discriminate.
  Qed.
