(* Loop_proofs.v — proofs about model/Loop.v (property C16).

   Structure:
     1. helpers (fupd, finite sets as lists)
     2. the invariants: [M] (plumbing: handles / tasks / queues / graph / times),
        [KInv] (per key: cache entry <-> queue, subscriptions, watcher task)
     3. frame lemmas: which fields each operation leaves alone
     4. preservation of M / KInv by the micro-operations
     5. preservation by Offer / Delete / the three kinds of handles / Yield
     6. the pending-event invariant and coherence when idle
     7. progress *)
From Coq Require Import List Arith Bool Lia Permutation.
From Koreo Require Import Loop.
Import ListNotations.
Local Open Scope nat_scope.
Local Open Scope list_scope.

Set Implicit Arguments.

(* ------------------------------------------------------------------ helpers *)

Lemma fupd_eq : forall A (f : nat -> A) k v, fupd f k v k = v.
Proof. intros. unfold fupd. now rewrite Nat.eqb_refl. Qed.

Lemma fupd_neq : forall A (f : nat -> A) k v x, x <> k -> fupd f k v x = f x.
Proof. intros. unfold fupd. destruct (Nat.eqb_spec x k); congruence. Qed.

Lemma fupd_cases : forall A (f : nat -> A) k v x,
  (x = k /\ fupd f k v x = v) \/ (x <> k /\ fupd f k v x = f x).
Proof. intros. unfold fupd. destruct (Nat.eqb_spec x k); auto. Qed.

Ltac fupd_case x k :=
  let E := fresh "E" in
  destruct (Nat.eq_dec x k) as [E | E];
  [ try subst; rewrite ?fupd_eq in * | rewrite ?(fupd_neq _ _ E) in * ].

Lemma memb_In : forall x l, memb x l = true <-> In x l.
Proof.
  intros. unfold memb. rewrite existsb_exists. split.
  - intros (y & Hy & E). apply Nat.eqb_eq in E. now subst.
  - intros H. exists x. split; auto. apply Nat.eqb_refl.
Qed.

Lemma memb_false : forall x l, memb x l = false <-> ~ In x l.
Proof.
  intros. rewrite <- memb_In. destruct (memb x l); split; congruence.
Qed.

Lemma memb_spec : forall x l, reflect (In x l) (memb x l).
Proof.
  intros. destruct (memb x l) eqn:E; constructor.
  - now apply memb_In.
  - now apply memb_false.
Qed.

Lemma set_add_In : forall x y l, In y (set_add x l) <-> y = x \/ In y l.
Proof.
  intros. unfold set_add. destruct (memb x l) eqn:E.
  - apply memb_In in E. split; auto. intros [-> | ]; auto.
  - simpl. split; intros [ | ]; auto.
Qed.

Lemma set_add_NoDup : forall x l, NoDup l -> NoDup (set_add x l).
Proof.
  intros. unfold set_add. destruct (memb x l) eqn:E; auto.
  apply memb_false in E. now constructor.
Qed.

Lemma set_remove_In : forall x y l, In y (set_remove x l) <-> y <> x /\ In y l.
Proof.
  intros. unfold set_remove. rewrite filter_In.
  destruct (Nat.eqb_spec y x); simpl; split; intros; try tauto.
  destruct H; discriminate.
Qed.

Lemma set_remove_NoDup : forall x l, NoDup l -> NoDup (set_remove x l).
Proof. intros. unfold set_remove. now apply NoDup_filter. Qed.

Lemma dedup_In : forall x l, In x (dedup l) <-> In x l.
Proof. intros. unfold dedup. apply nodup_In. Qed.

Lemma dedup_NoDup : forall l, NoDup (dedup l).
Proof. intros. unfold dedup. apply NoDup_nodup. Qed.

Lemma dedup_nil_inv : forall l, dedup l = [] -> l = [].
Proof.
  intros [ | x l] H; auto. exfalso.
  assert (In x (dedup (x :: l))) by (apply dedup_In; now left).
  rewrite H in H0. destruct H0.
Qed.

(* --------------------------------------------------------------- invariants *)

Notation status s tid := (t_status (tasks s tid)).

(* [tid] is the re-preparer that _REPREPARE_TASKS holds for its resource *)
Definition cur (s : state) (tid : nat) : Prop := rtasks s (t_key (tasks s tid)) = Some tid.

Definition cached (s : state) (k : nat) : Prop := cache s k <> None.

(* plumbing; [run] is the task being stepped right now, if any *)
Record M (run : option nat) (s : state) : Prop := {
  m_err : err s = None;
  m_nodup : NoDup (ready s);
  m_start : forall tid, In (HStart tid) (ready s) <-> status s tid = TNew;
  m_wake : forall tid, In (HWake tid) (ready s) <-> status s tid = TWoken;
  m_donecb : forall tid, In (HDoneCb tid) (ready s) -> tid < nt s /\ status s tid = TDone;
  m_running : forall tid, status s tid = TRunning <-> run = Some tid;
  m_fresh : forall tid, nt s <= tid -> tasks s tid = dummy_task;
  m_getter : forall q g, q_getter (heap s q) = Some g <->
                         (status s g = TWaiting /\ t_queue (tasks s g) = Some q);
  m_qid : forall k q, queues s k = Some q -> q < nq s;
  m_qinj : forall k k' q, queues s k = Some q -> queues s k' = Some q -> k = k';
  m_tq : forall tid q, t_queue (tasks s tid) = Some q -> q < nq s;
  m_wait_empty : forall tid q, status s tid = TWaiting -> t_queue (tasks s tid) = Some q ->
                               q_items (heap s q) = [];
  m_rt : forall k tid, rtasks s k = Some tid -> tid < nt s /\ t_key (tasks s tid) = k;
  m_noncur : forall tid, ~ cur s tid ->
             status s tid = TDone \/
             (t_cancel (tasks s tid) = true /\ (status s tid = TNew \/ status s tid = TWoken));
  m_inverse : forall k r, In r (subs s k) <-> In k (rsubs s r);
  m_rs_nodup : forall r, NoDup (rsubs s r);
  m_upward : forall k r, In r (subs s k) -> k < r /\ r < bound s;
  m_ptime : forall k p, ptimes s k = Some p -> p <= clock s;
  m_etime : forall q n t, In (ERes n t) (q_items (heap s q)) -> t <= clock s;
  m_wait_q : forall tid, status s tid = TWaiting -> t_queue (tasks s tid) <> None
}.

(* per key, part 1: what depends only on the dicts *)
Record KC (s : state) (k : nat) : Prop := {
  k_cq : cache s k <> None -> queues s k <> None;
  k_noleak : queues s k <> None -> cache s k <> None;
  k_subs : subs s k = match cache s k with Some e => dedup (c_deps e) | None => [] end;
  k_seen : forall e, cache s k = Some e -> map fst (c_seen e) = c_deps e;
  k_pt : cache s k <> None -> ptimes s k <> None;
  k_need : forall e, cache s k = Some e -> c_deps e <> [] -> rtasks s k <> None;
  k_own : rtasks s k <> None -> cache s k <> None
}.

(* part 2: the registered queue is alive *)
Definition Klive (s : state) (k : nat) : Prop :=
  forall q, queues s k = Some q ->
  q_shut (heap s q) = false /\ ~ In EKill (q_items (heap s q)).

(* part 3: the watcher task is alive and, once started, reads the registered queue *)
Definition Ktask (s : state) (k : nat) : Prop :=
  forall tid, rtasks s k = Some tid ->
  t_cancel (tasks s tid) = false /\ status s tid <> TDone /\
  (status s tid <> TNew -> t_queue (tasks s tid) = queues s k).

Definition KInv (s : state) (k : nat) : Prop := KC s k /\ Klive s k /\ Ktask s k.

Definition Inv (run : option nat) (s : state) : Prop := M run s /\ forall k, KInv s k.

Arguments fupd : simpl never.

Ltac ssimpl :=
  cbn [cache subs rsubs queues heap nq tasks nt rtasks ptimes clock ready gens bound err
       set_cache set_subs set_rsubs set_queues set_heap set_nq set_tasks set_nt set_rtasks
       set_ptimes set_clock set_ready set_gens set_bound upd_task upd_queue call_soon tick
       bump raise_bound
       q_items q_shut q_getter t_key t_queue t_status t_cancel t_cancelled
       with_status with_cancel with_queue ended] in *.

Ltac splits := repeat match goal with |- _ /\ _ => split end.

Lemma in_snoc : forall A (x y : A) l, In x (l ++ [y]) <-> In x l \/ x = y.
Proof. intros. rewrite in_app_iff. simpl. intuition. Qed.

Lemma NoDup_snoc : forall A (y : A) l, NoDup l -> ~ In y l -> NoDup (l ++ [y]).
Proof.
  induction l as [ | a l IH]; simpl; intros Hn Hy.
  - constructor; auto.
  - inversion Hn; subst. constructor.
    + rewrite in_snoc. intros [ | ->]; tauto.
    + apply IH; auto.
Qed.

(* ------------------------------------------------------------- wake / put *)

Lemma put_event_M : forall run s q e,
  M run s -> (forall n t, e = ERes n t -> t <= clock s) ->
  M run (put_event q e s).
Proof.
  intros run s q e HM He. unfold put_event.
  destruct (q_shut (heap s q)) eqn:Hshut; auto.
  destruct (q_getter (heap s q)) as [g | ] eqn:Hget.
  - (* a getter is woken *)
    pose proof (proj1 (m_getter HM q g) Hget) as [Hst Hq].
    unfold wake. ssimpl. rewrite Hst.
    destruct HM. constructor; ssimpl; auto.
    + apply NoDup_snoc; auto. rewrite m_wake0. rewrite Hst. discriminate.
    + intros tid. rewrite in_snoc. ssimpl.
      fupd_case tid g; ssimpl.
      * rewrite m_start0, Hst. split; [intros [ | ]|]; discriminate.
      * rewrite m_start0. split; [intros [ | ]|]; auto; discriminate.
    + intros tid. rewrite in_snoc. ssimpl.
      fupd_case tid g; ssimpl.
      * split; auto.
      * rewrite m_wake0. split; [intros [ | ]|]; auto. congruence.
    + intros tid. rewrite in_snoc. ssimpl.
      intros [H | H]; [ | discriminate]. apply m_donecb0 in H. destruct H as [H1 H].
      split; auto. fupd_case tid g; ssimpl; auto. congruence.
    + intros tid. ssimpl. fupd_case tid g; ssimpl; auto.
      rewrite <- m_running0, Hst. split; discriminate.
    + intros tid Hge. fupd_case tid g; auto.
      rewrite (m_fresh0 _ Hge) in Hst. discriminate.
    + intros q' g'. ssimpl.
      fupd_case q' q; ssimpl; fupd_case g' g; ssimpl.
      * split; [discriminate | intros []; discriminate].
      * split; [discriminate | ]. intros [H1 H2].
        assert (q_getter (heap s q) = Some g') by (apply m_getter0; auto). congruence.
      * rewrite m_getter0, Hst. split; intros [H1 H2]; congruence.
      * apply m_getter0.
    + intros tid q'. fupd_case tid g; ssimpl; eauto.
    + intros tid q'. ssimpl.
      fupd_case tid g; ssimpl; [discriminate | ].
      intros H1 H2. fupd_case q' q; ssimpl; eauto.
      assert (q_getter (heap s q) = Some tid) by (apply m_getter0; auto). congruence.
    + intros k tid H. fupd_case tid g; ssimpl; eauto.
    + intros tid. unfold cur in *. ssimpl.
      fupd_case tid g; ssimpl; auto.
      intros Hc. destruct (m_noncur0 g Hc) as [H | [_ [H | H]]]; congruence.
    + intros q' n t. fupd_case q' q; ssimpl; eauto.
      intros [H | H]; eauto.
    + intros tid. fupd_case tid g; ssimpl; auto.
  - (* nobody waits *)
    destruct HM. constructor; ssimpl; auto.
    + intros q' g'. fupd_case q' q; ssimpl; auto.
      split; [discriminate | ]. intros H. apply m_getter0 in H. congruence.
    + intros tid q' H1 H2. fupd_case q' q; ssimpl; eauto.
      assert (q_getter (heap s q) = Some tid) by (apply m_getter0; auto). congruence.
    + intros q' n t. fupd_case q' q; ssimpl; eauto.
      intros [H | H]; eauto.
Qed.

(* [s'] differs from [s] only by events [e] pushed on queues that are not shut
   down and by getters woken (TWaiting -> TWoken, wake-up handle appended) *)
Record Mild (e : event) (s s' : state) : Prop := {
  f_cache : cache s' = cache s;
  f_subs : subs s' = subs s;
  f_rsubs : rsubs s' = rsubs s;
  f_queues : queues s' = queues s;
  f_nq : nq s' = nq s;
  f_nt : nt s' = nt s;
  f_rtasks : rtasks s' = rtasks s;
  f_ptimes : ptimes s' = ptimes s;
  f_clock : clock s' = clock s;
  f_gens : gens s' = gens s;
  f_bound : bound s' = bound s;
  f_err : err s' = err s;
  f_shut : forall q, q_shut (heap s' q) = q_shut (heap s q);
  f_items_mono : forall q x, In x (q_items (heap s q)) -> In x (q_items (heap s' q));
  f_items_new : forall q x, In x (q_items (heap s' q)) ->
                In x (q_items (heap s q)) \/ (x = e /\ q_shut (heap s q) = false);
  f_key : forall tid, t_key (tasks s' tid) = t_key (tasks s tid);
  f_tq : forall tid, t_queue (tasks s' tid) = t_queue (tasks s tid);
  f_cancel : forall tid, t_cancel (tasks s' tid) = t_cancel (tasks s tid);
  f_status : forall tid, status s' tid = status s tid \/
                         (status s tid = TWaiting /\ status s' tid = TWoken)
}.

Lemma Mild_refl : forall e s, Mild e s s.
Proof. intros. constructor; auto. Qed.

Lemma Mild_trans : forall e s1 s2 s3, Mild e s1 s2 -> Mild e s2 s3 -> Mild e s1 s3.
Proof.
  intros e s1 s2 s3 A B. constructor; intros.
  1-12: (destruct A, B; congruence).
  - rewrite (f_shut B), (f_shut A); auto.
  - apply (f_items_mono B), (f_items_mono A); auto.
  - apply (f_items_new B) in H. destruct H as [H | [H1 H2]].
    + apply (f_items_new A) in H. auto.
    + right. split; auto. now rewrite <- (f_shut A).
  - rewrite (f_key B), (f_key A); auto.
  - rewrite (f_tq B), (f_tq A); auto.
  - rewrite (f_cancel B), (f_cancel A); auto.
  - destruct (f_status B tid) as [H | [H1 H2]], (f_status A tid) as [H' | [H1' H2']];
      try (left; congruence); right; split; congruence.
Qed.

Lemma put_event_Mild : forall q e s, Mild e s (put_event q e s).
Proof.
  intros. unfold put_event.
  destruct (q_shut (heap s q)) eqn:Hshut; [apply Mild_refl | ].
  destruct (q_getter (heap s q)) as [g | ].
  - unfold wake. ssimpl.
    destruct (t_status (tasks s g)) eqn:Hst;
      (constructor; ssimpl; auto; intros;
       try (fupd_case q0 q; ssimpl; simpl in *; intuition (auto; congruence));
       try (fupd_case tid g; ssimpl; auto)).
  - constructor; ssimpl; auto; intros;
      try (fupd_case q0 q; ssimpl; simpl in *; intuition (auto; congruence)).
Qed.

Lemma put_event_delivers : forall q e s,
  q_shut (heap s q) = false -> In e (q_items (heap (put_event q e s) q)).
Proof.
  intros. unfold put_event. rewrite H.
  destruct (q_getter (heap s q)) as [g | ].
  - unfold wake. destruct (t_status _); ssimpl; rewrite fupd_eq; simpl; auto.
  - ssimpl. rewrite fupd_eq. simpl; auto.
Qed.

Definition puts (e : event) (l : list nat) (s : state) : state :=
  fold_left (fun st q => put_event q e st) l s.

Lemma puts_Mild : forall e l s, Mild e s (puts e l s).
Proof.
  induction l as [ | q l IH]; intros; simpl.
  - apply Mild_refl.
  - eapply Mild_trans; [apply put_event_Mild | apply IH].
Qed.

Lemma puts_M : forall run e l s,
  M run s -> (forall n t, e = ERes n t -> t <= clock s) -> M run (puts e l s).
Proof.
  induction l as [ | q l IH]; intros; simpl; auto.
  apply IH.
  - apply put_event_M; auto.
  - rewrite (f_clock (put_event_Mild q e s)). auto.
Qed.

Lemma puts_delivers : forall e l s q,
  In q l -> q_shut (heap s q) = false -> In e (q_items (heap (puts e l s) q)).
Proof.
  induction l as [ | q' l IH]; intros s q Hin Hs; simpl in *; [tauto | ].
  destruct Hin as [-> | Hin].
  - apply (f_items_mono (puts_Mild e l _)). now apply put_event_delivers.
  - apply IH; auto. now rewrite (f_shut (put_event_Mild q' e s)).
Qed.

(* the per-key invariants survive mild changes, unless a Kill was pushed *)
Lemma Mild_KC : forall e s s' k, Mild e s s' -> KC s k -> KC s' k.
Proof.
  intros e s s' k F K. destruct K. destruct F.
  constructor; rewrite ?f_cache0, ?f_queues0, ?f_subs0, ?f_rtasks0, ?f_ptimes0; auto.
Qed.

Lemma Mild_Klive : forall e s s' k, Mild e s s' -> e <> EKill -> Klive s k -> Klive s' k.
Proof.
  intros e s s' k F He K q Hq. rewrite (f_queues F) in Hq.
  destruct (K _ Hq) as [H1 H2]. rewrite (f_shut F). split; auto.
  intros H. apply (f_items_new F) in H. destruct H as [H | [H _]]; auto.
Qed.

Lemma Mild_Ktask : forall e s s' k, Mild e s s' -> Ktask s k -> Ktask s' k.
Proof.
  intros e s s' k F K tid H. rewrite (f_rtasks F) in H.
  destruct (K _ H) as (H2 & H3 & H4).
  rewrite (f_cancel F), (f_tq F), (f_queues F). repeat split; auto.
  - destruct (f_status F tid) as [E | [E1 E2]]; congruence.
  - intros Hs. apply H4. destruct (f_status F tid) as [E | [E1 E2]]; congruence.
Qed.

Lemma Mild_K : forall e s s' k, Mild e s s' -> e <> EKill -> KInv s k -> KInv s' k.
Proof.
  intros e s s' k F He (A & B & C). split; [ | split].
  - eapply Mild_KC; eauto.
  - eapply Mild_Klive; eauto.
  - eapply Mild_Ktask; eauto.
Qed.

(* ------------------------------------------------------- subscribe_only_to *)

Lemma check_cycles_ok : forall (sr : nat -> list nat) B sb,
  (forall k r, In r (sr k) -> k < r /\ r < B) ->
  forall fuel lo to_check,
  (forall x, In x to_check -> lo <= x /\ x < B /\ sb < x) ->
  B - lo < fuel ->
  check_cycles fuel sr sb to_check = Some false.
Proof.
  intros sr B sb Hup. induction fuel as [ | f IH]; intros lo tc Htc Hf; [lia | ].
  simpl. destruct tc as [ | a tc']; auto.
  destruct (memb sb (a :: tc')) eqn:Hm.
  - apply memb_In in Hm. apply Htc in Hm. lia.
  - apply IH with (lo := S lo).
    + intros x Hx. rewrite dedup_In in Hx. apply in_flat_map in Hx.
      destruct Hx as (c & Hc & Hx). apply Htc in Hc. apply Hup in Hx. lia.
    + assert (lo < B) by (specialize (Htc a (or_introl eq_refl)); lia). lia.
Qed.

Definition sub_result (sb : nat) (rs : list nat) (s : state) : state :=
  let new := dedup rs in
  let current := subs s sb in
  set_subs (fupd (subs s) sb new)
    (set_rsubs (fun r =>
        if memb r new && negb (memb r current) then set_add sb (rsubs s r)
        else if memb r current && negb (memb r new) then set_remove sb (rsubs s r)
        else rsubs s r) s).

Lemma subscribe_only_to_eq : forall run s sb rs,
  M run s -> (forall r, In r rs -> sb < r /\ r < bound s) ->
  subscribe_only_to sb rs s = sub_result sb rs s.
Proof.
  intros run s sb rs HM Hrs. unfold subscribe_only_to.
  rewrite check_cycles_ok with (B := bound s) (lo := 0); auto.
  - apply (m_upward HM).
  - intros x Hx. rewrite dedup_In in Hx. apply Hrs in Hx. lia.
  - lia.
Qed.

Lemma sub_result_M : forall run s sb rs,
  M run s -> (forall r, In r rs -> sb < r /\ r < bound s) ->
  M run (sub_result sb rs s).
Proof.
  intros run s sb rs HM Hrs. destruct HM. unfold sub_result.
  constructor; ssimpl; auto.
  - (* inverse *)
    intros k r.
    destruct (memb_spec r (dedup rs)) as [Hn | Hn];
      destruct (memb_spec r (subs s sb)) as [Hc | Hc]; simpl;
      fupd_case k sb; rewrite ?set_add_In, ?set_remove_In, <- ?m_inverse0; try tauto.
  - intros r.
    destruct (memb r (dedup rs) && negb (memb r (subs s sb))); [now apply set_add_NoDup | ].
    destruct (memb r (subs s sb) && negb (memb r (dedup rs))); [now apply set_remove_NoDup | auto].
  - intros k r. fupd_case k sb; auto. rewrite dedup_In. auto.
Qed.

Lemma sub_result_K : forall s sb rs k, k <> sb -> KInv s k -> KInv (sub_result sb rs s) k.
Proof.
  intros s sb rs k Hk (A & B & C). unfold sub_result. split; [ | split].
  - destruct A. constructor; ssimpl; auto. now rewrite fupd_neq.
  - exact B.
  - exact C.
Qed.

(* --------------------------------------------------- simple field updates *)

Lemma tick_M : forall run s, M run s -> M run (tick s).
Proof.
  intros run s HM. destruct HM. constructor; ssimpl; auto.
  - intros k p H. apply m_ptime0 in H. lia.
  - intros q n t H. apply m_etime0 in H. lia.
Qed.

Lemma KC_same : forall s s' k,
  cache s' k = cache s k -> queues s' k = queues s k -> subs s' k = subs s k ->
  ptimes s' k = ptimes s k -> rtasks s' k = rtasks s k -> KC s k -> KC s' k.
Proof.
  intros s s' k E1 E2 E3 E4 E5 K. destruct K.
  constructor; rewrite ?E1, ?E2, ?E3, ?E4, ?E5; auto.
Qed.

Lemma tick_K : forall s k, KInv s k -> KInv (tick s) k.
Proof.
  intros s k (A & B & C). split; [ | split]; [ | exact B | exact C].
  apply KC_same with (s := s); auto.
Qed.

Lemma raise_bound_K : forall k' deps s k, KInv s k -> KInv (raise_bound k' deps s) k.
Proof.
  intros k' deps s k (A & B & C). split; [ | split]; [ | exact B | exact C].
  apply KC_same with (s := s); auto.
Qed.

Lemma raise_bound_M : forall run k deps s, M run s -> M run (raise_bound k deps s).
Proof.
  intros run k deps s HM. destruct HM. unfold raise_bound. constructor; ssimpl; auto.
  intros k' r H. apply m_upward0 in H. lia.
Qed.

Lemma raise_bound_deps : forall k deps s r,
  In r (k :: deps) -> r < bound (raise_bound k deps s).
Proof.
  intros. unfold raise_bound. ssimpl.
  pose proof (list_max_le (k :: deps) (list_max (k :: deps))) as [H1 _].
  specialize (H1 (le_n _)). rewrite Forall_forall in H1. apply H1 in H. lia.
Qed.

Lemma puts_other : forall e l s q, ~ In q l -> heap (puts e l s) q = heap s q.
Proof.
  induction l as [ | q' l IH]; intros s q Hn; simpl in *; auto.
  rewrite IH by tauto.
  unfold put_event. destruct (q_shut (heap s q')); auto.
  assert (q <> q') by (intros ->; tauto).
  destruct (q_getter (heap s q')) as [g | ].
  - unfold wake. destruct (t_status _); ssimpl; now rewrite fupd_neq.
  - ssimpl. now rewrite fupd_neq.
Qed.

Section WithOrd.
  Variable ord : nat -> list nat -> list nat.
  Hypothesis ord_perm : forall t l, Permutation (ord t l) l.

  Notation notify := (notify ord).
  Notation register := (register ord).
  Notation deregister := (deregister ord).
  Notation handle_notifications := (handle_notifications ord).
  Notation offer := (offer ord).
  Notation delete := (delete ord).
  Notation reprepare := (reprepare ord).
  Notation monitor_loop := (monitor_loop ord).
  Notation monitor := (monitor ord).
  Notation run_handle := (run_handle ord).
  Notation run_handles := (run_handles ord).
  Notation yield := (yield ord).
  Notation step := (step ord).
  Notation run := (run ord).

  Lemma notify_puts : forall n t s,
    notify n t s = puts (ERes n t) (active_queues ord n t s) s.
  Proof. reflexivity. Qed.

  Lemma notify_Mild : forall n t s, Mild (ERes n t) s (notify n t s).
  Proof. intros. rewrite notify_puts. apply puts_Mild. Qed.

  Lemma notify_M : forall run n t s, M run s -> t <= clock s -> M run (notify n t s).
  Proof.
    intros. rewrite notify_puts. apply puts_M; auto. intros n' t' E. inversion E; subst; auto.
  Qed.

  Lemma notify_K : forall n t s k, KInv s k -> KInv (notify n t s) k.
  Proof. intros. eapply Mild_K; eauto using notify_Mild. discriminate. Qed.

  Lemma active_queues_In : forall n t s q,
    In q (active_queues ord n t s) <-> exists r, In r (rsubs s n) /\ queues s r = Some q.
  Proof.
    intros. unfold active_queues. rewrite in_flat_map. split.
    - intros (r & Hr & Hq). exists r. split.
      + eapply Permutation_in; eauto.
      + destruct (queues s r); simpl in Hq; [ | tauto]. destruct Hq; [congruence | tauto].
    - intros (r & Hr & Hq). exists r. split.
      + eapply Permutation_in; [apply Permutation_sym; apply ord_perm | auto].
      + rewrite Hq. simpl. auto.
  Qed.

  (* every subscriber with a live queue gets the event *)
  Lemma notify_delivers : forall n t s r q,
    In r (rsubs s n) -> queues s r = Some q -> q_shut (heap s q) = false ->
    In (ERes n t) (q_items (heap (notify n t s) q)).
  Proof.
    intros. rewrite notify_puts. apply puts_delivers; auto.
    apply active_queues_In. eauto.
  Qed.

  (* a queue that belongs to no subscriber is left alone *)
  Lemma notify_other : forall n t s q,
    (forall r, In r (rsubs s n) -> queues s r <> Some q) ->
    heap (notify n t s) q = heap s q.
  Proof.
    intros. rewrite notify_puts. apply puts_other.
    rewrite active_queues_In. intros (r & Hr & Hq). eapply H; eauto.
  Qed.


  (* ----------------------------------------------------------- register *)

  Definition alloc (k : nat) (s : state) : state :=
    set_nq (S (nq s)) (set_heap (fupd (heap s) (nq s) new_queue)
                         (set_queues (fupd (queues s) k (Some (nq s))) s)).

  Lemma alloc_M : forall run k s, M run s -> M run (alloc k s).
  Proof.
    intros run k s HM. destruct HM. unfold alloc. constructor; ssimpl; auto.
    - intros q g. fupd_case q (nq s); auto. simpl. split; [discriminate | ].
      intros [_ H]. apply m_tq0 in H. lia.
    - intros k' q. fupd_case k' k.
      + intros H; inversion H; lia.
      + intros H. apply m_qid0 in H. lia.
    - intros k1 k2 q. fupd_case k1 k; fupd_case k2 k; auto.
      + intros H1 H2. inversion H1; subst. apply m_qid0 in H2. lia.
      + intros H1 H2. inversion H2; subst. apply m_qid0 in H1. lia.
      + apply m_qinj0.
    - intros tid q H. apply m_tq0 in H. lia.
    - intros tid q H1 H2. pose proof (m_tq0 _ _ H2). rewrite fupd_neq by lia. eauto.
    - intros q n t. fupd_case q (nq s); eauto. simpl. tauto.
  Qed.

  Lemma alloc_K : forall run k s k', M run s -> k' <> k -> KInv s k' -> KInv (alloc k s) k'.
  Proof.
    intros run k s k' HM Hk (A & B & C). unfold alloc. split; [ | split].
    - destruct A. constructor; ssimpl; rewrite ?fupd_neq by auto; auto.
    - intros q. ssimpl. rewrite fupd_neq by auto. intros Hq.
      pose proof (m_qid HM _ Hq). rewrite fupd_neq by lia. auto.
    - intros tid. ssimpl. rewrite fupd_neq by auto. auto.
  Qed.

  (* what register does to the resource itself and to everybody else *)
  Lemma register_spec : forall run k s,
    M run s -> (forall k', KInv s k') ->
    let (q, s') := register k s in
    M run s' /\ (forall k', k' <> k -> KInv s' k') /\
    queues s' k = Some q /\ Klive s' k /\ Ktask s' k /\
    cache s' = cache s /\ subs s' = subs s /\ rsubs s' = rsubs s /\ rtasks s' = rtasks s /\
    ptimes s' = ptimes s /\ gens s' = gens s /\ bound s' = bound s /\
    clock s <= clock s' /\ (queues s k <> None -> s' = s).
  Proof.
    intros run k s HM HK. unfold register.
    destruct (queues s k) as [q | ] eqn:Hq.
    - destruct (HK k) as (A & B & C). splits; auto; try apply HK.
    - fold (alloc k s).
      set (s1 := tick (alloc k s)).
      assert (HM1 : M run s1) by (apply tick_M, alloc_M; auto).
      pose proof (notify_Mild k (clock s1) s1) as F.
      split; [apply notify_M; auto | ].
      split.
      { intros k' Hk'. apply notify_K. apply tick_K. apply (alloc_K (run := run)); auto. }
      rewrite (f_queues F), (f_cache F), (f_subs F), (f_rsubs F), (f_rtasks F),
        (f_ptimes F), (f_gens F), (f_bound F), (f_clock F).
      unfold s1, alloc. ssimpl. rewrite fupd_eq.
      splits; auto; try congruence.
      + (* live *)
        eapply Mild_Klive; eauto; [discriminate | ].
        intros q. unfold s1, alloc. ssimpl. rewrite fupd_eq. intros E; inversion E; subst.
        rewrite fupd_eq. simpl. auto.
      + (* task: there is none *)
        eapply Mild_Ktask; eauto.
        intros tid. unfold s1, alloc. ssimpl. intros Ht.
        destruct (HK k) as (A & _ & _).
        exfalso. apply (k_cq A); auto. apply (k_own A). congruence.
  Qed.

  (* -------------------------------------------------------- create_task *)

  Lemma create_task_M : forall run k s,
    M run s -> rtasks s k = None -> M run (create_task k s).
  Proof.
    intros run k s HM Hr. destruct HM. unfold create_task.
    assert (Hd : tasks s (nt s) = dummy_task) by (apply m_fresh0; lia).
    constructor; ssimpl; auto.
    - apply NoDup_snoc; auto. rewrite m_start0, Hd. discriminate.
    - intros tid. rewrite in_snoc. fupd_case tid (nt s); ssimpl.
      + split; auto.
      + rewrite m_start0. split; [intros [ | H] | ]; auto. inversion H; congruence.
    - intros tid. rewrite in_snoc. fupd_case tid (nt s); ssimpl.
      + rewrite m_wake0, Hd. simpl. split; [intros [ | ] | ]; discriminate.
      + rewrite m_wake0. split; [intros [ | ] | ]; auto. discriminate.
    - intros tid. rewrite in_snoc. intros [H | H]; [ | discriminate].
      apply m_donecb0 in H. destruct H. rewrite fupd_neq by lia. split; auto.
    - intros tid. fupd_case tid (nt s); ssimpl; auto.
      rewrite <- m_running0, Hd. simpl. split; discriminate.
    - intros tid Hge. rewrite fupd_neq by lia. apply m_fresh0. lia.
    - intros q g. fupd_case g (nt s); ssimpl; auto.
      rewrite m_getter0, Hd. simpl. split; intros [? ?]; discriminate.
    - intros tid q. fupd_case tid (nt s); ssimpl; eauto. discriminate.
    - intros tid q. fupd_case tid (nt s); ssimpl; eauto. discriminate.
    - intros k' tid. fupd_case k' k.
      + intros H. inversion H; subst. rewrite fupd_eq. simpl. auto.
      + intros H. destruct (m_rt0 _ _ H). rewrite fupd_neq by lia. split; auto.
    - intros tid. unfold cur in *. ssimpl. fupd_case tid (nt s); ssimpl.
      + tauto.
      + intros Hc. apply m_noncur0. intros Hc'. apply Hc.
        fupd_case (t_key (tasks s tid)) k; auto. congruence.
    - intros tid. fupd_case tid (nt s); ssimpl; auto. discriminate.
  Qed.

  Lemma create_task_K : forall run k s k',
    M run s -> k' <> k -> KInv s k' -> KInv (create_task k s) k'.
  Proof.
    intros run k s k' HM Hk (A & B & C). unfold create_task. split; [ | split].
    - apply KC_same with (s := s); ssimpl; auto. now rewrite fupd_neq.
    - exact B.
    - intros tid. ssimpl. rewrite fupd_neq by auto. intros H.
      destruct (m_rt HM _ H). rewrite fupd_neq by lia. auto.
  Qed.

  Lemma create_task_Ktask : forall k s, Ktask (create_task k s) k.
  Proof.
    intros k s tid. unfold create_task. ssimpl. rewrite fupd_eq.
    intros H; inversion H; subst. rewrite fupd_eq. simpl.
    splits; auto; try discriminate. congruence.
  Qed.

  (* ------------------------------------------------ _handle_notifications *)

  Lemma bump_M : forall run k s, M run s -> M run (bump k s).
  Proof. intros run k s HM. destruct HM. unfold bump. constructor; ssimpl; auto. Qed.

  Lemma bump_K : forall k s k', KInv s k' -> KInv (bump k s) k'.
  Proof.
    intros k s k' (A & B & C). split; [ | split]; [ | exact B | exact C].
    apply KC_same with (s := s); auto.
  Qed.

  Lemma set_ptimes_M : forall run k p s,
    M run s -> p <= clock s -> M run (set_ptimes (fupd (ptimes s) k (Some p)) s).
  Proof.
    intros run k p s HM Hp. destruct HM. constructor; ssimpl; auto.
    intros k' p'. fupd_case k' k; eauto. intros E; inversion E; subst; auto.
  Qed.

  Lemma hn_Inv : forall run k deps started finished wp s e q,
    M run s -> (forall k', k' <> k -> KInv s k') ->
    cache s k = Some e -> c_deps e = deps -> map fst (c_seen e) = deps ->
    queues s k = Some q -> Klive s k -> Ktask s k ->
    (forall r, In r deps -> k < r /\ r < bound s) ->
    started <= clock s -> finished <= clock s ->
    (wp = true \/ (deps <> [] -> rtasks s k <> None)) ->
    Inv run (handle_notifications k deps started finished wp s).
  Proof.
    intros run k deps started finished wp s e q HM HK Hc Hd Hseen Hq Hlive Htask Hup Hst Hfin Hwp.
    unfold handle_notifications.
    set (s1 := set_ptimes (fupd (ptimes s) k (Some started)) s).
    assert (HM1 : M run s1) by (apply set_ptimes_M; auto).
    rewrite (subscribe_only_to_eq (run := run)) by auto.
    set (s2 := sub_result k deps s1).
    assert (HM2 : M run s2) by (apply sub_result_M; auto).
    pose proof (notify_Mild k finished s2) as F.
    set (s3 := notify k finished s2) in *.
    assert (HM3 : M run (bump k s3)) by (apply bump_M, notify_M; auto).
    assert (HK3 : forall k', k' <> k -> KInv (bump k s3) k').
    { intros k' Hk'. apply bump_K, notify_K, sub_result_K; auto.
      destruct (HK _ Hk') as (A & B & C). split; [ | split]; [ | exact B | exact C].
      apply KC_same with (s := s); auto. unfold s1; ssimpl. now rewrite fupd_neq. }
    assert (Hlive3 : Klive (bump k s3) k).
    { change (Klive s3 k). eapply Mild_Klive; eauto. discriminate. }
    assert (Htask3 : Ktask (bump k s3) k).
    { change (Ktask s3 k). eapply Mild_Ktask; eauto. }
    assert (Ec : cache (bump k s3) k = Some e) by (ssimpl; rewrite (f_cache F); auto).
    assert (Eq : queues (bump k s3) k = Some q) by (ssimpl; rewrite (f_queues F); auto).
    assert (Es : subs (bump k s3) k = dedup deps).
    { ssimpl. rewrite (f_subs F). unfold s2, sub_result. ssimpl. apply fupd_eq. }
    assert (Ep : ptimes (bump k s3) k = Some started).
    { ssimpl. rewrite (f_ptimes F). unfold s2, sub_result, s1. ssimpl. apply fupd_eq. }
    assert (Er : rtasks (bump k s3) k = rtasks s k) by (ssimpl; rewrite (f_rtasks F); auto).
    assert (HKC : (deps <> [] -> rtasks s k <> None) -> KC (bump k s3) k).
    { intros Hn. constructor; rewrite ?Ec, ?Eq, ?Es, ?Ep, ?Er; try congruence.
      all: intros e' E; inversion E; subst; auto. }
    destruct deps as [ | d deps'] eqn:Edeps.
    { split; auto. intros k'. destruct (Nat.eq_dec k' k) as [-> | Hk']; auto.
      split; [ | split]; auto; try (apply HKC; congruence). }
    rewrite <- Edeps in *.
    destruct wp.
    2:{ split; auto. intros k'. destruct (Nat.eq_dec k' k) as [-> | Hk']; auto.
        split; [ | split]; auto; try (apply HKC; destruct Hwp; auto; discriminate). }
    destruct (rtasks (bump k s3) k) as [tid | ] eqn:Ert.
    { split; auto. intros k'. destruct (Nat.eq_dec k' k) as [-> | Hk']; auto.
      split; [ | split]; auto; try (apply HKC; rewrite <- Er; congruence). }
    split; [apply create_task_M; auto | ].
    intros k'. destruct (Nat.eq_dec k' k) as [-> | Hk'].
    - split; [ | split].
      + unfold create_task.
        constructor; ssimpl; rewrite ?fupd_eq, ?Ec, ?Eq, ?Es, ?Ep; try congruence.
        all: intros e' E; inversion E; subst; auto.
      + exact Hlive3.
      + apply create_task_Ktask.
    - apply (create_task_K (run := run)); auto.
  Qed.

  (* ---------------------------------------------------------------- Offer *)

  Lemma set_cache_M : forall run c s, M run s -> M run (set_cache c s).
  Proof. intros run c s HM. destruct HM. constructor; ssimpl; auto. Qed.

  Lemma map_fst_seen_now : forall deps s, map fst (seen_now deps s) = deps.
  Proof.
    intros. unfold seen_now. rewrite map_map. simpl. apply map_id.
  Qed.

  Definition upward_deps (k : nat) (deps : list nat) : Prop := forall d, In d deps -> k < d.

  Lemma offer_Inv : forall run k v deps s,
    Inv run s -> upward_deps k deps -> Inv run (offer k v deps s).
  Proof.
    intros run k v deps s [HM HK] Hup. unfold offer.
    destruct (match cache s k with Some e => c_version e =? v | None => false end); [split; auto | ].
    set (s0 := raise_bound k deps s).
    set (s1 := tick s0).
    assert (HM1 : M run s1) by (apply tick_M, raise_bound_M; auto).
    assert (HK1 : forall k', KInv s1 k') by (intros; apply tick_K, raise_bound_K; auto).
    pose proof (register_spec k HM1 HK1) as R.
    destruct (register k s1) as [q s2]. simpl.
    destruct R as (HM2 & HK2 & Hq & Hlive & Htask & Ec & Es & Ers & Ert & Ept & Eg & Eb & Hclk & _).
    eapply hn_Inv with (q := q).
    - apply set_cache_M, tick_M; eauto.
    - intros k' Hk'. destruct (HK2 _ Hk') as (A & B & C).
      split; [ | split]; [ | exact B | exact C].
      apply KC_same with (s := s2); auto. ssimpl. now rewrite fupd_neq.
    - ssimpl. apply fupd_eq.
    - reflexivity.
    - simpl. apply map_fst_seen_now.
    - exact Hq.
    - exact Hlive.
    - exact Htask.
    - intros r Hr. split; auto. ssimpl. rewrite Eb.
      apply (@raise_bound_deps k deps s r). now right.
    - unfold s1, s0 in *. ssimpl. lia.
    - ssimpl. lia.
    - auto.
  Qed.

  (* --------------------------------------------------------------- Delete *)

  Lemma put_event_other : forall q e s q', q' <> q -> heap (put_event q e s) q' = heap s q'.
  Proof.
    intros. change (put_event q e s) with (puts e [q] s). apply puts_other.
    simpl. intros [ | ]; auto.
  Qed.

  Lemma put_event_getter : forall q e s,
    q_shut (heap s q) = false -> q_getter (heap (put_event q e s) q) = None.
  Proof.
    intros. unfold put_event. rewrite H.
    destruct (q_getter (heap s q)) as [g | ].
    - unfold wake. destruct (t_status _); ssimpl; now rewrite fupd_eq.
    - ssimpl. now rewrite fupd_eq.
  Qed.

  Lemma kill_q_M : forall run q s, M run s -> M run (kill_q q s).
  Proof.
    intros run q s HM. unfold kill_q.
    destruct (q_shut (heap s q)) eqn:Hs; auto.
    assert (HM1 : M run (put_event q EKill s)) by (apply put_event_M; auto; discriminate).
    pose proof (put_event_getter q EKill s Hs) as Hg.
    set (s1 := put_event q EKill s) in *.
    destruct HM1. constructor; ssimpl; auto.
    - intros q' g. fupd_case q' q; ssimpl; auto. rewrite <- m_getter0, Hg. tauto.
    - intros tid q' H1 H2. fupd_case q' q; ssimpl; eauto.
    - intros q' n t. fupd_case q' q; ssimpl; eauto.
  Qed.

  Lemma kill_q_K : forall q s k, queues s k <> Some q -> KInv s k -> KInv (kill_q q s) k.
  Proof.
    intros q s k Hq (A & B & C). unfold kill_q.
    destruct (q_shut (heap s q)) eqn:Hs; [split; auto | ].
    pose proof (put_event_Mild q EKill s) as F.
    split; [ | split].
    - apply KC_same with (s := put_event q EKill s); auto. eapply Mild_KC; eauto.
    - intros q' Hq'. ssimpl. rewrite (f_queues F) in Hq'.
      assert (q' <> q) by congruence.
      rewrite fupd_neq by auto. rewrite put_event_other by auto. auto.
    - change (Ktask (put_event q EKill s) k). eapply Mild_Ktask; eauto.
  Qed.

  Definition unregister (k q : nat) (s : state) : state :=
    upd_queue q (fun Q => mkQ [] (q_shut Q) (q_getter Q))
              (set_queues (fupd (queues s) k None) s).

  Lemma unregister_M : forall run k q s, M run s -> M run (unregister k q s).
  Proof.
    intros run k q s HM. destruct HM. unfold unregister. constructor; ssimpl; auto.
    - intros q' g. fupd_case q' q; ssimpl; auto.
    - intros k' q'. fupd_case k' k; eauto. discriminate.
    - intros k1 k2 q'. fupd_case k1 k; fupd_case k2 k; eauto; discriminate.
    - intros tid q' H1 H2. fupd_case q' q; ssimpl; eauto.
    - intros q' n t. fupd_case q' q; ssimpl; eauto. simpl. tauto.
  Qed.

  Lemma unregister_K : forall run k q s k',
    M run s -> queues s k = Some q -> k' <> k -> KInv s k' -> KInv (unregister k q s) k'.
  Proof.
    intros run k q s k' HM Hq Hk (A & B & C). unfold unregister. split; [ | split].
    - apply KC_same with (s := s); auto. ssimpl. now rewrite fupd_neq.
    - intros q'. ssimpl. rewrite fupd_neq by auto. intros Hq'.
      assert (q' <> q) by (intros ->; apply Hk; eapply (m_qinj HM); eauto).
      rewrite fupd_neq by auto. auto.
    - intros tid. ssimpl. rewrite fupd_neq by auto. auto.
  Qed.

  (* pop the re-preparer from _REPREPARE_TASKS and cancel it *)
  Lemma popcancel_M : forall k tid s,
    M None s -> rtasks s k = Some tid ->
    M None (cancel tid (set_rtasks (fupd (rtasks s) k None) s)).
  Proof.
    intros k tid s HM Hr.
    destruct (m_rt HM _ Hr) as [Hlt Hkey].
    assert (Hnr : status s tid <> TRunning).
    { intros H. apply (m_running HM) in H. discriminate. }
    assert (Hnc : forall tid', tid' <> tid ->
              fupd (rtasks s) k None (t_key (tasks s tid')) <> Some tid' -> ~ cur s tid').
    { intros tid' Hne H Hc. apply H. unfold cur in Hc.
      fupd_case (t_key (tasks s tid')) k; auto. congruence. }
    unfold cancel. ssimpl.
    destruct (t_status (tasks s tid)) eqn:Hst; try congruence.
    - (* TNew *)
      destruct HM. constructor; ssimpl; auto.
      + intros tid'. fupd_case tid' tid; ssimpl; auto; try (rewrite m_start0, Hst; tauto).
      + intros tid'. fupd_case tid' tid; ssimpl; auto; try (rewrite m_wake0, Hst; tauto).
      + intros tid' H. destruct (m_donecb0 _ H). split; auto.
        fupd_case tid' tid; ssimpl; auto.
      + intros tid'. fupd_case tid' tid; ssimpl; auto; try (rewrite <- m_running0, Hst; tauto).
      + intros tid' Hge. rewrite fupd_neq by lia. auto.
      + intros q g. fupd_case g tid; ssimpl; auto; try (rewrite m_getter0, Hst; tauto).
      + intros tid' q. fupd_case tid' tid; ssimpl; eauto.
      + intros tid' q. fupd_case tid' tid; ssimpl; eauto.
      + intros k' tid'. fupd_case k' k; [discriminate | ]. intros H.
        destruct (m_rt0 _ _ H). split; auto. fupd_case tid' tid; ssimpl; auto.
      + intros tid'. unfold cur. ssimpl. fupd_case tid' tid; ssimpl.
        * rewrite Hst. auto.
        * intros Hc. apply m_noncur0. auto.
      + intros tid'. fupd_case tid' tid; ssimpl; auto.
    - (* TWaiting: the getter future is cancelled *)
      destruct (t_queue (tasks s tid)) as [q | ] eqn:Htq;
        [ | exfalso; eapply (m_wait_q HM); eauto ].
      destruct HM. constructor; ssimpl; auto.
      + apply NoDup_snoc; auto. rewrite m_wake0, Hst. discriminate.
      + intros tid'. rewrite in_snoc. fupd_case tid' tid; ssimpl.
        * rewrite m_start0, Hst. split; [intros [ | ] | ]; discriminate.
        * rewrite m_start0. split; [intros [ | ] | ]; auto. discriminate.
      + intros tid'. rewrite in_snoc. fupd_case tid' tid; ssimpl.
        * split; auto.
        * rewrite m_wake0. split; [intros [ | H] | ]; auto. inversion H; congruence.
      + intros tid'. rewrite in_snoc. intros [H | H]; [ | discriminate].
        destruct (m_donecb0 _ H). split; auto.
        fupd_case tid' tid; ssimpl; auto. congruence.
      + intros tid'. fupd_case tid' tid; ssimpl; auto. split; discriminate.
      + intros tid' Hge. rewrite fupd_neq by lia. auto.
      + intros q' g. fupd_case q' q; ssimpl; fupd_case g tid; ssimpl.
        * split; [discriminate | intros []; discriminate].
        * split; [discriminate | ]. intros [H1 H2].
          assert (q_getter (heap s q) = Some g) by (apply m_getter0; auto).
          assert (q_getter (heap s q) = Some tid) by (apply m_getter0; auto). congruence.
        * rewrite m_getter0, Hst. split; intros [H1 H2]; congruence.
        * apply m_getter0.
      + intros tid' q'. fupd_case tid' tid; ssimpl; eauto.
      + intros tid' q'. fupd_case tid' tid; ssimpl; [discriminate | ].
        intros H1 H2. fupd_case q' q; ssimpl; eauto.
      + intros k' tid'. fupd_case k' k; [discriminate | ]. intros H.
        destruct (m_rt0 _ _ H). split; auto. fupd_case tid' tid; ssimpl; auto.
      + intros tid'. unfold cur. ssimpl. fupd_case tid' tid; ssimpl; auto.
      + intros q' n t. fupd_case q' q; ssimpl; eauto.
      + intros tid'. fupd_case tid' tid; ssimpl; auto; try discriminate.
    - (* TWoken *)
      destruct HM. constructor; ssimpl; auto.
      + intros tid'. fupd_case tid' tid; ssimpl; auto; try (rewrite m_start0, Hst; tauto).
      + intros tid'. fupd_case tid' tid; ssimpl; auto; try (rewrite m_wake0, Hst; tauto).
      + intros tid' H. destruct (m_donecb0 _ H). split; auto.
        fupd_case tid' tid; ssimpl; auto.
      + intros tid'. fupd_case tid' tid; ssimpl; auto; try (rewrite <- m_running0, Hst; tauto).
      + intros tid' Hge. rewrite fupd_neq by lia. auto.
      + intros q g. fupd_case g tid; ssimpl; auto; try (rewrite m_getter0, Hst; tauto).
      + intros tid' q. fupd_case tid' tid; ssimpl; eauto.
      + intros tid' q. fupd_case tid' tid; ssimpl; eauto.
      + intros k' tid'. fupd_case k' k; [discriminate | ]. intros H.
        destruct (m_rt0 _ _ H). split; auto. fupd_case tid' tid; ssimpl; auto.
      + intros tid'. unfold cur. ssimpl. fupd_case tid' tid; ssimpl.
        * rewrite Hst. auto.
        * intros Hc. apply m_noncur0. auto.
      + intros tid'. fupd_case tid' tid; ssimpl; auto.
    - (* TDone *)
      destruct HM. constructor; ssimpl; auto.
      + intros k' tid'. fupd_case k' k; [discriminate | ]. auto.
      + intros tid'. unfold cur. ssimpl. destruct (Nat.eq_dec tid' tid) as [-> | Hne]; auto.
  Qed.

  Lemma cancel_frame : forall tid s,
    let s' := cancel tid s in
    cache s' = cache s /\ subs s' = subs s /\ queues s' = queues s /\ rtasks s' = rtasks s /\
    ptimes s' = ptimes s /\
    (forall q, q_items (heap s' q) = q_items (heap s q) /\ q_shut (heap s' q) = q_shut (heap s q)) /\
    (forall tid', tid' <> tid -> tasks s' tid' = tasks s tid').
  Proof.
    intros. unfold s', cancel.
    destruct (t_status (tasks s tid)); ssimpl; splits; auto;
      try (intros tid' Hne; rewrite fupd_neq by auto; reflexivity).
    - destruct (t_queue (tasks s tid)) as [q' | ]; ssimpl; auto.
    - destruct (t_queue (tasks s tid)) as [q' | ]; ssimpl; auto.
    - destruct (t_queue (tasks s tid)) as [q' | ]; ssimpl; auto.
    - destruct (t_queue (tasks s tid)) as [q' | ]; ssimpl; auto.
    - destruct (t_queue (tasks s tid)) as [q' | ]; ssimpl; auto.
    - intros q. destruct (t_queue (tasks s tid)) as [q' | ]; ssimpl; auto.
      destruct (Nat.eq_dec q q') as [-> | Hne]; [rewrite fupd_eq | rewrite fupd_neq by auto]; auto.
    - intros tid' Hne. destruct (t_queue (tasks s tid)) as [q' | ]; ssimpl; now rewrite fupd_neq.
  Qed.

  Lemma popcancel_K : forall k tid s k',
    M None s -> rtasks s k = Some tid -> k' <> k -> KInv s k' ->
    KInv (cancel tid (set_rtasks (fupd (rtasks s) k None) s)) k'.
  Proof.
    intros k tid s k' HM Hr Hk (A & B & C).
    pose proof (cancel_frame tid (set_rtasks (fupd (rtasks s) k None) s)) as F.
    cbv zeta in F. destruct F as (F1 & F2 & F3 & F4 & F5 & F6 & F7).
    split; [ | split].
    - apply KC_same with (s := s); auto; try (rewrite ?F1, ?F2, ?F3, ?F5; reflexivity).
      rewrite F4. ssimpl. now rewrite fupd_neq.
    - intros q. rewrite F3. intros Hq. destruct (F6 q) as [-> ->]. apply B. exact Hq.
    - intros tid'. rewrite F4, F3. ssimpl. rewrite fupd_neq by auto. intros H.
      assert (tid' <> tid).
      { intros ->. destruct (m_rt HM _ H), (m_rt HM _ Hr). congruence. }
      rewrite F7 by auto. apply C. exact H.
  Qed.

  Lemma delete_Inv : forall k s, Inv None s -> Inv None (delete k s).
  Proof.
    intros k s [HM HK]. unfold delete.
    destruct (cache s k) as [e | ] eqn:Hc; [ | split; auto].
    destruct (HK k) as (A & B & C).
    destruct (queues s k) as [q | ] eqn:Hq; [ | exfalso; apply (k_cq A); congruence].
    destruct (B _ Hq) as [Hshut Hnokill].
    set (s1 := tick s).
    set (s2 := set_cache (fupd (cache s1) k None) s1).
    assert (HM2 : M None s2) by (apply set_cache_M, tick_M; auto).
    assert (HK2 : forall k', k' <> k -> KInv s2 k').
    { intros k' Hk'. destruct (HK k') as (A' & B' & C').
      split; [ | split]; [ | exact B' | exact C'].
      apply KC_same with (s := s); auto. unfold s2. ssimpl. now rewrite fupd_neq. }
    unfold kill_resource. change (queues s2 k) with (queues s k). rewrite Hq.
    set (s3 := kill_q q s2).
    assert (HM3 : M None s3) by (apply kill_q_M; auto).
    assert (Hother : forall k', k' <> k -> queues s k' <> Some q).
    { intros k' Hk' H. apply Hk'. eapply (m_qinj HM); eauto. }
    assert (HK3 : forall k', k' <> k -> KInv s3 k').
    { intros k' Hk'. apply kill_q_K; auto. apply Hother; auto. }
    assert (Hctl3 : queues s3 = queues s /\ rtasks s3 = rtasks s /\ bound s3 = bound s /\
                    subs s3 = subs s /\ cache s3 = cache s2 /\ clock s3 = clock s1 /\
                    q_shut (heap s3 q) = true).
    { unfold s3, kill_q. change (q_shut (heap s2 q)) with (q_shut (heap s q)). rewrite Hshut.
      pose proof (put_event_Mild q EKill s2) as F. ssimpl. rewrite fupd_eq.
      rewrite (f_queues F), (f_rtasks F), (f_bound F), (f_subs F), (f_cache F), (f_clock F).
      splits; auto. }
    destruct Hctl3 as (Eq3 & Er3 & Eb3 & Es3 & Ec3 & Ecl3 & Hshut3).
    (* deregister *)
    assert (Hnil : forall bb r, In r (@nil nat) -> k < r /\ r < bb) by (intros bb r Hr; destruct Hr).
    unfold deregister.
    rewrite (subscribe_only_to_eq (run := None)) by auto.
    set (s4 := sub_result k [] s3).
    assert (HM4 : M None s4) by (apply sub_result_M; auto).
    assert (HK4 : forall k', k' <> k -> KInv s4 k') by (intros; apply sub_result_K; auto).
    change (queues s4 k) with (queues s3 k). rewrite Eq3, Hq.
    assert (Ek4 : kill_q q s4 = s4).
    { unfold kill_q. change (q_shut (heap s4 q)) with (q_shut (heap s3 q)). now rewrite Hshut3. }
    rewrite Ek4. fold (unregister k q s4).
    set (s5 := unregister k q s4).
    assert (HM5 : M None s5) by (apply unregister_M; auto).
    assert (HK5 : forall k', k' <> k -> KInv s5 k').
    { intros k' Hk'. apply (unregister_K (run := None)); auto.
      change (queues s4 k) with (queues s3 k). now rewrite Eq3. }
    pose proof (notify_Mild k (clock s1) s5) as F.
    set (s6 := notify k (clock s1) s5) in *.
    assert (HM6 : M None (bump k s6)).
    { apply bump_M, notify_M; auto. unfold s5, unregister, s4, sub_result. ssimpl. rewrite Ecl3. auto. }
    assert (HK6 : forall k', k' <> k -> KInv (bump k s6) k') by (intros; apply bump_K, notify_K; auto).
    assert (Ec6 : cache (bump k s6) k = None).
    { ssimpl. rewrite (f_cache F). unfold s5, unregister, s4, sub_result. ssimpl.
      rewrite Ec3. unfold s2. ssimpl. apply fupd_eq. }
    assert (Eq6 : queues (bump k s6) k = None).
    { ssimpl. rewrite (f_queues F). unfold s5, unregister. ssimpl. apply fupd_eq. }
    assert (Es6 : subs (bump k s6) k = []).
    { ssimpl. rewrite (f_subs F). unfold s5, unregister, s4, sub_result. ssimpl. apply fupd_eq. }
    assert (Er6 : rtasks (bump k s6) = rtasks s).
    { ssimpl. rewrite (f_rtasks F). unfold s5, unregister, s4, sub_result. ssimpl. auto. }
    destruct (rtasks (bump k s6) k) as [tid | ] eqn:Hr.
    - split; [apply popcancel_M; auto | ].
      intros k'. destruct (Nat.eq_dec k' k) as [-> | Hk']; [ | apply popcancel_K; auto].
      pose proof (cancel_frame tid (set_rtasks (fupd (rtasks (bump k s6)) k None) (bump k s6))) as G.
      cbv zeta in G. destruct G as (F1 & F2 & F3 & F4 & F5 & F6 & F7).
      split; [ | split].
      + constructor; rewrite ?F1, ?F2, ?F3, ?F4, ?F5; ssimpl; rewrite ?fupd_eq;
          rewrite ?Ec6, ?Eq6, ?Es6; try congruence.
        all: intros e' E; discriminate.
      + intros q'. rewrite F3. ssimpl. rewrite Eq6. discriminate.
      + intros tid'. rewrite F4. ssimpl. rewrite fupd_eq. discriminate.
    - split; auto.
      intros k'. destruct (Nat.eq_dec k' k) as [-> | Hk']; auto.
      split; [ | split].
      + constructor; rewrite ?Ec6, ?Eq6, ?Es6, ?Hr; try congruence.
        all: intros e' E; discriminate.
      + intros q'. rewrite Eq6. discriminate.
      + intros tid'. rewrite Hr. discriminate.
  Qed.

  (* ---------------------------------------------------- handles: the easy ones *)

  Lemma pop_ready : forall (h : handle) r l,
    NoDup l -> l = h :: r -> NoDup r /\ ~ In h r /\ (forall h', In h' r <-> (In h' l /\ h' <> h)).
  Proof.
    intros h r l Hn ->. inversion Hn; subst. splits; auto.
    intros h'. simpl. split.
    - intros H. split; auto. intros ->. tauto.
    - intros [[ | ] ?]; congruence.
  Qed.

  Lemma noncur_not_rt : forall run s tid k, M run s -> ~ cur s tid -> rtasks s k <> Some tid.
  Proof.
    intros run s tid k HM Hn H. apply Hn. unfold cur.
    destruct (m_rt HM _ H) as [_ ->]. exact H.
  Qed.

  (* a cancelled task (nobody's re-preparer any more) takes its step: it ends *)
  Lemma finish_noncur_Inv : forall s tid h r c,
    Inv None s -> ready s = h :: r ->
    (h = HStart tid /\ status s tid = TNew) \/ (h = HWake tid /\ status s tid = TWoken) ->
    ~ cur s tid ->
    Inv None (finish tid c (set_ready r s)).
  Proof.
    intros s tid h r c [HM HK] Hr Hh Hnc. unfold finish. ssimpl. split.
    - destruct (pop_ready (m_nodup HM) Hr) as (Hnd & Hnin & Hin).
      assert (Hlt : tid < nt s).
      { destruct (le_lt_dec (nt s) tid) as [Hge | ]; auto.
        apply (m_fresh HM) in Hge. rewrite Hge in Hh. simpl in Hh.
        destruct Hh as [[_ ?] | [_ ?]]; discriminate. }
      assert (Hst : status s tid <> TDone /\ status s tid <> TRunning /\ status s tid <> TWaiting)
        by (destruct Hh as [[_ ->] | [_ ->]]; splits; discriminate).
      destruct Hst as (Hs1 & Hs2 & Hs3).
      destruct HM. constructor; ssimpl; auto.
      + apply NoDup_snoc; auto. rewrite Hin. intros [H _]. apply m_donecb0 in H. tauto.
      + intros tid'. rewrite in_snoc, Hin, m_start0. fupd_case tid' tid; ssimpl.
        * split; [intros [[H1 H2] | H] | ]; try discriminate.
          destruct Hh as [[-> _] | [_ H]]; congruence.
        * split; [intros [[H1 H2] | H] | ]; auto; try discriminate.
          intros H. left. split; auto. intros H'. apply E.
          destruct Hh as [[-> _] | [-> _]]; congruence.
      + intros tid'. rewrite in_snoc, Hin, m_wake0. fupd_case tid' tid; ssimpl.
        * split; [intros [[H1 H2] | H] | ]; try discriminate.
          destruct Hh as [[_ H] | [-> _]]; congruence.
        * split; [intros [[H1 H2] | H] | ]; auto; try discriminate.
          intros H. left. split; auto. intros H'. apply E.
          destruct Hh as [[-> _] | [-> _]]; congruence.
      + intros tid'. rewrite in_snoc, Hin. intros [[H _] | H].
        * destruct (m_donecb0 _ H). split; auto. fupd_case tid' tid; ssimpl; auto.
        * inversion H; subst. rewrite fupd_eq. auto.
      + intros tid'. fupd_case tid' tid; ssimpl; auto. split; discriminate.
      + intros tid' Hge. rewrite fupd_neq by lia. auto.
      + intros q g. fupd_case g tid; ssimpl; auto. rewrite m_getter0. split; intros [? ?]; congruence.
      + intros tid' q. fupd_case tid' tid; ssimpl; eauto.
      + intros tid' q. fupd_case tid' tid; ssimpl; eauto. discriminate.
      + intros k tid' H. destruct (m_rt0 _ _ H). split; auto. fupd_case tid' tid; ssimpl; auto.
      + intros tid'. unfold cur in *. ssimpl. fupd_case tid' tid; ssimpl; auto.
      + intros tid'. fupd_case tid' tid; ssimpl; auto. discriminate.
    - intros k. destruct (HK k) as (A & B & C). split; [ | split]; [ | exact B | ].
      + apply KC_same with (s := s); auto.
      + intros tid'. ssimpl. intros H.
        assert (tid' <> tid) by (intros ->; eapply noncur_not_rt; eauto).
        rewrite fupd_neq by auto. auto.
  Qed.

  (* a done-callback of a task that is not the current re-preparer does nothing *)
  Lemma donecb_Inv : forall s tid r,
    Inv None s -> ready s = HDoneCb tid :: r -> Inv None (run_handle (HDoneCb tid) (set_ready r s)).
  Proof.
    intros s tid r [HM HK] Hr.
    assert (Hd : status s tid = TDone).
    { apply (m_donecb HM). rewrite Hr. now left. }
    assert (Hn : rtasks s (t_key (tasks s tid)) <> Some tid).
    { intros H. destruct (HK (t_key (tasks s tid))) as (_ & _ & C).
      destruct (C _ H) as (_ & H2 & _). tauto. }
    assert (E : run_handle (HDoneCb tid) (set_ready r s) = set_ready r s).
    { unfold run_handle. ssimpl. destruct (rtasks s (t_key (tasks s tid))) as [tid' | ]; auto.
      destruct (Nat.eqb_spec tid' tid); auto. congruence. }
    rewrite E. split.
    - destruct (pop_ready (m_nodup HM) Hr) as (Hnd & Hnin & Hin).
      destruct HM. constructor; ssimpl; auto.
      + intros tid'. rewrite Hin, m_start0. split; [tauto | ]. intros H; split; auto. discriminate.
      + intros tid'. rewrite Hin, m_wake0. split; [tauto | ]. intros H; split; auto. discriminate.
      + intros tid'. rewrite Hin. intros [H _]. auto.
    - intros k. destruct (HK k) as (A & B & C). split; [ | split]; [ | exact B | exact C].
      apply KC_same with (s := s); auto.
  Qed.

  (* ------------------------------------------------- the monitor takes a step *)

  (* [tid] is the re-preparer of [k], it is being stepped, [q] is k's queue *)
  Definition Running (tid k q : nat) (s : state) : Prop :=
    Inv (Some tid) s /\ rtasks s k = Some tid /\ queues s k = Some q.

  Lemma Running_facts : forall tid k q s,
    Running tid k q s ->
    status s tid = TRunning /\ t_key (tasks s tid) = k /\ t_cancel (tasks s tid) = false /\
    t_queue (tasks s tid) = Some q /\ cache s k <> None /\
    q_shut (heap s q) = false /\ ~ In EKill (q_items (heap s q)) /\ ptimes s k <> None.
  Proof.
    intros tid k q s ([HM HK] & Hr & Hq).
    destruct (HK k) as (A & B & C).
    assert (Hs : status s tid = TRunning) by (apply (m_running HM); auto).
    destruct (C _ Hr) as (C1 & C2 & C3). destruct (B _ Hq) as [B1 B2].
    destruct (m_rt HM _ Hr) as [_ Hk].
    assert (cache s k <> None) by (apply (k_own A); congruence).
    splits; auto.
    - rewrite <- Hq. apply C3. rewrite Hs. discriminate.
    - apply (k_pt A); auto.
  Qed.

  (* [s'] is [s] with the head handle removed and task [tid] replaced by [t] *)
  Record Retask (s s' : state) (tid : nat) (t : task) (r : list handle) : Prop := {
    r_cache : cache s' = cache s; r_subs : subs s' = subs s; r_rsubs : rsubs s' = rsubs s;
    r_queues : queues s' = queues s; r_heap : heap s' = heap s; r_nq : nq s' = nq s;
    r_nt : nt s' = nt s; r_rtasks : rtasks s' = rtasks s; r_ptimes : ptimes s' = ptimes s;
    r_clock : clock s' = clock s; r_bound : bound s' = bound s; r_err : err s' = err s;
    r_ready : ready s' = r;
    r_task : tasks s' tid = t;
    r_others : forall tid', tid' <> tid -> tasks s' tid' = tasks s tid'
  }.

  Lemma cur_dec : forall s tid, cur s tid \/ ~ cur s tid.
  Proof.
    intros. unfold cur. destruct (rtasks s (t_key (tasks s tid))) as [t | ].
    - destruct (Nat.eq_dec t tid); [left | right]; congruence.
    - right. discriminate.
  Qed.

  Lemma enter_Running : forall s s' tid h r k q c,
    Inv None s -> ready s = h :: r ->
    (h = HStart tid /\ status s tid = TNew) \/
    (h = HWake tid /\ status s tid = TWoken) ->
    t_cancel (tasks s tid) = false ->
    t_key (tasks s tid) = k -> queues s k = Some q ->
    Retask s s' tid (mkT k (Some q) TRunning false c) r ->
    Running tid k q s'.
  Proof.
    intros s s' tid h r k q c [HM HK] Hr Hh Hcan Hkey Hq R.
    assert (Hcur : rtasks s k = Some tid).
    { destruct (cur_dec s tid) as [H | H]; [unfold cur in H; congruence | ].
      destruct (m_noncur HM H) as [H1 | [H1 _]]; [ | congruence].
      destruct Hh as [[_ H2] | [_ H2]]; congruence. }
    assert (Hst : status s tid <> TDone /\ status s tid <> TRunning /\ status s tid <> TWaiting)
      by (destruct Hh as [[_ ->] | [_ ->]]; splits; discriminate).
    destruct Hst as (Hs1 & Hs2 & Hs3).
    destruct (pop_ready (m_nodup HM) Hr) as (Hnd & Hnin & Hin).
    destruct R. unfold Running. rewrite r_rtasks0, r_queues0. splits; auto. split.
    - destruct HM.
      constructor; rewrite ?r_ready0, ?r_heap0, ?r_queues0, ?r_nq0, ?r_nt0, ?r_rtasks0,
        ?r_ptimes0, ?r_clock0, ?r_bound0, ?r_err0, ?r_subs0, ?r_rsubs0; auto.
      + intros tid'. rewrite Hin, m_start0.
        destruct (Nat.eq_dec tid' tid) as [-> | Hne]; [rewrite r_task0 | rewrite r_others0 by auto]; simpl.
        * split; [intros [H1 H2] | discriminate]. destruct Hh as [[-> _] | [_ H]]; congruence.
        * split; [tauto | ]. intros H. split; auto. destruct Hh as [[-> _] | [-> _]]; congruence.
      + intros tid'. rewrite Hin, m_wake0.
        destruct (Nat.eq_dec tid' tid) as [-> | Hne]; [rewrite r_task0 | rewrite r_others0 by auto]; simpl.
        * split; [intros [H1 H2] | discriminate]. destruct Hh as [[_ H] | [-> _]]; congruence.
        * split; [tauto | ]. intros H. split; auto. destruct Hh as [[-> _] | [-> _]]; congruence.
      + intros tid'. rewrite Hin. intros [H Hne]. destruct (m_donecb0 _ H). split; auto.
        destruct (Nat.eq_dec tid' tid) as [-> | Hne']; [congruence | rewrite r_others0 by auto; auto].
      + intros tid'.
        destruct (Nat.eq_dec tid' tid) as [-> | Hne]; [rewrite r_task0 | rewrite r_others0 by auto]; simpl.
        * tauto.
        * rewrite m_running0. split; [discriminate | congruence].
      + intros tid' Hge.
        assert (tid' <> tid).
        { intros ->. apply m_fresh0 in Hge. rewrite Hge in Hs1. simpl in Hs1. congruence. }
        rewrite r_others0 by auto. auto.
      + intros q' g.
        destruct (Nat.eq_dec g tid) as [-> | Hne]; [rewrite r_task0 | rewrite r_others0 by auto]; simpl; auto.
        rewrite m_getter0. split; intros [? ?]; congruence.
      + intros tid' q'.
        destruct (Nat.eq_dec tid' tid) as [-> | Hne]; [rewrite r_task0 | rewrite r_others0 by auto]; simpl; eauto.
        intros E; inversion E; subst. eauto.
      + intros tid' q'.
        destruct (Nat.eq_dec tid' tid) as [-> | Hne]; [rewrite r_task0 | rewrite r_others0 by auto]; simpl; eauto.
        discriminate.
      + intros k' tid' H. destruct (m_rt0 _ _ H). split; auto.
        destruct (Nat.eq_dec tid' tid) as [-> | Hne]; [rewrite r_task0 | rewrite r_others0 by auto]; simpl; auto.
        congruence.
      + intros tid'. unfold cur. rewrite r_rtasks0.
        destruct (Nat.eq_dec tid' tid) as [-> | Hne]; [rewrite r_task0 | rewrite r_others0 by auto]; simpl; auto.
        tauto.
      + intros tid'.
        destruct (Nat.eq_dec tid' tid) as [-> | Hne]; [rewrite r_task0 | rewrite r_others0 by auto]; simpl; auto.
        discriminate.
    - intros k'. destruct (HK k') as (A & B & C). split; [ | split].
      + apply KC_same with (s := s); congruence.
      + intros q'. rewrite r_queues0, r_heap0. auto.
      + intros tid'. rewrite r_rtasks0, r_queues0. intros H.
        destruct (Nat.eq_dec tid' tid) as [-> | Hne]; [rewrite r_task0 | rewrite r_others0 by auto]; simpl; auto.
        assert (k' = k) by (destruct (m_rt HM _ H); congruence). subst k'.
        splits; auto. discriminate.
  Qed.

  Lemma suspend_Inv : forall tid k q s,
    Running tid k q s -> q_items (heap s q) = [] -> Inv None (suspend tid q s).
  Proof.
    intros tid k q s HR Hitems.
    destruct (Running_facts HR) as (Hst & Hkey & Hcan & Htq & Hcached & Hshut & Hnk & Hpt).
    destruct HR as ([HM HK] & Hr & Hq).
    unfold suspend. rewrite Hcan.
    destruct (q_getter (heap s q)) as [g | ] eqn:Hg.
    { exfalso. apply (m_getter HM) in Hg. destruct Hg as [Hg1 Hg2].
      assert (Hc : cur s g).
      { destruct (cur_dec s g) as [H | H]; auto.
        destruct (m_noncur HM H) as [H1 | [_ [H1 | H1]]]; congruence. }
      unfold cur in Hc. destruct (HK (t_key (tasks s g))) as (_ & _ & C).
      destruct (C _ Hc) as (_ & _ & C3).
      assert (queues s (t_key (tasks s g)) = Some q) by (rewrite <- C3; [auto | congruence]).
      assert (t_key (tasks s g) = k) by (eapply (m_qinj HM); eauto).
      assert (g = tid) by congruence. congruence. }
    split.
    - destruct HM. constructor; ssimpl; auto.
      + intros tid'. fupd_case tid' tid; ssimpl; auto. rewrite m_start0, Hst. split; discriminate.
      + intros tid'. fupd_case tid' tid; ssimpl; auto. rewrite m_wake0, Hst. split; discriminate.
      + intros tid' H. destruct (m_donecb0 _ H). split; auto.
        fupd_case tid' tid; ssimpl; auto. congruence.
      + intros tid'. fupd_case tid' tid; ssimpl; [split; discriminate | ].
        rewrite m_running0. split; [congruence | discriminate].
      + intros tid' Hge. rewrite fupd_neq; auto. intros ->.
        apply m_fresh0 in Hge. rewrite Hge in Hst. discriminate.
      + intros q' g. fupd_case q' q; ssimpl; fupd_case g tid; ssimpl.
        * tauto.
        * split; [congruence | ]. intros [H1 H2].
          assert (q_getter (heap s q) = Some g) by (apply m_getter0; auto). congruence.
        * rewrite m_getter0, Hst. split; [intros [? ?]; discriminate | intros [_ ?]; congruence].
        * apply m_getter0.
      + intros tid' q'. fupd_case tid' tid; ssimpl; eauto.
      + intros tid' q'. fupd_case tid' tid; ssimpl.
        * intros _ E'. assert (q' = q) by congruence. subst. rewrite fupd_eq. auto.
        * intros H1 H2. fupd_case q' q; ssimpl; eauto.
      + intros k' tid' H. destruct (m_rt0 _ _ H). split; auto. fupd_case tid' tid; ssimpl; auto.
      + intros tid'. unfold cur in *. ssimpl. fupd_case tid' tid; ssimpl; auto.
        intros H. exfalso. apply H. congruence.
      + intros q' n t. fupd_case q' q; ssimpl; eauto.
      + intros tid'. fupd_case tid' tid; ssimpl; auto. congruence.
    - clear Hkey. intros k'. destruct (HK k') as (A & B & C). split; [ | split].
      + apply KC_same with (s := s); auto.
      + intros q'. ssimpl. intros Hq'. fupd_case q' q; ssimpl; auto.
      + intros tid'. ssimpl. intros H. fupd_case tid' tid; ssimpl; auto.
        assert (Ek : k' = k) by (destruct (m_rt HM _ H), (m_rt HM _ Hr); congruence).
        rewrite Ek. splits; auto; try discriminate. intros _. congruence.
  Qed.

  Lemma pop_Running : forall tid k q s e rest,
    Running tid k q s -> q_items (heap s q) = e :: rest ->
    Running tid k q (upd_queue q (fun Q => mkQ rest (q_shut Q) (q_getter Q)) s).
  Proof.
    intros tid k q s e rest ([HM HK] & Hr & Hq) Hitems.
    unfold Running. ssimpl. splits; auto. split.
    - destruct HM. constructor; ssimpl; auto.
      + intros q' g. fupd_case q' q; ssimpl; auto.
      + intros tid' q' H1 H2. fupd_case q' q; ssimpl; eauto.
        rewrite (m_wait_empty0 _ _ H1 H2) in Hitems. discriminate.
      + intros q' n t. fupd_case q' q; ssimpl; eauto.
        intros H. apply (m_etime0 q n t). rewrite Hitems. now right.
    - intros k'. destruct (HK k') as (A & B & C). split; [ | split]; [ | | exact C].
      + apply KC_same with (s := s); auto.
      + intros q'. ssimpl. intros Hq'. destruct (B _ Hq') as [B1 B2].
        fupd_case q' q; ssimpl; auto. split; auto.
        intros H. apply B2. rewrite Hitems. now right.
  Qed.

  (* a re-preparation leaves the resource's own queue and registration alone *)
  Lemma hn_frame : forall run k deps st fin s,
    M run s -> (forall r, In r deps -> k < r /\ r < bound s) -> st <= clock s ->
    let s' := handle_notifications k deps st fin false s in
    rtasks s' = rtasks s /\ queues s' = queues s /\ cache s' = cache s /\
    forall q, queues s k = Some q -> heap s' q = heap s q.
  Proof.
    intros run k deps st fin s HM Hup Hst s'. unfold s', handle_notifications.
    set (s1 := set_ptimes (fupd (ptimes s) k (Some st)) s).
    assert (HM1 : M run s1) by (apply set_ptimes_M; auto).
    rewrite (subscribe_only_to_eq (run := run)) by auto.
    set (s2 := sub_result k deps s1).
    assert (HM2 : M run s2) by (apply sub_result_M; auto).
    pose proof (notify_Mild k fin s2) as F.
    assert (E : match deps with
                | [] => bump k (notify k fin s2)
                | _ :: _ => bump k (notify k fin s2)
                end = bump k (notify k fin s2)) by (destruct deps; auto).
    rewrite E. ssimpl. rewrite (f_rtasks F), (f_queues F), (f_cache F). splits; auto.
    intros q Hq. change (heap s q) with (heap s2 q). apply notify_other. intros r Hr Hqr.
    change (queues s2 r) with (queues s r) in Hqr.
    apply (m_inverse HM2) in Hr. apply (m_upward HM2) in Hr.
    assert (r = k) by (eapply (m_qinj HM); eauto). lia.
  Qed.

  Lemma reprepare_Running : forall tid k q s,
    Running tid k q s ->
    Running tid k q (reprepare k s) /\ heap (reprepare k s) q = heap s q.
  Proof.
    intros tid k q s HR.
    destruct (Running_facts HR) as (Hst & Hkey & Hcan & Htq & Hcached & Hshut & Hnk & Hpt).
    destruct HR as ([HM HK] & Hr & Hq).
    unfold reprepare. destruct (cache s k) as [e | ] eqn:Hc; [ | congruence].
    destruct (HK k) as (A & B & C).
    set (s1 := tick s). set (s2 := tick s1).
    set (s3 := set_cache (fupd (cache s2) k (Some (mkC (c_version e) (c_deps e) (seen_now (c_deps e) s1)))) s2).
    assert (HM3 : M (Some tid) s3) by (apply set_cache_M, tick_M, tick_M; auto).
    assert (Hup : forall r, In r (c_deps e) -> k < r /\ r < bound s3).
    { intros r Hin. apply (m_upward HM). rewrite (k_subs A), Hc. now apply dedup_In. }
    assert (Hclk : clock s1 <= clock s3) by (unfold s3, s2, s1; ssimpl; lia).
    pose proof (@hn_frame (Some tid) k (c_deps e) (clock s1) (clock s2) s3 HM3 Hup Hclk) as Fr.
    cbv zeta in Fr. destruct Fr as (Fr1 & Fr2 & Fr3 & Fr4).
    assert (HI : Inv (Some tid)
                   (handle_notifications k (c_deps e) (clock s1) (clock s2) false s3)).
    { eapply hn_Inv with (q := q) (e := mkC (c_version e) (c_deps e) (seen_now (c_deps e) s1)); auto.
      - intros k' Hk'. destruct (HK k') as (A' & B' & C').
        split; [ | split]; [ | exact B' | exact C'].
        apply KC_same with (s := s); auto. unfold s3. ssimpl. now rewrite fupd_neq.
      - unfold s3. ssimpl. apply fupd_eq.
      - simpl. apply map_fst_seen_now.
      - right. intros _. change (rtasks s3 k) with (rtasks s k). congruence. }
    split.
    - unfold Running. rewrite Fr1, Fr2. splits; auto.
    - apply Fr4. exact Hq.
  Qed.

  Lemma monitor_loop_Inv : forall fuel tid k q s,
    Running tid k q s -> List.length (q_items (heap s q)) < fuel ->
    Inv None (monitor_loop fuel tid q s).
  Proof.
    induction fuel as [ | f IH]; intros tid k q s HR Hlen; [lia | ].
    destruct (Running_facts HR) as (Hst & Hkey & Hcan & Htq & Hcached & Hshut & Hnk & Hpt).
    simpl. destruct (q_items (heap s q)) as [ | e rest] eqn:Hitems.
    - rewrite Hshut. eapply suspend_Inv; eauto.
    - pose proof (pop_Running HR Hitems) as HR1.
      set (s1 := upd_queue q (fun Q => mkQ rest (q_shut Q) (q_getter Q)) s) in *.
      destruct e as [ | n t].
      + exfalso. apply Hnk. now left.
      + change (tasks s1 tid) with (tasks s tid). rewrite Hkey.
        change (ptimes s1 k) with (ptimes s k).
        destruct (ptimes s k) as [p | ]; [ | congruence].
        assert (Hlen1 : List.length (q_items (heap s1 q)) < f).
        { unfold s1. ssimpl. rewrite fupd_eq. simpl in *. lia. }
        destruct (t <=? p).
        * eapply IH; eauto.
        * destruct (reprepare_Running HR1) as [HR2 Hh].
          eapply IH; eauto. rewrite Hh. exact Hlen1.
  Qed.

  Lemma cur_queue : forall run s tid,
    Inv run s -> cur s tid ->
    exists q, queues s (t_key (tasks s tid)) = Some q /\ t_cancel (tasks s tid) = false /\
              (status s tid <> TNew -> t_queue (tasks s tid) = Some q).
  Proof.
    intros run s tid [HM HK] Hc. unfold cur in Hc.
    destruct (HK (t_key (tasks s tid))) as (A & B & C).
    destruct (C _ Hc) as (C1 & C2 & C3).
    destruct (queues s (t_key (tasks s tid))) as [q | ] eqn:Hq.
    - exists q. auto.
    - exfalso. apply (k_cq A); auto. apply (k_own A). congruence.
  Qed.

  Lemma run_handle_Inv : forall s h r,
    Inv None s -> ready s = h :: r -> Inv None (run_handle h (set_ready r s)).
  Proof.
    intros s h r HI Hr. pose proof HI as [HM HK].
    assert (Hin : In h (ready s)) by (rewrite Hr; now left).
    destruct h as [tid | tid | tid].
    - (* HStart *)
      apply (m_start HM) in Hin. unfold run_handle. ssimpl. rewrite Hin.
      destruct (t_cancel (tasks s tid)) eqn:Hcan.
      + eapply finish_noncur_Inv; eauto.
        intros Hc. destruct (cur_queue HI Hc) as (q & _ & H & _). congruence.
      + assert (Hc : cur s tid).
        { destruct (cur_dec s tid) as [H | H]; auto.
          destruct (m_noncur HM H) as [H1 | [H1 _]]; congruence. }
        destruct (cur_queue HI Hc) as (q & Hq & _ & _).
        unfold Loop.register. ssimpl. rewrite Hq.
        unfold Loop.monitor. eapply monitor_loop_Inv; [ | apply Nat.lt_succ_diag_r].
        eapply enter_Running with (s := s) (h := HStart tid); eauto.
        constructor; ssimpl; auto.
        * rewrite !fupd_eq. unfold with_queue, with_status. simpl. rewrite Hcan. reflexivity.
        * intros tid' Hne. now rewrite !fupd_neq.
    - (* HWake *)
      apply (m_wake HM) in Hin. unfold run_handle. ssimpl. rewrite Hin.
      destruct (t_cancel (tasks s tid)) eqn:Hcan.
      + eapply finish_noncur_Inv; eauto.
        intros Hc. destruct (cur_queue HI Hc) as (q & _ & H & _). congruence.
      + assert (Hc : cur s tid).
        { destruct (cur_dec s tid) as [H | H]; auto.
          destruct (m_noncur HM H) as [H1 | [H1 _]]; congruence. }
        destruct (cur_queue HI Hc) as (q & Hq & _ & Htq).
        rewrite Htq by (rewrite Hin; discriminate).
        unfold Loop.monitor. eapply monitor_loop_Inv; [ | apply Nat.lt_succ_diag_r].
        eapply enter_Running with (s := s) (h := HWake tid); eauto.
        constructor; ssimpl; auto.
        * rewrite fupd_eq. unfold with_status. simpl. rewrite Hcan, Htq by (rewrite Hin; discriminate). reflexivity.
        * intros tid' Hne. now rewrite fupd_neq.
    - apply donecb_Inv; auto.
  Qed.

  (* -------------------------------------------------- Yield, histories *)

  Lemma run_handles_Inv : forall n s, Inv None s -> Inv None (run_handles n s).
  Proof.
    induction n as [ | n IH]; intros s HI; simpl; auto.
    destruct (ready s) as [ | h r] eqn:Hr; auto.
    apply IH. apply run_handle_Inv; auto.
  Qed.

  Definition wf_op (o : op) : Prop :=
    match o with
    | Offer k v deps => upward_deps k deps
    | _ => True
    end.

  Lemma step_Inv : forall s o, Inv None s -> wf_op o -> Inv None (step s o).
  Proof.
    intros s o HI Hwf. unfold step. rewrite (m_err (proj1 HI)).
    destruct o as [k v deps | k | ].
    - apply offer_Inv; auto.
    - apply delete_Inv; auto.
    - apply run_handles_Inv; auto.
  Qed.

  Lemma init_Inv : Inv None init.
  Proof.
    split.
    - constructor; simpl; intros; auto; try tauto; try discriminate; try lia; try constructor;
        try (split; intros; try tauto; try discriminate; intuition discriminate).
      all: intuition discriminate.
    - intros k. split; [ | split].
      + constructor; simpl; auto; try tauto; try discriminate.
      + intros q; simpl; discriminate.
      + intros tid; simpl; discriminate.
  Qed.

  Lemma run_from_Inv : forall ops s,
    Inv None s -> Forall wf_op ops -> Inv None (fold_left step ops s).
  Proof.
    induction ops as [ | o ops IH]; intros s HI Hwf; simpl; auto.
    inversion Hwf; subst. apply IH; auto. apply step_Inv; auto.
  Qed.

  Theorem run_Inv : forall ops, Forall wf_op ops -> Inv None (run ops).
  Proof. intros. apply run_from_Inv; auto. apply init_Inv. Qed.

  (* ============================================================ pending events *)

  (* R's registered queue holds an event that is newer than R's preparation *)
  Definition newer (s : state) (R : nat) : Prop :=
    exists q p n t, queues s R = Some q /\ ptimes s R = Some p /\
                    In (ERes n t) (q_items (heap s q)) /\ p < t.

  (* R saw the current generation of every dependency, or such an event is waiting *)
  Definition PendK (s : state) (R : nat) : Prop :=
    forall e d g, cache s R = Some e -> In (d, g) (c_seen e) -> g = gens s d \/ newer s R.

  Definition Pend (s : state) : Prop := forall R, PendK s R.
  Definition PendBut (k : nat) (s : state) : Prop := forall R, R <> k -> PendK s R.

  Lemma Mild_newer : forall e s s' R, Mild e s s' -> newer s R -> newer s' R.
  Proof.
    intros e s s' R F (q & p & n & t & H1 & H2 & H3 & H4).
    exists q, p, n, t. rewrite (f_queues F), (f_ptimes F). splits; auto.
    apply (f_items_mono F); auto.
  Qed.

  Lemma Mild_PendK : forall e s s' R, Mild e s s' -> PendK s R -> PendK s' R.
  Proof.
    intros e s s' R F P e' d g Hc Hin. rewrite (f_cache F) in Hc. rewrite (f_gens F).
    destruct (P _ _ _ Hc Hin); auto. right. eapply Mild_newer; eauto.
  Qed.

  (* R's observable part is the same in s and s' *)
  Lemma same_PendK : forall s s' R,
    cache s' R = cache s R -> gens s' = gens s -> queues s' R = queues s R ->
    ptimes s' R = ptimes s R ->
    (forall q, queues s R = Some q -> q_items (heap s' q) = q_items (heap s q)) ->
    PendK s R -> PendK s' R.
  Proof.
    intros s s' R E1 E2 E3 E4 E5 P e d g Hc Hin. rewrite E1 in Hc. rewrite E2.
    destruct (P _ _ _ Hc Hin) as [ | (q & p & n & t & H1 & H2 & H3 & H4)]; auto.
    right. exists q, p, n, t. rewrite E3, E4, E5; auto.
  Qed.

  (* the heart of the matter: after k was (re)built, everybody who declared k as
     a dependency has a newer event in its queue *)
  Lemma hn_Pend : forall run k deps st fin wp s e,
    M run s -> (forall R, R <> k -> KInv s R) -> PendBut k s ->
    cache s k = Some e -> (forall d g, In (d, g) (c_seen e) -> g = gens s d /\ In d deps) ->
    (forall r, In r deps -> k < r /\ r < bound s) ->
    st <= clock s -> fin <= clock s ->
    (forall R p, ptimes s R = Some p -> p < fin) ->
    Pend (handle_notifications k deps st fin wp s).
  Proof.
    intros run k deps st fin wp s e HM HK HP Hc Hseen Hup Hst Hfin Hpt.
    unfold handle_notifications.
    set (s1 := set_ptimes (fupd (ptimes s) k (Some st)) s).
    assert (HM1 : M run s1) by (apply set_ptimes_M; auto).
    rewrite (subscribe_only_to_eq (run := run)) by auto.
    set (s2 := sub_result k deps s1).
    assert (HM2 : M run s2) by (apply sub_result_M; auto).
    pose proof (notify_Mild k fin s2) as F.
    set (s3 := notify k fin s2) in *.
    assert (HP3 : Pend (bump k s3)).
    { intros R e' d g Hc' Hin. ssimpl. rewrite (f_cache F) in Hc'.
      change (cache s2 R) with (cache s R) in Hc'.
      destruct (Nat.eq_dec R k) as [-> | HR].
      - (* k itself: freshly built *)
        left. assert (e' = e) by congruence. subst e'.
        destruct (Hseen _ _ Hin) as [-> Hd]. apply Hup in Hd.
        rewrite fupd_neq by lia. now rewrite (f_gens F).
      - destruct (HK _ HR) as (A & B & C).
        assert (P2 : PendK s2 R).
        { apply same_PendK with (s := s); auto.
          unfold s2, sub_result, s1. ssimpl. now rewrite fupd_neq. }
        destruct (Nat.eq_dec d k) as [-> | Hd].
        + (* R declared k: the notification is in its queue *)
          right.
          assert (Hdep : In k (c_deps e')).
          { rewrite <- (k_seen A Hc'). apply in_map_iff. exists (k, g). auto. }
          assert (Hsub : In k (subs s2 R)).
          { unfold s2, sub_result, s1. ssimpl. rewrite fupd_neq by auto.
            rewrite (k_subs A), Hc'. now apply dedup_In. }
          apply (m_inverse HM2) in Hsub.
          destruct (queues s R) as [q | ] eqn:Hq; [ | exfalso; apply (k_cq A); congruence].
          destruct (B _ Hq) as [Hshut _].
          destruct (ptimes s R) as [p | ] eqn:Hp; [ | exfalso; apply (k_pt A); congruence].
          exists q, p, k, fin. ssimpl. rewrite (f_queues F), (f_ptimes F).
          splits; eauto.
          * unfold s2, sub_result, s1. ssimpl. now rewrite fupd_neq.
          * apply notify_delivers with (r := R); auto.
        + rewrite fupd_neq by auto. rewrite (f_gens F).
          pose proof (Mild_PendK F P2) as P3.
          assert (Hc3 : cache s3 R = Some e') by (rewrite (f_cache F); exact Hc').
          destruct (P3 e' d g Hc3 Hin) as [H | H]; auto.
          left. now rewrite <- (f_gens F). }
    destruct deps as [ | d0 deps']; [exact HP3 | ].
    destruct wp; [ | exact HP3].
    destruct (rtasks (bump k s3) k); exact HP3.
  Qed.

  Lemma register_Pend : forall run k s,
    M run s -> (forall k', KInv s k') -> Pend s -> Pend (snd (register k s)).
  Proof.
    intros run k s HM HK HP. unfold register.
    destruct (queues s k) as [q | ] eqn:Hq; [exact HP | ].
    simpl. fold (alloc k s).
    intros R. eapply Mild_PendK; [apply notify_Mild | ].
    destruct (Nat.eq_dec R k) as [-> | HR].
    - (* k is not cached *)
      intros e d g Hc. exfalso. ssimpl. unfold alloc in Hc. ssimpl.
      destruct (HK k) as (A & _ & _). apply (k_cq A); congruence.
    - apply same_PendK with (s := s); auto.
      + unfold alloc. ssimpl. now rewrite fupd_neq.
      + intros q Hq'. unfold alloc. ssimpl. pose proof (m_qid HM _ Hq').
        rewrite fupd_neq by lia. auto.
  Qed.

  Lemma offer_Pend : forall run k v deps s,
    Inv run s -> Pend s -> upward_deps k deps -> Pend (offer k v deps s).
  Proof.
    intros run k v deps s [HM HK] HP Hup. unfold offer.
    destruct (match cache s k with Some e => c_version e =? v | None => false end); auto.
    set (s0 := raise_bound k deps s).
    set (s1 := tick s0).
    assert (HM1 : M run s1) by (apply tick_M, raise_bound_M; auto).
    assert (HK1 : forall k', KInv s1 k') by (intros; apply tick_K, raise_bound_K; auto).
    assert (HP1 : Pend s1) by exact HP.
    pose proof (register_spec k HM1 HK1) as R.
    pose proof (register_Pend k HM1 HK1 HP1) as HP2.
    destruct (register k s1) as [q s2]. simpl in *.
    destruct R as (HM2 & HK2 & Hq & Hlive & Htask & Ec & Es & Ers & Ert & Ept & Eg & Eb & Hclk & _).
    eapply hn_Pend with (run := run).
    - apply set_cache_M, tick_M; eauto.
    - intros k' Hk'. destruct (HK2 _ Hk') as (A & B & C).
      split; [ | split]; [ | exact B | exact C].
      apply KC_same with (s := s2); auto. ssimpl. now rewrite fupd_neq.
    - intros R HR. apply same_PendK with (s := s2); auto.
      ssimpl. now rewrite fupd_neq.
    - ssimpl. apply fupd_eq.
    - simpl. unfold seen_now. intros d g Hin. apply in_map_iff in Hin.
      destruct Hin as (d' & E & Hd). inversion E; subst. auto.
    - intros r Hr. split; auto. ssimpl. rewrite Eb.
      apply (@raise_bound_deps k deps s r). now right.
    - unfold s1, s0 in *. ssimpl. lia.
    - ssimpl. lia.
    - intros R p. ssimpl. intros Hp. apply (m_ptime HM2) in Hp. lia.
  Qed.

  Lemma kill_q_other : forall q s q', q' <> q -> heap (kill_q q s) q' = heap s q'.
  Proof.
    intros. unfold kill_q. destruct (q_shut (heap s q)); auto.
    ssimpl. rewrite fupd_neq by auto. now apply put_event_other.
  Qed.

  Lemma kill_q_ctl : forall q s,
    cache (kill_q q s) = cache s /\ gens (kill_q q s) = gens s /\ queues (kill_q q s) = queues s /\
    ptimes (kill_q q s) = ptimes s /\ subs (kill_q q s) = subs s /\ clock (kill_q q s) = clock s.
  Proof.
    intros. unfold kill_q. destruct (q_shut (heap s q)); [splits; auto | ].
    pose proof (put_event_Mild q EKill s) as F. ssimpl.
    rewrite (f_cache F), (f_gens F), (f_queues F), (f_ptimes F), (f_subs F), (f_clock F). splits; auto.
  Qed.

  Lemma delete_Pend : forall k s, Inv None s -> Pend s -> Pend (delete k s).
  Proof.
    intros k s [HM HK] HP. unfold delete.
    destruct (cache s k) as [e | ] eqn:Hc; auto.
    destruct (HK k) as (A & B & C).
    destruct (queues s k) as [q | ] eqn:Hq; [ | exfalso; apply (k_cq A); congruence].
    destruct (B _ Hq) as [Hshut Hnokill].
    set (s1 := tick s).
    set (s2 := set_cache (fupd (cache s1) k None) s1).
    assert (HM2 : M None s2) by (apply set_cache_M, tick_M; auto).
    unfold kill_resource. change (queues s2 k) with (queues s k). rewrite Hq.
    set (s3 := kill_q q s2).
    assert (HM3 : M None s3) by (apply kill_q_M; auto).
    destruct (kill_q_ctl q s2) as (Ec3 & Eg3 & Eq3 & Ep3 & Es3 & Ecl3). fold s3 in Ec3, Eg3, Eq3, Ep3, Es3, Ecl3.
    assert (Hshut3 : q_shut (heap s3 q) = true).
    { unfold s3, kill_q. change (q_shut (heap s2 q)) with (q_shut (heap s q)). rewrite Hshut.
      ssimpl. now rewrite fupd_eq. }
    assert (Hnil : forall bb r, In r (@nil nat) -> k < r /\ r < bb) by (intros bb r Hr; destruct Hr).
    unfold deregister.
    rewrite (subscribe_only_to_eq (run := None)) by auto.
    set (s4 := sub_result k [] s3).
    assert (HM4 : M None s4) by (apply sub_result_M; auto).
    change (queues s4 k) with (queues s3 k). rewrite Eq3. change (queues s2 k) with (queues s k). rewrite Hq.
    assert (Ek4 : kill_q q s4 = s4).
    { unfold kill_q. change (q_shut (heap s4 q)) with (q_shut (heap s3 q)). now rewrite Hshut3. }
    rewrite Ek4. fold (unregister k q s4).
    set (s5 := unregister k q s4).
    assert (HM5 : M None s5) by (apply unregister_M; auto).
    pose proof (notify_Mild k (clock s1) s5) as F.
    set (s6 := notify k (clock s1) s5) in *.
    (* everybody else's view is unchanged up to s5 *)
    assert (Hsame : forall R, R <> k -> PendK s5 R /\ subs s5 R = subs s R /\
                                       queues s5 R = queues s R /\ ptimes s5 R = ptimes s R /\
                                       cache s5 R = cache s R /\
                                       (forall qR, queues s R = Some qR -> q_shut (heap s5 qR) = q_shut (heap s qR))).
    { intros R HR.
      assert (Hh : forall qR, queues s R = Some qR -> heap s5 qR = heap s qR).
      { intros qR HqR. assert (qR <> q) by (intros ->; apply HR; eapply (m_qinj HM); eauto).
        unfold s5, unregister. ssimpl. rewrite fupd_neq by auto.
        change (heap s4 qR) with (heap s3 qR). unfold s3. now rewrite kill_q_other. }
      assert (E1 : cache s5 R = cache s R).
      { unfold s5, unregister, s4, sub_result. ssimpl. rewrite Ec3. unfold s2. ssimpl. now rewrite fupd_neq. }
      assert (E2 : queues s5 R = queues s R).
      { unfold s5, unregister, s4, sub_result. ssimpl. rewrite fupd_neq by auto. now rewrite Eq3. }
      assert (E3 : ptimes s5 R = ptimes s R).
      { unfold s5, unregister, s4, sub_result. ssimpl. now rewrite Ep3. }
      assert (E4 : subs s5 R = subs s R).
      { unfold s5, unregister, s4, sub_result. ssimpl. rewrite fupd_neq by auto. now rewrite Es3. }
      splits; auto.
      - apply same_PendK with (s := s); auto.
        intros qR HqR. now rewrite Hh.
      - intros qR HqR. now rewrite Hh. }
    assert (HP6 : Pend (bump k s6)).
    { intros R e' d g Hc' Hin. ssimpl. rewrite (f_cache F) in Hc'.
      destruct (Nat.eq_dec R k) as [-> | HR].
      { exfalso. unfold s5, unregister, s4, sub_result in Hc'. ssimpl. rewrite Ec3 in Hc'.
        unfold s2 in Hc'. ssimpl. rewrite fupd_eq in Hc'. discriminate. }
      destruct (Hsame R HR) as (P5 & E4 & E2 & E3 & E1 & Hsh).
      destruct (HK R) as (A' & B' & C'). rewrite E1 in Hc'.
      destruct (Nat.eq_dec d k) as [-> | Hd].
      - right.
        assert (Hdep : In k (c_deps e')).
        { rewrite <- (k_seen A' Hc'). apply in_map_iff. exists (k, g). auto. }
        assert (Hsub : In k (subs s5 R)).
        { rewrite E4, (k_subs A'), Hc'. now apply dedup_In. }
        apply (m_inverse HM5) in Hsub.
        destruct (queues s R) as [qR | ] eqn:HqR; [ | exfalso; apply (k_cq A'); congruence].
        destruct (B' _ HqR) as [HshutR _].
        destruct (ptimes s R) as [p | ] eqn:Hp; [ | exfalso; apply (k_pt A'); congruence].
        exists qR, p, k, (clock s1). ssimpl. rewrite (f_queues F), (f_ptimes F), E2, E3.
        splits; auto.
        + apply notify_delivers with (r := R); auto. rewrite Hsh; auto.
        + apply (m_ptime HM) in Hp. unfold s1. ssimpl. lia.
      - rewrite fupd_neq by auto. rewrite (f_gens F).
        pose proof (Mild_PendK F P5) as P6.
        assert (Hc6 : cache s6 R = Some e') by (rewrite (f_cache F), E1; exact Hc').
        destruct (P6 e' d g Hc6 Hin) as [H | H]; auto.
        left. now rewrite <- (f_gens F). }
    destruct (rtasks (bump k s6) k) as [tid | ]; [ | exact HP6].
    pose proof (cancel_frame tid (set_rtasks (fupd (rtasks (bump k s6)) k None) (bump k s6))) as G.
    cbv zeta in G. destruct G as (F1 & F2 & F3 & F4 & F5 & F6 & F7).
    intros R. apply same_PendK with (s := bump k s6); auto.
    - rewrite F1. reflexivity.
    - unfold cancel. destruct (t_status _); ssimpl; auto.
      destruct (t_queue _); ssimpl; auto.
    - rewrite F3. reflexivity.
    - rewrite F5. reflexivity.
    - intros qR _. apply F6.
  Qed.

  Lemma reprepare_Pend : forall tid k q s,
    Running tid k q s -> PendBut k s -> Pend (reprepare k s).
  Proof.
    intros tid k q s HR HP.
    destruct (Running_facts HR) as (Hst & Hkey & Hcan & Htq & Hcached & Hshut & Hnk & Hpt).
    destruct HR as ([HM HK] & Hr & Hq).
    unfold reprepare. destruct (cache s k) as [e | ] eqn:Hc; [ | congruence].
    destruct (HK k) as (A & B & C).
    set (s1 := tick s). set (s2 := tick s1).
    set (s3 := set_cache (fupd (cache s2) k (Some (mkC (c_version e) (c_deps e) (seen_now (c_deps e) s1)))) s2).
    assert (HM3 : M (Some tid) s3) by (apply set_cache_M, tick_M, tick_M; auto).
    eapply hn_Pend with (run := Some tid); eauto.
    - intros R HR. destruct (HK R) as (A' & B' & C').
      split; [ | split]; [ | exact B' | exact C'].
      apply KC_same with (s := s); auto. unfold s3. ssimpl. now rewrite fupd_neq.
    - intros R HR. apply same_PendK with (s := s); auto.
      unfold s3. ssimpl. now rewrite fupd_neq.
    - unfold s3. ssimpl. apply fupd_eq.
    - simpl. unfold seen_now. intros d g Hin. apply in_map_iff in Hin.
      destruct Hin as (d' & E & Hd). inversion E; subst. auto.
    - intros r Hin. apply (m_upward HM). rewrite (k_subs A), Hc. now apply dedup_In.
    - unfold s3, s2, s1. ssimpl. lia.
    - intros R p. unfold s3, s2, s1. ssimpl. intros Hp. apply (m_ptime HM) in Hp. lia.
  Qed.

  Lemma pop_Pend : forall tid k q s n t rest,
    Running tid k q s -> q_items (heap s q) = ERes n t :: rest ->
    let s1 := upd_queue q (fun Q => mkQ rest (q_shut Q) (q_getter Q)) s in
    (PendBut k s -> PendBut k s1) /\
    (forall p, ptimes s k = Some p -> t <= p -> PendK s k -> PendK s1 k).
  Proof.
    intros tid k q s n t rest ([HM HK] & Hr & Hq) Hitems s1. split.
    - intros HP R HR. apply same_PendK with (s := s); auto.
      intros qR HqR. assert (qR <> q) by (intros ->; apply HR; eapply (m_qinj HM); eauto).
      unfold s1. ssimpl. now rewrite fupd_neq.
    - intros p Hp Hle P e d g Hc Hin.
      destruct (P e d g Hc Hin) as [ | (q' & p' & n' & t' & H1 & H2 & H3 & H4)]; auto.
      right. assert (q' = q) by congruence. subst q'. assert (p' = p) by congruence. subst p'.
      exists q, p, n', t'. unfold s1. ssimpl. rewrite fupd_eq. simpl. splits; auto.
      rewrite Hitems in H3. destruct H3 as [E | ]; auto. inversion E; subst. lia.
  Qed.

  Lemma suspend_Pend : forall tid q s, Pend s -> Pend (suspend tid q s).
  Proof.
    intros tid q s HP. unfold suspend.
    destruct (t_cancel (tasks s tid)); [exact HP | ].
    destruct (q_getter (heap s q)).
    - unfold set_err. destruct (err s); exact HP.
    - intros R. apply same_PendK with (s := s); auto.
      intros qR _. ssimpl. fupd_case qR q; auto.
  Qed.

  Lemma monitor_loop_Pend : forall fuel tid k q s,
    Running tid k q s -> Pend s -> List.length (q_items (heap s q)) < fuel ->
    Pend (monitor_loop fuel tid q s).
  Proof.
    induction fuel as [ | f IH]; intros tid k q s HR HP Hlen; [lia | ].
    destruct (Running_facts HR) as (Hst & Hkey & Hcan & Htq & Hcached & Hshut & Hnk & Hpt).
    simpl. destruct (q_items (heap s q)) as [ | e rest] eqn:Hitems.
    - rewrite Hshut. now apply suspend_Pend.
    - pose proof (pop_Running HR Hitems) as HR1.
      destruct e as [ | n t]; [exfalso; apply Hnk; now left | ].
      destruct (pop_Pend HR Hitems) as [PB PK]. cbv zeta in PB, PK.
      set (s1 := upd_queue q (fun Q => mkQ rest (q_shut Q) (q_getter Q)) s) in *.
      change (tasks s1 tid) with (tasks s tid). rewrite Hkey.
      change (ptimes s1 k) with (ptimes s k).
      destruct (ptimes s k) as [p | ] eqn:Hp; [ | congruence].
      assert (Hlen1 : List.length (q_items (heap s1 q)) < f).
      { unfold s1. ssimpl. rewrite fupd_eq. simpl in *. lia. }
      assert (HPB : PendBut k s1) by (apply PB; intros R _; apply HP).
      destruct (t <=? p) eqn:Hle.
      + apply Nat.leb_le in Hle. eapply IH; eauto.
        intros R. destruct (Nat.eq_dec R k) as [-> | HR']; auto.
        apply (PK p eq_refl Hle (HP k)).
      + destruct (reprepare_Running HR1) as [HR2 Hh].
        eapply IH; eauto.
        * eapply reprepare_Pend; eauto.
        * rewrite Hh. exact Hlen1.
  Qed.

  Lemma run_handle_Pend : forall s h r,
    Inv None s -> Pend s -> ready s = h :: r -> Pend (run_handle h (set_ready r s)).
  Proof.
    intros s h r HI HP Hr. pose proof HI as [HM HK].
    assert (Hin : In h (ready s)) by (rewrite Hr; now left).
    destruct h as [tid | tid | tid].
    - apply (m_start HM) in Hin. unfold run_handle. ssimpl. rewrite Hin.
      destruct (t_cancel (tasks s tid)) eqn:Hcan; [exact HP | ].
      assert (Hc : cur s tid).
      { destruct (cur_dec s tid) as [H | H]; auto.
        destruct (m_noncur HM H) as [H1 | [H1 _]]; congruence. }
      destruct (cur_queue HI Hc) as (q & Hq & _ & _).
      unfold Loop.register. ssimpl. rewrite Hq.
      unfold Loop.monitor. eapply monitor_loop_Pend; [ | exact HP | apply Nat.lt_succ_diag_r].
      eapply enter_Running with (s := s) (h := HStart tid); eauto.
      constructor; ssimpl; auto.
      + rewrite !fupd_eq. unfold with_queue, with_status. simpl. rewrite Hcan. reflexivity.
      + intros tid' Hne. now rewrite !fupd_neq.
    - apply (m_wake HM) in Hin. unfold run_handle. ssimpl. rewrite Hin.
      destruct (t_cancel (tasks s tid)) eqn:Hcan; [exact HP | ].
      assert (Hc : cur s tid).
      { destruct (cur_dec s tid) as [H | H]; auto.
        destruct (m_noncur HM H) as [H1 | [H1 _]]; congruence. }
      destruct (cur_queue HI Hc) as (q & Hq & _ & Htq).
      rewrite Htq by (rewrite Hin; discriminate).
      unfold Loop.monitor. eapply monitor_loop_Pend; [ | exact HP | apply Nat.lt_succ_diag_r].
      eapply enter_Running with (s := s) (h := HWake tid); eauto.
      constructor; ssimpl; auto.
      + rewrite fupd_eq. unfold with_status. simpl. rewrite Hcan, Htq by (rewrite Hin; discriminate). reflexivity.
      + intros tid' Hne. now rewrite fupd_neq.
    - assert (E : run_handle (HDoneCb tid) (set_ready r s) = set_ready r s).
      { assert (Hd : status s tid = TDone) by (apply (m_donecb HM); rewrite Hr; now left).
        unfold run_handle. ssimpl. destruct (rtasks s (t_key (tasks s tid))) as [tid' | ] eqn:Hrt; auto.
        destruct (Nat.eqb_spec tid' tid); auto. subst.
        destruct (HK (t_key (tasks s tid))) as (_ & _ & C). destruct (C _ Hrt) as (_ & H2 & _). tauto. }
      rewrite E. exact HP.
  Qed.

  Lemma run_handles_Pend : forall n s, Inv None s -> Pend s -> Pend (run_handles n s).
  Proof.
    induction n as [ | n IH]; intros s HI HP; simpl; auto.
    destruct (ready s) as [ | h r] eqn:Hr; auto.
    apply IH.
    - apply run_handle_Inv; auto.
    - apply run_handle_Pend; auto.
  Qed.

  Lemma step_Pend : forall s o, Inv None s -> Pend s -> wf_op o -> Pend (step s o).
  Proof.
    intros s o HI HP Hwf. unfold step. rewrite (m_err (proj1 HI)).
    destruct o as [k v deps | k | ].
    - eapply offer_Pend; eauto.
    - apply delete_Pend; auto.
    - apply run_handles_Pend; auto.
  Qed.

  Lemma init_Pend : Pend init.
  Proof. intros R e d g Hc. discriminate. Qed.

  Lemma run_from_Pend : forall ops s,
    Inv None s -> Pend s -> Forall wf_op ops -> Pend (fold_left step ops s).
  Proof.
    induction ops as [ | o ops IH]; intros s HI HP Hwf; simpl; auto.
    inversion Hwf; subst. apply IH; auto.
    - apply step_Inv; auto.
    - apply step_Pend; auto.
  Qed.

  Theorem run_Pend : forall ops, Forall wf_op ops -> Pend (run ops).
  Proof. intros. apply run_from_Pend; auto. apply init_Inv. apply init_Pend. Qed.

  (* ================================================================ theorems *)

  (* every cached entry saw the current generation of each declared dependency *)
  Definition coherent (s : state) : Prop :=
    forall R e d g, cache s R = Some e -> In (d, g) (c_seen e) -> g = gens s d.

  (* the watcher of a cached entry, in one of its three live phases *)
  Definition watched (s : state) (k tid : nat) : Prop :=
    rtasks s k = Some tid /\ t_key (tasks s tid) = k /\ t_cancel (tasks s tid) = false /\
    ((status s tid = TNew /\ In (HStart tid) (ready s)) \/
     (status s tid = TWoken /\ In (HWake tid) (ready s) /\ t_queue (tasks s tid) = queues s k) \/
     (status s tid = TWaiting /\ t_queue (tasks s tid) = queues s k /\
      forall q, queues s k = Some q -> q_getter (heap s q) = Some tid /\ q_items (heap s q) = [])).

  Lemma Inv_watched : forall s k tid, Inv None s -> rtasks s k = Some tid -> watched s k tid.
  Proof.
    intros s k tid [HM HK] Hr. destruct (HK k) as (A & B & C).
    destruct (C _ Hr) as (C1 & C2 & C3). destruct (m_rt HM _ Hr) as [_ Hk].
    unfold watched. splits; auto.
    destruct (t_status (tasks s tid)) eqn:Hst.
    - left. split; auto. apply (m_start HM); auto.
    - exfalso. apply (m_running HM) in Hst. discriminate.
    - right. right. splits; auto; try (apply C3; discriminate).
      intros q Hq. assert (Htq : t_queue (tasks s tid) = Some q) by (rewrite C3; [auto | discriminate]).
      split; [apply (m_getter HM); auto | eapply (m_wait_empty HM); eauto].
    - right. left. splits; auto; try (apply C3; discriminate). apply (m_wake HM); auto.
    - congruence.
  Qed.

  Theorem watch_cached_thm : forall ops, Forall wf_op ops ->
    forall k e, cache (run ops) k = Some e ->
    subs (run ops) k = dedup (c_deps e) /\
    (forall d, In d (c_deps e) <-> In k (rsubs (run ops) d)) /\
    (exists q, queues (run ops) k = Some q /\ q_shut (heap (run ops) q) = false /\
               ~ In EKill (q_items (heap (run ops) q))) /\
    (c_deps e <> [] -> exists tid, watched (run ops) k tid).
  Proof.
    intros ops Hwf k e Hc. pose proof (run_Inv Hwf) as HI. destruct HI as [HM HK].
    destruct (HK k) as (A & B & C).
    assert (Hs : subs (run ops) k = dedup (c_deps e)) by (rewrite (k_subs A), Hc; auto).
    splits; auto.
    - intros d. rewrite <- (m_inverse HM), Hs. symmetry. apply dedup_In.
    - destruct (queues (run ops) k) as [q | ] eqn:Hq; [ | exfalso; apply (k_cq A); congruence].
      exists q. destruct (B _ Hq). auto.
    - intros Hd. destruct (rtasks (run ops) k) as [tid | ] eqn:Hr.
      + exists tid. apply Inv_watched; auto. split; auto.
      + exfalso. eapply (k_need A); eauto.
  Qed.

  Theorem watch_uncached_thm : forall ops, Forall wf_op ops ->
    forall k, cache (run ops) k = None ->
    subs (run ops) k = [] /\ (forall d, ~ In k (rsubs (run ops) d)) /\
    queues (run ops) k = None /\ rtasks (run ops) k = None.
  Proof.
    intros ops Hwf k Hc. pose proof (run_Inv Hwf) as [HM HK].
    destruct (HK k) as (A & B & C).
    assert (Hs : subs (run ops) k = []) by (rewrite (k_subs A), Hc; auto).
    splits; auto.
    - intros d H. apply (m_inverse HM) in H. rewrite Hs in H. destruct H.
    - destruct (queues (run ops) k) eqn:Hq; auto. exfalso. apply (k_noleak A); congruence.
    - destruct (rtasks (run ops) k) eqn:Hr; auto. exfalso. apply (k_own A); congruence.
  Qed.

  (* a task that is nobody's re-preparer is finished, or cancelled with its
     last step already scheduled: nothing keeps watching for a deleted entry *)
  Theorem no_stale_watcher_thm : forall ops, Forall wf_op ops ->
    forall tid, rtasks (run ops) (t_key (tasks (run ops) tid)) <> Some tid ->
    status (run ops) tid = TDone \/
    (t_cancel (tasks (run ops) tid) = true /\
     ((status (run ops) tid = TNew /\ In (HStart tid) (ready (run ops))) \/
      (status (run ops) tid = TWoken /\ In (HWake tid) (ready (run ops))))).
  Proof.
    intros ops Hwf tid Hn. pose proof (run_Inv Hwf) as [HM HK].
    destruct (m_noncur HM (tid := tid) Hn) as [H | [H1 [H2 | H2]]]; auto; right; split; auto.
    - left. split; auto. apply (m_start HM); auto.
    - right. split; auto. apply (m_wake HM); auto.
  Qed.

  Theorem no_error_thm : forall ops, Forall wf_op ops -> err (run ops) = None.
  Proof. intros ops Hwf. apply (m_err (proj1 (run_Inv Hwf))). Qed.

  (* pending: stale => a newer event is queued AND its processing is scheduled *)
  Theorem pending_thm : forall ops, Forall wf_op ops ->
    forall R e d g, cache (run ops) R = Some e -> In (d, g) (c_seen e) ->
    g = gens (run ops) d \/
    (newer (run ops) R /\
     exists tid, watched (run ops) R tid /\
                 (In (HStart tid) (ready (run ops)) \/ In (HWake tid) (ready (run ops)))).
  Proof.
    intros ops Hwf R e d g Hc Hin.
    pose proof (run_Inv Hwf) as HI. pose proof (run_Pend Hwf) as HP.
    destruct (HP R e d g Hc Hin) as [ | Hn]; auto. right. split; auto.
    destruct HI as [HM HK]. destruct (HK R) as (A & B & C).
    assert (Hd : c_deps e <> []).
    { rewrite <- (k_seen A Hc). intros E. apply map_eq_nil in E. rewrite E in Hin. destruct Hin. }
    destruct (rtasks (run ops) R) as [tid | ] eqn:Hr; [ | exfalso; eapply (k_need A); eauto].
    exists tid. pose proof (@Inv_watched _ R tid (conj HM HK) Hr) as W. split; auto.
    destruct W as (_ & _ & _ & [[_ H] | [[_ [H _]] | [_ [_ H]]]]); auto.
    exfalso. destruct Hn as (q & p & n & t & H1 & H2 & H3 & H4).
    destruct (H _ H1) as [_ E]. rewrite E in H3. destruct H3.
  Qed.

  (* THE PROPERTY: idle => coherent *)
  Theorem idle_coherent_thm : forall ops, Forall wf_op ops ->
    ready (run ops) = [] -> (forall R, ~ newer (run ops) R) -> coherent (run ops).
  Proof.
    intros ops Hwf _ Hidle R e d g Hc Hin.
    pose proof (run_Pend Hwf) as HP.
    destruct (HP R e d g Hc Hin) as [ | H]; auto. exfalso. eapply Hidle; eauto.
  Qed.

  (* stronger: an empty ready queue alone is enough *)
  Theorem quiescent_coherent_thm : forall ops, Forall wf_op ops ->
    ready (run ops) = [] -> coherent (run ops).
  Proof.
    intros ops Hwf Hr R e d g Hc Hin.
    destruct (@pending_thm ops Hwf R e d g Hc Hin) as [ | [_ (tid & _ & [H | H])]]; auto;
      rewrite Hr in H; destruct H.
  Qed.

  (* what was seen is exactly what was declared *)
  Theorem seen_covers_deps_thm : forall ops, Forall wf_op ops ->
    forall R e, cache (run ops) R = Some e -> map fst (c_seen e) = c_deps e.
  Proof.
    intros ops Hwf R e Hc. destruct (run_Inv Hwf) as [_ HK].
    destruct (HK R) as (A & _ & _). apply (k_seen A Hc).
  Qed.

  (* ================================================================ progress *)

  (* weight of a handle: a done-callback leaves nothing behind, the last step
     of a cancelled task leaves a done-callback, a step of the live monitor of
     resource k leaves at most wake-ups of live monitors of resources below k
     (its subscribers) *)
  Definition wt (s : state) (h : handle) : nat :=
    match h with
    | HDoneCb _ => 1
    | HStart tid | HWake tid =>
        if t_cancel (tasks s tid) then 2 else t_key (tasks s tid) + 3
    end.

  Definition KCsame (s s' : state) : Prop :=
    forall tid, t_key (tasks s' tid) = t_key (tasks s tid) /\
                t_cancel (tasks s' tid) = t_cancel (tasks s tid).

  Lemma KCsame_refl : forall s, KCsame s s.
  Proof. intros s tid. auto. Qed.

  Lemma KCsame_trans : forall s1 s2 s3, KCsame s1 s2 -> KCsame s2 s3 -> KCsame s1 s3.
  Proof.
    intros s1 s2 s3 A B tid. destruct (A tid), (B tid). split; congruence.
  Qed.

  Lemma KCsame_wt : forall s s' h, KCsame s s' -> wt s' h = wt s h.
  Proof.
    intros s s' h A. destruct h as [tid | tid | tid]; simpl; auto;
      destruct (A tid) as [-> ->]; auto.
  Qed.

  Lemma Mild_KCsame : forall e s s', Mild e s s' -> KCsame s s'.
  Proof. intros e s s' F tid. split; [apply (f_key F) | apply (f_cancel F)]. Qed.

  Definition Low (k : nat) (s : state) (h : handle) : Prop :=
    exists g, h = HWake g /\ t_cancel (tasks s g) = false /\ t_key (tasks s g) < k.

  Definition Grows (k : nat) (s s' : state) : Prop :=
    KCsame s s' /\ exists new, ready s' = ready s ++ new /\ Forall (Low k s) new.

  Lemma Low_same : forall k s s' h, KCsame s s' -> Low k s' h -> Low k s h.
  Proof.
    intros k s s' h A (g & -> & H1 & H2). exists g. destruct (A g) as [E1 E2].
    splits; auto; congruence.
  Qed.

  Lemma Grows_refl : forall k s, Grows k s s.
  Proof.
    intros. split; [apply KCsame_refl | ]. exists []. split; [now rewrite app_nil_r | constructor].
  Qed.

  Lemma Grows_same : forall k s s', tasks s' = tasks s -> ready s' = ready s -> Grows k s s'.
  Proof.
    intros k s s' E1 E2. split.
    - intros tid. now rewrite E1.
    - exists []. rewrite E2. split; [now rewrite app_nil_r | constructor].
  Qed.

  Lemma Grows_trans : forall k s1 s2 s3, Grows k s1 s2 -> Grows k s2 s3 -> Grows k s1 s3.
  Proof.
    intros k s1 s2 s3 [A (n1 & E1 & L1)] [B (n2 & E2 & L2)]. split.
    - eapply KCsame_trans; eauto.
    - exists (n1 ++ n2). split.
      + rewrite E2, E1. now rewrite app_assoc.
      + apply Forall_app. split; auto.
        eapply Forall_impl; [ | exact L2]. intros h. now apply Low_same.
  Qed.

  Lemma put_event_Grows : forall run k q e s r,
    M run s -> (forall k', Ktask s k') -> queues s r = Some q -> r < k ->
    Grows k s (put_event q e s).
  Proof.
    intros run k q e s r HM HT Hq Hr.
    split; [eapply Mild_KCsame, put_event_Mild | ].
    unfold put_event. destruct (q_shut (heap s q)); [exists []; split; [now rewrite app_nil_r | constructor] | ].
    destruct (q_getter (heap s q)) as [g | ] eqn:Hg.
    - apply (m_getter HM) in Hg. destruct Hg as [Hst Htq].
      unfold wake. ssimpl. rewrite Hst. ssimpl.
      exists [HWake g]. split; auto. constructor; [ | constructor].
      assert (Hc : cur s g).
      { destruct (cur_dec s g) as [H | H]; auto.
        destruct (m_noncur HM H) as [H1 | [_ [H1 | H1]]]; congruence. }
      destruct (HT _ _ Hc) as (C1 & C2 & C3).
      assert (queues s (t_key (tasks s g)) = Some q) by (rewrite <- C3; [auto | congruence]).
      assert (t_key (tasks s g) = r) by (eapply (m_qinj HM); eauto).
      exists g. splits; auto. lia.
    - ssimpl. exists []. split; [now rewrite app_nil_r | constructor].
  Qed.

  Lemma puts_Grows : forall run k e l s,
    M run s -> (forall k', Ktask s k') ->
    (forall n t, e = ERes n t -> t <= clock s) ->
    (forall q, In q l -> exists r, queues s r = Some q /\ r < k) ->
    Grows k s (puts e l s).
  Proof.
    induction l as [ | q l IH]; intros s HM HT He Hl; simpl; [apply Grows_refl | ].
    destruct (Hl q (or_introl eq_refl)) as (r & Hq & Hr).
    pose proof (put_event_Mild q e s) as F.
    eapply Grows_trans; [eapply put_event_Grows; eauto | ].
    apply IH.
    - apply put_event_M; auto.
    - intros k'. eapply Mild_Ktask; eauto.
    - rewrite (f_clock F). auto.
    - intros q' Hq'. rewrite (f_queues F). apply Hl. now right.
  Qed.

  Lemma notify_Grows : forall run n t s,
    M run s -> (forall k', Ktask s k') -> t <= clock s -> Grows n s (notify n t s).
  Proof.
    intros run n t s HM HT Ht. rewrite notify_puts. eapply puts_Grows; eauto.
    - intros n' t' E. inversion E; subst; auto.
    - intros q Hq. apply active_queues_In in Hq. destruct Hq as (r & Hr & Hq).
      exists r. split; auto. apply (m_inverse HM) in Hr. apply (m_upward HM) in Hr. lia.
  Qed.

  Lemma reprepare_Grows : forall tid k q s,
    Running tid k q s -> Grows k s (reprepare k s).
  Proof.
    intros tid k q s HR.
    destruct (Running_facts HR) as (Hst & Hkey & Hcan & Htq & Hcached & Hshut & Hnk & Hpt).
    destruct HR as ([HM HK] & Hr & Hq).
    unfold reprepare. destruct (cache s k) as [e | ] eqn:Hc; [ | congruence].
    destruct (HK k) as (A & B & C).
    set (s1 := tick s). set (s2 := tick s1).
    set (s3 := set_cache (fupd (cache s2) k (Some (mkC (c_version e) (c_deps e) (seen_now (c_deps e) s1)))) s2).
    assert (HM3 : M (Some tid) s3) by (apply set_cache_M, tick_M, tick_M; auto).
    assert (Hup : forall r, In r (c_deps e) -> k < r /\ r < bound s3).
    { intros r Hin. apply (m_upward HM). rewrite (k_subs A), Hc. now apply dedup_In. }
    unfold Loop.handle_notifications.
    set (s4 := set_ptimes (fupd (ptimes s3) k (Some (clock s1))) s3).
    assert (HM4 : M (Some tid) s4) by (apply set_ptimes_M; auto; unfold s3, s2, s1; ssimpl; lia).
    rewrite (subscribe_only_to_eq (run := Some tid)) by auto.
    set (s5 := sub_result k (c_deps e) s4).
    assert (HM5 : M (Some tid) s5) by (apply sub_result_M; auto).
    assert (G : Grows k s5 (notify k (clock s2) s5)).
    { eapply notify_Grows with (run := Some tid); auto.
      all: try (intros k'; destruct (HK k') as (_ & _ & C'); exact C').
      all: try (unfold s5, sub_result, s4, s3, s2, s1; ssimpl; lia). }
    assert (E : match c_deps e with
                | [] => bump k (notify k (clock s2) s5)
                | _ :: _ => bump k (notify k (clock s2) s5)
                end = bump k (notify k (clock s2) s5)) by (destruct (c_deps e); auto).
    rewrite E. exact G.
  Qed.

  Lemma monitor_loop_Grows : forall fuel tid k q s,
    Running tid k q s -> List.length (q_items (heap s q)) < fuel ->
    Grows k s (monitor_loop fuel tid q s).
  Proof.
    induction fuel as [ | f IH]; intros tid k q s HR Hlen; [lia | ].
    destruct (Running_facts HR) as (Hst & Hkey & Hcan & Htq & Hcached & Hshut & Hnk & Hpt).
    simpl. destruct (q_items (heap s q)) as [ | e rest] eqn:Hitems.
    - rewrite Hshut. unfold suspend. rewrite Hcan.
      destruct (q_getter (heap s q)).
      + unfold set_err. destruct (err s); apply Grows_same; reflexivity.
      + split.
        * intros tid'. ssimpl. fupd_case tid' tid; ssimpl; auto.
        * exists []. ssimpl. split; [now rewrite app_nil_r | constructor].
    - pose proof (pop_Running HR Hitems) as HR1.
      set (s1 := upd_queue q (fun Q => mkQ rest (q_shut Q) (q_getter Q)) s) in *.
      destruct e as [ | n t]; [exfalso; apply Hnk; now left | ].
      change (tasks s1 tid) with (tasks s tid). rewrite Hkey.
      change (ptimes s1 k) with (ptimes s k).
      destruct (ptimes s k) as [p | ]; [ | congruence].
      assert (Hlen1 : List.length (q_items (heap s1 q)) < f).
      { unfold s1. ssimpl. rewrite fupd_eq. simpl in *. lia. }
      destruct (t <=? p).
      + change (Grows k s1 (monitor_loop f tid q s1)). eapply IH; eauto.
      + destruct (reprepare_Running HR1) as [HR2 Hh].
        change (Grows k s1 (monitor_loop f tid q (reprepare k s1))).
        eapply Grows_trans; [eapply reprepare_Grows; eauto | ].
        eapply IH; eauto. rewrite Hh. exact Hlen1.
  Qed.

  (* one handle: what it leaves behind is strictly lighter than itself, and the
     weights of the handles still waiting do not change *)
  Lemma run_handle_wt : forall s h r,
    Inv None s -> ready s = h :: r ->
    let s' := run_handle h (set_ready r s) in
    exists new, ready s' = r ++ new /\
                (forall h', In h' new -> wt s' h' < wt s h) /\
                (forall h', In h' r -> wt s' h' = wt s h').
  Proof.
    intros s h r HI Hr s'. pose proof HI as [HM HK].
    assert (Hin : In h (ready s)) by (rewrite Hr; now left).
    destruct (pop_ready (m_nodup HM) Hr) as (Hnd & Hnin & Hrin).
    (* the two live cases share their conclusion *)
    assert (Live : forall tid k s0,
              (h = HStart tid \/ h = HWake tid) -> t_cancel (tasks s tid) = false ->
              t_key (tasks s tid) = k ->
              KCsame s s0 -> ready s0 = r -> Grows k s0 s' ->
              exists new, ready s' = r ++ new /\
                (forall h', In h' new -> wt s' h' < wt s h) /\
                (forall h', In h' r -> wt s' h' = wt s h')).
    { intros tid k s0 Hh Hcan Hkey A0 Er [A1 (new & E & L)].
      exists new. rewrite E, Er. splits; auto.
      - intros h' Hh'. rewrite Forall_forall in L. destruct (L _ Hh') as (g & -> & L1 & L2).
        rewrite (KCsame_wt _ A1). simpl. rewrite L1.
        assert (wt s h = k + 3) by (destruct Hh as [-> | ->]; simpl; rewrite Hcan, Hkey; auto).
        lia.
      - intros h' _. apply KCsame_wt. eapply KCsame_trans; eauto. }
    (* the cancelled cases too *)
    assert (Dead : forall tid c,
              (h = HStart tid /\ status s tid = TNew) \/ (h = HWake tid /\ status s tid = TWoken) ->
              t_cancel (tasks s tid) = true ->
              s' = finish tid c (set_ready r s) ->
              exists new, ready s' = r ++ new /\
                (forall h', In h' new -> wt s' h' < wt s h) /\
                (forall h', In h' r -> wt s' h' = wt s h')).
    { intros tid c Hh Hcan ->. unfold finish. ssimpl. exists [HDoneCb tid]. splits; auto.
      - intros h' [<- | []]. simpl. destruct Hh as [[-> _] | [-> _]]; simpl; rewrite Hcan; lia.
      - intros h' Hh'. destruct h' as [t' | t' | t']; simpl; auto.
        + assert (t' <> tid).
          { intros ->. destruct Hh as [[-> _] | [_ Hs]]; [tauto | ].
            apply Hrin in Hh'. destruct Hh' as [Hh' _]. apply (m_start HM) in Hh'. congruence. }
          now rewrite fupd_neq.
        + assert (t' <> tid).
          { intros ->. destruct Hh as [[_ Hs] | [-> _]]; [ | tauto].
            apply Hrin in Hh'. destruct Hh' as [Hh' _]. apply (m_wake HM) in Hh'. congruence. }
          now rewrite fupd_neq. }
    destruct h as [tid | tid | tid].
    - (* HStart *)
      pose proof (proj1 (m_start HM tid) Hin) as Hst.
      unfold s', run_handle in *. ssimpl. rewrite Hst in *.
      destruct (t_cancel (tasks s tid)) eqn:Hcan.
      + eapply Dead; eauto.
      + assert (Hc : cur s tid).
        { destruct (cur_dec s tid) as [H | H]; auto.
          destruct (m_noncur HM H) as [H1 | [H1 _]]; congruence. }
        destruct (cur_queue HI Hc) as (q & Hq & _ & _).
        unfold Loop.register in *. ssimpl. rewrite Hq in *.
        set (s0 := upd_task tid (with_queue q) (upd_task tid (with_status TRunning) (set_ready r s))).
        eapply Live with (s0 := s0) (tid := tid); eauto.
        * intros tid'. unfold s0. ssimpl. fupd_case tid' tid; ssimpl; auto; try (rewrite fupd_eq; auto).
        * unfold Loop.monitor. eapply monitor_loop_Grows; [ | apply Nat.lt_succ_diag_r].
          eapply enter_Running with (s := s) (h := HStart tid); eauto.
          unfold s0. constructor; ssimpl; auto.
          -- rewrite !fupd_eq. unfold with_queue, with_status. simpl. rewrite Hcan. reflexivity.
          -- intros tid' Hne. now rewrite !fupd_neq.
    - (* HWake *)
      pose proof (proj1 (m_wake HM tid) Hin) as Hst.
      unfold s', run_handle in *. ssimpl. rewrite Hst in *.
      destruct (t_cancel (tasks s tid)) eqn:Hcan.
      + eapply Dead; eauto.
      + assert (Hc : cur s tid).
        { destruct (cur_dec s tid) as [H | H]; auto.
          destruct (m_noncur HM H) as [H1 | [H1 _]]; congruence. }
        destruct (cur_queue HI Hc) as (q & Hq & _ & Htq).
        rewrite Htq in * by (rewrite Hst; discriminate).
        set (s0 := upd_task tid (with_status TRunning) (set_ready r s)).
        eapply Live with (s0 := s0) (tid := tid); eauto.
        * intros tid'. unfold s0. ssimpl. fupd_case tid' tid; ssimpl; auto.
        * unfold Loop.monitor. eapply monitor_loop_Grows; [ | apply Nat.lt_succ_diag_r].
          eapply enter_Running with (s := s) (h := HWake tid); eauto.
          unfold s0. constructor; ssimpl; auto.
          -- rewrite fupd_eq. unfold with_status. simpl. rewrite Hcan, Htq by (rewrite Hst; discriminate). reflexivity.
          -- intros tid' Hne. now rewrite fupd_neq.
    - (* HDoneCb *)
      assert (E : s' = set_ready r s).
      { assert (Hd : status s tid = TDone) by (apply (m_donecb HM); auto).
        unfold s', run_handle. ssimpl. destruct (rtasks s (t_key (tasks s tid))) as [tid' | ] eqn:Hrt; auto.
        destruct (Nat.eqb_spec tid' tid); auto. subst.
        destruct (HK (t_key (tasks s tid))) as (_ & _ & C). destruct (C _ Hrt) as (_ & H2 & _). tauto. }
      rewrite E. exists []. ssimpl. splits; auto.
      + now rewrite app_nil_r.
      + intros h' [].
  Qed.

  Lemma firstn_In' : forall A (x : A) n l, In x (firstn n l) -> In x l.
  Proof. intros. rewrite <- (firstn_skipn n l). apply in_app_iff. now left. Qed.

  Lemma skipn_In' : forall A (x : A) n l, In x (skipn n l) -> In x l.
  Proof. intros. rewrite <- (firstn_skipn n l). apply in_app_iff. now right. Qed.

  Lemma run_handles_wt : forall n s B,
    Inv None s -> n <= List.length (ready s) ->
    (forall h, In h (firstn n (ready s)) -> wt s h <= B) ->
    exists new, ready (run_handles n s) = skipn n (ready s) ++ new /\
      (forall h', In h' new -> wt (run_handles n s) h' < B) /\
      (forall h', In h' (skipn n (ready s)) -> wt (run_handles n s) h' = wt s h').
  Proof.
    induction n as [ | n IH]; intros s B HI Hlen HB.
    - exists []. simpl. splits; auto. now rewrite app_nil_r. intros h' [].
    - simpl. destruct (ready s) as [ | h r] eqn:Hr; [simpl in Hlen; lia | ].
      destruct (run_handle_wt HI Hr) as (new1 & E1 & L1 & S1). cbv zeta in E1, L1, S1.
      set (s1 := run_handle h (set_ready r s)) in *.
      assert (HI1 : Inv None s1) by (apply run_handle_Inv; auto).
      simpl in Hlen. assert (Hn : n <= List.length r) by lia.
      assert (Hf : firstn n (ready s1) = firstn n r).
      { rewrite E1, firstn_app. replace (n - List.length r) with 0 by lia.
        simpl. now rewrite app_nil_r. }
      assert (Hs : skipn n (ready s1) = skipn n r ++ new1).
      { rewrite E1, skipn_app. replace (n - List.length r) with 0 by lia. reflexivity. }
      destruct (IH s1 B HI1) as (new2 & E2 & L2 & S2).
      + rewrite E1, app_length. lia.
      + rewrite Hf. intros h' Hh'. rewrite S1 by (eapply firstn_In'; eauto).
        apply HB. simpl. right. exact Hh'.
      + exists (new1 ++ new2). rewrite E2, Hs. simpl. splits.
        * now rewrite app_assoc.
        * intros h' Hh'. apply in_app_iff in Hh'. destruct Hh' as [Hh' | Hh']; auto.
          rewrite S2 by (rewrite Hs; apply in_app_iff; now right).
          specialize (L1 _ Hh'). specialize (HB h (or_introl eq_refl)). lia.
        * intros h' Hh'. rewrite S2 by (rewrite Hs; apply in_app_iff; now left).
          apply S1. eapply skipn_In'; eauto.
  Qed.

  (* the heaviest handle in the ready queue *)
  Definition maxw (s : state) : nat := list_max (map (wt s) (ready s)).

  Lemma maxw_ge : forall s h, In h (ready s) -> wt s h <= maxw s.
  Proof.
    intros s h Hin. unfold maxw.
    pose proof (proj1 (list_max_le (map (wt s) (ready s)) _) (le_n _)) as H.
    rewrite Forall_forall in H. apply H. now apply in_map.
  Qed.

  (* one turn of the loop: everything that is ready afterwards is lighter than
     the heaviest handle that was ready before *)
  Lemma yield_wt : forall s, Inv None s ->
    forall h, In h (ready (yield s)) -> wt (yield s) h < maxw s.
  Proof.
    intros s HI h Hin. unfold Loop.yield in *.
    destruct (@run_handles_wt (List.length (ready s)) s (maxw s) HI (le_n _)) as (new & E & L & _).
    - intros h' Hh'. apply maxw_ge. eapply firstn_In'; eauto.
    - rewrite E, skipn_all in Hin. simpl in Hin. auto.
  Qed.

  Fixpoint yields (n : nat) (s : state) : state :=
    match n with
    | 0 => s
    | S m => yields m (yield s)
    end.

  Lemma wt_pos : forall s h, 1 <= wt s h.
  Proof. intros s [tid | tid | tid]; simpl; auto; destruct (t_cancel _); lia. Qed.

  Lemma yields_drain : forall n s, Inv None s -> maxw s <= n -> ready (yields n s) = [].
  Proof.
    induction n as [ | n IH]; intros s HI Hm; simpl.
    - destruct (ready s) as [ | h r] eqn:Hr; auto.
      pose proof (maxw_ge s h). rewrite Hr in H. specialize (H (or_introl eq_refl)).
      pose proof (wt_pos s h). lia.
    - apply IH.
      + apply run_handles_Inv; auto.
      + unfold maxw at 1. apply list_max_le. rewrite Forall_forall.
        intros w Hw. apply in_map_iff in Hw. destruct Hw as (h & <- & Hh).
        pose proof (yield_wt HI h Hh). lia.
  Qed.

  Lemma run_app_yields : forall ops n, Forall wf_op ops ->
    run (ops ++ repeat Yield n) = yields n (run ops).
  Proof.
    intros ops n Hwf. unfold Loop.run. rewrite fold_left_app. fold (Loop.run ord ops).
    pose proof (run_Inv Hwf) as HI. revert HI. generalize (run ops) as s.
    induction n as [ | n IH]; intros s HI; simpl; auto.
    assert (E : step s Yield = yield s) by (unfold Loop.step; now rewrite (m_err (proj1 HI))).
    rewrite E. apply IH. apply run_handles_Inv; auto.
  Qed.

  Lemma maxw_le_keys : forall s N,
    (forall tid, t_key (tasks s tid) < N) -> maxw s <= N + 2.
  Proof.
    intros s N HN. unfold maxw. apply list_max_le. rewrite Forall_forall.
    intros w Hw. apply in_map_iff in Hw. destruct Hw as (h & <- & _).
    destruct h as [tid | tid | tid]; simpl; try lia;
      destruct (t_cancel _); specialize (HN tid); lia.
  Qed.

  (* PROGRESS: after any history, [maxw] further turns of the loop empty the
     ready queue (and then every cached entry is coherent) *)
  Theorem yield_progress_thm : forall ops n, Forall wf_op ops ->
    maxw (run ops) <= n ->
    ready (run (ops ++ repeat Yield n)) = [] /\ coherent (run (ops ++ repeat Yield n)).
  Proof.
    intros ops n Hwf Hn.
    assert (Hwf' : Forall wf_op (ops ++ repeat Yield n)).
    { apply Forall_app. split; auto. apply Forall_forall. intros o Ho.
      apply repeat_spec in Ho. subst. exact I. }
    assert (E : ready (run (ops ++ repeat Yield n)) = []).
    { rewrite run_app_yields by auto. apply yields_drain; auto. apply run_Inv; auto. }
    split; auto. apply quiescent_coherent_thm; auto.
  Qed.

  Theorem yield_progress_keys_thm : forall ops N, Forall wf_op ops ->
    (forall tid, t_key (tasks (run ops) tid) < N) ->
    ready (run (ops ++ repeat Yield (N + 2))) = [] /\
    coherent (run (ops ++ repeat Yield (N + 2))).
  Proof.
    intros ops N Hwf HN. apply yield_progress_thm; auto. now apply maxw_le_keys.
  Qed.

  (* ------------------------------------- the keys of the tasks ever created *)

  Lemma sot_tasks : forall sb rs s, tasks (subscribe_only_to sb rs s) = tasks s.
  Proof.
    intros. unfold subscribe_only_to.
    destruct (check_cycles _ _ _ _) as [[ | ] | ]; try reflexivity;
      unfold set_err; destruct (err s); reflexivity.
  Qed.

  Lemma sot_queues : forall sb rs s, queues (subscribe_only_to sb rs s) = queues s.
  Proof.
    intros. unfold subscribe_only_to.
    destruct (check_cycles _ _ _ _) as [[ | ] | ]; try reflexivity;
      unfold set_err; destruct (err s); reflexivity.
  Qed.

  Lemma sot_nt : forall sb rs s, nt (subscribe_only_to sb rs s) = nt s.
  Proof.
    intros. unfold subscribe_only_to.
    destruct (check_cycles _ _ _ _) as [[ | ] | ]; try reflexivity;
      unfold set_err; destruct (err s); reflexivity.
  Qed.

  Lemma kill_q_key : forall q s tid, t_key (tasks (kill_q q s) tid) = t_key (tasks s tid).
  Proof.
    intros. unfold kill_q. destruct (q_shut (heap s q)); auto.
    ssimpl. apply (f_key (put_event_Mild q EKill s)).
  Qed.

  Lemma cancel_key : forall tid s tid', t_key (tasks (cancel tid s) tid') = t_key (tasks s tid').
  Proof.
    intros. unfold cancel.
    destruct (t_status (tasks s tid)); ssimpl; auto;
      try (destruct (t_queue (tasks s tid)); ssimpl);
      (destruct (Nat.eq_dec tid' tid) as [-> | Hne];
       [rewrite fupd_eq | rewrite fupd_neq by auto]; auto).
  Qed.

  Lemma register_key : forall k s tid,
    t_key (tasks (snd (register k s)) tid) = t_key (tasks s tid).
  Proof.
    intros. unfold Loop.register. destruct (queues s k); simpl; auto.
    rewrite (f_key (notify_Mild _ _ _)). reflexivity.
  Qed.

  Lemma deregister_key : forall k t s tid,
    t_key (tasks (deregister k t s) tid) = t_key (tasks s tid).
  Proof.
    intros. unfold Loop.deregister. rewrite (f_key (notify_Mild _ _ _)).
    destruct (queues (subscribe_only_to k [] s) k); ssimpl.
    - rewrite kill_q_key. now rewrite sot_tasks.
    - now rewrite sot_tasks.
  Qed.

  Lemma hn_key : forall k deps st fin wp s tid,
    t_key (tasks (handle_notifications k deps st fin wp s) tid) = t_key (tasks s tid) \/
    t_key (tasks (handle_notifications k deps st fin wp s) tid) = k.
  Proof.
    intros. unfold Loop.handle_notifications.
    set (s2 := subscribe_only_to k deps (set_ptimes (fupd (ptimes s) k (Some st)) s)).
    assert (E : t_key (tasks (bump k (notify k fin s2)) tid) = t_key (tasks s tid)).
    { ssimpl. rewrite (f_key (notify_Mild _ _ _)). unfold s2. now rewrite sot_tasks. }
    destruct deps; auto. destruct wp; auto.
    destruct (rtasks (bump k (notify k fin s2)) k); auto.
    unfold create_task. ssimpl.
    destruct (Nat.eq_dec tid (nt (notify k fin s2))) as [-> | Hne].
    - right. rewrite fupd_eq. reflexivity.
    - left. rewrite fupd_neq by auto. exact E.
  Qed.

  Lemma offer_key : forall k v deps s tid,
    t_key (tasks (offer k v deps s) tid) = t_key (tasks s tid) \/
    t_key (tasks (offer k v deps s) tid) = k.
  Proof.
    intros. unfold Loop.offer.
    destruct (match cache s k with Some e => c_version e =? v | None => false end); auto.
    match goal with |- context [handle_notifications k deps ?st ?fin true ?s4] =>
      destruct (hn_key k deps st fin true s4 tid) as [H | H]; auto; left; rewrite H end.
    ssimpl. rewrite register_key. reflexivity.
  Qed.

  Lemma delete_key : forall k s tid, t_key (tasks (delete k s) tid) = t_key (tasks s tid).
  Proof.
    intros. unfold Loop.delete. destruct (cache s k); auto.
    assert (E : forall s0, t_key (tasks (bump k (deregister k (clock (tick s))
                  (kill_resource k s0))) tid) = t_key (tasks s0 tid)).
    { intros s0. ssimpl. rewrite deregister_key. unfold kill_resource.
      destruct (queues s0 k); auto. apply kill_q_key. }
    match goal with |- context [rtasks ?s4 k] => destruct (rtasks s4 k) end.
    - rewrite cancel_key. ssimpl. rewrite deregister_key. unfold kill_resource. ssimpl.
      destruct (queues s k); auto. rewrite kill_q_key. reflexivity.
    - ssimpl. rewrite deregister_key. unfold kill_resource. ssimpl.
      destruct (queues s k); auto. rewrite kill_q_key. reflexivity.
  Qed.

  Lemma run_handle_key : forall s h r,
    Inv None s -> ready s = h :: r ->
    forall tid', t_key (tasks (run_handle h (set_ready r s)) tid') = t_key (tasks s tid').
  Proof.
    intros s h r HI Hr tid'. pose proof HI as [HM HK].
    assert (Hin : In h (ready s)) by (rewrite Hr; now left).
    destruct h as [tid | tid | tid].
    - pose proof (proj1 (m_start HM tid) Hin) as Hst.
      unfold run_handle. ssimpl. rewrite Hst.
      destruct (t_cancel (tasks s tid)) eqn:Hcan.
      + unfold finish. ssimpl. fupd_case tid' tid; auto.
      + assert (Hc : cur s tid).
        { destruct (cur_dec s tid) as [H | H]; auto.
          destruct (m_noncur HM H) as [H1 | [H1 _]]; congruence. }
        destruct (cur_queue HI Hc) as (q & Hq & _ & _).
        unfold Loop.register. ssimpl. rewrite Hq.
        set (s0 := upd_task tid (with_queue q) (upd_task tid (with_status TRunning) (set_ready r s))).
        assert (G : Grows (t_key (tasks s tid)) s0 (monitor tid q s0)).
        { unfold Loop.monitor. eapply monitor_loop_Grows; [ | apply Nat.lt_succ_diag_r].
          eapply enter_Running with (s := s) (h := HStart tid); eauto.
          unfold s0. constructor; ssimpl; auto.
          - rewrite !fupd_eq. unfold with_queue, with_status. simpl. rewrite Hcan. reflexivity.
          - intros t' Hne. now rewrite !fupd_neq. }
        destruct G as [A _]. destruct (A tid') as [-> _].
        unfold s0. ssimpl. fupd_case tid' tid; ssimpl; auto; try (rewrite fupd_eq; auto).
    - pose proof (proj1 (m_wake HM tid) Hin) as Hst.
      unfold run_handle. ssimpl. rewrite Hst.
      destruct (t_cancel (tasks s tid)) eqn:Hcan.
      + unfold finish. ssimpl. fupd_case tid' tid; auto.
      + assert (Hc : cur s tid).
        { destruct (cur_dec s tid) as [H | H]; auto.
          destruct (m_noncur HM H) as [H1 | [H1 _]]; congruence. }
        destruct (cur_queue HI Hc) as (q & Hq & _ & Htq).
        rewrite Htq by (rewrite Hst; discriminate).
        set (s0 := upd_task tid (with_status TRunning) (set_ready r s)).
        assert (G : Grows (t_key (tasks s tid)) s0 (monitor tid q s0)).
        { unfold Loop.monitor. eapply monitor_loop_Grows; [ | apply Nat.lt_succ_diag_r].
          eapply enter_Running with (s := s) (h := HWake tid); eauto.
          unfold s0. constructor; ssimpl; auto.
          - rewrite fupd_eq. unfold with_status. simpl. rewrite Hcan, Htq by (rewrite Hst; discriminate). reflexivity.
          - intros t' Hne. now rewrite fupd_neq. }
        destruct G as [A _]. destruct (A tid') as [-> _].
        unfold s0. ssimpl. fupd_case tid' tid; ssimpl; auto.
    - assert (E : run_handle (HDoneCb tid) (set_ready r s) = set_ready r s).
      { assert (Hd : status s tid = TDone) by (apply (m_donecb HM); auto).
        unfold run_handle. ssimpl. destruct (rtasks s (t_key (tasks s tid))) as [t' | ] eqn:Hrt; auto.
        destruct (Nat.eqb_spec t' tid); auto. subst.
        destruct (HK (t_key (tasks s tid))) as (_ & _ & C). destruct (C _ Hrt) as (_ & H2 & _). tauto. }
      rewrite E. reflexivity.
  Qed.

  Lemma run_handles_key : forall n s, Inv None s ->
    forall tid, t_key (tasks (run_handles n s) tid) = t_key (tasks s tid).
  Proof.
    induction n as [ | n IH]; intros s HI tid; simpl; auto.
    destruct (ready s) as [ | h r] eqn:Hr; auto.
    rewrite IH by (apply run_handle_Inv; auto). now apply run_handle_key.
  Qed.

  (* every key mentioned by the history is below N *)
  Definition op_below (N : nat) (o : op) : Prop :=
    match o with
    | Offer k _ _ => k < N
    | Delete k => True
    | Yield => True
    end.

  Lemma run_keys_below : forall N ops, 0 < N -> Forall wf_op ops -> Forall (op_below N) ops ->
    forall tid, t_key (tasks (run ops) tid) < N.
  Proof.
    intros N ops HN Hwf Hb. unfold Loop.run.
    assert (H0 : forall tid, t_key (tasks init tid) < N) by (intros; simpl; auto).
    pose proof init_Inv as HI. revert H0 HI. generalize init as s.
    induction ops as [ | o ops IH]; intros s H0 HI tid; simpl; auto.
    inversion Hwf; subst. inversion Hb; subst.
    apply IH; auto; [ | apply step_Inv; auto].
    intros tid'. unfold Loop.step. rewrite (m_err (proj1 HI)).
    destruct o as [k v deps | k | ].
    - destruct (offer_key k v deps s tid') as [-> | ->]; auto.
    - rewrite delete_key. auto.
    - unfold Loop.yield. rewrite run_handles_key; auto.
  Qed.

  Theorem yield_progress_N_thm : forall ops N, 0 < N -> Forall wf_op ops ->
    Forall (op_below N) ops ->
    ready (run (ops ++ repeat Yield (N + 2))) = [] /\
    coherent (run (ops ++ repeat Yield (N + 2))).
  Proof.
    intros ops N HN Hwf Hb. apply yield_progress_keys_thm; auto.
    apply run_keys_below; auto.
  Qed.

End WithOrd.
