(* Predicates_proofs.v — specification vocabulary and proofs for property C13
   over model/Predicates.v. *)
From Koreo Require Import Json Outcome ErrScan Predicates ErrScan_proofs.
From Coq Require Import Lia.
Local Open Scope list_scope.

(* ====================================================================== *)
(* Specification vocabulary (what "a predicate of kind K" means)           *)
(* ====================================================================== *)

(* the five outcome kinds of the schema, with the evaluated message / delay *)
Inductive kind :=
| KOk
| KDepSkip (msg : vtree)
| KSkip (msg : vtree)
| KRetry (msg delay : vtree)
| KPermFail (msg : vtree).

Definition kname (k : kind) : string :=
  match k with
  | KOk => "ok" | KDepSkip _ => "depSkip" | KSkip _ => "skip"
  | KRetry _ _ => "retry" | KPermFail _ => "permFail"
  end.

Definition kind_names : list string := ["ok"; "depSkip"; "skip"; "retry"; "permFail"].

Definition kind_body (k : kind) (m : list (vtree * vtree)) : Prop :=
  match k with
  | KOk => True
  | KDepSkip msg | KSkip msg | KPermFail msg => vlookup "message" m = Some msg
  | KRetry msg d => vlookup "message" m = Some msg /\ vlookup "delay" m = Some d
  end.

(* [e] is the evaluated element of a predicate whose assertion evaluated to [a]
   and that has exactly the outcome kind [k] (the schema's oneOf): any key order,
   any extra keys. *)
Definition is_pred (e : vtree) (a : vtree) (k : kind) : Prop :=
  exists kvs m,
    e = VMap kvs /\ vlookup "assert" kvs = Some a /\
    vlookup (kname k) kvs = Some (VMap m) /\ kind_body k m /\
    (forall n, In n kind_names -> n <> kname k -> vlookup n kvs = None).

(* the assertion of [e] evaluated to a boolean *)
Definition bool_assert (e : vtree) : Prop :=
  exists kvs b, e = VMap kvs /\ vlookup "assert" kvs = Some (VBool b).

(* the canonical layout predicate_extractor produces from a schema-valid spec *)
Definition elem (a : vtree) (k : kind) : vtree :=
  VMap ((VStr "assert", a) ::
        match k with
        | KOk => [(VStr "ok", VMap [])]
        | KDepSkip m => [(VStr "depSkip", VMap [(VStr "message", m)])]
        | KSkip m => [(VStr "skip", VMap [(VStr "message", m)])]
        | KRetry m d => [(VStr "retry", VMap [(VStr "message", m); (VStr "delay", d)])]
        | KPermFail m => [(VStr "permFail", VMap [(VStr "message", m)])]
        end).

(* what the property text says a false assertion of kind [k] yields
   (None = "checking stops and evaluation continues") *)
Definition kind_result (loc : string) (k : kind) : option outcome :=
  match k with
  | KOk => None
  | KDepSkip m => Some (DepSkip (fmt m) (Some loc))
  | KSkip m => Some (Skip (fmt m) (Some loc))
  | KRetry m d =>
      match delay_of d with
      | Some z => Some (Retry z (fmt m) (Some loc))
      | None => Some (PermFail (Some (msg_eval_exn loc)) (Some loc))   (* delay is not an integer *)
      end
  | KPermFail m => Some (PermFail (fmt m) (Some loc))
  end.

Definition is_permfail (o : option outcome) : Prop := exists m l, o = Some (PermFail m l).

(* ====================================================================== *)
(* celpy's filter                                                          *)
(* ====================================================================== *)

Lemma assert_of_bool : forall e, bool_assert e <-> exists b, assert_of e = Some b.
Proof.
  intros e. split.
  - intros (kvs & b & -> & H). exists b. cbn. now rewrite H.
  - intros (b & H). destruct e; try discriminate. cbn in H.
    destruct (vlookup "assert" kvs) as [[]|] eqn:E; try discriminate.
    inversion H; subst. now exists kvs, b.
Qed.

Lemma is_pred_assert_of : forall e b k, is_pred e (VBool b) k -> assert_of e = Some b.
Proof. intros e b k (kvs & m & -> & H & _). cbn. now rewrite H. Qed.

Lemma filter_false_none : forall es,
  filter_false es = None <-> exists e, In e es /\ assert_of e = None.
Proof.
  induction es as [|e r IH]; cbn.
  - split; [discriminate|]. intros (e & [] & _).
  - destruct (assert_of e) as [b|] eqn:E.
    + destruct (filter_false r) as [k|] eqn:F.
      * split; [discriminate|]. intros (e' & [<-|Hin] & H); [congruence|].
        destruct IH as [_ IH]. discriminate IH. eauto.
      * split; auto. intros _. destruct IH as [IH _]. destruct (IH eq_refl) as (e' & Hin & H).
        exists e'. auto.
    + split; auto. intros _. exists e. auto.
Qed.

(* the elements whose assertion is false, in order *)
Definition kept (es : list vtree) : list vtree :=
  filter (fun e => match assert_of e with Some false => true | _ => false end) es.

Lemma filter_false_some : forall es,
  Forall (fun e => exists b, assert_of e = Some b) es -> filter_false es = Some (kept es).
Proof.
  induction 1 as [|e r (b & Hb) _ IH]; cbn; auto.
  rewrite Hb, IH. now destruct b.
Qed.

(* ====================================================================== *)
(* predicate_to_koreo_result on one well-formed element                    *)
(* ====================================================================== *)

Lemma sub_map_none : forall k e, vlookup k e = None -> sub_map k e = None.
Proof. intros k e H. unfold sub_map. now rewrite H. Qed.

Lemma msg_in_none : forall k e, vlookup k e = None -> msg_in k e = None.
Proof. intros k e H. unfold msg_in. now rewrite sub_map_none. Qed.

Lemma retry_in_none : forall e, vlookup "retry" e = None -> retry_in e = None.
Proof. intros e H. unfold retry_in. now rewrite sub_map_none. Qed.

Lemma decide_is_pred : forall loc e a k,
  is_pred e a k ->
  decide loc e = match k with
                 | KRetry _ d => match delay_of d with
                                 | Some _ => Done (kind_result loc k)
                                 | None => Raised ValueError
                                 end
                 | _ => Done (kind_result loc k)
                 end.
Proof.
  intros loc e a k (kvs & m & -> & Ha & Hk & Hb & Ho).
  assert (Hn : forall n, In n kind_names -> n <> kname k -> vlookup n kvs = None) by exact Ho.
  unfold decide. rewrite Ha.
  destruct k; cbn [kname kind_body kind_result] in *.
  - unfold sub_map. now rewrite Hk.
  - rewrite (sub_map_none "ok") by (apply Hn; cbn; intuition discriminate).
    unfold msg_in, sub_map. now rewrite Hk, Hb.
  - rewrite (sub_map_none "ok") by (apply Hn; cbn; intuition discriminate).
    rewrite (msg_in_none "depSkip") by (apply Hn; cbn; intuition discriminate).
    unfold msg_in, sub_map. now rewrite Hk, Hb.
  - rewrite (sub_map_none "ok") by (apply Hn; cbn; intuition discriminate).
    rewrite (msg_in_none "depSkip") by (apply Hn; cbn; intuition discriminate).
    rewrite (msg_in_none "skip") by (apply Hn; cbn; intuition discriminate).
    destruct Hb as [Hm Hd]. unfold retry_in, sub_map. rewrite Hk, Hm, Hd.
    now destruct (delay_of delay).
  - rewrite (sub_map_none "ok") by (apply Hn; cbn; intuition discriminate).
    rewrite (msg_in_none "depSkip") by (apply Hn; cbn; intuition discriminate).
    rewrite (msg_in_none "skip") by (apply Hn; cbn; intuition discriminate).
    rewrite retry_in_none by (apply Hn; cbn; intuition discriminate).
    unfold msg_in, sub_map. now rewrite Hk, Hb.
Qed.

(* p2k + the except clause of evaluate_predicates *)
Definition settle (loc : string) (r : res (option outcome)) : option outcome :=
  match r with
  | Done o => o
  | Raised _ => Some (PermFail (Some (msg_eval_exn loc)) (Some loc))
  end.

Lemma settle_decide_is_pred : forall loc e a k,
  is_pred e a k -> settle loc (decide loc e) = kind_result loc k.
Proof.
  intros loc e a k H. rewrite (decide_is_pred loc e a k H).
  destruct k; auto. cbn. now destruct (delay_of delay).
Qed.

Lemma evaluate_predicates_kept : forall loc es,
  Forall (fun e => exists b, assert_of e = Some b) es ->
  evaluate_predicates es loc =
    if existsb scan (kept es) then Some (fail_eval loc)
    else match kept es with
         | [] => None
         | p :: _ => settle loc (decide loc p)
         end.
Proof.
  intros loc es H. unfold evaluate_predicates, cel_filter. rewrite (filter_false_some es H).
  unfold evaluate_predicates_raw. rewrite scan_list.
  destruct (existsb scan (kept es)); auto.
  unfold p2k. destruct (kept es) as [|p r]; auto.
Qed.

(* ====================================================================== *)
(* C13, predicate level                                                    *)
(* ====================================================================== *)

Definition specs_of (es : list vtree) (specs : list (bool * kind)) : Prop :=
  Forall2 (fun e s => is_pred e (VBool (fst s)) (snd s)) es specs.

Lemma specs_assert : forall es specs, specs_of es specs ->
  Forall (fun e => exists b, assert_of e = Some b) es.
Proof.
  induction 1 as [|e s es specs H _ IH]; constructor; auto.
  exists (fst s). eapply is_pred_assert_of; eauto.
Qed.

(* the kept list, described on the spec side *)
Lemma kept_specs : forall es specs, specs_of es specs ->
  Forall2 (fun e s => is_pred e (VBool false) (snd s)) (kept es)
          (filter (fun s => negb (fst s)) specs).
Proof.
  induction 1 as [|e s es specs H _ IH]; cbn; [constructor|].
  rewrite (is_pred_assert_of _ _ _ H). destruct s as [[] k]; cbn in *; auto.
Qed.

Lemma find_filter_hd : forall (A : Type) (f : A -> bool) (l : list A),
  find f l = hd_error (filter f l).
Proof. induction l as [|x r IH]; cbn; auto. destruct (f x); auto. Qed.

(* Main theorem: all assertions boolean, everything belonging to a false
   assertion evaluates => the first false assertion alone decides. *)
Theorem first_false_decides : forall loc es specs,
  specs_of es specs ->
  (forall e, In e es -> assert_of e = Some false -> err_free e) ->
  evaluate_predicates es loc =
    match find (fun s => negb (fst s)) specs with
    | None => None
    | Some s => kind_result loc (snd s)
    end.
Proof.
  intros loc es specs Hs Hfree.
  rewrite (evaluate_predicates_kept loc es (specs_assert _ _ Hs)).
  assert (Hk : existsb scan (kept es) = false).
  { destruct (existsb scan (kept es)) eqn:E; auto.
    apply existsb_exists in E as (e & Hin & He). unfold kept in Hin.
    apply filter_In in Hin as [Hin Ha].
    destruct (assert_of e) as [[]|] eqn:Ea; try discriminate.
    apply (Hfree e Hin) in Ea. apply scan_false_err_free in Ea. congruence. }
  rewrite Hk, find_filter_hd.
  pose proof (kept_specs es specs Hs) as HK.
  destruct HK as [|p s ps ss Hp _]; cbn; auto.
  eapply settle_decide_is_pred; eauto.
Qed.

(* no assertion false: continue *)
Corollary none_false_continues : forall loc es specs,
  specs_of es specs -> Forall (fun s => fst s = true) specs ->
  evaluate_predicates es loc = None.
Proof.
  intros loc es specs Hs Ht. rewrite (first_false_decides loc es specs Hs).
  - replace (find (fun s => negb (fst s)) specs) with (@None (bool * kind)); auto.
    clear Hs. induction Ht as [|s r H _ IH]; cbn; auto. now rewrite H.
  - intros e Hin Ha. exfalso. clear loc.
    induction Hs as [|e' s es specs H _ IH]; [easy|].
    inversion Ht; subst. destruct Hin as [<-|Hin]; auto.
    rewrite (is_pred_assert_of _ _ _ H) in Ha. congruence.
Qed.

(* the first false assertion, positionally *)
Corollary first_false_at : forall loc es specs pre k post,
  specs_of es specs ->
  (forall e, In e es -> assert_of e = Some false -> err_free e) ->
  specs = pre ++ (false, k) :: post -> Forall (fun s => fst s = true) pre ->
  evaluate_predicates es loc = kind_result loc k.
Proof.
  intros loc es specs pre k post Hs Hf -> Hpre.
  rewrite (first_false_decides loc es _ Hs Hf). clear Hs Hf.
  induction Hpre as [|s r H _ IH]; cbn; auto.
  now rewrite H.
Qed.

(* an assertion that is not a boolean (error, other type, missing), anywhere => PermFail *)
Theorem nonbool_permfail : forall loc es e,
  In e es -> ~ bool_assert e -> is_permfail (evaluate_predicates es loc).
Proof.
  intros loc es e Hin Hnb. unfold evaluate_predicates, cel_filter.
  assert (H : filter_false es = None).
  { apply filter_false_none. exists e. split; auto.
    destruct (assert_of e) as [b|] eqn:E; auto. exfalso. apply Hnb. apply assert_of_bool. eauto. }
  rewrite H. cbn. unfold fail_eval. red. eauto.
Qed.

(* all assertions boolean, some false assertion's message/delay holds an error object
   => PermFail.  (The property demands this for the deciding = first false one; the
   code does it for every false one.) *)
Theorem false_msg_err_permfail : forall loc es e,
  Forall bool_assert es ->
  In e es -> assert_of e = Some false -> occurs_err e ->
  is_permfail (evaluate_predicates es loc).
Proof.
  intros loc es e Hb Hin Ha He.
  assert (Hb' : Forall (fun e => exists b, assert_of e = Some b) es).
  { eapply Forall_impl; [|exact Hb]. intros x. apply assert_of_bool. }
  rewrite (evaluate_predicates_kept loc es Hb').
  assert (Hk : existsb scan (kept es) = true).
  { apply existsb_exists. exists e. split; [|now apply scan_complete].
    unfold kept. apply filter_In. split; auto. now rewrite Ha. }
  rewrite Hk. unfold fail_eval. red. eauto.
Qed.

Corollary deciding_msg_err_permfail : forall loc es pre e post,
  Forall bool_assert es ->
  es = pre ++ e :: post -> Forall (fun x => assert_of x = Some true) pre ->
  assert_of e = Some false -> occurs_err e ->
  is_permfail (evaluate_predicates es loc).
Proof.
  intros loc es pre e post Hb -> _ Ha He.
  apply false_msg_err_permfail with e; auto. apply in_or_app. right. now left.
Qed.

(* a message of a PASSING assertion that fails to evaluate is dropped by the filter:
   documents the code's behaviour in the case the property text leaves open *)
Lemma passing_msg_err_ignored : forall loc e es,
  assert_of e = Some true ->
  evaluate_predicates (e :: es) loc = evaluate_predicates es loc.
Proof.
  intros loc e es Ha. unfold evaluate_predicates, cel_filter. cbn [filter_false]. rewrite Ha.
  now destruct (filter_false es).
Qed.

(* retry with a delay that is not an integer => PermFail *)
Lemma retry_bad_delay_permfail : forall loc m d,
  delay_of d = None -> is_permfail (kind_result loc (KRetry m d)).
Proof. intros loc m d H. cbn. rewrite H. red. eauto. Qed.

(* the outcome never is Ok, and evaluate_predicates is total by construction *)
Lemma elem_is_pred : forall a k, is_pred (elem a k) a k.
Proof.
  intros a k. unfold is_pred, elem.
  destruct k; eexists; eexists; (split; [reflexivity|]); cbn;
    repeat split; auto; intros n Hn Hne; cbn in Hn;
    repeat (destruct Hn as [<-|Hn]; [try reflexivity; try (exfalso; apply Hne; reflexivity)|]);
    try contradiction.
Qed.

(* ====================================================================== *)
(* C13, function level                                                     *)
(* ====================================================================== *)

(* ValueFunction: a precondition outcome is returned as is; only the preconditions
   were evaluated (locals and return never reach celpy) *)
Theorem vf_precondition_stops : forall f base loc o,
  evaluate_predicates_opt (vf_pre f) (sloc loc "preconditions") = Some o ->
  reconcile_vf f base loc = (Done (UOut o), trace_of SPre (vf_pre f)).
Proof. intros f base loc o H. unfold reconcile_vf. now rewrite H. Qed.

Lemma trace_of_in : forall s s' r, In s (trace_of s' r) -> s = s'.
Proof. intros s s' [r|]; cbn; intuition. Qed.

Corollary vf_precondition_body_not_evaluated : forall f base loc o,
  evaluate_predicates_opt (vf_pre f) (sloc loc "preconditions") = Some o ->
  fst (reconcile_vf f base loc) = Done (UOut o) /\
  ~ In SLocals (snd (reconcile_vf f base loc)) /\ ~ In SReturn (snd (reconcile_vf f base loc)).
Proof.
  intros f base loc o H. rewrite (vf_precondition_stops f base loc o H). cbn [fst snd].
  repeat split; intros Hin; apply trace_of_in in Hin; discriminate.
Qed.

(* ... and when the preconditions say "continue", the body is what decides *)
Theorem vf_continue : forall f base loc idx rr,
  evaluate_predicates_opt (vf_pre f) (sloc loc "preconditions") = None ->
  vf_return f = Some (idx, rr) ->
  (vf_locals f = None \/ exists m, vf_locals f = Some (RVal (VMap m)) /\ scan (VMap m) = false) ->
  reconcile_vf f base loc =
    (evaluate_overlay idx rr (match base with Some b => b | None => [] end) (sloc loc "return"),
     trace_of SPre (vf_pre f) ++ trace_of SLocals (vf_locals f) ++ [SReturn]).
Proof.
  intros f base loc idx rr Hp Hr Hl. unfold reconcile_vf. rewrite Hp, Hr.
  destruct Hl as [->|(m & -> & Hs)]; cbn [evaluate trace_of].
  - now rewrite app_assoc.
  - rewrite Hs. now rewrite app_assoc.
Qed.

Section RFProofs.
  Variable call : Type.
  Variable krm : option raw -> uoutcome vtree * list call.

  (* ResourceFunction: a precondition outcome is returned before locals, before
     reconcile_krm_resource: no API call at all (reads included) *)
  Theorem rf_precondition_stops : forall f loc o,
    evaluate_predicates_opt (rf_pre f) (sloc loc "preconditions") = Some o ->
    reconcile_rf call krm f loc = (Some (UOut o), trace_of SPre (rf_pre f), []).
  Proof. intros f loc o H. unfold reconcile_rf. now rewrite H. Qed.

  (* a postcondition outcome is returned as is and `return` is not evaluated *)
  Theorem rf_postcondition_stops : forall f loc o,
    evaluate_predicates_opt (rf_post f) (sloc loc "postconditions") = Some o ->
    forall r t calls, reconcile_rf call krm f loc = (r, t, calls) ->
    ~ In SReturn t /\
    (In SPost t -> r = Some (UOut o)).
  Proof.
    intros f loc o H r t calls0. unfold reconcile_rf.
    destruct (evaluate_predicates_opt (rf_pre f) _) as [o1|].
    { intros E; inversion E; subst; split; intros Hin; apply trace_of_in in Hin; discriminate. }
    assert (Hne : forall s a b, s <> SPre -> s <> SLocals ->
               ~ In s (trace_of SPre a ++ trace_of SLocals b)).
    { intros s a b H1 H2 Hin. apply in_app_or in Hin as [Hin|Hin]; apply trace_of_in in Hin; auto. }
    assert (HR : forall a b, ~ In SReturn (trace_of SPre a ++ trace_of SLocals b))
      by (intros; apply Hne; discriminate).
    assert (HP : forall a b, ~ In SPost (trace_of SPre a ++ trace_of SLocals b))
      by (intros; apply Hne; discriminate).
    match goal with |- context [match ?X with Some _ => _ | None => _ end] =>
      destruct X as [o2|] end.
    { intros E; inversion E; subst; split; intros Hin; [now apply HR in Hin|now apply HP in Hin]. }
    destruct (krm (rf_locals f)) as [[v|o3] calls].
    - rewrite H. intros E; inversion E; subst. split; auto.
      intros Hin. apply in_app_or in Hin as [Hin|Hin]; [now apply HR in Hin|].
      destruct Hin as [Hin|Hin]; [discriminate|]. apply trace_of_in in Hin. discriminate.
    - intros E; inversion E; subst. split; intros Hin; apply in_app_or in Hin as [Hin|[Hin|[]]];
        try discriminate; [now apply HR in Hin|now apply HP in Hin].
  Qed.
End RFProofs.
