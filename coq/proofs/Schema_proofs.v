(* Schema_proofs.v — lemmas about model/Schema.v (property C20).
   Part 1 is generic in the schema; part 2 instantiates it with the schema
   terms GENERATED from the CRD YAML files (gen/Schemas_gen.v), so a schema
   edit that drops a `type:` / `required:` the Python relies on breaks a
   `reflexivity` below. *)
From Koreo Require Import Json Schema Schemas_gen.
From Coq Require Import Lia.
Local Open Scope list_scope.
Local Open Scope nat_scope.

(* ------------------------------------------------------------------ *)
(* 1. generic                                                          *)
(* ------------------------------------------------------------------ *)

Lemma andthen_none : forall a b, a ;; b = None <-> a = None /\ b = None.
Proof. intros [e|] b; cbn; split; intros H; try discriminate; intuition discriminate. Qed.

Lemma andthen_some_l : forall a b e, a = Some e -> a ;; b = Some e.
Proof. intros a b e ->. reflexivity. Qed.

Lemma andthen_not_none_r : forall a b, b <> None -> a ;; b <> None.
Proof. intros [e|] b H; cbn; [discriminate | exact H]. Qed.

Lemma andthen_not_none_l : forall a b, a <> None -> a ;; b <> None.
Proof. intros [e|] b H; cbn; [discriminate | congruence]. Qed.

Lemma check_none : forall b r, check b r = None <-> b = true.
Proof. intros [|] r; cbn; split; intros; congruence. Qed.

(* named versions of the anonymous inner loops of [validate] and [fill] *)
Fixpoint each_item (si : schema) (l : list json) : option string :=
  match l with
  | [] => None
  | x :: r => validate si x ;; each_item si r
  end.

Fixpoint each_prop (ps : list (string * schema)) (kvs : list (string * json)) : option string :=
  match ps with
  | [] => None
  | (k, sk) :: r =>
      (match lookup k kvs with Some v => validate sk v | None => None end) ;; each_prop r kvs
  end.

Fixpoint fill_props (ps : list (string * schema)) (kvs : list (string * json)) : list (string * json) :=
  match ps with
  | [] => kvs
  | (k, sk) :: r => fill_props r (upd k (fill sk) (s_default sk) kvs)
  end.

Definition items_part (items : option schema) (j : json) : option string :=
  match items, j with
  | Some si, JList l => each_item si l
  | _, _ => None
  end.

Definition props_part (props : option (list (string * schema))) (j : json) : option string :=
  match props, j with
  | Some ps, JMap kvs => each_prop ps kvs
  | _, _ => None
  end.

Lemma validate_unfold : forall c items props j,
  validate (Sch c items props) j =
  check_type c j ;; check_enum c j ;; check_anyof c j ;; check_oneof c j ;;
  check_length c j ;; check_item_count c j ;; items_part items j ;;
  check_prop_count c j ;; check_required c j ;; props_part props j ;; check_addl c props j.
Proof.
  intros c items props j. cbn [validate].
  assert (Hi : forall si l,
    (fix each (l : list json) : option string :=
       match l with [] => None | x :: r => validate si x ;; each r end) l = each_item si l).
  { intros si l. induction l as [|x r IH]; cbn; [reflexivity | now rewrite IH]. }
  assert (Hp : forall kvs ps,
    (fix each (ps : list (string * schema)) : option string :=
       match ps with
       | [] => None
       | (k, sk) :: r =>
           (match lookup k kvs with Some v => validate sk v | None => None end) ;; each r
       end) ps = each_prop ps kvs).
  { intros kvs ps. induction ps as [|[k sk] r IH]; cbn; [reflexivity | now rewrite IH]. }
  unfold items_part, props_part.
  destruct items as [si|]; destruct props as [ps|]; destruct j; try reflexivity;
    try (rewrite ?Hi, ?Hp; reflexivity).
Qed.

Lemma fill_unfold_map : forall c items ps kvs,
  fill (Sch c items (Some ps)) (JMap kvs) = JMap (fill_props ps kvs).
Proof.
  intros c items ps kvs. reflexivity.
Qed.

Lemma fill_unfold_list : forall c si props l,
  fill (Sch c (Some si) props) (JList l) = JList (map (fill si) l).
Proof. reflexivity. Qed.

(* the pieces of a successful validation *)
Record valid_parts (c : constraints) (items : option schema)
       (props : option (list (string * schema))) (j : json) : Prop := {
  vp_type : check_type c j = None;
  vp_enum : check_enum c j = None;
  vp_anyof : check_anyof c j = None;
  vp_oneof : check_oneof c j = None;
  vp_length : check_length c j = None;
  vp_item_count : check_item_count c j = None;
  vp_items : items_part items j = None;
  vp_prop_count : check_prop_count c j = None;
  vp_required : check_required c j = None;
  vp_props : props_part props j = None;
  vp_addl : check_addl c props j = None }.

Lemma validate_parts : forall c items props j,
  validate (Sch c items props) j = None <-> valid_parts c items props j.
Proof.
  intros c items props j. rewrite validate_unfold. repeat rewrite andthen_none. split.
  - intros (?&?&?&?&?&?&?&?&?&?&?). constructor; assumption.
  - intros []. repeat split; assumption.
Qed.

(* ---- what a valid document satisfies ---- *)

Lemma valid_type : forall s j t,
  validate s j = None -> c_type (s_c s) = Some t -> has_type t j = true.
Proof.
  intros [c items props] j t Hv Ht. apply validate_parts in Hv. destruct Hv as [Hty _ _ _ _ _ _ _ _ _ _].
  cbn in Ht. unfold check_type in Hty. rewrite Ht in Hty. now apply check_none in Hty.
Qed.

Lemma valid_items : forall s l si,
  validate s (JList l) = None -> s_items s = Some si ->
  Forall (fun x => validate si x = None) l.
Proof.
  intros [c items props] l si Hv Hi. apply validate_parts in Hv. destruct Hv as [_ _ _ _ _ _ Hit _ _ _ _].
  cbn in Hi. subst items. cbn in Hit. induction l as [|x r IH]; constructor.
  - cbn in Hit. now apply andthen_none in Hit.
  - apply IH. cbn in Hit. now apply andthen_none in Hit.
Qed.

Lemma each_prop_valid : forall ps kvs k sk v,
  each_prop ps kvs = None -> lookup k ps = Some sk -> lookup k kvs = Some v ->
  validate sk v = None.
Proof.
  induction ps as [|[k' sk'] r IH]; intros kvs k sk v He Hl Hv; cbn in *; [discriminate|].
  apply andthen_none in He. destruct He as [Hh Hr].
  destruct (String.eqb k k') eqn:E.
  - apply String.eqb_eq in E. subst k'. inversion Hl; subst sk'. now rewrite Hv in Hh.
  - eapply IH; eauto.
Qed.

Lemma valid_props : forall s kvs ps k sk v,
  validate s (JMap kvs) = None -> s_props s = Some ps ->
  lookup k ps = Some sk -> lookup k kvs = Some v -> validate sk v = None.
Proof.
  intros [c items props] kvs ps k sk v Hv Hp Hl Hk. apply validate_parts in Hv.
  destruct Hv as [_ _ _ _ _ _ _ _ _ Hpr _]. cbn in Hp. subst props. cbn in Hpr.
  eapply each_prop_valid; eauto.
Qed.

Lemma mem_str_forallb : forall (f : string -> bool) k ks,
  forallb f ks = true -> mem_str k ks = true -> f k = true.
Proof.
  induction ks as [|x r IH]; cbn; intros Hf Hm; [discriminate|].
  apply andb_prop in Hf. destruct Hf as [Hx Hr].
  apply orb_prop in Hm. destruct Hm as [E|Hm].
  - apply String.eqb_eq in E. now subst.
  - now apply IH.
Qed.

Lemma valid_required : forall s kvs k,
  validate s (JMap kvs) = None -> mem_str k (c_required (s_c s)) = true -> has_key kvs k = true.
Proof.
  intros [c items props] kvs k Hv Hm. apply validate_parts in Hv.
  destruct Hv as [_ _ _ _ _ _ _ _ Hr _ _]. cbn in Hm, Hr. apply check_none in Hr.
  unfold req_ok in Hr. eapply mem_str_forallb; eauto.
Qed.

(* ---- what makes a document invalid (rejection at any schema path) ---- *)

Lemma each_prop_invalid : forall ps kvs k sk v,
  lookup k ps = Some sk -> lookup k kvs = Some v -> validate sk v <> None ->
  each_prop ps kvs <> None.
Proof.
  induction ps as [|[k' sk'] r IH]; intros kvs k sk v Hl Hv Hbad; cbn in *; [discriminate|].
  destruct (String.eqb k k') eqn:E.
  - apply String.eqb_eq in E. subst k'. inversion Hl; subst sk'. rewrite Hv.
    now apply andthen_not_none_l.
  - apply andthen_not_none_r. eapply IH; eauto.
Qed.

Lemma each_item_invalid : forall si l x,
  In x l -> validate si x <> None -> each_item si l <> None.
Proof.
  induction l as [|y r IH]; intros x Hin Hbad; cbn in *; [contradiction|].
  destruct Hin as [->|Hin].
  - now apply andthen_not_none_l.
  - apply andthen_not_none_r. eapply IH; eauto.
Qed.

Tactic Notation "skip_to_part" integer(n) :=
  do n (apply andthen_not_none_r).

Lemma invalid_prop : forall s kvs ps k sk v,
  s_props s = Some ps -> lookup k ps = Some sk -> lookup k kvs = Some v ->
  validate sk v <> None -> validate s (JMap kvs) <> None.
Proof.
  intros [c items props] kvs ps k sk v Hp Hl Hv Hbad. cbn in Hp. subst props.
  rewrite validate_unfold. skip_to_part 9. apply andthen_not_none_l. cbn.
  eapply each_prop_invalid; eauto.
Qed.

Lemma invalid_item : forall s l si x,
  s_items s = Some si -> In x l -> validate si x <> None -> validate s (JList l) <> None.
Proof.
  intros [c items props] l si x Hi Hin Hbad. cbn in Hi. subst items.
  rewrite validate_unfold. skip_to_part 6. apply andthen_not_none_l. cbn.
  eapply each_item_invalid; eauto.
Qed.

(* the sub-schema that governs the values at a path *)
Fixpoint sub_at (s : schema) (p : list pe) : option schema :=
  match p with
  | [] => Some s
  | Key k :: r =>
      match s_props s with
      | Some ps => match lookup k ps with Some sk => sub_at sk r | None => None end
      | None => None
      end
  | Each :: r =>
      match s_items s with Some si => sub_at si r | None => None end
  end.

Lemma invalid_sub : forall p s s' j v,
  sub_at s p = Some s' -> In v (at_path p j) -> validate s' v <> None -> validate s j <> None.
Proof.
  induction p as [|[k|] r IH]; intros s s' j v Hs Hin Hbad; cbn in Hs, Hin.
  - inversion Hs; subst s'. destruct Hin as [->|[]]. exact Hbad.
  - destruct (s_props s) as [ps|] eqn:Hp; [|discriminate].
    destruct (lookup k ps) as [sk|] eqn:Hl; [|discriminate].
    destruct j as [| | | | | |kvs]; try contradiction.
    destruct (lookup k kvs) as [w|] eqn:Hw; [|contradiction].
    eapply invalid_prop; eauto.
  - destruct (s_items s) as [si|] eqn:Hi; [|discriminate].
    destruct j as [| | | | |l|]; try contradiction.
    apply in_flat_map in Hin. destruct Hin as (x & Hx & Hin).
    eapply invalid_item; eauto.
Qed.

Lemma invalid_type_here : forall s t v,
  c_type (s_c s) = Some t -> has_type t v = false -> validate s v <> None.
Proof.
  intros [c items props] t v Ht Hb. cbn in Ht. rewrite validate_unfold.
  apply andthen_not_none_l. unfold check_type. rewrite Ht, Hb. discriminate.
Qed.

Lemma invalid_required_here : forall s kvs k,
  In k (c_required (s_c s)) -> has_key kvs k = false -> validate s (JMap kvs) <> None.
Proof.
  intros [c items props] kvs k Hin Hk. cbn in Hin. rewrite validate_unfold.
  skip_to_part 8. apply andthen_not_none_l. cbn.
  assert (req_ok kvs (c_required c) = false) as ->; [|discriminate].
  unfold req_ok. apply Bool.not_true_is_false. intros Hf.
  rewrite forallb_forall in Hf. specialize (Hf _ Hin). congruence.
Qed.

Lemma invalid_maxitems_here : forall s l n,
  c_maxitems (s_c s) = Some n -> n < List.length l -> validate s (JList l) <> None.
Proof.
  intros [c items props] l n Hm Hlt. cbn in Hm. rewrite validate_unfold.
  skip_to_part 5. apply andthen_not_none_l. cbn. apply andthen_not_none_r.
  rewrite Hm. cbn. destruct (Nat.leb (List.length l) n) eqn:E; [|discriminate].
  apply Nat.leb_le in E. lia.
Qed.

Lemma invalid_maxlen_here : forall s str n,
  c_maxlen (s_c s) = Some n -> n < py_len str -> validate s (JStr str) <> None.
Proof.
  intros [c items props] str n Hm Hlt. cbn in Hm. rewrite validate_unfold.
  skip_to_part 4. apply andthen_not_none_l. cbn. apply andthen_not_none_r.
  rewrite Hm. cbn. destruct (Nat.leb (py_len str) n) eqn:E; [|discriminate].
  apply Nat.leb_le in E. lia.
Qed.

Lemma invalid_addl_here : forall s kvs k,
  c_addl (s_c s) = false -> has_key kvs k = true ->
  match s_props s with Some ps => has_key ps k | None => false end = false ->
  validate s (JMap kvs) <> None.
Proof.
  intros [c items props] kvs k Ha Hk Hno. cbn in Ha, Hno. rewrite validate_unfold.
  skip_to_part 10. cbn. rewrite Ha.
  match goal with |- check ?b _ <> None => assert (b = false) as ->; [|discriminate] end.
  apply Bool.not_true_is_false. intros Hf. rewrite forallb_forall in Hf.
  unfold has_key in Hk. destruct (lookup k kvs) as [v|] eqn:Hl; [|discriminate].
  assert (Hin : exists v', In (k, v') kvs).
  { clear -Hl. induction kvs as [|[k' w] r IH]; cbn in Hl; [discriminate|].
    destruct (String.eqb k k') eqn:E.
    - apply String.eqb_eq in E. subst. eexists. left. reflexivity.
    - destruct (IH Hl) as [v' H]. exists v'. now right. }
  destruct Hin as [v' Hin]. specialize (Hf _ Hin). cbn in Hf. congruence.
Qed.

(* ---- the rejection clauses, at any schema path ---- *)

Lemma type_confusion_rejected : forall (S S' : schema) (p : list pe) (t : jtype) (spec v : json),
  sub_at S p = Some S' -> c_type (s_c S') = Some t ->
  In v (at_path p spec) -> has_type t v = false ->
  validate S spec <> None.
Proof.
  intros S S' p t spec v Hs Ht Hin Hbad.
  exact (invalid_sub p S S' spec v Hs Hin (invalid_type_here S' t v Ht Hbad)).
Qed.

Lemma missing_required_rejected : forall (S S' : schema) (p : list pe) (k : string) (spec : json) kvs,
  sub_at S p = Some S' -> In k (c_required (s_c S')) ->
  In (JMap kvs) (at_path p spec) -> has_key kvs k = false ->
  validate S spec <> None.
Proof.
  intros S S' p k spec kvs Hs Hreq Hin Hno.
  exact (invalid_sub p S S' spec (JMap kvs) Hs Hin (invalid_required_here S' kvs k Hreq Hno)).
Qed.

Lemma oversized_list_rejected : forall (S S' : schema) (p : list pe) (n : nat) (spec : json) l,
  sub_at S p = Some S' -> c_maxitems (s_c S') = Some n ->
  In (JList l) (at_path p spec) -> n < List.length l ->
  validate S spec <> None.
Proof.
  intros S S' p n spec l Hs Hm Hin Hlt.
  exact (invalid_sub p S S' spec (JList l) Hs Hin (invalid_maxitems_here S' l n Hm Hlt)).
Qed.

Lemma overlong_string_rejected : forall (S S' : schema) (p : list pe) (n : nat) (spec : json) s,
  sub_at S p = Some S' -> c_maxlen (s_c S') = Some n ->
  In (JStr s) (at_path p spec) -> n < py_len s ->
  validate S spec <> None.
Proof.
  intros S S' p n spec s Hs Hm Hin Hlt.
  exact (invalid_sub p S S' spec (JStr s) Hs Hin (invalid_maxlen_here S' s n Hm Hlt)).
Qed.

Lemma unknown_key_rejected_where_closed : forall (S S' : schema) (p : list pe) (k : string) (spec : json) kvs,
  sub_at S p = Some S' -> c_addl (s_c S') = false ->
  In (JMap kvs) (at_path p spec) -> has_key kvs k = true ->
  match s_props S' with Some ps => has_key ps k | None => false end = false ->
  validate S spec <> None.
Proof.
  intros S S' p k spec kvs Hs Ha Hin Hk Hno.
  exact (invalid_sub p S S' spec (JMap kvs) Hs Hin (invalid_addl_here S' kvs k Ha Hk Hno)).
Qed.

(* ---- default filling ---- *)

Lemma has_type_fill : forall t s j, has_type t (fill s j) = has_type t j.
Proof.
  intros t [c items props] j. destruct j; try reflexivity.
  - destruct items; reflexivity.
  - destruct props; [rewrite fill_unfold_map|]; reflexivity.
Qed.

Lemma lookup_upd_same : forall k f d kvs,
  lookup k (upd k f d kvs) =
  match lookup k kvs with Some v => Some (f v) | None => d end.
Proof.
  induction kvs as [|[k' v] r IH]; cbn.
  - destruct d; cbn; [now rewrite String.eqb_refl | reflexivity].
  - destruct (String.eqb k k') eqn:E; cbn; rewrite E; [reflexivity | exact IH].
Qed.

Lemma lookup_upd_other : forall k k0 f d kvs,
  String.eqb k0 k = false -> lookup k0 (upd k f d kvs) = lookup k0 kvs.
Proof.
  induction kvs as [|[k' v] r IH]; intros Hne; cbn.
  - destruct d; cbn; [now rewrite Hne | reflexivity].
  - destruct (String.eqb k k') eqn:E; cbn.
    + apply String.eqb_eq in E. subst k'. now rewrite Hne.
    + destruct (String.eqb k0 k'); [reflexivity | now apply IH].
Qed.

Lemma lookup_fill_props_notin : forall ps kvs k,
  lookup k ps = None -> lookup k (fill_props ps kvs) = lookup k kvs.
Proof.
  induction ps as [|[k' sk] r IH]; intros kvs k Hn; cbn in *; [reflexivity|].
  destruct (String.eqb k k') eqn:E; [discriminate|].
  rewrite IH by assumption. now apply lookup_upd_other.
Qed.

Lemma mem_str_lookup_none : forall {A} k (ps : list (string * A)),
  mem_str k (map fst ps) = false -> lookup k ps = None.
Proof.
  induction ps as [|[k' v] r IH]; cbn; intros H; [reflexivity|].
  apply Bool.orb_false_elim in H. destruct H as [E H]. rewrite E. now apply IH.
Qed.

Lemma lookup_fill_props : forall ps kvs k sk,
  nodup_str (map fst ps) = true -> lookup k ps = Some sk ->
  lookup k (fill_props ps kvs) =
  match lookup k kvs with Some v => Some (fill sk v) | None => s_default sk end.
Proof.
  induction ps as [|[k' sk'] r IH]; intros kvs k sk Hnd Hl; cbn in *; [discriminate|].
  apply andb_prop in Hnd. destruct Hnd as [Hk' Hnd].
  destruct (String.eqb k k') eqn:E.
  - apply String.eqb_eq in E. subst k'. inversion Hl; subst sk'.
    rewrite lookup_fill_props_notin.
    + apply lookup_upd_same.
    + apply mem_str_lookup_none. now apply Bool.negb_true_iff in Hk'.
  - rewrite (IH _ _ _ Hnd Hl). now rewrite lookup_upd_other.
Qed.

Lemma has_key_upd : forall k f d kvs k0,
  has_key kvs k0 = true -> has_key (upd k f d kvs) k0 = true.
Proof.
  intros k f d kvs k0 H. unfold has_key in *.
  destruct (String.eqb k0 k) eqn:E.
  - apply String.eqb_eq in E. subst k0. rewrite lookup_upd_same.
    destruct (lookup k kvs); [reflexivity | discriminate].
  - now rewrite lookup_upd_other.
Qed.

Lemma has_key_fill_props : forall ps kvs k0,
  has_key kvs k0 = true -> has_key (fill_props ps kvs) k0 = true.
Proof.
  induction ps as [|[k sk] r IH]; intros kvs k0 H; cbn; [exact H|].
  apply IH. now apply has_key_upd.
Qed.

(* ---- well-formedness reaches the sub-schemas ---- *)

Lemma schema_wf_parts : forall c items props,
  schema_wf (Sch c items props) = true ->
  (forall si, items = Some si -> schema_wf si = true) /\
  (forall ps, props = Some ps -> nodup_str (map fst ps) = true /\
     forall k sk, lookup k ps = Some sk -> schema_wf sk = true).
Proof.
  intros c items props H. cbn [schema_wf] in H. apply andb_prop in H. destruct H as [Hi Hp]. split.
  - intros si ->. exact Hi.
  - intros ps ->. apply andb_prop in Hp. destruct Hp as [Hnd Hall]. split; [exact Hnd|].
    clear Hnd. induction ps as [|[k' sk'] r IH]; intros k sk Hl; cbn in Hl; [discriminate|].
    apply andb_prop in Hall. destruct Hall as [Hh Hr].
    destruct (String.eqb k k'); [inversion Hl; now subst | eapply IH; eauto].
Qed.

(* ---- soundness of the schema-level fact checker ---- *)

Lemma forallb_flat_map : forall {A B} (f : B -> bool) (g : A -> list B) l,
  (forall x, In x l -> forallb f (g x) = true) -> forallb f (flat_map g l) = true.
Proof.
  induction l as [|x r IH]; intros H; cbn; [reflexivity|].
  rewrite forallb_app. rewrite H by now left. apply IH. intros y Hy. apply H. now right.
Qed.

Lemma type_compat : forall t' t j,
  match t', t with
  | TObject, TObject | TArray, TArray | TString, TString
  | TBoolean, TBoolean | TNull, TNull | TInteger, TInteger
  | TNumber, TNumber | TInteger, TNumber => true
  | _, _ => false
  end = true -> has_type t' j = true -> has_type t j = true.
Proof. intros [] [] j H; try discriminate; try exact (fun x => x). destruct j; cbn; congruence. Qed.

Lemma guarantees_type_sound : forall p s j t,
  schema_wf s = true -> guarantees_type s p t = true -> validate s j = None ->
  forallb (has_type t) (at_path p (fill s j)) = true.
Proof.
  induction p as [|[k|] r IH]; intros s j t Hwf Hg Hv; cbn [guarantees_type] in Hg.
  - cbn. rewrite Bool.andb_true_r. rewrite has_type_fill.
    destruct (c_type (s_c s)) as [t'|] eqn:Ht; [|discriminate].
    eapply type_compat; eauto. eapply valid_type; eauto.
  - destruct s as [c items props]. cbn [s_props] in Hg.
    destruct props as [ps|]; [|discriminate].
    destruct (lookup k ps) as [sk|] eqn:Hl; [|discriminate].
    apply andb_prop in Hg. destruct Hg as [Hg Hd].
    destruct (schema_wf_parts _ _ _ Hwf) as [_ Hps]. destruct (Hps _ eq_refl) as [Hnd Hsub].
    destruct j as [| | | | | l |kvs]; try reflexivity.
    + destruct items; reflexivity.
    + rewrite fill_unfold_map. cbn [at_path]. rewrite (lookup_fill_props _ _ _ _ Hnd Hl).
      destruct (lookup k kvs) as [v|] eqn:Hk.
      * apply IH; [eapply Hsub; exact Hl | exact Hg |].
        exact (valid_props (Sch c items (Some ps)) kvs ps k sk v Hv eq_refl Hl Hk).
      * destruct (s_default sk); [exact Hd | reflexivity].
  - destruct s as [c items props]. cbn [s_items] in Hg.
    destruct items as [si|]; [|discriminate].
    destruct (schema_wf_parts _ _ _ Hwf) as [Hsi _]. specialize (Hsi _ eq_refl).
    destruct j as [| | | | | l |kvs]; try reflexivity.
    + rewrite fill_unfold_list. cbn [at_path].
      pose proof (valid_items (Sch c (Some si) props) l si Hv eq_refl) as Hall.
      apply forallb_flat_map. intros x Hx. apply in_map_iff in Hx. destruct Hx as (y & <- & Hy).
      apply IH; auto. rewrite Forall_forall in Hall. now apply Hall.
    + destruct props; [rewrite fill_unfold_map|]; reflexivity.
Qed.

Lemma guarantees_has_sound : forall p s j k0,
  schema_wf s = true -> guarantees_has s p k0 = true -> validate s j = None ->
  fact_holds (FHas p k0) (fill s j) = true.
Proof.
  induction p as [|[k|] r IH]; intros s j k0 Hwf Hg Hv; cbn [guarantees_has] in Hg.
  - cbn. rewrite Bool.andb_true_r. destruct s as [c items props].
    destruct j as [| | | | | l |kvs]; try reflexivity.
    + destruct items; reflexivity.
    + pose proof (valid_required _ _ _ Hv Hg) as Hk.
      destruct props as [ps|]; [rewrite fill_unfold_map; now apply has_key_fill_props | exact Hk].
  - destruct s as [c items props]. cbn [s_props] in Hg.
    destruct props as [ps|]; [|discriminate].
    destruct (lookup k ps) as [sk|] eqn:Hl; [|discriminate].
    apply andb_prop in Hg. destruct Hg as [Hg Hd].
    destruct (schema_wf_parts _ _ _ Hwf) as [_ Hps]. destruct (Hps _ eq_refl) as [Hnd Hsub].
    destruct j as [| | | | | l |kvs]; try reflexivity.
    + destruct items; reflexivity.
    + rewrite fill_unfold_map. cbn [fact_holds at_path]. rewrite (lookup_fill_props _ _ _ _ Hnd Hl).
      destruct (lookup k kvs) as [v|] eqn:Hk.
      * apply (IH sk v k0); [eapply Hsub; exact Hl | exact Hg |].
        exact (valid_props (Sch c items (Some ps)) kvs ps k sk v Hv eq_refl Hl Hk).
      * destruct (s_default sk); [exact Hd | reflexivity].
  - destruct s as [c items props]. cbn [s_items] in Hg.
    destruct items as [si|]; [|discriminate].
    destruct (schema_wf_parts _ _ _ Hwf) as [Hsi _]. specialize (Hsi _ eq_refl).
    destruct j as [| | | | | l |kvs]; try reflexivity.
    + rewrite fill_unfold_list. cbn [fact_holds at_path].
      pose proof (valid_items (Sch c (Some si) props) l si Hv eq_refl) as Hall.
      apply forallb_flat_map. intros x Hx. apply in_map_iff in Hx. destruct Hx as (y & <- & Hy).
      apply (IH si y k0); auto. rewrite Forall_forall in Hall. now apply Hall.
    + destruct props; [rewrite fill_unfold_map|]; reflexivity.
Qed.

Theorem shape_sound : forall S fs,
  schema_wf S = true -> forallb (guarantees S) fs = true ->
  forall spec, validate S spec = None -> shape_ok fs (fill S spec) = true.
Proof.
  intros S fs Hwf Hg spec Hv. unfold shape_ok. rewrite forallb_forall in *.
  intros f Hin. specialize (Hg f Hin). destruct f as [p t|p k]; cbn [guarantees] in Hg.
  - now apply guarantees_type_sound.
  - now apply guarantees_has_sound.
Qed.

(* ---- the gate ---- *)

Lemma gate_rejects : forall S spec rule,
  validate S spec = Some rule -> prepare_gate S spec = Rejected rule [].
Proof. intros S spec rule H. unfold prepare_gate. now rewrite H. Qed.

Lemma gate_proceeds : forall S spec,
  validate S spec = None -> prepare_gate S spec = Proceeds (fill S spec).
Proof. intros S spec H. unfold prepare_gate. now rewrite H. Qed.

Lemma gate_total : forall S spec,
  (exists rule, prepare_gate S spec = Rejected rule []) \/
  (validate S spec = None /\ prepare_gate S spec = Proceeds (fill S spec)).
Proof.
  intros S spec. unfold prepare_gate. destruct (validate S spec) as [r|]; [left; eauto | right; auto].
Qed.

(* ------------------------------------------------------------------ *)
(* 2. the bundled schemas (generated terms)                            *)
(* ------------------------------------------------------------------ *)

Lemma bundled_wf : forall k, schema_wf (schema_of k) = true.
Proof. intros []; vm_compute; reflexivity. Qed.

(* every bundled spec schema says `type: object` at its root *)
Lemma bundled_root_object : forall k, c_type (s_c (schema_of k)) = Some TObject.
Proof. intros []; reflexivity. Qed.

Definition facts_of (k : kind) : list fact :=
  match k with
  | K_ValueFunction => facts_ValueFunction
  | K_ResourceFunction => facts_ResourceFunction
  | K_ResourceTemplate => facts_ResourceTemplate
  | K_Workflow => facts_Workflow
  | K_FunctionTest => facts_FunctionTest
  end.

(* THE check that re-reads the YAML on every run: each fact the Python relies
   on is guaranteed by the generated schema term of its kind *)
Lemma bundled_guarantee_facts : forall k, forallb (guarantees (schema_of k)) (facts_of k) = true.
Proof. intros []; vm_compute; reflexivity. Qed.

Theorem valid_shape : forall k spec,
  validate (schema_of k) spec = None -> shape_ok (facts_of k) (fill (schema_of k) spec) = true.
Proof.
  intros k spec Hv. apply shape_sound; auto using bundled_wf, bundled_guarantee_facts.
Qed.

Lemma non_object_rejected : forall k spec,
  has_type TObject spec = false -> validate (schema_of k) spec = Some "type"%string.
Proof.
  intros k spec H. destruct (schema_of k) as [c items props] eqn:E.
  pose proof (bundled_root_object k) as Ht. rewrite E in Ht. cbn in Ht.
  rewrite validate_unfold. unfold check_type at 1. rewrite Ht, H. reflexivity.
Qed.

(* ---- shape facts the schemas do NOT give: witnesses ---- *)

Definition wf_foreach_condition_witness : json :=
  JMap [("steps"%string, JList [JMap [
    ("label"%string, JStr "abc");
    ("ref"%string, JMap [("kind"%string, JStr "ValueFunction"); ("name"%string, JStr "vf")]);
    ("forEach"%string, JMap [("itemIn"%string, JStr "=[1]"); ("inputKey"%string, JStr "k");
                             ("condition"%string, JStr "boom")])]])].

Lemma foreach_condition_not_guaranteed :
  guarantees S_Workflow fact_foreach_condition = false /\
  validate S_Workflow wf_foreach_condition_witness = None /\
  fact_holds fact_foreach_condition (fill S_Workflow wf_foreach_condition_witness) = false.
Proof. vm_compute. auto. Qed.

Definition ft_delay_witness : json :=
  JMap [("functionRef"%string, JMap [("kind"%string, JStr "ValueFunction"); ("name"%string, JStr "vf")]);
        ("testCases"%string, JList [JMap [
           ("expectOutcome"%string, JMap [("retry"%string,
              JMap [("message"%string, JStr "m"); ("delay"%string, JFloat 15 1)])])]])].

Lemma ft_delay_not_strict_int :
  validate S_FunctionTest ft_delay_witness = None /\
  at_path path_ft_delay (fill S_FunctionTest ft_delay_witness) = [JFloat 15 1] /\
  forallb strict_int (at_path path_ft_delay (fill S_FunctionTest ft_delay_witness)) = false.
Proof. vm_compute. auto. Qed.

Definition rt_bigint_witness : json :=
  JMap [("template"%string, JMap [("apiVersion"%string, JStr "v1"); ("kind"%string, JStr "ConfigMap");
                                  ("big"%string, JInt (2 ^ 70))])].

Lemma rt_int64_not_guaranteed :
  validate S_ResourceTemplate rt_bigint_witness = None /\
  at_path [Key "template"%string; Key "big"%string] (fill S_ResourceTemplate rt_bigint_witness)
    = [JInt (2 ^ 70)] /\ int64 (2 ^ 70) = false.
Proof. vm_compute. auto. Qed.

Lemma foreach_condition_refuted :
  exists spec, validate S_Workflow spec = None /\
               fact_holds fact_foreach_condition (fill S_Workflow spec) = false.
Proof. exists wf_foreach_condition_witness. exact (proj2 foreach_condition_not_guaranteed). Qed.

Lemma ft_delay_refuted :
  exists spec, validate S_FunctionTest spec = None /\
               forallb strict_int (at_path path_ft_delay (fill S_FunctionTest spec)) = false.
Proof.
  exists ft_delay_witness.
  split; [exact (proj1 ft_delay_not_strict_int) | exact (proj2 (proj2 ft_delay_not_strict_int))].
Qed.

Lemma int64_refuted :
  exists spec z, validate S_ResourceTemplate spec = None /\
                 at_path [Key "template"%string; Key "big"%string] (fill S_ResourceTemplate spec) = [JInt z] /\
                 int64 z = false.
Proof. exists rt_bigint_witness, (2 ^ 70)%Z. exact rt_int64_not_guaranteed. Qed.

Lemma gate_rejects_bundled : forall (k : kind) (spec : json) (rule : string),
  validate (schema_of k) spec = Some rule ->
  prepare_gate (schema_of k) spec = Rejected rule [].
Proof. intros k. exact (gate_rejects (schema_of k)). Qed.

Lemma gate_total_bundled : forall (k : kind) (spec : json),
  (exists rule, prepare_gate (schema_of k) spec = Rejected rule []) \/
  (validate (schema_of k) spec = None /\
   prepare_gate (schema_of k) spec = Proceeds (fill (schema_of k) spec)).
Proof. intros k. exact (gate_total (schema_of k)). Qed.

(* ---- non-vacuity material ---- *)

Definition rf_example : json :=
  JMap [("apiConfig"%string, JMap [("apiVersion"%string, JStr "v1"); ("kind"%string, JStr "ConfigMap");
                                   ("name"%string, JStr "=inputs.name"); ("namespace"%string, JStr "ns")]);
        ("resource"%string, JMap [("data"%string, JMap [("a"%string, JStr "=inputs.a")])]);
        ("overlays"%string, JList [JMap [("overlayRef"%string,
            JMap [("kind"%string, JStr "ValueFunction"); ("name"%string, JStr "ov")])]]);
        ("update"%string, JMap [("patch"%string, JMap [])])].
