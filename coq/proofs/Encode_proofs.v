(* Encode_proofs.v — lemmas about model/Encode.v (the repaired encode_cel) and
   model/CelLit.v (lark/celpy on encoder output): the string encoder is inverted
   by the scanner + un-escaper, numerals lex as one number token, and the round
   trip  eval_lit (encode v) = ROk (norm v). *)
From Koreo Require Import Json Encode CelLit.
From Coq Require Import Lia Decimal DecimalPos DecimalZ.
Local Open Scope nat_scope.
Local Open Scope list_scope.
(* Decimal also defines [norm] and [rev] (on decimal numbers) *)
Local Notation norm := CelLit.norm (only parsing).

(* ------------------------------------------------------------------ *)
(* generic list facts                                                  *)
(* ------------------------------------------------------------------ *)

Lemma firstn_app_exact {A} (a b : list A) : firstn (List.length a) (a ++ b) = a.
Proof. induction a as [|x a IH]; simpl; [now destruct b|now rewrite IH]. Qed.

Lemma skipn_app_exact {A} (a b : list A) : skipn (List.length a) (a ++ b) = b.
Proof. induction a as [|x a IH]; simpl; auto. Qed.

Ltac bytes c := destruct c as [[] [] [] [] [] [] [] []].

(* ------------------------------------------------------------------ *)
(* the string encoder against scan_str / scan_ml / unescape            *)
(* ------------------------------------------------------------------ *)

(* one escaped character un-escapes to itself *)
Lemma unescape_esc_char c t : unescape (esc_char c ++ t) = ucons c (unescape t).
Proof. bytes c; reflexivity. Qed.

Theorem unescape_escape s : unescape (escape s) = UOk s.
Proof.
  induction s as [|c s IH]; [reflexivity|].
  simpl escape. rewrite unescape_esc_char, IH. reflexivity.
Qed.

(* the scanner passes over one escaped character *)
Lemma scan_str_esc_char c t n :
  scan_str t = Some n -> scan_str (esc_char c ++ t) = Some (List.length (esc_char c) + n).
Proof. intros H. bytes c; cbn; rewrite H; reflexivity. Qed.

Theorem scan_str_escape s r :
  scan_str (escape s ++ c_quote :: r) = Some (List.length (escape s)).
Proof.
  induction s as [|c s IH]; [reflexivity|].
  simpl escape. rewrite <- app_assoc. rewrite (scan_str_esc_char c _ _ IH).
  now rewrite app_length.
Qed.

(* text without a backslash or control character (the triple-quoted and the
   plain form are used only for such text) *)
Definition clean (s : text) : Prop := existsb needs_escape s = false.

Lemma clean_cons c s : clean (c :: s) -> needs_escape c = false /\ clean s.
Proof. unfold clean. simpl. now intros H%Bool.orb_false_iff. Qed.

Lemma unescape_tq s : clean s -> unescape (tq_body s) = UOk s.
Proof.
  induction s as [|c s IH]; [reflexivity|].
  intros [Hc Hs]%clean_cons. specialize (IH Hs). revert Hc.
  bytes c; try discriminate; intros _; cbn; rewrite IH; reflexivity.
Qed.

Lemma scan_ml_q3 r : scan_ml (q3 ++ r) = Some 0.
Proof. reflexivity. Qed.

Lemma scan_ml_tq s r : clean s -> scan_ml (tq_body s ++ q3 ++ r) = Some (List.length (tq_body s)).
Proof.
  induction s as [|c s IH]; [reflexivity|].
  intros [Hc Hs]%clean_cons. specialize (IH Hs). revert Hc.
  bytes c; try discriminate; intros _; cbn; cbn in IH; rewrite IH; reflexivity.
Qed.

(* text with nothing to escape is its own escaped form *)
Lemma escape_plain s : clean s -> has_quote s = false -> escape s = s.
Proof.
  induction s as [|c s IH]; [reflexivity|].
  intros [Hc Hs]%clean_cons Hq. unfold has_quote in Hq. simpl in Hq.
  apply Bool.orb_false_iff in Hq as [Hq1 Hq2]. simpl escape. rewrite (IH Hs Hq2).
  revert Hc Hq1. bytes c; try discriminate; reflexivity.
Qed.

(* ------------------------------------------------------------------ *)
(* the lexer on one encoded string                                     *)
(* ------------------------------------------------------------------ *)

Lemma lex_skip a r : lex (List.length a) (a ++ r) = lex 0 r.
Proof. induction a as [|c a IH]; simpl; auto. Qed.

Lemma lex_skip_S a c r : lex (S (List.length a)) (a ++ c :: r) = lex 0 r.
Proof.
  replace (a ++ c :: r) with ((a ++ [c]) ++ r) by (now rewrite <- app_assoc).
  replace (S (List.length a)) with (List.length (a ++ [c])) by (rewrite app_length; simpl; lia).
  apply lex_skip.
Qed.

(* the token encode_str s lexes to *)
Definition str_tok (s : text) : token :=
  if existsb needs_escape s then TStr false (escape s)
  else if has_quote s then TStr true (tq_body s)
  else TStr false s.

Definition tok_body (t : token) : text := match t with TStr _ b => b | _ => [] end.

Definition is_delim (c : ascii) : bool :=
  Ascii.eqb c ","%char || Ascii.eqb c "]"%char || Ascii.eqb c "}"%char || Ascii.eqb c ":"%char.

(* what may follow an encoded value: nothing, or one of  , ] } :  *)
Definition delim_start (r : text) : bool :=
  match r with [] => true | c :: _ => is_delim c end.

Lemma esc_char_head c t : exists h tl, esc_char c ++ t = h :: tl /\ Ascii.eqb h c_quote = false.
Proof. bytes c; cbn; eexists; eexists; split; reflexivity. Qed.

Lemma starts2_head h tl : Ascii.eqb h c_quote = false -> starts2 (h :: tl) = false.
Proof. intros H. destruct tl; simpl; [reflexivity|now rewrite H]. Qed.

Lemma starts2_escape s r :
  delim_start r = true -> starts2 (escape s ++ c_quote :: r) = false.
Proof.
  intros Hr. destruct s as [|c s].
  - simpl. destruct r as [|d r]; [reflexivity|]. simpl in Hr.
    revert Hr. bytes d; try discriminate; reflexivity.
  - simpl escape. rewrite <- app_assoc.
    destruct (esc_char_head c (escape s ++ c_quote :: r)) as (h & tl & -> & Hh).
    now apply starts2_head.
Qed.

Lemma lex_at_quote r :
  lex 0 (c_quote :: r) =
  match lex_string r with Some (tok, n) => lcons tok (lex n r) | None => LexErr end.
Proof. reflexivity. Qed.

Lemma lex_quoted_escape s r :
  delim_start r = true ->
  lex 0 (c_quote :: escape s ++ c_quote :: r) = lcons (TStr false (escape s)) (lex 0 r).
Proof.
  intros Hr. rewrite lex_at_quote.
  unfold lex_string. rewrite (starts2_escape s r Hr), scan_str_escape, firstn_app_exact.
  now rewrite lex_skip_S.
Qed.

Lemma lex_tq s r :
  clean s ->
  lex 0 (q3 ++ tq_body s ++ q3 ++ r) = lcons (TStr true (tq_body s)) (lex 0 r).
Proof.
  intros Hs. change (q3 ++ tq_body s ++ q3 ++ r) with (c_quote :: c_quote :: c_quote :: tq_body s ++ q3 ++ r).
  rewrite lex_at_quote.
  unfold lex_string. change (starts2 (c_quote :: c_quote :: tq_body s ++ q3 ++ r)) with true.
  cbv iota. cbn [skipn].
  rewrite (scan_ml_tq s r Hs), firstn_app_exact.
  replace (2 + List.length (tq_body s) + 3) with (List.length ([c_quote; c_quote] ++ tq_body s ++ q3))
    by (rewrite !app_length; simpl; lia).
  replace (c_quote :: c_quote :: tq_body s ++ q3 ++ r) with (([c_quote; c_quote] ++ tq_body s ++ q3) ++ r)
    by (rewrite <- !app_assoc; reflexivity).
  now rewrite lex_skip.
Qed.

Lemma quoted_app (a r : text) : (c_quote :: a ++ [c_quote]) ++ r = c_quote :: a ++ c_quote :: r.
Proof. simpl. now rewrite <- app_assoc. Qed.

(* [lex_encode_str]: an encoded string, followed by a delimiter or nothing,
   lexes to one string token ... *)
Theorem lex_encode_str s r :
  delim_start r = true ->
  lex 0 (encode_str s ++ r) = lcons (str_tok s) (lex 0 r).
Proof.
  intros Hr. unfold encode_str, str_tok.
  destruct (existsb needs_escape s) eqn:He.
  - rewrite quoted_app. now apply lex_quoted_escape.
  - destruct (has_quote s) eqn:Hq.
    + rewrite <- !app_assoc. now apply lex_tq.
    + rewrite quoted_app. pose proof (lex_quoted_escape s r Hr) as H.
      now rewrite (escape_plain s He Hq) in H.
Qed.

(* ... whose body celstr turns back into exactly the original text *)
Theorem unescape_str_tok s : unescape (tok_body (str_tok s)) = UOk s.
Proof.
  unfold str_tok. destruct (existsb needs_escape s) eqn:He; [apply unescape_escape|].
  destruct (has_quote s) eqn:Hq; cbn [tok_body].
  - now apply unescape_tq.
  - rewrite <- (escape_plain s He Hq) at 1. apply unescape_escape.
Qed.

(* ------------------------------------------------------------------ *)
(* numerals lex as one number token                                    *)
(* ------------------------------------------------------------------ *)

Lemma count_digits_le t : count_digits t <= List.length t.
Proof. induction t as [|c t IH]; simpl; [lia|destruct (is_digit c); simpl; lia]. Qed.

Lemma count_digits_app t r : count_digits r = 0 -> count_digits (t ++ r) = count_digits t.
Proof.
  intros Hr. induction t as [|c t IH]; simpl; [exact Hr|].
  destruct (is_digit c); [now rewrite IH|reflexivity].
Qed.

Lemma skipn_app_le {A} n (t r : list A) : n <= List.length t -> skipn n (t ++ r) = skipn n t ++ r.
Proof.
  intros H. rewrite skipn_app. replace (n - List.length t) with 0 by lia. reflexivity.
Qed.

Lemma skipn_nil_len {A} n (t : list A) : n <= List.length t -> skipn n t = [] -> List.length t = n.
Proof. intros H E. pose proof (skipn_length n t) as L. rewrite E in L. simpl in L. lia. Qed.

Lemma skipn_cons_len {A} n (t : list A) c t' :
  skipn n t = c :: t' -> List.length t = n + S (List.length t').
Proof.
  intros E. pose proof (skipn_length n t) as L. rewrite E in L. simpl in L.
  assert (n <= List.length t).
  { destruct (Nat.le_gt_cases n (List.length t)); [assumption|].
    rewrite skipn_all2 in E by lia. discriminate. }
  lia.
Qed.

Lemma scan_exp_app t r L :
  scan_exp t = Some L -> count_digits r = 0 -> scan_exp (t ++ r) = Some L.
Proof.
  intros H Hr. destruct t as [|c [|s r1]]; simpl in *; try discriminate.
  - destruct (is_e c); discriminate.
  - destruct (is_e c); [|discriminate].
    destruct (is_sign s).
    + now rewrite count_digits_app.
    + change (s :: r1 ++ r) with ((s :: r1) ++ r). now rewrite count_digits_app.
Qed.

(* facts about what follows a value *)
Lemma delim_digits r : delim_start r = true -> count_digits r = 0.
Proof. destruct r as [|c r]; [reflexivity|]. simpl. bytes c; try discriminate; reflexivity. Qed.

Lemma delim_exp r : delim_start r = true -> scan_exp r = None.
Proof. destruct r as [|c r]; [reflexivity|]. simpl. bytes c; try discriminate; reflexivity. Qed.

Lemma delim_ident r : delim_start r = true -> count_ident r = 0.
Proof. destruct r as [|c r]; [reflexivity|]. simpl. bytes c; try discriminate; reflexivity. Qed.

Lemma delim_follow r : delim_start r = true -> bad_follow (nth_error r 0) = false.
Proof. destruct r as [|c r]; [reflexivity|]. simpl. bytes c; try discriminate; reflexivity. Qed.

Lemma delim_nodot r :
  delim_start r = true -> match r with c :: _ => Ascii.eqb c c_dot = false | [] => True end.
Proof. destruct r as [|c r]; [trivial|]. simpl. bytes c; try discriminate; reflexivity. Qed.

Lemma exp_tail_ok_inv t :
  exp_tail_ok t = true -> t = [] \/ scan_exp t = Some (List.length t).
Proof.
  destruct t as [|c t]; [now left|]. unfold exp_tail_ok. right.
  destruct (scan_exp (c :: t)) as [n|]; [|discriminate].
  apply Nat.eqb_eq in H. now subst.
Qed.

(* the number scanner consumes exactly a numeral that is followed by a delimiter *)
Lemma scan_unsigned_numeral t1 k r :
  numeral_unsigned t1 = Some k -> delim_start r = true ->
  scan_unsigned (t1 ++ r) = Some (k, List.length t1).
Proof.
  intros Hk Hr.
  pose proof (delim_digits r Hr) as Hd. pose proof (delim_exp r Hr) as He.
  pose proof (delim_nodot r Hr) as Hn.
  unfold numeral_unsigned in Hk. unfold scan_unsigned.
  rewrite (count_digits_app t1 r Hd).
  pose proof (count_digits_le t1) as Hle.
  rewrite (skipn_app_le _ t1 r Hle).
  destruct (count_digits t1) as [|n'] eqn:En; [discriminate|].
  destruct (skipn (S n') t1) as [|c t3] eqn:E2.
  - (* all digits: INT_LIT *)
    injection Hk as <-. pose proof (skipn_nil_len _ _ Hle E2) as HL.
    rewrite !app_nil_l. rewrite He.
    destruct r as [|d r']; [now rewrite HL|]. rewrite Hn. now rewrite HL.
  - pose proof (skipn_cons_len _ _ _ _ E2) as HL.
    rewrite <- !app_comm_cons. destruct (Ascii.eqb c c_dot) eqn:Ec.
    + (* fraction *)
      rewrite (count_digits_app t3 r Hd).
      pose proof (count_digits_le t3) as Hle3.
      rewrite (skipn_app_le _ t3 r Hle3).
      destruct (count_digits t3) as [|k'] eqn:Ek; [discriminate|].
      destruct (exp_tail_ok (skipn (S k') t3)) eqn:Et; [|discriminate].
      injection Hk as <-.
      destruct (exp_tail_ok_inv _ Et) as [E4|E4].
      * rewrite E4. rewrite !app_nil_l. rewrite He.
        pose proof (skipn_nil_len _ _ Hle3 E4). f_equal. f_equal. lia.
      * rewrite (scan_exp_app _ r _ E4 Hd).
        pose proof (skipn_length (S k') t3). f_equal. f_equal. lia.
    + (* exponent only *)
      destruct (exp_tail_ok (c :: t3)) eqn:Et; [|discriminate].
      injection Hk as <-.
      destruct (exp_tail_ok_inv _ Et) as [E4|E4]; [discriminate|].
      change (c :: t3 ++ r) with ((c :: t3) ++ r).
      rewrite (scan_exp_app _ r _ E4 Hd). f_equal. f_equal. simpl. lia.
Qed.

Lemma numeral_nonempty t k : numeral_kind t = Some k -> t <> [].
Proof. intros H ->. discriminate. Qed.

Lemma scan_num_numeral t k r :
  numeral_kind t = Some k -> delim_start r = true ->
  scan_num (t ++ r) = Some (k, List.length t).
Proof.
  intros Hk Hr. unfold numeral_kind in Hk.
  destruct t as [|c t]; [discriminate|]. rewrite <- app_comm_cons. unfold scan_num.
  simpl strip_minus in Hk.
  destruct (Ascii.eqb c c_minus).
  - now rewrite (scan_unsigned_numeral t k r Hk Hr).
  - rewrite app_comm_cons. now rewrite (scan_unsigned_numeral _ k r Hk Hr).
Qed.

(* the first character of a numeral sends the lexer into its number branch *)
Lemma numeral_head t k :
  numeral_kind t = Some k ->
  exists c t', t = c :: t' /\ (is_digit c = true \/ c = c_minus).
Proof.
  unfold numeral_kind, numeral_unsigned. destruct t as [|c t]; [discriminate|].
  intros H. exists c, t. split; [reflexivity|]. simpl strip_minus in H.
  destruct (Ascii.eqb c c_minus) eqn:Ec; [right; now apply Ascii.eqb_eq|left].
  simpl in H. destruct (is_digit c); [reflexivity|discriminate].
Qed.

Lemma lex_at_number c r :
  is_digit c = true \/ c = c_minus ->
  lex 0 (c :: r) =
  match scan_num (c :: r) with
  | Some (k, len) =>
      if bad_follow (nth_error (c :: r) len) then LexOOF
      else lcons (num_tok k (firstn len (c :: r))) (lex (len - 1) r)
  | None => LexOOF
  end.
Proof.
  intros [H| ->]; [|reflexivity]. revert H. bytes c; try discriminate; reflexivity.
Qed.

Theorem lex_numeral t k r :
  numeral_kind t = Some k -> delim_start r = true ->
  lex 0 (t ++ r) = lcons (num_tok k t) (lex 0 r).
Proof.
  intros Hk Hr. destruct (numeral_head t k Hk) as (c & t' & -> & Hc).
  rewrite <- app_comm_cons. rewrite (lex_at_number c _ Hc).
  rewrite !app_comm_cons.
  rewrite (scan_num_numeral _ k r Hk Hr).
  rewrite nth_error_app2 by lia. rewrite Nat.sub_diag, (delim_follow r Hr).
  rewrite firstn_app_exact. simpl List.length. rewrite Nat.sub_succ, Nat.sub_0_r.
  now rewrite lex_skip.
Qed.

(* ------------------------------------------------------------------ *)
(* printing an integer                                                 *)
(* ------------------------------------------------------------------ *)

Lemma text_of_uint_digits u : forallb is_digit (text_of_uint u) = true.
Proof. induction u; simpl; auto. Qed.

Lemma count_digits_all t : forallb is_digit t = true -> count_digits t = List.length t.
Proof.
  induction t as [|c t IH]; [reflexivity|]. simpl. intros [Hc Ht]%Bool.andb_true_iff.
  now rewrite Hc, IH.
Qed.

Ltac code_num :=
  repeat match goal with
  | |- context [Z.of_N (code ?c)] =>
      let v := eval vm_compute in (Z.of_N (code c)) in change (Z.of_N (code c)) with v
  end.

Lemma digits_val_acc u acc :
  digits_val (Zpos acc) (text_of_uint u) = Zpos (Pos.of_uint_acc u acc).
Proof.
  revert acc. induction u; intros acc; cbn [text_of_uint digits_val Pos.of_uint_acc];
    [reflexivity|..]; rewrite <- IHu; f_equal; code_num; lia.
Qed.

Lemma digits_val_uint u : digits_val 0 (text_of_uint u) = Z.of_N (Pos.of_uint u).
Proof.
  induction u; cbn [text_of_uint digits_val Pos.of_uint]; [reflexivity|..]; code_num.
  - exact IHu.
  - apply (digits_val_acc u 1).
  - apply (digits_val_acc u 2).
  - apply (digits_val_acc u 3).
  - apply (digits_val_acc u 4).
  - apply (digits_val_acc u 5).
  - apply (digits_val_acc u 6).
  - apply (digits_val_acc u 7).
  - apply (digits_val_acc u 8).
  - apply (digits_val_acc u 9).
Qed.

Lemma uint_head_not_minus u : strip_minus (text_of_uint u) = text_of_uint u.
Proof. destruct u; reflexivity. Qed.

Lemma int_of_text_uint u : int_of_text (text_of_uint u) = digits_val 0 (text_of_uint u).
Proof. destruct u; reflexivity. Qed.

Lemma to_int_cases z :
  (exists u, Z.to_int z = Pos u /\ u <> Nil) \/ (exists u, Z.to_int z = Neg u /\ u <> Nil).
Proof.
  destruct z as [|p|p]; simpl.
  - left. exists (D0 Nil). split; [reflexivity|discriminate].
  - left. exists (Pos.to_uint p). split; [reflexivity|apply Unsigned.to_uint_nonnil].
  - right. exists (Pos.to_uint p). split; [reflexivity|apply Unsigned.to_uint_nonnil].
Qed.

Theorem print_Z_value z : int_of_text (print_Z z) = z.
Proof.
  pose proof (DecimalZ.of_to z) as H. unfold print_Z.
  destruct (Z.to_int z) as [u|u]; simpl in H.
  - rewrite int_of_text_uint, digits_val_uint. exact H.
  - unfold int_of_text. change (Ascii.eqb c_minus c_minus) with true. cbv iota.
    rewrite digits_val_uint. exact H.
Qed.

Lemma numeral_unsigned_digits t :
  t <> [] -> forallb is_digit t = true -> numeral_unsigned t = Some KInt.
Proof.
  intros Hne Hd. unfold numeral_unsigned. rewrite (count_digits_all t Hd).
  destruct t as [|c t]; [congruence|]. cbn [List.length].
  change (S (List.length t)) with (List.length (c :: t)).
  now rewrite skipn_all.
Qed.

Lemma text_of_uint_nonnil u : u <> Nil -> text_of_uint u <> [].
Proof. destruct u; simpl; congruence. Qed.

Theorem print_Z_numeral z : numeral_kind (print_Z z) = Some KInt.
Proof.
  unfold print_Z, numeral_kind.
  destruct (to_int_cases z) as [(u & -> & Hu)|(u & -> & Hu)].
  - rewrite uint_head_not_minus.
    apply numeral_unsigned_digits; [now apply text_of_uint_nonnil|apply text_of_uint_digits].
  - simpl strip_minus.
    apply numeral_unsigned_digits; [now apply text_of_uint_nonnil|apply text_of_uint_digits].
Qed.

(* ------------------------------------------------------------------ *)
(* boolean side conditions on containers, as Forall                    *)
(* ------------------------------------------------------------------ *)

Lemma in_range_map kvs :
  in_range (JMap kvs) = true <-> Forall (fun kv => in_range (snd kv) = true) kvs.
Proof.
  induction kvs as [|[k x] kvs IH]; simpl; [split; auto|].
  rewrite Bool.andb_true_iff. simpl in IH. rewrite IH. split.
  - intros [H1 H2]. now constructor.
  - intros H. inversion H; subst. now split.
Qed.

Lemma no_leading_eq_map kvs :
  no_leading_eq (JMap kvs) = true <-> Forall (fun kv => no_leading_eq (snd kv) = true) kvs.
Proof.
  induction kvs as [|[k x] kvs IH]; simpl; [split; auto|].
  rewrite Bool.andb_true_iff. simpl in IH. rewrite IH. split.
  - intros [H1 H2]. now constructor.
  - intros H. inversion H; subst. now split.
Qed.

Lemma wf_map kvs :
  wf (JMap kvs) = true <->
  nodup_str (map fst kvs) = true /\ Forall (fun kv => wf (snd kv) = true) kvs.
Proof.
  simpl. rewrite Bool.andb_true_iff.
  assert (forall l : list (string * json),
            (fix go (l : list (string * json)) : bool :=
               match l with [] => true | (_, v) :: r => wf v && go r end) l = true <->
            Forall (fun kv => wf (snd kv) = true) l) as H.
  { induction l as [|[k x] l IH]; [split; auto|].
    rewrite Bool.andb_true_iff, IH. split.
    - intros [H1 H2]. now constructor.
    - intros H. inversion H; subst. now split. }
  now rewrite H.
Qed.

Lemma forallb_Forall {A} (f : A -> bool) l : forallb f l = true <-> Forall (fun x => f x = true) l.
Proof.
  induction l as [|x l IH]; simpl; [split; auto|].
  rewrite Bool.andb_true_iff, IH. split.
  - intros [H1 H2]. now constructor.
  - intros H. inversion H; subst. now split.
Qed.

(* ------------------------------------------------------------------ *)
(* lexing the encoding of a whole value                                *)
(* ------------------------------------------------------------------ *)

Fixpoint lapp (ts : list token) (r : lexres) : lexres :=
  match ts with [] => r | t :: ts' => lcons t (lapp ts' r) end.

Lemma lapp_app a b r : lapp (a ++ b) r = lapp a (lapp b r).
Proof. induction a as [|t a IH]; simpl; [reflexivity|now rewrite IH]. Qed.

Fixpoint sep_concat (l : list (list token)) : list token :=
  match l with
  | [] => []
  | [x] => x
  | x :: r => x ++ TComma :: sep_concat r
  end.

Lemma lex_null r : delim_start r = true -> lex 0 (txt "null" ++ r) = lcons TNull (lex 0 r).
Proof. destruct r as [|d r]; [reflexivity|]. simpl delim_start. bytes d; try discriminate; reflexivity. Qed.

Lemma lex_true r : delim_start r = true -> lex 0 (txt "true" ++ r) = lcons TTrue (lex 0 r).
Proof. destruct r as [|d r]; [reflexivity|]. simpl delim_start. bytes d; try discriminate; reflexivity. Qed.

Lemma lex_false r : delim_start r = true -> lex 0 (txt "false" ++ r) = lcons TFalse (lex 0 r).
Proof. destruct r as [|d r]; [reflexivity|]. simpl delim_start. bytes d; try discriminate; reflexivity. Qed.

Definition scalar_tok (s : string) : token :=
  match numeral_kind (txt s) with
  | Some k => num_tok k (txt s)
  | None => str_tok (txt s)
  end.

(* every float inside [v] satisfies [p] *)
Fixpoint floats_all (p : Z -> Z -> bool) (v : json) : bool :=
  match v with
  | JFloat m e => p m e
  | JList l => forallb (floats_all p) l
  | JMap kvs =>
      (fix go (l : list (string * json)) : bool :=
         match l with
         | [] => true
         | (_, x) :: r => floats_all p x && go r
         end) kvs
  | _ => true
  end.

Lemma floats_all_map p kvs :
  floats_all p (JMap kvs) = true <-> Forall (fun kv => floats_all p (snd kv) = true) kvs.
Proof.
  induction kvs as [|[k x] kvs IH]; simpl; [split; auto|].
  rewrite Bool.andb_true_iff. simpl in IH. rewrite IH. split.
  - intros [H1 H2]. now constructor.
  - intros H. inversion H; subst. now split.
Qed.

Lemma in_range_floats v : in_range v = true -> floats_all float_ok v = true.
Proof.
  induction v as [| b | z | m e | s | l IH | kvs IH] using json_ind'; intros H; try reflexivity.
  - exact H.
  - simpl in *. apply forallb_Forall in H. apply forallb_Forall.
    rewrite Forall_forall in *. auto.
  - apply in_range_map in H. apply floats_all_map. rewrite Forall_forall in *. auto.
Qed.

Section RoundTrip.
  Variable fprint : Z -> Z -> text.
  (* the floats for which the two facts about repr(float) are assumed *)
  Variable fgood : Z -> Z -> bool.
  (* repr(float) is a numeral with fraction or exponent ... *)
  Hypothesis fprint_numeral :
    forall m e, fgood m e = true -> numeral_kind (fprint m e) = Some KFloat.
  (* ... that float() reads back as the same double *)
  Hypothesis fprint_parse :
    forall m e, fgood m e = true -> fparse (fprint m e) = Some (m, e).

  Notation encode := (encode fprint).

  (* the token sequence of an encoded value *)
  Fixpoint tokens (v : json) : list token :=
    match v with
    | JNull => [TNull]
    | JBool true => [TTrue]
    | JBool false => [TFalse]
    | JInt z => [TInt (print_Z z)]
    | JFloat m e => [TFloat (fprint m e)]
    | JStr s => [scalar_tok s]
    | JList l => TLBrack :: sep_concat (map tokens l) ++ [TRBrack]
    | JMap kvs =>
        TLBrace ::
        sep_concat (map (fun kx => let '(k, x) := kx in str_tok (txt k) :: TColon :: tokens x) kvs)
        ++ [TRBrace]
    end.

  Definition enc_entry (kx : string * json) : text :=
    encode_str (txt (fst kx)) ++ ":"%char :: encode (snd kx).

  Definition tok_entry (kx : string * json) : list token :=
    str_tok (txt (fst kx)) :: TColon :: tokens (snd kx).

  Lemma encode_map kvs :
    encode (JMap kvs) = "{"%char :: join_comma (map enc_entry kvs) ++ ["}"%char].
  Proof.
    simpl. do 3 f_equal. induction kvs as [|[k x] kvs IH]; [reflexivity|].
    simpl. now rewrite IH.
  Qed.

  Lemma tokens_map kvs :
    tokens (JMap kvs) = TLBrace :: sep_concat (map tok_entry kvs) ++ [TRBrace].
  Proof.
    simpl. do 3 f_equal. induction kvs as [|[k x] kvs IH]; [reflexivity|].
    simpl. now rewrite IH.
  Qed.

  Definition lex_ok (v : json) : Prop :=
    forall r, delim_start r = true -> lex 0 (encode v ++ r) = lapp (tokens v) (lex 0 r).

  Lemma lex_scalar_str s :
    no_leading_eq (JStr s) = true -> lex_ok (JStr s).
  Proof.
    intros Hq r Hr. simpl in Hq. cbn [encode tokens lapp]. unfold encode_scalar_str, scalar_tok.
    destruct (numeral_kind (txt s)) as [k|] eqn:Ek.
    - now apply lex_numeral.
    - destruct (txt s) as [|c t] eqn:Es.
      + exact (lex_encode_str [] r Hr).
      + rewrite <- Es in *. apply Bool.negb_true_iff in Hq. rewrite Hq.
        now apply lex_encode_str.
  Qed.

  Lemma lex_items l close ctok r :
    Forall lex_ok l ->
    is_delim close = true ->
    (forall t, lex 0 (close :: t) = lcons ctok (lex 0 t)) ->
    lex 0 (join_comma (map encode l) ++ close :: r) =
    lapp (sep_concat (map tokens l)) (lcons ctok (lex 0 r)).
  Proof.
    intros Hl Hc Hclose. induction Hl as [|x l Hx Hl IH]; [apply Hclose|].
    destruct l as [|y l].
    - cbn [map join_comma sep_concat]. rewrite (Hx (close :: r)) by exact Hc.
      now rewrite Hclose.
    - change (join_comma (map encode (x :: y :: l)))
        with (encode x ++ ","%char :: join_comma (map encode (y :: l))).
      change (sep_concat (map tokens (x :: y :: l)))
        with (tokens x ++ TComma :: sep_concat (map tokens (y :: l))).
      rewrite <- app_assoc, <- app_comm_cons. rewrite (Hx _) by reflexivity.
      rewrite lapp_app. cbn [lapp]. f_equal.
      change (lex 0 (","%char :: join_comma (map encode (y :: l)) ++ close :: r))
        with (lcons TComma (lex 0 (join_comma (map encode (y :: l)) ++ close :: r))).
      now rewrite IH.
  Qed.

  Lemma lex_entry kx :
    lex_ok (snd kx) ->
    forall r, delim_start r = true ->
    lex 0 (enc_entry kx ++ r) = lapp (tok_entry kx) (lex 0 r).
  Proof.
    intros Hx r Hr. unfold enc_entry, tok_entry. rewrite <- app_assoc, <- app_comm_cons.
    rewrite lex_encode_str by reflexivity. cbn [lapp]. f_equal.
    change (lex 0 (":"%char :: encode (snd kx) ++ r))
      with (lcons TColon (lex 0 (encode (snd kx) ++ r))).
    now rewrite (Hx r Hr).
  Qed.

  Lemma lex_entries kvs r :
    Forall (fun kx => lex_ok (snd kx)) kvs ->
    lex 0 (join_comma (map enc_entry kvs) ++ "}"%char :: r) =
    lapp (sep_concat (map tok_entry kvs)) (lcons TRBrace (lex 0 r)).
  Proof.
    intros Hl. induction Hl as [|x l Hx Hl IH]; [reflexivity|].
    destruct l as [|y l].
    - cbn [map join_comma sep_concat]. now rewrite (lex_entry x Hx) by reflexivity.
    - change (join_comma (map enc_entry (x :: y :: l)))
        with (enc_entry x ++ ","%char :: join_comma (map enc_entry (y :: l))).
      change (sep_concat (map tok_entry (x :: y :: l)))
        with (tok_entry x ++ TComma :: sep_concat (map tok_entry (y :: l))).
      rewrite <- app_assoc, <- app_comm_cons. rewrite (lex_entry x Hx) by reflexivity.
      rewrite lapp_app. cbn [lapp]. f_equal.
      change (lex 0 (","%char :: join_comma (map enc_entry (y :: l)) ++ "}"%char :: r))
        with (lcons TComma (lex 0 (join_comma (map enc_entry (y :: l)) ++ "}"%char :: r))).
      now rewrite IH.
  Qed.

  (* [lex_encode] *)
  Theorem lex_encode v :
    floats_all fgood v = true -> no_leading_eq v = true -> lex_ok v.
  Proof.
    induction v as [| b | z | m e | s | l IH | kvs IH] using json_ind'; intros Hr Hq.
    - intros r Hd. now apply lex_null.
    - intros r Hd. destruct b; [now apply lex_true|now apply lex_false].
    - intros r Hd. cbn [encode tokens lapp].
      exact (lex_numeral _ KInt r (print_Z_numeral z) Hd).
    - intros r Hd. cbn [encode tokens lapp].
      exact (lex_numeral _ KFloat r (fprint_numeral m e Hr) Hd).
    - now apply lex_scalar_str.
    - intros r Hd. simpl in Hr, Hq.
      apply forallb_Forall in Hr. apply forallb_Forall in Hq.
      assert (Forall lex_ok l) as Hl.
      { rewrite Forall_forall in *. intros x Hx. apply IH; auto. }
      cbn [encode tokens]. rewrite <- app_comm_cons, <- app_assoc.
      change (lex 0 ("["%char :: join_comma (map encode l) ++ ["]"%char] ++ r))
        with (lcons TLBrack (lex 0 (join_comma (map encode l) ++ "]"%char :: r))).
      rewrite (lex_items l "]"%char TRBrack r Hl) by reflexivity.
      cbn [lapp]. f_equal. rewrite lapp_app. reflexivity.
    - intros r Hd. apply floats_all_map in Hr. apply no_leading_eq_map in Hq.
      assert (Forall (fun kx => lex_ok (snd kx)) kvs) as Hl.
      { rewrite Forall_forall in *. intros x Hx. apply IH; auto. }
      rewrite encode_map, tokens_map. rewrite <- app_comm_cons, <- app_assoc.
      change (lex 0 ("{"%char :: join_comma (map enc_entry kvs) ++ ["}"%char] ++ r))
        with (lcons TLBrace (lex 0 (join_comma (map enc_entry kvs) ++ "}"%char :: r))).
      rewrite (lex_entries kvs r Hl).
      cbn [lapp]. f_equal. rewrite lapp_app. reflexivity.
  Qed.

  (* ---------------------------------------------------------------- *)
  (* parsing the token sequence                                        *)
  (* ---------------------------------------------------------------- *)

  Fixpoint ast_of (v : json) : ast :=
    match v with
    | JNull => ALit TNull
    | JBool true => ALit TTrue
    | JBool false => ALit TFalse
    | JInt z => ALit (TInt (print_Z z))
    | JFloat m e => ALit (TFloat (fprint m e))
    | JStr s => ALit (scalar_tok s)
    | JList l => AList (map ast_of l)
    | JMap kvs =>
        AMap (map (fun kx => let '(k, x) := kx in (ALit (str_tok (txt k)), ast_of x)) kvs)
    end.

  Definition ast_entry (kx : string * json) : ast * ast :=
    (ALit (str_tok (txt (fst kx))), ast_of (snd kx)).

  Lemma ast_of_map kvs : ast_of (JMap kvs) = AMap (map ast_entry kvs).
  Proof.
    simpl. f_equal. induction kvs as [|[k x] kvs IH]; [reflexivity|]. simpl. now rewrite IH.
  Qed.

  Definition want (st : pstate) : Prop := st = PWantVal \/ st = PWantValOrClose.

  Definition after (stk : list frame) (a : ast) (r : list token) : pres :=
    run (fst (reduce stk a)) (snd (reduce stk a)) r.

  Definition parse_ok (v : json) : Prop :=
    forall stk st r, want st -> run stk st (tokens v ++ r) = after stk (ast_of v) r.

  Lemma run_lit tok stk st r :
    is_lit tok = true -> want st -> run stk st (tok :: r) = after stk (ALit tok) r.
  Proof.
    intros Hl [-> | ->]; unfold after; cbn [run]; rewrite Hl;
      destruct (reduce stk (ALit tok)); reflexivity.
  Qed.

  Lemma str_tok_lit t : is_lit (str_tok t) = true.
  Proof. unfold str_tok. destruct (existsb needs_escape t); [reflexivity|]. now destruct (has_quote t). Qed.

  Lemma scalar_tok_lit s : is_lit (scalar_tok s) = true.
  Proof.
    unfold scalar_tok. destruct (numeral_kind (txt s)) as [[|]|]; try reflexivity. apply str_tok_lit.
  Qed.

  Lemma run_close_list stk done r :
    run (FL done :: stk) PAfterItem (TRBrack :: r) = after stk (AList (List.rev done)) r.
  Proof. unfold after. cbn [run]. destruct (reduce stk (AList (List.rev done))); reflexivity. Qed.

  Lemma run_close_map stk done r :
    run (FM done None :: stk) PAfterItem (TRBrace :: r) = after stk (AMap (List.rev done)) r.
  Proof. unfold after. cbn [run]. destruct (reduce stk (AMap (List.rev done))); reflexivity. Qed.

  Lemma run_empty_list stk r :
    run (FL [] :: stk) PWantValOrClose (TRBrack :: r) = after stk (AList []) r.
  Proof. unfold after. cbn [run is_lit]. destruct (reduce stk (AList [])); reflexivity. Qed.

  Lemma run_empty_map stk r :
    run (FM [] None :: stk) PWantValOrClose (TRBrace :: r) = after stk (AMap []) r.
  Proof. unfold after. cbn [run is_lit]. destruct (reduce stk (AMap [])); reflexivity. Qed.

  Lemma parse_items l stk r :
    Forall parse_ok l -> l <> [] ->
    forall done st, want st ->
    run (FL done :: stk) st (sep_concat (map tokens l) ++ TRBrack :: r) =
    after stk (AList (List.rev done ++ map ast_of l)) r.
  Proof.
    intros Hl. induction Hl as [|x l Hx Hl IH]; [congruence|]. intros _ done st Hst.
    destruct l as [|y l].
    - cbn [map sep_concat]. rewrite (Hx _ _ _ Hst). unfold after at 1. cbn [reduce fst snd].
      rewrite run_close_list. reflexivity.
    - change (sep_concat (map tokens (x :: y :: l)))
        with (tokens x ++ TComma :: sep_concat (map tokens (y :: l))).
      rewrite <- app_assoc, <- app_comm_cons. rewrite (Hx _ _ _ Hst).
      unfold after at 1. cbn [reduce fst snd].
      change (run (FL (ast_of x :: done) :: stk) PAfterItem
                (TComma :: sep_concat (map tokens (y :: l)) ++ TRBrack :: r))
        with (run (FL (ast_of x :: done) :: stk) PWantVal
                (sep_concat (map tokens (y :: l)) ++ TRBrack :: r)).
      rewrite IH by (try discriminate; now left).
      cbn [List.rev map]. now rewrite <- app_assoc.
  Qed.

  Lemma parse_entry kx stk done st r :
    parse_ok (snd kx) -> want st ->
    run (FM done None :: stk) st (tok_entry kx ++ r) =
    run (FM (ast_entry kx :: done) None :: stk) PAfterItem r.
  Proof.
    intros Hx Hst. unfold tok_entry. rewrite <- !app_comm_cons.
    rewrite (run_lit _ _ _ _ (str_tok_lit _) Hst). unfold after. cbn [reduce fst snd].
    change (run (FM done (Some (ALit (str_tok (txt (fst kx))))) :: stk) PAfterKey
              (TColon :: tokens (snd kx) ++ r))
      with (run (FM done (Some (ALit (str_tok (txt (fst kx))))) :: stk) PWantVal
              (tokens (snd kx) ++ r)).
    rewrite (Hx _ _ _ (or_introl eq_refl)). unfold after. reflexivity.
  Qed.

  Lemma parse_entries kvs stk r :
    Forall (fun kx => parse_ok (snd kx)) kvs -> kvs <> [] ->
    forall done st, want st ->
    run (FM done None :: stk) st (sep_concat (map tok_entry kvs) ++ TRBrace :: r) =
    after stk (AMap (List.rev done ++ map ast_entry kvs)) r.
  Proof.
    intros Hl. induction Hl as [|x l Hx Hl IH]; [congruence|]. intros _ done st Hst.
    destruct l as [|y l].
    - cbn [map sep_concat]. rewrite (parse_entry x _ _ _ _ Hx Hst).
      rewrite run_close_map. reflexivity.
    - change (sep_concat (map tok_entry (x :: y :: l)))
        with (tok_entry x ++ TComma :: sep_concat (map tok_entry (y :: l))).
      rewrite <- app_assoc, <- app_comm_cons. rewrite (parse_entry x _ _ _ _ Hx Hst).
      change (run (FM (ast_entry x :: done) None :: stk) PAfterItem
                (TComma :: sep_concat (map tok_entry (y :: l)) ++ TRBrace :: r))
        with (run (FM (ast_entry x :: done) None :: stk) PWantVal
                (sep_concat (map tok_entry (y :: l)) ++ TRBrace :: r)).
      rewrite IH by (try discriminate; now left).
      cbn [List.rev map]. now rewrite <- app_assoc.
  Qed.

  (* [parse_tokens_encode] *)
  Theorem parse_tokens_encode v : parse_ok v.
  Proof.
    induction v as [| b | z | m e | s | l IH | kvs IH] using json_ind'; intros stk st r Hst.
    - now apply run_lit.
    - destruct b; now apply run_lit.
    - now apply run_lit.
    - now apply run_lit.
    - apply run_lit; [apply scalar_tok_lit|exact Hst].
    - cbn [tokens ast_of]. rewrite <- app_comm_cons, <- app_assoc.
      assert (run stk st (TLBrack :: sep_concat (map tokens l) ++ [TRBrack] ++ r) =
              run (FL [] :: stk) PWantValOrClose (sep_concat (map tokens l) ++ TRBrack :: r)) as ->
        by (destruct Hst as [-> | ->]; reflexivity).
      destruct l as [|x l].
      + apply run_empty_list.
      + rewrite (parse_items (x :: l) stk r IH) by (try discriminate; now right). reflexivity.
    - rewrite tokens_map, ast_of_map. rewrite <- app_comm_cons, <- app_assoc.
      assert (run stk st (TLBrace :: sep_concat (map tok_entry kvs) ++ [TRBrace] ++ r) =
              run (FM [] None :: stk) PWantValOrClose (sep_concat (map tok_entry kvs) ++ TRBrace :: r)) as ->
        by (destruct Hst as [-> | ->]; reflexivity).
      destruct kvs as [|x l].
      + apply run_empty_map.
      + rewrite (parse_entries (x :: l) stk r IH) by (try discriminate; now right). reflexivity.
  Qed.

  (* ---------------------------------------------------------------- *)
  (* evaluating the literal nodes                                      *)
  (* ---------------------------------------------------------------- *)

  Lemma str_txt s : str (txt s) = s.
  Proof. apply string_of_list_ascii_of_string. Qed.

  Lemma str_tok_shape t : exists ml, str_tok t = TStr ml (tok_body (str_tok t)).
  Proof.
    unfold str_tok. destruct (existsb needs_escape t); [now exists false|].
    destruct (has_quote t); [now exists true|now exists false].
  Qed.

  Lemma eval_str_tok t : eval_token (str_tok t) = ROk (JStr (str t)).
  Proof.
    destruct (str_tok_shape t) as [ml E]. rewrite E. cbn [eval_token].
    now rewrite unescape_str_tok.
  Qed.

  Lemma eval_key_str_tok t : eval_key (ALit (str_tok t)) = ROk (str t).
  Proof.
    destruct (str_tok_shape t) as [ml E]. rewrite E. cbn [eval_key].
    now rewrite unescape_str_tok.
  Qed.

  Lemma eval_scalar_tok s :
    str_in_range s = true -> eval_token (scalar_tok s) = ROk (norm_str s).
  Proof.
    unfold str_in_range, scalar_tok, norm_str.
    destruct (numeral_kind (txt s)) as [[|]|]; cbn [num_tok eval_token].
    - now intros ->.
    - destruct (fparse (txt s)) as [[m e]|]; [reflexivity|discriminate].
    - intros _. now rewrite eval_str_tok, str_txt.
  Qed.

  Definition eval_ok (v : json) : Prop := eval (ast_of v) = ROk (norm v).

  Definition norm_entry (kx : string * json) : string * json := (fst kx, norm (snd kx)).

  Lemma norm_map kvs : norm (JMap kvs) = JMap (map norm_entry kvs).
  Proof.
    simpl. f_equal. induction kvs as [|[k x] kvs IH]; [reflexivity|]. simpl. now rewrite IH.
  Qed.

  Lemma eval_items l :
    Forall eval_ok l ->
    (fix go (l : list ast) : res (list json) :=
       match l with
       | [] => ROk []
       | x :: r => rbind2 (eval x) (go r) cons
       end) (map ast_of l) = ROk (map norm l).
  Proof.
    intros Hl. induction Hl as [|x l Hx Hl IH]; [reflexivity|].
    cbn [map]. rewrite IH. unfold eval_ok in Hx. rewrite Hx. reflexivity.
  Qed.

  Lemma eval_entries kvs :
    Forall (fun kx => eval_ok (snd kx)) kvs ->
    (fix go (l : list (ast * ast)) : res (list (string * json)) :=
       match l with
       | [] => ROk []
       | (k, x) :: r => rbind2 (rbind2 (eval_key k) (eval x) pair) (go r) cons
       end) (map ast_entry kvs) = ROk (map norm_entry kvs).
  Proof.
    intros Hl. induction Hl as [|[k x] l Hx Hl IH]; [reflexivity|].
    cbn [map ast_entry fst snd]. rewrite IH. cbn [snd] in Hx. unfold eval_ok in Hx.
    rewrite Hx, eval_key_str_tok, str_txt. reflexivity.
  Qed.

  Lemma norm_entry_keys kvs : map fst (map norm_entry kvs) = map fst kvs.
  Proof. induction kvs as [|[k x] kvs IH]; [reflexivity|]. simpl. now rewrite IH. Qed.

  Theorem eval_ast_of v :
    wf v = true -> in_range v = true -> floats_all fgood v = true -> eval_ok v.
  Proof.
    induction v as [| b | z | m e | s | l IH | kvs IH] using json_ind'; intros Hw Hr Hf; unfold eval_ok.
    - reflexivity.
    - now destruct b.
    - cbn [ast_of eval eval_token norm]. rewrite print_Z_value. simpl in Hr. now rewrite Hr.
    - cbn [ast_of eval eval_token norm]. simpl in Hf. now rewrite (fprint_parse m e Hf).
    - cbn [ast_of eval norm]. now apply eval_scalar_tok.
    - simpl in Hw, Hr, Hf. apply forallb_Forall in Hw. apply forallb_Forall in Hr.
      apply forallb_Forall in Hf.
      assert (Forall eval_ok l) as Hl.
      { rewrite Forall_forall in *. intros x Hx. apply IH; auto. }
      cbn [ast_of eval norm]. now rewrite (eval_items l Hl).
    - apply wf_map in Hw as [Hnd Hw]. apply in_range_map in Hr. apply floats_all_map in Hf.
      assert (Forall (fun kx => eval_ok (snd kx)) kvs) as Hl.
      { rewrite Forall_forall in *. intros x Hx. apply IH; auto. }
      rewrite ast_of_map, norm_map. cbn [eval]. rewrite (eval_entries kvs Hl).
      now rewrite norm_entry_keys, Hnd.
  Qed.

  (* ---------------------------------------------------------------- *)
  (* the round trip                                                    *)
  (* ---------------------------------------------------------------- *)

  Lemma lapp_ok ts l : lapp ts (LexOk l) = LexOk (ts ++ l).
  Proof. induction ts as [|t ts IH]; simpl; [reflexivity|now rewrite IH]. Qed.

  Theorem roundtrip v :
    wf v = true -> in_range v = true -> floats_all fgood v = true -> no_leading_eq v = true ->
    eval_lit (encode v) = ROk (norm v).
  Proof.
    intros Hw Hr Hf Hq. unfold eval_lit.
    rewrite <- (app_nil_r (encode v)).
    rewrite (lex_encode v Hf Hq [] eq_refl). cbn [lex]. rewrite lapp_ok.
    unfold parse. rewrite (parse_tokens_encode v [] PWantVal [] (or_introl eq_refl)).
    unfold after. cbn [reduce fst snd run].
    exact (eval_ast_of v Hw Hr Hf).
  Qed.

  (* a string (as a value that is not a numeral, or as a map key) comes back
     character for character *)
  Theorem string_roundtrip (t : text) :
    eval_lit (encode_str t) = ROk (JStr (str t)).
  Proof.
    unfold eval_lit. rewrite <- (app_nil_r (encode_str t)).
    rewrite (lex_encode_str t [] eq_refl). cbn [lex lcons].
    unfold parse. rewrite (run_lit _ [] PWantVal [] (str_tok_lit t) (or_introl eq_refl)).
    unfold after. cbn [reduce fst snd run eval]. apply eval_str_tok.
  Qed.

  (* the keys of a map come back unchanged and in order *)
  Theorem keys_roundtrip kvs :
    wf (JMap kvs) = true -> in_range (JMap kvs) = true -> floats_all fgood (JMap kvs) = true ->
    no_leading_eq (JMap kvs) = true ->
    exists kvs', eval_lit (encode (JMap kvs)) = ROk (JMap kvs') /\ map fst kvs' = map fst kvs.
  Proof.
    intros Hw Hr Hf Hq. exists (map norm_entry kvs). split.
    - rewrite <- norm_map. now apply roundtrip.
    - apply norm_entry_keys.
  Qed.
End RoundTrip.

(* norm is the identity on everything but numeral strings *)
Lemma norm_str_nonnumeral s : numeral_kind (txt s) = None -> norm_str s = JStr s.
Proof. unfold norm_str. now intros ->. Qed.

Lemma norm_str_int s :
  numeral_kind (txt s) = Some KInt -> norm_str s = JInt (int_of_text (txt s)).
Proof. unfold norm_str. now intros ->. Qed.

Lemma norm_str_float s m e :
  numeral_kind (txt s) = Some KFloat -> fparse (txt s) = Some (m, e) -> norm_str s = JFloat m e.
Proof. unfold norm_str. now intros -> ->. Qed.

(* ------------------------------------------------------------------ *)
(* instances: all finite doubles / the floats of a table of observed texts *)
(* ------------------------------------------------------------------ *)

Section FloatOk.
  Variable fprint : Z -> Z -> text.
  Hypothesis fprint_numeral :
    forall m e, float_ok m e = true -> numeral_kind (fprint m e) = Some KFloat.
  Hypothesis fprint_parse :
    forall m e, float_ok m e = true -> fparse (fprint m e) = Some (m, e).

  Theorem lex_encode_ok v :
    in_range v = true -> no_leading_eq v = true ->
    forall r, delim_start r = true ->
    lex 0 (encode fprint v ++ r) = lapp (tokens fprint v) (lex 0 r).
  Proof.
    intros Hr Hq. exact (lex_encode fprint float_ok fprint_numeral v (in_range_floats v Hr) Hq).
  Qed.

  Theorem roundtrip_ok v :
    wf v = true -> in_range v = true -> no_leading_eq v = true ->
    eval_lit (encode fprint v) = ROk (norm v).
  Proof.
    intros Hw Hr Hq.
    exact (roundtrip fprint float_ok fprint_numeral fprint_parse v Hw Hr (in_range_floats v Hr) Hq).
  Qed.

  Theorem keys_roundtrip_ok kvs :
    wf (JMap kvs) = true -> in_range (JMap kvs) = true -> no_leading_eq (JMap kvs) = true ->
    exists kvs', eval_lit (encode fprint (JMap kvs)) = ROk (JMap kvs') /\ map fst kvs' = map fst kvs.
  Proof.
    intros Hw Hr Hq.
    exact (keys_roundtrip fprint float_ok fprint_numeral fprint_parse kvs Hw Hr
             (in_range_floats _ Hr) Hq).
  Qed.
End FloatOk.

(* with the float texts of a table (what the correspondence check passes to
   the model): no assumption left, the two facts are decided by ftable_ok *)
Lemma ftable_ok_entry tb m e :
  ftable_ok tb = true -> in_table tb m e = true ->
  numeral_kind (fprint_of tb m e) = Some KFloat /\ fparse (fprint_of tb m e) = Some (m, e).
Proof.
  induction tb as [|[[m' e'] s] tb IH]; [discriminate|].
  unfold ftable_ok, in_table. cbn [forallb existsb fprint_of fst snd].
  intros [H1 H2]%Bool.andb_true_iff Hin.
  destruct ((m =? m')%Z && (e =? e')%Z) eqn:E.
  - apply Bool.andb_true_iff in E as [Em Ee]. apply Z.eqb_eq in Em. apply Z.eqb_eq in Ee. subst.
    unfold fentry_ok in H1.
    apply Bool.andb_true_iff in H1 as [H1 _]. apply Bool.andb_true_iff in H1 as [Hk Hp].
    split.
    + destruct (numeral_kind (txt s)) as [[|]|]; try discriminate. reflexivity.
    + destruct (fparse (txt s)) as [[a b]|]; [|discriminate].
      apply Bool.andb_true_iff in Hp as [Ha Hb]. apply Z.eqb_eq in Ha. apply Z.eqb_eq in Hb.
      now subst.
  - simpl in Hin. now apply IH.
Qed.

Theorem roundtrip_table tb v :
  ftable_ok tb = true -> floats_all (in_table tb) v = true ->
  wf v = true -> in_range v = true -> no_leading_eq v = true ->
  eval_lit (encode (fprint_of tb) v) = ROk (norm v).
Proof.
  intros Ht Hf Hw Hr Hq.
  apply (roundtrip (fprint_of tb) (in_table tb)); auto.
  - intros m e H. now apply (ftable_ok_entry tb m e Ht H).
  - intros m e H. now apply (ftable_ok_entry tb m e Ht H).
Qed.

(* ------------------------------------------------------------------ *)
(* the numeral matcher is the documented grammar                       *)
(* ------------------------------------------------------------------ *)

(* one or more ASCII digits *)
Definition digits1 (t : text) : Prop := t <> [] /\ forallb is_digit t = true.

(* optional fraction: a dot and digits *)
Inductive frac_spec : text -> Prop :=
| FNone : frac_spec []
| FSome fp : digits1 fp -> frac_spec (c_dot :: fp).

(* optional exponent: e or E, optional sign, digits *)
Inductive exp_spec : text -> Prop :=
| ENone : exp_spec []
| ESome e sg ed :
    is_e e = true -> (sg = [] \/ sg = [c_plus] \/ sg = [c_minus]) -> digits1 ed ->
    exp_spec (e :: sg ++ ed).

(* digits with optional leading minus, fraction and exponent, nothing else *)
Inductive numeral_spec : text -> nkind -> Prop :=
| NSpec sg ip fr ex :
    (sg = [] \/ sg = [c_minus]) -> digits1 ip -> frac_spec fr -> exp_spec ex ->
    numeral_spec (sg ++ ip ++ fr ++ ex)
                 (match fr, ex with [], [] => KInt | _, _ => KFloat end).

Lemma firstn_count_digits t : forallb is_digit (firstn (count_digits t) t) = true.
Proof.
  induction t as [|c t IH]; [reflexivity|]. simpl. destruct (is_digit c) eqn:E; [|reflexivity].
  simpl. now rewrite E, IH.
Qed.

Lemma count_digits_stop a r :
  forallb is_digit a = true -> count_digits r = 0 -> count_digits (a ++ r) = List.length a.
Proof.
  intros Ha Hr. rewrite count_digits_app by exact Hr. now apply count_digits_all.
Qed.

Lemma digits1_split t n :
  count_digits t = S n -> digits1 (firstn (S n) t).
Proof.
  intros E. split.
  - destruct t; [discriminate|]. simpl. discriminate.
  - rewrite <- E. apply firstn_count_digits.
Qed.

Lemma scan_exp_spec t L : scan_exp t = Some L -> L = List.length t -> exp_spec t.
Proof.
  destruct t as [|c [|s r1]]; unfold scan_exp; cbv beta iota; try discriminate.
  - destruct (is_e c); discriminate.
  - destruct (is_e c) eqn:Ee; [|discriminate].
    destruct (is_sign s) eqn:Es.
    + destruct (count_digits r1) as [|n] eqn:En; [discriminate|]. intros [= <-] HL.
      assert (List.length r1 = S n) as Hlen by (simpl in HL; lia).
      assert (r1 = firstn (S n) r1) as Hr1 by (rewrite <- Hlen; now rewrite firstn_all).
      apply (ESome c [s] r1 Ee).
      * unfold is_sign in Es. apply Bool.orb_true_iff in Es as [Es|Es]; apply Ascii.eqb_eq in Es; subst; auto.
      * rewrite Hr1. now apply digits1_split.
    + destruct (count_digits (s :: r1)) as [|n] eqn:En; [discriminate|]. intros [= <-] HL.
      assert (List.length (s :: r1) = S n) as Hlen by (simpl in *; lia).
      assert (s :: r1 = firstn (S n) (s :: r1)) as Hr1 by (rewrite <- Hlen; now rewrite firstn_all).
      apply (ESome c [] (s :: r1) Ee); [now left|].
      rewrite Hr1. now apply digits1_split.
Qed.

Lemma exp_tail_spec t : exp_tail_ok t = true -> exp_spec t.
Proof.
  intros H. destruct (exp_tail_ok_inv t H) as [->|E]; [constructor|].
  now apply (scan_exp_spec t _ E).
Qed.

Lemma numeral_unsigned_sound t1 k :
  numeral_unsigned t1 = Some k ->
  exists ip fr ex, t1 = ip ++ fr ++ ex /\ digits1 ip /\ frac_spec fr /\ exp_spec ex /\
                   k = match fr, ex with [], [] => KInt | _, _ => KFloat end.
Proof.
  unfold numeral_unsigned. destruct (count_digits t1) as [|n] eqn:En; [discriminate|].
  pose proof (digits1_split t1 n En) as Hip.
  pose proof (firstn_skipn (S n) t1) as Hsplit.
  destruct (skipn (S n) t1) as [|c t3] eqn:E2.
  - intros [= <-]. exists (firstn (S n) t1), [], []. rewrite <- Hsplit at 1.
    repeat split; try constructor; try apply Hip.
  - destruct (Ascii.eqb c c_dot) eqn:Ec.
    + apply Ascii.eqb_eq in Ec. subst c.
      destruct (count_digits t3) as [|m] eqn:Em; [discriminate|].
      destruct (exp_tail_ok (skipn (S m) t3)) eqn:Et; [|discriminate]. intros [= <-].
      exists (firstn (S n) t1), (c_dot :: firstn (S m) t3), (skipn (S m) t3).
      split; [|split; [exact Hip|split; [|split]]].
      * rewrite <- Hsplit at 1. f_equal. rewrite <- app_comm_cons. f_equal. symmetry. apply firstn_skipn.
      * constructor. now apply digits1_split.
      * now apply exp_tail_spec.
      * reflexivity.
    + destruct (exp_tail_ok (c :: t3)) eqn:Et; [|discriminate]. intros [= <-].
      exists (firstn (S n) t1), [], (c :: t3).
      split; [|split; [exact Hip|split; [constructor|split; [now apply exp_tail_spec|reflexivity]]]].
      now rewrite <- Hsplit at 1.
Qed.

Theorem numeral_kind_sound t k : numeral_kind t = Some k -> numeral_spec t k.
Proof.
  unfold numeral_kind. intros H.
  destruct t as [|c t]; [discriminate|]. simpl strip_minus in H.
  destruct (Ascii.eqb c c_minus) eqn:Ec.
  - apply Ascii.eqb_eq in Ec. subst c.
    destruct (numeral_unsigned_sound t k H) as (ip & fr & ex & -> & Hip & Hfr & Hex & ->).
    apply (NSpec [c_minus] ip fr ex); auto.
  - destruct (numeral_unsigned_sound _ k H) as (ip & fr & ex & E & Hip & Hfr & Hex & ->).
    rewrite E. apply (NSpec [] ip fr ex); auto.
Qed.

Lemma is_e_facts e : is_e e = true -> is_digit e = false /\ Ascii.eqb e c_dot = false.
Proof. bytes e; try discriminate; now split. Qed.

Lemma digit_facts d : is_digit d = true -> is_sign d = false /\ Ascii.eqb d c_minus = false.
Proof. bytes d; try discriminate; now split. Qed.

Lemma digits1_count ed : digits1 ed -> exists n, count_digits ed = S n /\ List.length ed = S n.
Proof.
  intros [Hne Hd]. rewrite (count_digits_all ed Hd). destruct ed; [congruence|]. simpl. eauto.
Qed.

Lemma exp_spec_ok ex :
  exp_spec ex ->
  exp_tail_ok ex = true /\ count_digits ex = 0 /\
  match ex with c :: _ => Ascii.eqb c c_dot = false | [] => True end.
Proof.
  intros [|e sg ed He Hsg Hed]; [repeat split|].
  destruct (is_e_facts e He) as [Hnd Hdot].
  destruct (digits1_count ed Hed) as (n & Hc & Hl).
  split; [|split; [simpl; now rewrite Hnd|exact Hdot]].
  unfold exp_tail_ok, scan_exp. rewrite He.
  destruct Hsg as [-> | [-> | ->]].
  - destruct ed as [|d ed']; [discriminate|]. cbn [List.app].
    destruct Hed as [_ Hd]. simpl in Hd. apply Bool.andb_true_iff in Hd as [Hd _].
    destruct (digit_facts d Hd) as [-> _]. rewrite Hc.
    change (List.length (e :: d :: ed')) with (S (List.length (d :: ed'))). rewrite Hl.
    apply Nat.eqb_refl.
  - cbn [List.app]. change (is_sign c_plus) with true. cbv iota. rewrite Hc.
    change (List.length (e :: c_plus :: ed)) with (S (S (List.length ed))). rewrite Hl.
    apply Nat.eqb_refl.
  - cbn [List.app]. change (is_sign c_minus) with true. cbv iota. rewrite Hc.
    change (List.length (e :: c_minus :: ed)) with (S (S (List.length ed))). rewrite Hl.
    apply Nat.eqb_refl.
Qed.

Lemma numeral_unsigned_complete ip fr ex :
  digits1 ip -> frac_spec fr -> exp_spec ex ->
  numeral_unsigned (ip ++ fr ++ ex) = Some (match fr, ex with [], [] => KInt | _, _ => KFloat end).
Proof.
  intros Hip Hfr Hex.
  destruct (exp_spec_ok ex Hex) as (Hok & Hex0 & Hexdot).
  destruct (digits1_count ip Hip) as (n & Hc & Hl). destruct Hip as [_ Hipd].
  unfold numeral_unsigned.
  assert (count_digits (fr ++ ex) = 0) as H0.
  { destruct Hfr; [exact Hex0|reflexivity]. }
  rewrite (count_digits_stop ip (fr ++ ex) Hipd H0), Hl. rewrite <- Hl, skipn_app_exact.
  destruct Hfr as [|fp Hfp].
  - rewrite app_nil_l. destruct ex as [|c ex']; [reflexivity|].
    rewrite Hexdot. now rewrite Hok.
  - rewrite <- app_comm_cons. change (Ascii.eqb c_dot c_dot) with true. cbv iota.
    destruct (digits1_count fp Hfp) as (m & Hcm & Hlm). destruct Hfp as [_ Hfpd].
    rewrite (count_digits_stop fp ex Hfpd Hex0), Hlm. rewrite <- Hlm, skipn_app_exact.
    rewrite Hok. now destruct ex.
Qed.

Theorem numeral_kind_complete t k : numeral_spec t k -> numeral_kind t = Some k.
Proof.
  intros [sg ip fr ex Hsg Hip Hfr Hex]. unfold numeral_kind.
  destruct Hsg as [-> | ->].
  - rewrite app_nil_l.
    assert (strip_minus (ip ++ fr ++ ex) = ip ++ fr ++ ex) as ->.
    { destruct Hip as [Hne Hd]. destruct ip as [|d ip]; [congruence|].
      simpl in Hd. apply Bool.andb_true_iff in Hd as [Hd _].
      destruct (digit_facts d Hd) as [_ Hm]. simpl. now rewrite Hm. }
    now apply numeral_unsigned_complete.
  - simpl strip_minus. now apply numeral_unsigned_complete.
Qed.

(* the matcher accepts exactly the documented numerals *)
Theorem numeral_kind_iff t k : numeral_kind t = Some k <-> numeral_spec t k.
Proof. split; [apply numeral_kind_sound|apply numeral_kind_complete]. Qed.
