(* Encode_proofs.v — lemmas about model/Encode.v and model/CelLit.v (work in progress). *)
From Koreo Require Import Json Encode CelLit.
Local Open Scope list_scope.
