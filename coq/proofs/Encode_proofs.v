(* Encode_proofs.v — lemmas about model/Encode.v (the repaired encode_cel) and
   model/CelLit.v (lark/celpy on encoder output): the string encoder is inverted
   by the scanner + un-escaper, numerals lex as one number token, and the round
   trip  eval_lit (encode v) = ROk (norm v). *)
From Koreo Require Import Json Encode CelLit.
From Coq Require Import Lia Decimal DecimalPos DecimalZ.
Local Open Scope nat_scope.
Local Open Scope list_scope.

(* ------------------------------------------------------------------ *)
(* generic list facts                                                  *)
(* ------------------------------------------------------------------ *)

Lemma firstn_app_exact {A} (a b : list A) : firstn (List.length a) (a ++ b) = a.
Proof. induction a as [|x a IH]; simpl; [now destruct b|now rewrite IH]. Qed.

Lemma skipn_app_exact {A} (a b : list A) : skipn (List.length a) (a ++ b) = b.
Proof. induction a as [|x a IH]; simpl; auto. Qed.

Ltac bytes c := destruct c as [[] [] [] [] [] [] [] []].

(* ------------------------------------------------------------------ *)
(* the string encoder against scan_str / scan_ml / unescape            *)
(* ------------------------------------------------------------------ *)

(* one escaped character un-escapes to itself *)
Lemma unescape_esc_char c t : unescape (esc_char c ++ t) = ucons c (unescape t).
Proof. bytes c; reflexivity. Qed.

Theorem unescape_escape s : unescape (escape s) = UOk s.
Proof.
  induction s as [|c s IH]; [reflexivity|].
  simpl escape. rewrite unescape_esc_char, IH. reflexivity.
Qed.

(* the scanner passes over one escaped character *)
Lemma scan_str_esc_char c t n :
  scan_str t = Some n -> scan_str (esc_char c ++ t) = Some (List.length (esc_char c) + n).
Proof. intros H. bytes c; cbn; rewrite H; reflexivity. Qed.

Theorem scan_str_escape s r :
  scan_str (escape s ++ c_quote :: r) = Some (List.length (escape s)).
Proof.
  induction s as [|c s IH]; [reflexivity|].
  simpl escape. rewrite <- app_assoc. rewrite (scan_str_esc_char c _ _ IH).
  now rewrite app_length.
Qed.

(* text without a backslash or control character (the triple-quoted and the
   plain form are used only for such text) *)
Definition clean (s : text) : Prop := existsb needs_escape s = false.

Lemma clean_cons c s : clean (c :: s) -> needs_escape c = false /\ clean s.
Proof. unfold clean. simpl. now intros H%Bool.orb_false_iff. Qed.

Lemma unescape_tq s : clean s -> unescape (tq_body s) = UOk s.
Proof.
  induction s as [|c s IH]; [reflexivity|].
  intros [Hc Hs]%clean_cons. specialize (IH Hs). revert Hc.
  bytes c; try discriminate; intros _; cbn; rewrite IH; reflexivity.
Qed.

Lemma scan_ml_q3 r : scan_ml (q3 ++ r) = Some 0.
Proof. reflexivity. Qed.

Lemma scan_ml_tq s r : clean s -> scan_ml (tq_body s ++ q3 ++ r) = Some (List.length (tq_body s)).
Proof.
  induction s as [|c s IH]; [reflexivity|].
  intros [Hc Hs]%clean_cons. specialize (IH Hs). revert Hc.
  bytes c; try discriminate; intros _; cbn; cbn in IH; rewrite IH; reflexivity.
Qed.

(* text with nothing to escape is its own escaped form *)
Lemma escape_plain s : clean s -> has_quote s = false -> escape s = s.
Proof.
  induction s as [|c s IH]; [reflexivity|].
  intros [Hc Hs]%clean_cons Hq. unfold has_quote in Hq. simpl in Hq.
  apply Bool.orb_false_iff in Hq as [Hq1 Hq2]. simpl escape. rewrite (IH Hs Hq2).
  revert Hc Hq1. bytes c; try discriminate; reflexivity.
Qed.

(* ------------------------------------------------------------------ *)
(* the lexer on one encoded string                                     *)
(* ------------------------------------------------------------------ *)

Lemma lex_skip a r : lex (List.length a) (a ++ r) = lex 0 r.
Proof. induction a as [|c a IH]; simpl; auto. Qed.

Lemma lex_skip_S a c r : lex (S (List.length a)) (a ++ c :: r) = lex 0 r.
Proof.
  replace (a ++ c :: r) with ((a ++ [c]) ++ r) by (now rewrite <- app_assoc).
  replace (S (List.length a)) with (List.length (a ++ [c])) by (rewrite app_length; simpl; lia).
  apply lex_skip.
Qed.

(* the token encode_str s lexes to *)
Definition str_tok (s : text) : token :=
  if existsb needs_escape s then TStr false (escape s)
  else if has_quote s then TStr true (tq_body s)
  else TStr false s.

Definition tok_body (t : token) : text := match t with TStr _ b => b | _ => [] end.

Definition is_delim (c : ascii) : bool :=
  Ascii.eqb c ","%char || Ascii.eqb c "]"%char || Ascii.eqb c "}"%char || Ascii.eqb c ":"%char.

(* what may follow an encoded value: nothing, or one of  , ] } :  *)
Definition delim_start (r : text) : bool :=
  match r with [] => true | c :: _ => is_delim c end.

Lemma esc_char_head c t : exists h tl, esc_char c ++ t = h :: tl /\ Ascii.eqb h c_quote = false.
Proof. bytes c; cbn; eexists; eexists; split; reflexivity. Qed.

Lemma starts2_head h tl : Ascii.eqb h c_quote = false -> starts2 (h :: tl) = false.
Proof. intros H. destruct tl; simpl; [reflexivity|now rewrite H]. Qed.

Lemma starts2_escape s r :
  delim_start r = true -> starts2 (escape s ++ c_quote :: r) = false.
Proof.
  intros Hr. destruct s as [|c s].
  - simpl. destruct r as [|d r]; [reflexivity|]. simpl in Hr.
    revert Hr. bytes d; try discriminate; reflexivity.
  - simpl escape. rewrite <- app_assoc.
    destruct (esc_char_head c (escape s ++ c_quote :: r)) as (h & tl & -> & Hh).
    now apply starts2_head.
Qed.

Lemma lex_at_quote r :
  lex 0 (c_quote :: r) =
  match lex_string r with Some (tok, n) => lcons tok (lex n r) | None => LexErr end.
Proof. reflexivity. Qed.

Lemma lex_quoted_escape s r :
  delim_start r = true ->
  lex 0 (c_quote :: escape s ++ c_quote :: r) = lcons (TStr false (escape s)) (lex 0 r).
Proof.
  intros Hr. rewrite lex_at_quote.
  unfold lex_string. rewrite (starts2_escape s r Hr), scan_str_escape, firstn_app_exact.
  now rewrite lex_skip_S.
Qed.

Lemma lex_tq s r :
  clean s ->
  lex 0 (q3 ++ tq_body s ++ q3 ++ r) = lcons (TStr true (tq_body s)) (lex 0 r).
Proof.
  intros Hs. change (q3 ++ tq_body s ++ q3 ++ r) with (c_quote :: c_quote :: c_quote :: tq_body s ++ q3 ++ r).
  rewrite lex_at_quote.
  unfold lex_string. change (starts2 (c_quote :: c_quote :: tq_body s ++ q3 ++ r)) with true.
  cbv iota. cbn [skipn].
  rewrite (scan_ml_tq s r Hs), firstn_app_exact.
  replace (2 + List.length (tq_body s) + 3) with (List.length ([c_quote; c_quote] ++ tq_body s ++ q3))
    by (rewrite !app_length; simpl; lia).
  replace (c_quote :: c_quote :: tq_body s ++ q3 ++ r) with (([c_quote; c_quote] ++ tq_body s ++ q3) ++ r)
    by (rewrite <- !app_assoc; reflexivity).
  now rewrite lex_skip.
Qed.

Lemma quoted_app (a r : text) : (c_quote :: a ++ [c_quote]) ++ r = c_quote :: a ++ c_quote :: r.
Proof. simpl. now rewrite <- app_assoc. Qed.

(* [lex_encode_str]: an encoded string, followed by a delimiter or nothing,
   lexes to one string token ... *)
Theorem lex_encode_str s r :
  delim_start r = true ->
  lex 0 (encode_str s ++ r) = lcons (str_tok s) (lex 0 r).
Proof.
  intros Hr. unfold encode_str, str_tok.
  destruct (existsb needs_escape s) eqn:He.
  - rewrite quoted_app. now apply lex_quoted_escape.
  - destruct (has_quote s) eqn:Hq.
    + rewrite <- !app_assoc. now apply lex_tq.
    + rewrite quoted_app. pose proof (lex_quoted_escape s r Hr) as H.
      now rewrite (escape_plain s He Hq) in H.
Qed.

(* ... whose body celstr turns back into exactly the original text *)
Theorem unescape_str_tok s : unescape (tok_body (str_tok s)) = UOk s.
Proof.
  unfold str_tok. destruct (existsb needs_escape s) eqn:He; [apply unescape_escape|].
  destruct (has_quote s) eqn:Hq; cbn [tok_body].
  - now apply unescape_tq.
  - rewrite <- (escape_plain s He Hq) at 1. apply unescape_escape.
Qed.

(* ------------------------------------------------------------------ *)
(* numerals lex as one number token                                    *)
(* ------------------------------------------------------------------ *)

Lemma count_digits_le t : count_digits t <= List.length t.
Proof. induction t as [|c t IH]; simpl; [lia|destruct (is_digit c); simpl; lia]. Qed.

Lemma count_digits_app t r : count_digits r = 0 -> count_digits (t ++ r) = count_digits t.
Proof.
  intros Hr. induction t as [|c t IH]; simpl; [exact Hr|].
  destruct (is_digit c); [now rewrite IH|reflexivity].
Qed.

Lemma skipn_app_le {A} n (t r : list A) : n <= List.length t -> skipn n (t ++ r) = skipn n t ++ r.
Proof.
  intros H. rewrite skipn_app. replace (n - List.length t) with 0 by lia. reflexivity.
Qed.

Lemma skipn_nil_len {A} n (t : list A) : n <= List.length t -> skipn n t = [] -> List.length t = n.
Proof. intros H E. pose proof (skipn_length n t) as L. rewrite E in L. simpl in L. lia. Qed.

Lemma skipn_cons_len {A} n (t : list A) c t' :
  skipn n t = c :: t' -> List.length t = n + S (List.length t').
Proof.
  intros E. pose proof (skipn_length n t) as L. rewrite E in L. simpl in L.
  assert (n <= List.length t).
  { destruct (Nat.le_gt_cases n (List.length t)); [assumption|].
    rewrite skipn_all2 in E by lia. discriminate. }
  lia.
Qed.

Lemma scan_exp_app t r L :
  scan_exp t = Some L -> count_digits r = 0 -> scan_exp (t ++ r) = Some L.
Proof.
  intros H Hr. destruct t as [|c [|s r1]]; simpl in *; try discriminate.
  - destruct (is_e c); discriminate.
  - destruct (is_e c); [|discriminate].
    destruct (is_sign s).
    + now rewrite count_digits_app.
    + change (s :: r1 ++ r) with ((s :: r1) ++ r). now rewrite count_digits_app.
Qed.

(* facts about what follows a value *)
Lemma delim_digits r : delim_start r = true -> count_digits r = 0.
Proof. destruct r as [|c r]; [reflexivity|]. simpl. bytes c; try discriminate; reflexivity. Qed.

Lemma delim_exp r : delim_start r = true -> scan_exp r = None.
Proof. destruct r as [|c r]; [reflexivity|]. simpl. bytes c; try discriminate; reflexivity. Qed.

Lemma delim_ident r : delim_start r = true -> count_ident r = 0.
Proof. destruct r as [|c r]; [reflexivity|]. simpl. bytes c; try discriminate; reflexivity. Qed.

Lemma delim_follow r : delim_start r = true -> bad_follow (nth_error r 0) = false.
Proof. destruct r as [|c r]; [reflexivity|]. simpl. bytes c; try discriminate; reflexivity. Qed.

Lemma delim_nodot r :
  delim_start r = true -> match r with c :: _ => Ascii.eqb c c_dot = false | [] => True end.
Proof. destruct r as [|c r]; [trivial|]. simpl. bytes c; try discriminate; reflexivity. Qed.

Lemma exp_tail_ok_inv t :
  exp_tail_ok t = true -> t = [] \/ scan_exp t = Some (List.length t).
Proof.
  destruct t as [|c t]; [now left|]. unfold exp_tail_ok. right.
  destruct (scan_exp (c :: t)) as [n|]; [|discriminate].
  apply Nat.eqb_eq in H. now subst.
Qed.

(* the number scanner consumes exactly a numeral that is followed by a delimiter *)
Lemma scan_unsigned_numeral t1 k r :
  numeral_unsigned t1 = Some k -> delim_start r = true ->
  scan_unsigned (t1 ++ r) = Some (k, List.length t1).
Proof.
  intros Hk Hr.
  pose proof (delim_digits r Hr) as Hd. pose proof (delim_exp r Hr) as He.
  pose proof (delim_nodot r Hr) as Hn.
  unfold numeral_unsigned in Hk. unfold scan_unsigned.
  rewrite (count_digits_app t1 r Hd).
  pose proof (count_digits_le t1) as Hle.
  rewrite (skipn_app_le _ t1 r Hle).
  destruct (count_digits t1) as [|n'] eqn:En; [discriminate|].
  destruct (skipn (S n') t1) as [|c t3] eqn:E2.
  - (* all digits: INT_LIT *)
    injection Hk as <-. pose proof (skipn_nil_len _ _ Hle E2) as HL.
    rewrite !app_nil_l. rewrite He.
    destruct r as [|d r']; [now rewrite HL|]. rewrite Hn. now rewrite HL.
  - pose proof (skipn_cons_len _ _ _ _ E2) as HL.
    rewrite <- !app_comm_cons. destruct (Ascii.eqb c c_dot) eqn:Ec.
    + (* fraction *)
      rewrite (count_digits_app t3 r Hd).
      pose proof (count_digits_le t3) as Hle3.
      rewrite (skipn_app_le _ t3 r Hle3).
      destruct (count_digits t3) as [|k'] eqn:Ek; [discriminate|].
      destruct (exp_tail_ok (skipn (S k') t3)) eqn:Et; [|discriminate].
      injection Hk as <-.
      destruct (exp_tail_ok_inv _ Et) as [E4|E4].
      * rewrite E4. rewrite !app_nil_l. rewrite He.
        pose proof (skipn_nil_len _ _ Hle3 E4). f_equal. f_equal. lia.
      * rewrite (scan_exp_app _ r _ E4 Hd).
        pose proof (skipn_length (S k') t3). f_equal. f_equal. lia.
    + (* exponent only *)
      destruct (exp_tail_ok (c :: t3)) eqn:Et; [|discriminate].
      injection Hk as <-.
      destruct (exp_tail_ok_inv _ Et) as [E4|E4]; [discriminate|].
      change (c :: t3 ++ r) with ((c :: t3) ++ r).
      rewrite (scan_exp_app _ r _ E4 Hd). f_equal. f_equal. simpl. lia.
Qed.

Lemma numeral_nonempty t k : numeral_kind t = Some k -> t <> [].
Proof. intros H ->. discriminate. Qed.

Lemma scan_num_numeral t k r :
  numeral_kind t = Some k -> delim_start r = true ->
  scan_num (t ++ r) = Some (k, List.length t).
Proof.
  intros Hk Hr. unfold numeral_kind in Hk.
  destruct t as [|c t]; [discriminate|]. rewrite <- app_comm_cons. unfold scan_num.
  simpl strip_minus in Hk.
  destruct (Ascii.eqb c c_minus).
  - now rewrite (scan_unsigned_numeral t k r Hk Hr).
  - rewrite app_comm_cons. now rewrite (scan_unsigned_numeral _ k r Hk Hr).
Qed.

(* the first character of a numeral sends the lexer into its number branch *)
Lemma numeral_head t k :
  numeral_kind t = Some k ->
  exists c t', t = c :: t' /\ (is_digit c = true \/ c = c_minus).
Proof.
  unfold numeral_kind, numeral_unsigned. destruct t as [|c t]; [discriminate|].
  intros H. exists c, t. split; [reflexivity|]. simpl strip_minus in H.
  destruct (Ascii.eqb c c_minus) eqn:Ec; [right; now apply Ascii.eqb_eq|left].
  simpl in H. destruct (is_digit c); [reflexivity|discriminate].
Qed.

Lemma lex_at_number c r :
  is_digit c = true \/ c = c_minus ->
  lex 0 (c :: r) =
  match scan_num (c :: r) with
  | Some (k, len) =>
      if bad_follow (nth_error (c :: r) len) then LexOOF
      else lcons (num_tok k (firstn len (c :: r))) (lex (len - 1) r)
  | None => LexOOF
  end.
Proof.
  intros [H| ->]; [|reflexivity]. revert H. bytes c; try discriminate; reflexivity.
Qed.

Theorem lex_numeral t k r :
  numeral_kind t = Some k -> delim_start r = true ->
  lex 0 (t ++ r) = lcons (num_tok k t) (lex 0 r).
Proof.
  intros Hk Hr. destruct (numeral_head t k Hk) as (c & t' & -> & Hc).
  rewrite <- app_comm_cons. rewrite (lex_at_number c _ Hc).
  rewrite !app_comm_cons.
  rewrite (scan_num_numeral _ k r Hk Hr).
  rewrite nth_error_app2 by lia. rewrite Nat.sub_diag, (delim_follow r Hr).
  rewrite firstn_app_exact. simpl List.length. rewrite Nat.sub_succ, Nat.sub_0_r.
  now rewrite lex_skip.
Qed.

(* ------------------------------------------------------------------ *)
(* printing an integer                                                 *)
(* ------------------------------------------------------------------ *)

Lemma text_of_uint_digits u : forallb is_digit (text_of_uint u) = true.
Proof. induction u; simpl; auto. Qed.

Lemma count_digits_all t : forallb is_digit t = true -> count_digits t = List.length t.
Proof.
  induction t as [|c t IH]; [reflexivity|]. simpl. intros [Hc Ht]%Bool.andb_true_iff.
  now rewrite Hc, IH.
Qed.

Ltac code_num :=
  repeat match goal with
  | |- context [Z.of_N (code ?c)] =>
      let v := eval vm_compute in (Z.of_N (code c)) in change (Z.of_N (code c)) with v
  end.

Lemma digits_val_acc u acc :
  digits_val (Zpos acc) (text_of_uint u) = Zpos (Pos.of_uint_acc u acc).
Proof.
  revert acc. induction u; intros acc; cbn [text_of_uint digits_val Pos.of_uint_acc];
    [reflexivity|..]; rewrite <- IHu; f_equal; code_num; lia.
Qed.

Lemma digits_val_uint u : digits_val 0 (text_of_uint u) = Z.of_N (Pos.of_uint u).
Proof.
  induction u; cbn [text_of_uint digits_val Pos.of_uint]; [reflexivity|..]; code_num.
  - exact IHu.
  - apply (digits_val_acc u 1).
  - apply (digits_val_acc u 2).
  - apply (digits_val_acc u 3).
  - apply (digits_val_acc u 4).
  - apply (digits_val_acc u 5).
  - apply (digits_val_acc u 6).
  - apply (digits_val_acc u 7).
  - apply (digits_val_acc u 8).
  - apply (digits_val_acc u 9).
Qed.

Lemma uint_head_not_minus u : strip_minus (text_of_uint u) = text_of_uint u.
Proof. destruct u; reflexivity. Qed.

Lemma int_of_text_uint u : int_of_text (text_of_uint u) = digits_val 0 (text_of_uint u).
Proof. destruct u; reflexivity. Qed.

Lemma to_int_cases z :
  (exists u, Z.to_int z = Pos u /\ u <> Nil) \/ (exists u, Z.to_int z = Neg u /\ u <> Nil).
Proof.
  destruct z as [|p|p]; simpl.
  - left. exists (D0 Nil). split; [reflexivity|discriminate].
  - left. exists (Pos.to_uint p). split; [reflexivity|apply Unsigned.to_uint_nonnil].
  - right. exists (Pos.to_uint p). split; [reflexivity|apply Unsigned.to_uint_nonnil].
Qed.

Theorem print_Z_value z : int_of_text (print_Z z) = z.
Proof.
  pose proof (DecimalZ.of_to z) as H. unfold print_Z.
  destruct (Z.to_int z) as [u|u]; simpl in H.
  - rewrite int_of_text_uint, digits_val_uint. exact H.
  - unfold int_of_text. change (Ascii.eqb c_minus c_minus) with true. cbv iota.
    rewrite digits_val_uint. exact H.
Qed.

Lemma numeral_unsigned_digits t :
  t <> [] -> forallb is_digit t = true -> numeral_unsigned t = Some KInt.
Proof.
  intros Hne Hd. unfold numeral_unsigned. rewrite (count_digits_all t Hd).
  destruct t as [|c t]; [congruence|]. cbn [List.length].
  change (S (List.length t)) with (List.length (c :: t)).
  now rewrite skipn_all.
Qed.

Lemma text_of_uint_nonnil u : u <> Nil -> text_of_uint u <> [].
Proof. destruct u; simpl; congruence. Qed.

Theorem print_Z_numeral z : numeral_kind (print_Z z) = Some KInt.
Proof.
  unfold print_Z, numeral_kind.
  destruct (to_int_cases z) as [(u & -> & Hu)|(u & -> & Hu)].
  - rewrite uint_head_not_minus.
    apply numeral_unsigned_digits; [now apply text_of_uint_nonnil|apply text_of_uint_digits].
  - simpl strip_minus.
    apply numeral_unsigned_digits; [now apply text_of_uint_nonnil|apply text_of_uint_digits].
Qed.
