(* Identity_proofs.v — C06: every object a ResourceFunction creates or patches
   carries the apiVersion, kind, metadata.name and metadata.namespace its
   apiConfig evaluates to, whatever the template, overlays, overlay functions,
   create overlay or inputs contain.  Model: model/ResourceFn.v. *)
From Koreo Require Import Json Payload Payload_proofs ResourceFn ResourceFn_proofs.
Local Open Scope list_scope.

(* the identity facts about a document *)
Definition ident (c : cfg) (name : string) (ns : option string) (j : json) : Prop :=
  top_lookup "apiVersion" j = Some (JStr (c_version c)) /\
  top_lookup "kind" j = Some (JStr (c_kind c)) /\
  meta_lookup "name" j = Some (JStr name) /\
  (forall n, ns = Some n -> meta_lookup "namespace" j = Some (JStr n)).

Ltac str_neq := first [reflexivity | vm_compute; reflexivity].

Ltac kill_matches :=
  repeat match goal with
    | |- context [match lookup ?k ?m with _ => _ end] =>
        destruct (lookup k m) as [[| | | | | |?]|]
    end.

Ltac solve_lk :=
  kill_matches;
  repeat first [ apply lookup_set_key_eq
               | rewrite lookup_set_key_neq by str_neq ];
  try reflexivity.

(* the forced ("security") overlay pins the identity over ANY document *)
Lemma ident_merge_forced (c : cfg) name ns (r : json) :
  ident c name ns (merge_val r (forced_overlay c name ns)).
Proof.
  unfold forced_overlay.
  destruct r as [| | | | | |rkvs].
  1-6: (cbn [merge_val]; unfold ident, top_lookup, meta_lookup, sub_map; cbn [lookup];
        repeat split; try reflexivity;
        destruct ns as [n|]; intros n' E; inversion E; subst; reflexivity).
  destruct ns as [n|]; cbn [merge_val app].
  - set (a1 := set_key "apiVersion" _ rkvs).
    set (a2 := set_key "kind" _ a1).
    assert (Hav : lookup "apiVersion" a1 = Some (JStr (c_version c))).
    { subst a1. solve_lk. }
    assert (Hk : lookup "kind" a2 = Some (JStr (c_kind c))).
    { subst a2. solve_lk. }
    assert (Hav2 : lookup "apiVersion" a2 = Some (JStr (c_version c))).
    { subst a2. rewrite lookup_set_key_neq by str_neq. exact Hav. }
    unfold ident, top_lookup, meta_lookup, sub_map.
    destruct (lookup "metadata" a2) as [[| | | | | |rm]|] eqn:Hm;
      rewrite ?lookup_set_key_eq; (rewrite !lookup_set_key_neq by str_neq);
      (split; [exact Hav2|]); (split; [exact Hk|]); cbn [lookup];
      try (split; [reflexivity|intros n' E; inversion E; subst; reflexivity]).
    split; [solve_lk|]. intros n' E; inversion E; subst. solve_lk.
  - set (a1 := set_key "apiVersion" _ rkvs).
    set (a2 := set_key "kind" _ a1).
    assert (Hav : lookup "apiVersion" a1 = Some (JStr (c_version c))).
    { subst a1. solve_lk. }
    assert (Hk : lookup "kind" a2 = Some (JStr (c_kind c))).
    { subst a2. solve_lk. }
    assert (Hav2 : lookup "apiVersion" a2 = Some (JStr (c_version c))).
    { subst a2. rewrite lookup_set_key_neq by str_neq. exact Hav. }
    unfold ident, top_lookup, meta_lookup, sub_map.
    destruct (lookup "metadata" a2) as [[| | | | | |rm]|] eqn:Hm;
      rewrite ?lookup_set_key_eq; (rewrite !lookup_set_key_neq by str_neq);
      (split; [exact Hav2|]); (split; [exact Hk|]); cbn [lookup];
      try (split; [reflexivity|intros n' E; discriminate E]).
    split; [solve_lk|]. intros n' E; discriminate E.
Qed.

Lemma ident_forced c name ns : ident c name ns (forced_overlay c name ns).
Proof.
  unfold ident, forced_overlay, top_lookup, meta_lookup, sub_map. cbn [lookup].
  repeat split; try reflexivity.
  destruct ns as [n|]; intros n' E; inversion E; subst; reflexivity.
Qed.

(* the materialised target carries the identity *)
Lemma ident_materialize s name ns e :
  materialize s (forced_overlay (s_cfg s) name ns) = inl e -> ident (s_cfg s) name ns e.
Proof.
  unfold materialize.
  destruct (construct_template (s_template s) _) as [base|st] eqn:Ht; [|discriminate].
  assert (Hb : ident (s_cfg s) name ns base).
  { unfold construct_template in Ht.
    destruct (s_template s) as [| | |[m|]| | | | |m]; inversion Ht; subst;
      first [apply ident_forced | apply ident_merge_forced]. }
  destruct (s_overlays s) as [|st|[|o l]]; try discriminate;
    try (intros E; inversion E; subst; exact Hb).
  destruct (overlay_steps base (o :: l)) as [cur|st]; [|discriminate].
  intros E; inversion E; subst. apply ident_merge_forced.
Qed.

(* setting ownerReferences does not touch the identity *)
Lemma ident_set_owner_refs c name ns j refs :
  ident c name ns j -> ident c name ns (rf_set_owner_refs j refs).
Proof.
  intros (Ha & Hk & Hn & Hns). unfold rf_set_owner_refs.
  destruct j as [| | | | | |top]; try (repeat split; assumption).
  destruct (lookup "metadata" top) as [[| | | | | |md]|] eqn:Hm; try (repeat split; assumption).
  unfold ident, top_lookup, meta_lookup, sub_map in *.
  rewrite Hm in Hn, Hns.
  rewrite !lookup_set_key_eq. rewrite !lookup_set_key_neq by str_neq.
  repeat split; try assumption.
  all: try (rewrite lookup_set_key_neq by str_neq; assumption).
  all: try (intros n E; rewrite lookup_set_key_neq by str_neq; exact (Hns n E)).
Qed.

(* _prepare_for_api keeps the identity (directives are never identity keys) *)
Lemma ident_prepare c name ns j p :
  ident c name ns j -> prepare_for_api j = Done p -> ident c name ns (body p).
Proof.
  intros (Ha & Hk & Hn & Hns) Hp. unfold ident.
  rewrite !(prepare_top_lookup _ _ _ Hp) by str_neq.
  rewrite !(prepare_meta_lookup _ _ _ Hp) by str_neq.
  rewrite !strip_top_lookup by str_neq. rewrite !strip_meta_lookup by str_neq.
  rewrite Ha, Hk, Hn. repeat split; try reflexivity.
  intros n E. rewrite (Hns n E). reflexivity.
Qed.

(* kr8s writes the SAME namespace into metadata.namespace *)
Lemma ident_kr8s c name ns p :
  ident c name ns (body p) -> ident c name ns (body (kr8s_set_namespace p ns)).
Proof.
  intros (Ha & Hk & Hn & Hns). unfold kr8s_set_namespace.
  destruct ns as [n|]; [|repeat split; assumption].
  destruct (body p) as [| | | | | |top] eqn:Hb; try (rewrite Hb; repeat split; assumption).
  destruct (lookup "metadata" top) as [[| | | | | |md]|] eqn:Hm;
    try (rewrite Hb; repeat split; assumption).
  cbn [body]. unfold ident, top_lookup, meta_lookup, sub_map in *. rewrite Hm in Hn, Hns.
  rewrite !lookup_set_key_eq. rewrite !lookup_set_key_neq by str_neq.
  repeat split; try assumption.
  all: try (rewrite lookup_set_key_neq by str_neq; assumption).
  all: try (intros n' E; inversion E; subst; first [reflexivity | apply lookup_set_key_eq]).
Qed.

(* the namespace argument kr8s passes for an object carrying the identity *)
Lemma call_ns_ident c name n j :
  c_namespaced c = true -> ident c name (Some n) j -> call_ns c j = Some n.
Proof.
  intros Hnsd (_ & _ & _ & Hns). specialize (Hns n eq_refl).
  unfold call_ns. rewrite Hnsd. unfold meta_lookup, sub_map in Hns.
  destruct j as [| | | | | |top]; try discriminate.
  destruct (lookup "metadata" top) as [[| | | | | |md]|]; try discriminate.
  rewrite Hns. reflexivity.
Qed.

(* ---------- the POST ---------- *)

Lemma create_post_ident s plural name ns view :
  ident (s_cfg s) name ns view ->
  forall r calls, create_resource s plural ns view (forced_overlay (s_cfg s) name ns) = (r, calls) ->
  forall pl nsx p, In (CPost pl nsx p) calls ->
    pl = plural /\ ident (s_cfg s) name ns (body p) /\
    nsx = call_ns (s_cfg s) (body p).
Proof.
  intros _ r calls. unfold create_resource.
  destruct (match s_create_overlay s with
            | CNone => inl view
            | CErr => inr (StopPermFail "spec.create.overlay")
            | CDoc d => inl (apply_overlay view d)
            end) as [v1|st]; [|intros E; inversion E; subst; intros ? ? ? []].
  set (v2 := merge_val v1 (forced_overlay (s_cfg s) name ns)).
  assert (H2 : ident (s_cfg s) name ns v2) by apply ident_merge_forced.
  destruct (c_owned (s_cfg s) && opt_str_eqb (s_owner_ns s) ns).
  - destruct (updated_owner_refs v2 (s_owner_ref s)) as [l|];
      [|intros E; inversion E; subst; intros ? ? ? []].
    destruct (prepare_for_api (rf_set_owner_refs v2 l)) as [p0|e] eqn:Hp;
      [|intros E; inversion E; subst; intros ? ? ? []].
    intros E; inversion E; subst. intros pl nsx p [Hin|[]]. inversion Hin; subst.
    split; [reflexivity|]. split; [|reflexivity].
    apply ident_kr8s. eapply ident_prepare; [|exact Hp]. apply ident_set_owner_refs, H2.
  - destruct (prepare_for_api v2) as [p0|e] eqn:Hp;
      [|intros E; inversion E; subst; intros ? ? ? []].
    intros E; inversion E; subst. intros pl nsx p [Hin|[]]. inversion Hin; subst.
    split; [reflexivity|]. split; [|reflexivity].
    apply ident_kr8s. eapply ident_prepare; [|exact Hp]. exact H2.
Qed.

(* ---------- main statement over reconcile_krm ---------- *)

Theorem krm_identity s name ns :
  s_name s = NameOk name ns ->
  forall c, In c (calls_of s) ->
  match c with
  | CPost pl nsx p =>
      ident (s_cfg s) name ns (body p) /\ nsx = call_ns (s_cfg s) (body p) /\
      (c_plural (s_cfg s) = Some pl \/ c_plural (s_cfg s) = None /\ s_lookup s = Some pl)
  | CPatch pl nsx nm p =>
      ident (s_cfg s) name ns (body p) /\ nm = name /\
      (forall live, s_live s = Some live -> nsx = call_ns (s_cfg s) live) /\
      (c_plural (s_cfg s) = Some pl \/ c_plural (s_cfg s) = None /\ s_lookup s = Some pl)
  | CGet pl nsx nm | CDelete pl nsx nm =>
      nm = name /\
      (c_plural (s_cfg s) = Some pl \/ c_plural (s_cfg s) = None /\ s_lookup s = Some pl)
  end.
Proof.
  intros Hname c. unfold calls_of, reconcile_krm. rewrite Hname.
  destruct ((match ns with None => true | Some _ => false end) && c_namespaced (s_cfg s));
    [intros []|].
  assert (Hpl : forall plural,
             match c_plural (s_cfg s) with Some p => Some p | None => s_lookup s end = Some plural ->
             c_plural (s_cfg s) = Some plural \/ c_plural (s_cfg s) = None /\ s_lookup s = Some plural).
  { intros plural. destruct (c_plural (s_cfg s)); intros E; [left; exact E|right; split; [reflexivity|exact E]]. }
  destruct (match c_plural (s_cfg s) with Some p => Some p | None => s_lookup s end) as [plural|] eqn:Hp;
    [|intros []].
  specialize (Hpl plural eq_refl).
  destruct (c_delete_if_exists (s_cfg s)).
  { destruct (s_live s) as [live|]; cbn [snd In];
      intros [<-|[<-|[]]] || intros [<-|[]]; repeat split; auto. }
  destruct (s_live s) as [live|] eqn:Hl.
  - destruct (c_readonly (s_cfg s)); [cbn [snd In]; intros [<-|[]]; split; auto|].
    destruct (materialize s _) as [expected|st] eqn:Hm; [|cbn [snd In]; intros [<-|[]]; split; auto].
    apply ident_materialize in Hm.
    destruct (s_match s && _); [cbn [snd In]; intros [<-|[]]; split; auto|].
    destruct (c_update (s_cfg s)) as [d|d|].
    + destruct (c_owned (s_cfg s) && opt_str_eqb (s_owner_ns s) ns && negb _).
      * destruct (updated_owner_refs live (s_owner_ref s)) as [l|];
          [|cbn [snd In]; intros [<-|[]]; split; auto].
        destruct (prepare_for_api (rf_set_owner_refs expected l)) as [p|e] eqn:Hpp;
          [|cbn [snd In]; intros [<-|[]]; split; auto].
        cbn [snd In]. intros [<-|[<-|[]]]; [split; auto|].
        split; [eapply ident_prepare; [apply ident_set_owner_refs; exact Hm|exact Hpp]|].
        split; [reflexivity|]. split; [|exact Hpl]. intros live' E; inversion E; reflexivity.
      * destruct (prepare_for_api expected) as [p|e] eqn:Hpp;
          [|cbn [snd In]; intros [<-|[]]; split; auto].
        cbn [snd In]. intros [<-|[<-|[]]]; [split; auto|].
        split; [eapply ident_prepare; [exact Hm|exact Hpp]|].
        split; [reflexivity|]. split; [|exact Hpl]. intros live' E; inversion E; reflexivity.
    + cbn [snd In]. intros [<-|[<-|[]]]; split; auto.
    + cbn [snd In]. intros [<-|[]]; split; auto.
  - destruct (c_readonly (s_cfg s) || negb (c_create_enabled (s_cfg s)));
      [cbn [snd In]; intros [<-|[]]; split; auto|].
    destruct (materialize s _) as [expected|st] eqn:Hm; [|cbn [snd In]; intros [<-|[]]; split; auto].
    apply ident_materialize in Hm.
    destruct (create_resource s plural ns expected _) as [r calls] eqn:Hc.
    cbn [snd In]. intros [<-|Hin]; [split; auto|].
    pose proof (create_calls s plural ns expected (forced_overlay (s_cfg s) name ns)) as Hcc.
    rewrite Hc in Hcc. destruct Hcc as [->|(p & nsx & -> & _)]; [destruct Hin|].
    destruct Hin as [<-|[]].
    destruct (create_post_ident s plural name ns expected Hm r _ Hc plural nsx p (or_introl eq_refl))
      as (_ & Hid & Hnsx).
    split; [exact Hid|]. split; [exact Hnsx|exact Hpl].
Qed.
