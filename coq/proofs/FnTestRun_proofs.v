(* FnTestRun_proofs.v — lemmas about model/FnTestRun.v (property C18). *)
From Koreo Require Import Json FnTestRun.
From Coq Require Import Lia.
Local Open Scope nat_scope.
Local Open Scope list_scope.

(* ---------- generic list facts ---------- *)

Lemma mfilter_nil_r : forall A (m : list bool), @mfilter A m [] = [].
Proof. intros A m. destruct m; reflexivity. Qed.

Lemma mfilter_map : forall A B (f : A -> B) m l,
  mfilter m (map f l) = map f (mfilter m l).
Proof.
  intros A B f m. induction m as [|b m IH]; intros l; [reflexivity|].
  destruct l as [|x l]; [reflexivity|]. cbn. destruct b; cbn; rewrite IH; reflexivity.
Qed.

Lemma mfilter_map_mask : forall A (f : A -> bool) l, mfilter (map f l) l = filter f l.
Proof.
  intros A f l. induction l as [|x l IH]; [reflexivity|].
  cbn. destruct (f x); rewrite IH; reflexivity.
Qed.

Lemma existsb_mfilter_false : forall A (f : A -> bool) m l,
  existsb f l = false -> existsb f (mfilter m l) = false.
Proof.
  intros A f m. induction m as [|b m IH]; intros l H; [reflexivity|].
  destruct l as [|x l]; [reflexivity|]. cbn in *.
  apply Bool.orb_false_iff in H. destruct H as [Hx Hl].
  destruct b; cbn; [rewrite Hx; cbn|]; auto.
Qed.

Lemma nth_error_firstn_lt : forall A k (l : list A) j,
  j < k -> nth_error (firstn k l) j = nth_error l j.
Proof.
  intros A. induction k as [|k IH]; intros l j H; [lia|].
  destruct l as [|x l]; [destruct j; reflexivity|].
  destruct j as [|j]; [reflexivity|]. cbn. apply IH. lia.
Qed.

Section Proofs.
  Variables assertion overlay outcome : Type.
  Variable fut : json -> option json -> fres outcome.
  Variable verdict : assertion -> outcome -> option json -> bool -> option bool.
  Variable ioverlay : json -> json -> option json.
  Variable roverlay : overlay -> json -> json -> option json.

  Notation tcase := (tcase assertion overlay).
  Notation entry := (entry assertion overlay outcome).
  Notation run_case := (run_case fut verdict ioverlay roverlay).
  Notation run_cases := (run_cases fut verdict ioverlay roverlay).
  Notation thread := (thread fut verdict ioverlay roverlay).
  Notation run_function_test := (run_function_test fut verdict ioverlay roverlay).

  (* ---------- one case ---------- *)

  (* a variant or skipped case hands back the state it was given, whatever happened *)
  Lemma noncarrying_keeps_state : forall (st : state) (c : tcase),
    carries c = false -> o_next (run_case st c) = st.
  Proof.
    intros [bi cr] c H. unfold carries in H. unfold FnTestRun.run_case.
    destruct (tc_skip c) eqn:Hs; [reflexivity|].
    destruct (tc_variant c) eqn:Hv; [|discriminate H].
    destruct (case_inputs ioverlay bi (tc_overrides c)); [|reflexivity].
    destruct (case_resource roverlay c j cr); try reflexivity.
    destruct (fut j r); [reflexivity|].
    destruct (verdict _ _ _ _); reflexivity.
  Qed.

  (* a skipped case passes, is reported as skipped and never aborts *)
  Lemma skip_spec : forall (st : state) (c : tcase),
    tc_skip c = true -> run_case st c = mkout st true KSkipped false.
  Proof.
    intros [bi cr] c H. unfold FnTestRun.run_case. rewrite H. reflexivity.
  Qed.

  (* a non-variant, non-skipped case aborts the run exactly when it does not pass *)
  Lemma carrying_fatal_iff_fail : forall (st : state) (c : tcase),
    carries c = true ->
    o_fatal (run_case st c) = negb (r_pass (o_result (run_case st c))).
  Proof.
    intros [bi cr] c H. unfold carries in H. apply Bool.andb_true_iff in H.
    destruct H as [Hv Hs]. apply Bool.negb_true_iff in Hv, Hs.
    unfold FnTestRun.run_case. rewrite Hs.
    destruct (case_inputs ioverlay bi (tc_overrides c)); [|cbn; rewrite Hv; reflexivity].
    destruct (case_resource roverlay c j cr); cbn; try (rewrite Hv; reflexivity); try reflexivity.
    destruct (fut j r); [reflexivity|].
    destruct (verdict _ _ _ _); [|reflexivity]. rewrite Hv. reflexivity.
  Qed.

  (* a variant case aborts the run only through a setup error or a crash *)
  Lemma variant_fatal_kind : forall (st : state) (c : tcase),
    tc_variant c = true -> o_fatal (run_case st c) = true ->
    r_kind (o_result (run_case st c)) = KSetupErr \/
    r_kind (o_result (run_case st c)) = KCrashed.
  Proof.
    intros [bi cr] c Hv. unfold FnTestRun.run_case.
    destruct (tc_skip c); [cbn; discriminate|].
    destruct (case_inputs ioverlay bi (tc_overrides c)); [|cbn; rewrite Hv; discriminate].
    destruct (case_resource roverlay c j cr); cbn; auto; try (rewrite Hv; discriminate).
    destruct (fut j r); cbn; auto.
    destruct (verdict _ _ _ _); cbn; auto. rewrite Hv. cbn. discriminate.
  Qed.

  (* so: a non-carrying case that neither hit a setup error nor crashed does not abort *)
  Lemma noncarrying_not_fatal : forall (st : state) (c : tcase),
    carries c = false ->
    r_kind (o_result (run_case st c)) <> KSetupErr ->
    r_kind (o_result (run_case st c)) <> KCrashed ->
    o_fatal (run_case st c) = false.
  Proof.
    intros st c H H1 H2. unfold carries in H.
    destruct (tc_skip c) eqn:Hs.
    - rewrite skip_spec by assumption. reflexivity.
    - destruct (tc_variant c) eqn:Hv; [|discriminate H].
      destruct (o_fatal (run_case st c)) eqn:Hf; [|reflexivity].
      destruct (variant_fatal_kind st c Hv Hf); contradiction.
  Qed.

  (* what a passing non-variant, non-skipped case hands to its successor: the
     inputs it ran with and the resource MockApi materialised (or the resource
     it ran against when the function made no API call) *)
  Lemma carrying_produces : forall (bi cr : option json) (c : tcase),
    carries c = true -> o_fatal (run_case (bi, cr) c) = false ->
    r_pass (o_result (run_case (bi, cr) c)) = true /\
    exists inputs resource o calls,
      case_inputs ioverlay bi (tc_overrides c) = Some inputs /\
      case_resource roverlay c inputs cr = RRes resource /\
      fut inputs resource = FDone o calls /\
      r_kind (o_result (run_case (bi, cr) c)) = KRan o /\
      o_next (run_case (bi, cr) c) =
        (Some inputs, produced_resource resource (api_run resource calls)).
  Proof.
    intros bi cr c H Hf.
    pose proof (carrying_fatal_iff_fail (bi, cr) c H) as Hp.
    rewrite Hf in Hp. split; [destruct (r_pass _); [reflexivity|discriminate Hp]|].
    clear Hp. unfold carries in H. apply Bool.andb_true_iff in H.
    destruct H as [Hv Hs]. apply Bool.negb_true_iff in Hv, Hs.
    revert Hf. unfold FnTestRun.run_case. rewrite Hs.
    destruct (case_inputs ioverlay bi (tc_overrides c)) as [inputs|] eqn:Hci;
      [|cbn; rewrite Hv; discriminate].
    destruct (case_resource roverlay c inputs cr) as [| |resource] eqn:Hcr;
      cbn; try (rewrite Hv; discriminate); try discriminate.
    destruct (fut inputs resource) as [|o calls] eqn:Hfut; [cbn; discriminate|].
    destruct (verdict _ _ _ _) as [p|]; [|cbn; discriminate].
    rewrite Hv. cbn. intros _.
    exists inputs, resource, o, calls. rewrite Hcr, Hfut. repeat split; reflexivity.
  Qed.

  (* ---------- the trace ---------- *)

  Lemma run_cases_cons : forall st c rest,
    run_cases st (c :: rest) =
    {| e_start := st; e_case := c; e_out := run_case st c |} ::
    (if o_fatal (run_case st c) then [] else run_cases (o_next (run_case st c)) rest).
  Proof. reflexivity. Qed.

  (* every entry records the case at its position and is that case run from
     the recorded start state *)
  Lemma entry_spec : forall cs st k (e : entry),
    nth_error (run_cases st cs) k = Some e ->
    nth_error cs k = Some (e_case e) /\ e_out e = run_case (e_start e) (e_case e).
  Proof.
    induction cs as [|c rest IH]; intros st k e H.
    - destruct k; discriminate H.
    - rewrite run_cases_cons in H. destruct k as [|k].
      + cbn in H. inversion H; subst. cbn. auto.
      + cbn in H. destruct (o_fatal (run_case st c)).
        * destruct k; discriminate H.
        * cbn. eapply IH; eassumption.
  Qed.

  Lemma chain_head : forall cs st (e : entry),
    nth_error (run_cases st cs) 0 = Some e -> e_start e = st.
  Proof.
    intros [|c rest] st e H; [discriminate H|].
    rewrite run_cases_cons in H. cbn in H. inversion H; reflexivity.
  Qed.

  (* the next case starts from exactly what the previous one returned, and is
     only reached if the previous one did not abort *)
  Lemma chain_step : forall cs st k (e e' : entry),
    nth_error (run_cases st cs) k = Some e ->
    nth_error (run_cases st cs) (S k) = Some e' ->
    e_start e' = e_next e /\ e_fatal e = false.
  Proof.
    induction cs as [|c rest IH]; intros st k e e' H H'.
    - destruct k; discriminate H.
    - rewrite run_cases_cons in H, H'. destruct k as [|k].
      + cbn in H. inversion H; subst e. cbn in H'. unfold e_next, e_fatal. cbn.
        destruct (o_fatal (run_case st c)); [discriminate H'|].
        split; [|reflexivity]. eapply chain_head; eassumption.
      + cbn in H, H'. destruct (o_fatal (run_case st c)).
        * destruct k; discriminate H.
        * eapply IH; eassumption.
  Qed.

  (* entries before a reached position did not abort *)
  Lemma earlier_not_fatal : forall cs st k j (e e' : entry),
    nth_error (run_cases st cs) k = Some e -> j < k ->
    nth_error (run_cases st cs) j = Some e' -> e_fatal e' = false.
  Proof.
    induction cs as [|c rest IH]; intros st k j e e' H Hlt H'.
    - destruct k; discriminate H.
    - rewrite run_cases_cons in H, H'. destruct k as [|k]; [lia|].
      cbn in H. destruct (o_fatal (run_case st c)) eqn:Hf.
      + destruct k; discriminate H.
      + destruct j as [|j].
        * cbn in H'. inversion H'; subst e'. exact Hf.
        * cbn in H'. eapply IH; [exact H| |exact H']. lia.
  Qed.

  Lemma prefix_entries_not_fatal : forall cs st k (e x : entry),
    nth_error (run_cases st cs) k = Some e ->
    In x (firstn k (run_cases st cs)) -> e_fatal x = false.
  Proof.
    intros cs st k e x H Hx. apply In_nth_error in Hx. destruct Hx as [j Hj].
    assert (Hjk : j < k).
    { assert (Hl : j < List.length (firstn k (run_cases st cs)))
        by (apply nth_error_Some; rewrite Hj; discriminate).
      rewrite firstn_length in Hl. lia. }
    rewrite nth_error_firstn_lt in Hj by exact Hjk.
    eapply earlier_not_fatal; [exact H|exact Hjk|exact Hj].
  Qed.

  (* the run stops right after the first aborting case *)
  Lemma stops_after_fatal : forall cs st k (e : entry),
    nth_error (run_cases st cs) k = Some e -> e_fatal e = true ->
    List.length (run_cases st cs) = S k.
  Proof.
    induction cs as [|c rest IH]; intros st k e H Hf.
    - destruct k; discriminate H.
    - rewrite run_cases_cons in *. destruct k as [|k].
      + cbn in H. inversion H; subst e. unfold e_fatal in Hf. cbn in Hf.
        rewrite Hf. reflexivity.
      + cbn in H. cbn [List.length]. f_equal.
        destruct (o_fatal (run_case st c)).
        * destruct k; discriminate H.
        * eapply IH; eassumption.
  Qed.

  (* ... and runs every case when none aborts *)
  Lemma runs_all_when_no_fatal : forall cs st,
    (forall e : entry, In e (run_cases st cs) -> e_fatal e = false) ->
    List.length (run_cases st cs) = List.length cs.
  Proof.
    induction cs as [|c rest IH]; intros st H; [reflexivity|].
    rewrite run_cases_cons in *. cbn [List.length]. f_equal.
    assert (Hf : o_fatal (run_case st c) = false).
    { apply (H {| e_start := st; e_case := c; e_out := run_case st c |}). left. reflexivity. }
    rewrite Hf in *. apply IH. intros e He. apply H. right. exact He.
  Qed.

  Lemma run_cases_length_le : forall cs st,
    List.length (run_cases st cs) <= List.length cs.
  Proof.
    induction cs as [|c rest IH]; intros st; [cbn; lia|].
    rewrite run_cases_cons. cbn [List.length].
    destruct (o_fatal (run_case st c)); [cbn; lia|]. specialize (IH (o_next (run_case st c))). lia.
  Qed.

  (* running a prefix of the cases gives the prefix of the trace *)
  Lemma run_cases_firstn : forall n cs st,
    run_cases st (firstn n cs) = firstn n (run_cases st cs).
  Proof.
    induction n as [|n IH]; intros cs st; [reflexivity|].
    destruct cs as [|c rest]; [reflexivity|].
    rewrite firstn_cons, !run_cases_cons, firstn_cons. f_equal.
    destruct (o_fatal (run_case st c)); [destruct n; reflexivity|]. apply IH.
  Qed.

  (* ---------- state threading ---------- *)

  Lemma thread_cons : forall st c rest,
    thread st (c :: rest) = thread (o_next (run_case st c)) rest.
  Proof. reflexivity. Qed.

  Lemma start_is_thread : forall cs st k (e : entry),
    nth_error (run_cases st cs) k = Some e -> e_start e = thread st (firstn k cs).
  Proof.
    induction cs as [|c rest IH]; intros st k e H.
    - destruct k; discriminate H.
    - rewrite run_cases_cons in H. destruct k as [|k].
      + cbn in H. inversion H; reflexivity.
      + cbn in H. rewrite firstn_cons, thread_cons.
        destruct (o_fatal (run_case st c)).
        * destruct k; discriminate H.
        * apply IH. exact H.
  Qed.

  (* variant and skipped cases are invisible to the threaded state *)
  Lemma thread_filter : forall cs st, thread st cs = thread st (filter carries cs).
  Proof.
    induction cs as [|c rest IH]; intros st; [reflexivity|].
    cbn [filter]. destruct (carries c) eqn:Hc.
    - rewrite !thread_cons. apply IH.
    - rewrite thread_cons, noncarrying_keeps_state by assumption. apply IH.
  Qed.

  Theorem state_threading : forall cs st k (e : entry),
    nth_error (run_cases st cs) k = Some e ->
    e_start e = thread st (filter carries (firstn k cs)).
  Proof.
    intros cs st k e H. rewrite <- thread_filter. eapply start_is_thread; eassumption.
  Qed.

  (* the same, read off the trace: the state left by the last carrying entry *)
  Lemma last_carried_app : forall (tr : list entry) st e,
    last_carried st (tr ++ [e]) =
    if carries (e_case e) then e_next e else last_carried st tr.
  Proof.
    intros tr st e. unfold last_carried. rewrite fold_left_app. reflexivity.
  Qed.

  Theorem start_is_last_carried : forall k cs st (e : entry),
    nth_error (run_cases st cs) k = Some e ->
    e_start e = last_carried st (firstn k (run_cases st cs)).
  Proof.
    induction k as [|k IH]; intros cs st e H.
    - cbn. eapply chain_head; eassumption.
    - assert (Hlen : k < List.length (run_cases st cs)).
      { apply Nat.lt_trans with (S k); [lia|]. apply nth_error_Some. rewrite H. discriminate. }
      destruct (nth_error (run_cases st cs) k) as [p|] eqn:Hp;
        [|apply nth_error_None in Hp; lia].
      destruct (chain_step cs st k p e Hp H) as [Hs _].
      assert (Hfn : firstn (S k) (run_cases st cs) = firstn k (run_cases st cs) ++ [p]).
      { clear - Hp. revert k Hp. generalize (run_cases st cs) as l.
        induction l as [|x l IHl]; intros k Hp; [destruct k; discriminate|].
        destruct k as [|k]; cbn in *.
        - inversion Hp; reflexivity.
        - f_equal. apply IHl. exact Hp. }
      rewrite Hfn, last_carried_app, Hs.
      destruct (carries (e_case p)) eqn:Hc; [reflexivity|].
      rewrite <- (IH cs st p Hp). unfold e_next.
      destruct (entry_spec cs st k p Hp) as [_ Ho]. rewrite Ho.
      apply noncarrying_keeps_state. exact Hc.
  Qed.

  (* every carrying case that the run went past had passed *)
  Theorem passed_over_cases_passed : forall cs st k j (e e' : entry),
    nth_error (run_cases st cs) k = Some e -> j < k ->
    nth_error (run_cases st cs) j = Some e' -> carries (e_case e') = true ->
    r_pass (e_result e') = true.
  Proof.
    intros cs st k j e e' H Hlt H' Hc.
    pose proof (earlier_not_fatal cs st k j e e' H Hlt H') as Hf.
    destruct (entry_spec cs st j e' H') as [_ Ho].
    unfold e_fatal, e_result in *. rewrite Ho in *.
    pose proof (carrying_fatal_iff_fail (e_start e') (e_case e') Hc) as Hp.
    rewrite Hf in Hp. destruct (r_pass _); [reflexivity|discriminate Hp].
  Qed.

  (* ---------- removing / inserting non-carrying cases ---------- *)

  (* positions where the mask is false satisfy P *)
  Definition dropped {A} (m : list bool) (l : list A) (P : A -> Prop) : Prop :=
    forall i x, nth_error m i = Some false -> nth_error l i = Some x -> P x.

  Lemma dropped_tail : forall A b (m : list bool) x (l : list A) P,
    dropped (b :: m) (x :: l) P -> dropped m l P.
  Proof. intros A b m x l P H i y Hm Hl. apply (H (S i) y); assumption. Qed.

  Theorem run_cases_mask : forall cs m st,
    dropped m cs (fun c => carries c = false) ->
    dropped m (run_cases st cs) (fun e => e_fatal e = false) ->
    run_cases st (mfilter m cs) = mfilter m (run_cases st cs).
  Proof.
    induction cs as [|c rest IH]; intros m st Hc Hf.
    - rewrite !mfilter_nil_r. reflexivity.
    - destruct m as [|b m]; [reflexivity|].
      rewrite run_cases_cons in *. cbn [mfilter]. destruct b.
      + rewrite run_cases_cons. f_equal.
        destruct (o_fatal (run_case st c)); [rewrite mfilter_nil_r; reflexivity|].
        apply IH; eapply dropped_tail; eassumption.
      + assert (Hcc : carries c = false) by (apply (Hc 0 c); reflexivity).
        assert (Hff : o_fatal (run_case st c) = false).
        { apply (Hf 0 {| e_start := st; e_case := c; e_out := run_case st c |}); reflexivity. }
        rewrite Hff in *. rewrite noncarrying_keeps_state in * by assumption.
        apply IH; eapply dropped_tail; eassumption.
  Qed.

  (* the same with a predicate on cases instead of positions *)
  Theorem run_cases_filter : forall (keep : tcase -> bool),
    (forall c, keep c = false -> carries c = false) ->
    forall cs st,
    (forall e : entry, In e (run_cases st cs) -> keep (e_case e) = false -> e_fatal e = false) ->
    run_cases st (filter keep cs) = filter (fun e : entry => keep (e_case e)) (run_cases st cs).
  Proof.
    intros keep Hk. induction cs as [|c rest IH]; intros st Hf; [reflexivity|].
    rewrite run_cases_cons in *. cbn [filter e_case]. destruct (keep c) eqn:Hkc.
    - rewrite run_cases_cons. f_equal.
      destruct (o_fatal (run_case st c)); [reflexivity|].
      apply IH. intros e He. apply Hf. right. exact He.
    - assert (Hff : o_fatal (run_case st c) = false).
      { apply (Hf {| e_start := st; e_case := c; e_out := run_case st c |});
          [left; reflexivity|exact Hkc]. }
      rewrite Hff in *. rewrite noncarrying_keeps_state in * by (apply Hk; exact Hkc).
      apply IH. intros e He. apply Hf. right. exact He.
  Qed.

  Lemma nonvariant_false_noncarrying : forall c : tcase, nonvariant c = false -> carries c = false.
  Proof. intros c H. unfold carries, nonvariant in *. rewrite H. reflexivity. Qed.

  Lemma nonskip_false_noncarrying : forall c : tcase, nonskip c = false -> carries c = false.
  Proof.
    intros c H. unfold carries, nonskip in *. rewrite H. apply Bool.andb_false_r.
  Qed.

  (* removing (read right to left: adding) variant cases *)
  Theorem variants_removed : forall cs st,
    (forall e : entry, In e (run_cases st cs) -> tc_variant (e_case e) = true -> e_fatal e = false) ->
    run_cases st (filter nonvariant cs) =
    filter (fun e : entry => nonvariant (e_case e)) (run_cases st cs).
  Proof.
    intros cs st H. apply run_cases_filter; [exact nonvariant_false_noncarrying|].
    intros e He Hk. apply H; [exact He|]. unfold nonvariant in Hk.
    apply Bool.negb_false_iff in Hk. exact Hk.
  Qed.

  Lemma in_run_cases_out : forall cs st (e : entry),
    In e (run_cases st cs) -> e_out e = run_case (e_start e) (e_case e).
  Proof.
    intros cs st e He. apply In_nth_error in He. destruct He as [k Hk].
    eapply entry_spec; eassumption.
  Qed.

  (* removing skipped cases needs no side condition: they never abort *)
  Theorem skips_removed : forall cs st,
    run_cases st (filter nonskip cs) =
    filter (fun e : entry => nonskip (e_case e)) (run_cases st cs).
  Proof.
    intros cs st. apply run_cases_filter; [exact nonskip_false_noncarrying|].
    intros e He Hk. unfold nonskip in Hk. apply Bool.negb_false_iff in Hk.
    unfold e_fatal. rewrite (in_run_cases_out cs st e He), skip_spec by assumption. reflexivity.
  Qed.

  Theorem skips_removed_mask : forall cs m st,
    dropped m cs (fun c => tc_skip c = true) ->
    run_cases st (mfilter m cs) = mfilter m (run_cases st cs).
  Proof.
    intros cs m st H. apply run_cases_mask.
    - intros i c Hm Hc. apply nonskip_false_noncarrying. unfold nonskip.
      rewrite (H i c Hm Hc). reflexivity.
    - intros i e Hm He. destruct (entry_spec cs st i e He) as [Hc Ho].
      unfold e_fatal. rewrite Ho, skip_spec; [reflexivity|]. exact (H i _ Hm Hc).
  Qed.

  (* reordering variant cases (any two lists with the same non-variant cases in
     the same order): every non-variant case starts from the same state and
     gets the same result *)
  Theorem variants_reordered : forall cs cs' st,
    filter nonvariant cs = filter nonvariant cs' ->
    (forall e : entry, In e (run_cases st cs) -> tc_variant (e_case e) = true -> e_fatal e = false) ->
    (forall e : entry, In e (run_cases st cs') -> tc_variant (e_case e) = true -> e_fatal e = false) ->
    filter (fun e : entry => nonvariant (e_case e)) (run_cases st cs) =
    filter (fun e : entry => nonvariant (e_case e)) (run_cases st cs').
  Proof.
    intros cs cs' st Heq H H'.
    rewrite <- (variants_removed cs st H), <- (variants_removed cs' st H'), Heq. reflexivity.
  Qed.

  (* a case's entry (start state, outcome, verdict) depends only on the base
     state, the carrying cases before it, and the case itself *)
  Theorem depends_only_on_carrying_prefix : forall cs st k (e : entry),
    nth_error (run_cases st cs) k = Some e ->
    nth_error (run_cases st (filter carries (firstn k cs) ++ [e_case e]))
              (List.length (filter carries (firstn k cs))) = Some e.
  Proof.
    intros cs st k e H.
    destruct (entry_spec cs st k e H) as [Hc Ho].
    pose proof (state_threading cs st k e H) as Hs.
    remember (filter carries (firstn k cs)) as pre eqn:Hpre.
    (* the carrying prefix runs without abort and ends in e_start e *)
    assert (Hrun : forall (post : list tcase),
               run_cases st (pre ++ post) =
               run_cases st pre ++ run_cases (thread st pre) post /\
               List.length (run_cases st pre) = List.length pre).
    { (* pre = filter carries (firstn k cs): use the mask theorem on firstn k cs *)
      assert (Hpref : run_cases st pre = filter (fun x : entry => carries (e_case x))
                                            (run_cases st (firstn k cs))).
      { subst pre. apply run_cases_filter; [auto|].
        intros x Hx _. rewrite run_cases_firstn in Hx.
        eapply prefix_entries_not_fatal; eassumption. }
      assert (Hnf : forall x : entry, In x (run_cases st pre) -> e_fatal x = false).
      { intros x Hx. rewrite Hpref in Hx. apply filter_In in Hx. destruct Hx as [Hx _].
        rewrite run_cases_firstn in Hx. eapply prefix_entries_not_fatal; eassumption. }
      clear - Hnf. revert st Hnf. induction pre as [|c pre IH]; intros st Hnf post.
      - split; reflexivity.
      - cbn [app]. rewrite !run_cases_cons, thread_cons.
        assert (Hf : o_fatal (run_case st c) = false).
        { apply (Hnf {| e_start := st; e_case := c; e_out := run_case st c |}).
          rewrite run_cases_cons. left. reflexivity. }
        rewrite Hf.
        destruct (IH (o_next (run_case st c))) with (post := post) as [IH1 IH2].
        { intros x Hx. apply Hnf. rewrite run_cases_cons, Hf. right. exact Hx. }
        split; [cbn [app]; f_equal; exact IH1|cbn [List.length]; f_equal; exact IH2]. }
    destruct (Hrun [e_case e]) as [Happ Hlen].
    rewrite Happ, <- Hlen, nth_error_app2, Nat.sub_diag by lia.
    rewrite <- Hs. cbn. destruct e as [s c o]. cbn in *. rewrite Ho.
    reflexivity.
  Qed.

  (* ---------- run_function_test: what the caller sees ---------- *)

  Lemma filter_entries_results : forall (keep : tcase -> bool) cs st,
    map e_result (filter (fun e : entry => keep (e_case e)) (run_cases st cs)) =
    mfilter (map keep cs) (map e_result (run_cases st cs)).
  Proof.
    intros keep. induction cs as [|c rest IH]; intros st; [reflexivity|].
    rewrite run_cases_cons. cbn [filter map mfilter e_case].
    destruct (keep c); cbn [map]; [f_equal|];
      (destruct (o_fatal (run_case st c)); [rewrite mfilter_nil_r; reflexivity|apply IH]).
  Qed.

  Lemma existsb_filter_fatal : forall (keep : tcase -> bool) (tr : list entry),
    (forall e, In e tr -> keep (e_case e) = false -> e_fatal e = false) ->
    existsb e_fatal (filter (fun e => keep (e_case e)) tr) = existsb e_fatal tr.
  Proof.
    intros keep. induction tr as [|x tr IH]; intros H; [reflexivity|].
    cbn. destruct (keep (e_case x)) eqn:Hk; cbn.
    - rewrite IH; [reflexivity|]. intros e He. apply H. right. exact He.
    - rewrite (H x (or_introl eq_refl) Hk). cbn. apply IH.
      intros e He. apply H. right. exact He.
  Qed.

  Lemma existsb_filter_false : forall A (f g : A -> bool) l,
    existsb f l = false -> existsb f (filter g l) = false.
  Proof.
    intros A f g. induction l as [|x l IH]; intros H; [reflexivity|].
    cbn in *. apply Bool.orb_false_iff in H. destruct H as [Hx Hl].
    destruct (g x); cbn; [rewrite Hx; cbn|]; auto.
  Qed.

  (* the variant-free FunctionTest reports exactly the results of the
     non-variant cases of the full one, and the same fatal_error flag *)
  Theorem rft_variants_removed : forall base cs rs f,
    run_function_test true base cs = RunDone rs f ->
    (forall e : entry, In e (run_cases base cs) -> tc_variant (e_case e) = true -> e_fatal e = false) ->
    run_function_test true base (filter nonvariant cs) =
    RunDone (mfilter (map nonvariant cs) rs) f.
  Proof.
    intros base cs rs f Hr H. unfold FnTestRun.run_function_test in *. cbn [negb] in *.
    destruct (existsb is_crash (run_cases base cs)) eqn:Hc; [discriminate Hr|].
    inversion Hr; subst rs f; clear Hr.
    rewrite (variants_removed cs base H).
    rewrite existsb_filter_false by exact Hc.
    rewrite filter_entries_results. f_equal.
    apply existsb_filter_fatal. intros e He Hk. apply H; [exact He|].
    unfold nonvariant in Hk. apply Bool.negb_false_iff in Hk. exact Hk.
  Qed.

  Theorem rft_skips_removed : forall base cs rs f,
    run_function_test true base cs = RunDone rs f ->
    run_function_test true base (filter nonskip cs) =
    RunDone (mfilter (map nonskip cs) rs) f.
  Proof.
    intros base cs rs f Hr. unfold FnTestRun.run_function_test in *. cbn [negb] in *.
    destruct (existsb is_crash (run_cases base cs)) eqn:Hc; [discriminate Hr|].
    inversion Hr; subst rs f; clear Hr.
    rewrite (skips_removed cs base).
    rewrite existsb_filter_false by exact Hc.
    rewrite filter_entries_results. f_equal.
    apply existsb_filter_fatal. intros e He Hk.
    unfold nonskip in Hk. apply Bool.negb_false_iff in Hk.
    unfold e_fatal. rewrite (in_run_cases_out cs base e He), skip_spec by assumption. reflexivity.
  Qed.

  (* a skipped case is reported as a pass of kind "skipped" *)
  Theorem skipped_reported : forall cs st k (e : entry),
    nth_error (run_cases st cs) k = Some e -> tc_skip (e_case e) = true ->
    e_result e = {| r_pass := true; r_kind := KSkipped |} /\ e_next e = e_start e.
  Proof.
    intros cs st k e H Hs. destruct (entry_spec cs st k e H) as [_ Ho].
    unfold e_result, e_next. rewrite Ho, skip_spec by assumption. split; reflexivity.
  Qed.
End Proofs.
