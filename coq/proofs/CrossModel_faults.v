(* CrossModel_faults.v — the two hand-written models of reconcile_resource_function under API
   faults agree: Faults.reconcile_rf_faulty (C09: fault plans over the ACTUAL cluster content,
   with hangs / cancellation / faults after the effect) and RfFaults.reconcile_rf_f (C07/C06: the
   answer to the read and the effective answer to the write).  Each is tied to the code by its own
   correspondence stream; this file makes them check each other on the faults both can express. *)
From Koreo Require Import Json Payload ResourceFn ResourceFn_proofs RfFaults RfFaults_proofs.
From Koreo Require Faults.
From Coq Require Import Bool ZArith.
Local Open Scope list_scope.

(* the read: what Faults' fault means as an answer *)
Definition ans_of_get (f : Faults.fault) : option answer :=
  match f with
  | Faults.FNone => Some AOk
  | Faults.FExc _ => Some AExc
  | Faults.FSrv code _ => Some (if (code =? 404)%Z then ANotFound else AServerErr)
  | _ => None
  end.

(* the write: the EFFECTIVE answer, given the fault and the actual cluster content (the server
   itself answers 409 to a create of an existing object and 404 to a patch / delete of a missing one) *)
Definition eff_answer (m : call) (f : Faults.fault) (actual : option json) : option answer :=
  match f with
  | Faults.FHang | Faults.FCancelled => None
  | _ =>
      match m with
      | CPost _ _ _ =>
          match f with
          | Faults.FExc false => Some AExc
          | Faults.FSrv code false => Some (if (code =? 409)%Z then AConflict else AServerErr)
          | _ =>
              match actual with
              | Some _ => Some AConflict
              | None =>
                  match f with
                  | Faults.FNone => Some AOk
                  | Faults.FSrv code _ => Some (if (code =? 409)%Z then AConflict else AServerErr)
                  | _ => Some AExc
                  end
              end
          end
      | _ =>
          match f with
          | Faults.FExc false | Faults.FSrv _ false => Some AExc
          | _ =>
              match actual with
              | None => Some ANotFound
              | Some _ => match f with Faults.FNone => Some AOk | _ => Some AExc end
              end
          end
      end
  end.

Definition lift_r (s : scenario) (r : kres) : fres :=
  match r with
  | KStop st => FStop st
  | KRaise => FRaise
  | KObj _ => match s_post s with Some st => FStop st | None => FValue (s_return s) end
  end.

Lemma rf_is_lift s :
  s_pre s = None -> s_locals_err s = false ->
  reconcile_rf s = (lift_r s (fst (reconcile_krm s)), snd (reconcile_krm s)).
Proof.
  intros Hp Hl. unfold reconcile_rf. rewrite Hp, Hl.
  destruct (reconcile_krm s) as [[st|o|] calls]; cbn [fst snd lift_r]; try reflexivity.
  destruct (s_post s); reflexivity.
Qed.

Lemma rf_f_is_lift s ag am :
  s_pre s = None -> s_locals_err s = false ->
  reconcile_rf_f s ag am = (lift_r s (fst (reconcile_krm_f s ag am)), snd (reconcile_krm_f s ag am)).
Proof.
  intros Hp Hl. unfold reconcile_rf_f. rewrite Hp, Hl.
  destruct (reconcile_krm_f s ag am) as [[st|o|] calls]; cbn [fst snd lift_r]; try reflexivity.
  destruct (s_post s); reflexivity.
Qed.

Lemma with_live_same s : Faults.with_live s (s_live s) = s.
Proof. destruct s; reflexivity. Qed.

Lemma with_live_is_set_live s l : Faults.with_live s l = set_live s l.
Proof. reflexivity. Qed.

(* the scenario the rest of the pass sees, in both vocabularies *)
Lemma view_is_seen s f ag v :
  ans_of_get f = Some ag -> Faults.get_view f (s_live s) = Faults.VSees v ->
  get_fails ag = false /\ Faults.with_live s v = seen s ag.
Proof.
  destruct f as [|a|code a| |]; cbn [ans_of_get Faults.get_view]; try discriminate.
  - intros [= <-] [= <-]. split; [reflexivity|]. apply with_live_same.
  - destruct (code =? 404)%Z; intros [= <-]; [|discriminate]. intros [= <-]. split; reflexivity.
Qed.

Lemma view_retry_is_get_fails f ag actual :
  ans_of_get f = Some ag -> Faults.get_view f actual = Faults.VRetry -> get_fails ag = true.
Proof.
  destruct f as [|a|code a| |]; cbn [ans_of_get Faults.get_view]; try discriminate.
  - intros [= <-] _. reflexivity.
  - destruct (code =? 404)%Z; intros [= <-]; [discriminate|]. reflexivity.
Qed.

Lemma view_never_stuck f ag actual :
  ans_of_get f = Some ag ->
  Faults.get_view f actual <> Faults.VHung /\ Faults.get_view f actual <> Faults.VCancel.
Proof.
  destruct f as [|a|code a| |]; cbn [ans_of_get Faults.get_view]; try discriminate;
    intros _; split; try discriminate; destruct (code =? 404)%Z; discriminate.
Qed.

Theorem faulted_models_agree (s : scenario) (fp : Faults.fplan) (ag am : answer) :
  ans_of_get (Faults.fp_get fp) = Some ag ->
  (forall m, nth_error (snd (reconcile_rf_f s ag AOk)) 1 = Some m ->
             eff_answer m (Faults.fp_mut fp) (s_live s) = Some am) ->
  fst (Faults.reconcile_rf_faulty s fp) =
    (Faults.FRes (fst (reconcile_rf_f s ag am)), snd (reconcile_rf_f s ag am)).
Proof.
  intros Hg Hm. unfold Faults.reconcile_rf_faulty.
  destruct (s_pre s) as [st|] eqn:Hp.
  { unfold reconcile_rf, reconcile_rf_f. rewrite Hp. reflexivity. }
  destruct (s_locals_err s) eqn:Hl.
  { unfold reconcile_rf, reconcile_rf_f. rewrite Hp, Hl. reflexivity. }
  rewrite (rf_is_lift s Hp Hl), (rf_f_is_lift s ag am Hp Hl).
  rewrite (rf_f_is_lift s ag AOk Hp Hl) in Hm. cbn [snd] in Hm.
  unfold reconcile_krm_f in *.
  destruct (reconcile_krm s) as [r [|g rest]] eqn:E; cbn [fst snd]; [reflexivity|].
  destruct (Faults.get_view (Faults.fp_get fp) (s_live s)) as [v| | |] eqn:Ev.
  - destruct (view_is_seen s _ ag v Hg Ev) as [Hf Hs]. rewrite Hf in *. rewrite Hs.
    assert (Hp' : s_pre (seen s ag) = None) by (destruct ag; exact Hp).
    assert (Hl' : s_locals_err (seen s ag) = false) by (destruct ag; exact Hl).
    rewrite (rf_is_lift _ Hp' Hl').
    assert (Hlift : forall r0, lift_r (seen s ag) r0 = lift_r s r0) by (destruct ag; reflexivity).
    pose proof (krm_has_shape (seen s ag)) as Hsh.
    destruct (reconcile_krm (seen s ag)) as [r' calls'] eqn:E'.
    inversion Hsh; subst; clear Hsh; cbn [fst snd] in *; rewrite ?Hlift; try reflexivity.
    + (* GET + POST *)
      specialize (Hm _ eq_refl). rewrite seen_cfg in *.
      unfold Faults.post_effect. cbn [eff_answer] in Hm.
      destruct (Faults.fp_mut fp) as [|[|]|code [|]| |]; try discriminate Hm;
        destruct (s_live s); injection Hm as <-; try (destruct (code =? 409)%Z); reflexivity.
    + (* GET + DELETE (delete-if-exists) *)
      specialize (Hm _ eq_refl). unfold Faults.mut_effect. cbn [eff_answer] in Hm.
      destruct (Faults.fp_mut fp) as [|[|]|code [|]| |]; try discriminate Hm;
        destruct (s_live s); injection Hm as <-; reflexivity.
    + (* GET + DELETE (recreate) *)
      specialize (Hm _ eq_refl). unfold Faults.mut_effect. cbn [eff_answer] in Hm.
      destruct (Faults.fp_mut fp) as [|[|]|code [|]| |]; try discriminate Hm;
        destruct (s_live s); injection Hm as <-; reflexivity.
    + (* GET + PATCH *)
      specialize (Hm _ eq_refl). unfold Faults.mut_effect. cbn [eff_answer] in Hm.
      destruct (Faults.fp_mut fp) as [|[|]|code [|]| |]; try discriminate Hm;
        destruct (s_live s); injection Hm as <-; reflexivity.
  - rewrite (view_retry_is_get_fails _ ag _ Hg Ev). reflexivity.
  - exfalso. exact (proj1 (view_never_stuck _ ag (s_live s) Hg) Ev).
  - exfalso. exact (proj2 (view_never_stuck _ ag (s_live s) Hg) Ev).
Qed.
