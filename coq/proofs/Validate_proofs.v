(* Validate_proofs.v — lemmas about model/Validate.v used by C05 (drift
   detection, dispatch) and shared with C04 (proofs/Fixpoint_proofs.v). *)
From Koreo Require Import Json Payload Validate.
From Coq Require Import Lia.
Local Open Scope list_scope.

Arguments is_directive : simpl never.

(* ------------------------------------------------------------------ *)
(* association lists                                                   *)
(* ------------------------------------------------------------------ *)

Lemma v_eqb_sym (a b : string) : String.eqb a b = String.eqb b a.
Proof.
  destruct (String.eqb a b) eqn:E.
  - apply String.eqb_eq in E. subst. symmetry. apply String.eqb_refl.
  - symmetry. apply String.eqb_neq. apply String.eqb_neq in E. congruence.
Qed.

Lemma v_lookup_set_key_eq {A} k (v : A) kvs : lookup k (set_key k v kvs) = Some v.
Proof.
  induction kvs as [|[k' v'] r IH]; cbn.
  - rewrite String.eqb_refl. reflexivity.
  - destruct (String.eqb k k') eqn:E; cbn; rewrite E; auto.
Qed.

Lemma v_lookup_set_key_neq {A} k k' (v : A) kvs :
  String.eqb k' k = false -> lookup k' (set_key k v kvs) = lookup k' kvs.
Proof.
  intros N. induction kvs as [|[k2 v2] r IH]; cbn.
  - rewrite N. reflexivity.
  - destruct (String.eqb k k2) eqn:E; cbn.
    + apply String.eqb_eq in E. subst k2. rewrite N. reflexivity.
    + destruct (String.eqb k' k2); auto.
Qed.

Lemma v_lookup_del_key_eq {A} k (kvs : list (string * A)) : lookup k (del_key k kvs) = None.
Proof.
  induction kvs as [|[k' v'] r IH]; cbn; auto.
  destruct (String.eqb k k') eqn:E; cbn; auto. rewrite E. auto.
Qed.

Lemma v_lookup_del_key_neq {A} k k' (kvs : list (string * A)) :
  String.eqb k' k = false -> lookup k' (del_key k kvs) = lookup k' kvs.
Proof.
  intros N. induction kvs as [|[k2 v2] r IH]; cbn; auto.
  destruct (String.eqb k k2) eqn:E; cbn.
  - apply String.eqb_eq in E. subst k2. rewrite N. auto.
  - destruct (String.eqb k' k2); auto.
Qed.

Lemma v_mem_str_In k l : mem_str k l = true <-> In k l.
Proof.
  induction l as [|x r IH]; cbn; [split; [discriminate|tauto]|].
  rewrite Bool.orb_true_iff, IH, String.eqb_eq. split; intros [H|H]; auto.
Qed.

Lemma v_lookup_In {A} k (v : A) kvs : lookup k kvs = Some v -> In (k, v) kvs.
Proof.
  induction kvs as [|[k' v'] r IH]; cbn; [discriminate|].
  destruct (String.eqb k k') eqn:E.
  - apply String.eqb_eq in E. subst. intros H. inversion H. auto.
  - auto.
Qed.

Lemma v_lookup_None_notin {A} k (kvs : list (string * A)) :
  lookup k kvs = None -> ~ In k (map fst kvs).
Proof.
  induction kvs as [|[k' v'] r IH]; cbn; auto.
  destruct (String.eqb k k') eqn:E; [discriminate|].
  intros H [C|C]; [subst; rewrite String.eqb_refl in E; discriminate | exact (IH H C)].
Qed.

Lemma v_nodup_lookup {A} k (v : A) kvs :
  nodup_str (map fst kvs) = true -> In (k, v) kvs -> lookup k kvs = Some v.
Proof.
  induction kvs as [|[k' v'] r IH]; cbn; [tauto|].
  intros ND [H|H].
  - inversion H. subst. rewrite String.eqb_refl. reflexivity.
  - apply Bool.andb_true_iff in ND. destruct ND as [N1 N2].
    destruct (String.eqb k k') eqn:E.
    + apply String.eqb_eq in E. subst k'. exfalso.
      apply Bool.negb_true_iff in N1.
      assert (mem_str k (map fst r) = true) by (apply v_mem_str_In, (in_map fst _ _ H)).
      congruence.
    + auto.
Qed.

(* ------------------------------------------------------------------ *)
(* outcome sets                                                        *)
(* ------------------------------------------------------------------ *)

Lemma ounion_match_l o : ounion O_match o = o.
Proof. destruct o; reflexivity. Qed.

Lemma ounion_match_r o : ounion o O_match = o.
Proof. destruct o as [a b c d e]; unfold ounion; cbn; rewrite !Bool.orb_false_r; reflexivity. Qed.

Lemma ounion_comm a b : ounion a b = ounion b a.
Proof.
  destruct a, b; unfold ounion; cbn; f_equal; apply Bool.orb_comm.
Qed.

Lemma ounion_match_inv a b : ounion a b = O_match -> a = O_match /\ b = O_match.
Proof.
  destruct a as [[] [] [] [] []], b as [[] [] [] [] []]; unfold ounion, O_match; cbn;
    intros H; try discriminate H; auto.
Qed.

Lemma ounion_false_match : ounion O_false O_match = O_false.
Proof. reflexivity. Qed.

Lemma ounion_false_false : ounion O_false O_false = O_false.
Proof. reflexivity. Qed.

Lemma is_match_true o : is_match o = true <-> o = O_match.
Proof.
  destruct o as [[] [] [] [] []]; unfold is_match, O_match; cbn; split; intros H;
    try discriminate H; auto.
Qed.

Lemma is_match_O_false : is_match O_false = false.
Proof. reflexivity. Qed.

Lemma O_raise_not_match e : O_raise e <> O_match.
Proof. destruct e; unfold O_match; cbn; discriminate. Qed.

Lemma O_false_not_match : O_false <> O_match.
Proof. unfold O_false, O_match; discriminate. Qed.

Lemma O_oom_not_match : O_oom <> O_match.
Proof. unfold O_oom, O_match; discriminate. Qed.

Lemma outs_of_fail_match {A} (c : comp A) : outs_of_fail c = O_match -> exists a, c = Ret a.
Proof.
  destruct c; cbn; intros H; eauto.
  - exfalso. exact (O_raise_not_match _ H).
  - exfalso. exact (O_oom_not_match H).
Qed.

(* contradiction from "a definite non-match equals O_match" *)
Ltac onomatch H :=
  exfalso;
  first [ exact (O_raise_not_match _ H) | exact (O_false_not_match H) | exact (O_oom_not_match H)
        | (apply outs_of_fail_match in H; destruct H as [? H]; discriminate H)
        | (unfold O_match, O_false, O_oom in H; discriminate H) ].

(* ------------------------------------------------------------------ *)
(* the key loop                                                        *)
(* ------------------------------------------------------------------ *)

Section KeyLoop.
  Variable rec : json -> json -> json -> bool -> outs.
  Variables (sk lk : list string) (cfg : list (string * list json)).

  Lemma keys_loop_match ak la l :
    keys_loop rec sk lk cfg ak la l = O_match <->
    (forall k tv, In (k, tv) l -> is_directive k = false ->
                  key_match rec sk lk cfg ak la k tv = O_match).
  Proof.
    induction l as [|[k tv] r IH]; cbn.
    - split; auto. intros _ ? ? [].
    - destruct IH as [IH1 IH2]. destruct (is_directive k) eqn:D.
      + split.
        * intros H k' tv' [E|I] D'; [inversion E; subst; congruence | apply IH1; auto].
        * intros H. apply IH2. intros k' tv' I D'. apply H; auto.
      + split.
        * intros H. apply ounion_match_inv in H. destruct H as [H1 H2].
          intros k' tv' [E|I] D'; [inversion E; subst; auto|]. apply IH1; auto.
        * intros H. rewrite (H k tv) by auto.
          rewrite ounion_match_l. apply IH2. intros; apply H; auto.
  Qed.

  (* every key matches or mismatches, at least one mismatches: definite mismatch *)
  Lemma keys_loop_false ak la l :
    (forall k tv, In (k, tv) l -> is_directive k = false ->
        key_match rec sk lk cfg ak la k tv = O_match \/
        key_match rec sk lk cfg ak la k tv = O_false) ->
    (exists k tv, In (k, tv) l /\ is_directive k = false /\
        key_match rec sk lk cfg ak la k tv = O_false) ->
    keys_loop rec sk lk cfg ak la l = O_false.
  Proof.
    induction l as [|[k tv] r IH]; cbn; intros A [k0 [tv0 [I [D F]]]]; [destruct I|].
    assert (R : keys_loop rec sk lk cfg ak la r = O_match \/ keys_loop rec sk lk cfg ak la r = O_false).
    { destruct (Bool.bool_dec (is_match (keys_loop rec sk lk cfg ak la r)) true) as [M|M].
      - left. apply is_match_true. exact M.
      - right. apply IH; [intros; apply A; auto|].
        (* some key of r does not match *)
        assert (E : ~ (forall k' tv', In (k', tv') r -> is_directive k' = false ->
                        key_match rec sk lk cfg ak la k' tv' = O_match)).
        { intros C. apply M. apply is_match_true. apply keys_loop_match. exact C. }
        clear - A E.
        induction r as [|[k1 tv1] r1 IHr].
        + exfalso. apply E. intros ? ? [].
        + destruct (is_directive k1) eqn:D1.
          * destruct IHr as [k2 [tv2 [I2 [D2 F2]]]].
            -- intros k' tv' I'. apply A. cbn in *. tauto.
            -- intros C. apply E. intros k' tv' [X|X] D'; [inversion X; subst; congruence | auto].
            -- exists k2, tv2. cbn. auto.
          * destruct (A k1 tv1) as [X|X]; [cbn; auto | auto | | exists k1, tv1; cbn; auto].
            destruct IHr as [k2 [tv2 [I2 [D2 F2]]]].
            -- intros k' tv' I'. apply A. cbn in *. tauto.
            -- intros C. apply E. intros k' tv' [Y|Y] D'; [inversion Y; subst; auto | auto].
            -- exists k2, tv2. cbn. auto. }
    destruct (is_directive k) eqn:Dk.
    - destruct I as [E|I]; [inversion E; subst; congruence|].
      apply IH; [intros; apply A; auto | exists k0, tv0; auto].
    - destruct I as [E|I].
      + inversion E. subst k0 tv0. rewrite F.
        destruct R as [R|R]; rewrite R; reflexivity.
      + assert (R' : keys_loop rec sk lk cfg ak la r = O_false).
        { apply IH; [intros; apply A; auto | exists k0, tv0; auto]. }
        rewrite R'. destruct (A k tv) as [X|X]; auto; rewrite X; reflexivity.
  Qed.
End KeyLoop.

(* ------------------------------------------------------------------ *)
(* one key of the loop                                                 *)
(* ------------------------------------------------------------------ *)

Section KeyMatch.
  Variable rec : json -> json -> json -> bool -> outs.
  Variables (sk lk : list string) (cfg : list (string * list json)).

  (* key_match looks at the live map only through `lookup k` *)
  Lemma key_match_ext ak ak' la k tv :
    lookup k ak' = lookup k ak ->
    key_match rec sk lk cfg ak' la k tv = key_match rec sk lk cfg ak la k tv.
  Proof. intros E. unfold key_match. rewrite E. reflexivity. Qed.

  Lemma specified_key_inv k :
    specified_key lk k = true ->
    is_directive k = false /\ String.eqb k K_OWNERS = false /\ mem_str k lk = false.
  Proof.
    unfold specified_key. intros H.
    apply Bool.andb_true_iff in H. destruct H as [H H3].
    apply Bool.andb_true_iff in H. destruct H as [H1 H2].
    apply Bool.negb_true_iff in H1, H2, H3. auto.
  Qed.

  (* a specified key that is missing from the live map: mismatch, provided the
     last-applied document can be probed (it could when the key was there) *)
  Lemma key_match_missing ak la k tv lav :
    specified_key lk k = true -> probe_la la k = LaVal lav -> lookup k ak = None ->
    key_match rec sk lk cfg ak la k tv = O_false.
  Proof.
    intros S P N. apply specified_key_inv in S. destruct S as [_ [S2 S3]].
    unfold key_match. rewrite S2, P, S3, N. reflexivity.
  Qed.

  (* a specified key matched: the last-applied probe succeeded *)
  Lemma key_match_probe ak la k tv v :
    specified_key lk k = true -> lookup k ak = Some v ->
    key_match rec sk lk cfg ak la k tv = O_match ->
    exists lav, probe_la la k = LaVal lav.
  Proof.
    intros S Lk H. apply specified_key_inv in S. destruct S as [_ [S2 S3]].
    unfold key_match in H. rewrite S2, S3, Lk in H.
    destruct (probe_la la k) as [lav| |] eqn:P.
    - eauto.
    - onomatch H.
    - cbn in H. destruct (lookup k cfg) as [fields|].
      + destruct (list_to_object tv fields); cbn in H; try onomatch H;
          destruct (list_to_object v fields); cbn in H; onomatch H.
      + onomatch H.
  Qed.

  (* plain key (not compared as a map): the value is handed to the recursive call *)
  Lemma key_match_plain ak la k tv v lav :
    specified_key lk k = true -> lookup k cfg = None ->
    probe_la la k = LaVal lav -> lookup k ak = Some v ->
    key_match rec sk lk cfg ak la k tv = rec tv v lav (mem_str k sk).
  Proof.
    intros S C P Lk. apply specified_key_inv in S. destruct S as [_ [S2 S3]].
    unfold key_match. rewrite S2, P, S3, Lk, C. reflexivity.
  Qed.

  (* key compared as a keyed collection *)
  Lemma key_match_as_map ak la k tv v lav fields T A :
    specified_key lk k = true -> lookup k cfg = Some fields ->
    probe_la la k = LaVal lav -> lookup k ak = Some v ->
    list_to_object tv fields = Ret T -> list_to_object v fields = Ret A ->
    key_match rec sk lk cfg ak la k tv =
      match list_to_object lav fields with
      | Ret L => rec T A L false
      | c => outs_of_fail c
      end.
  Proof.
    intros S C P Lk LT LA. apply specified_key_inv in S. destruct S as [_ [S2 S3]].
    unfold key_match. rewrite S2, P, S3, Lk, C, LT, LA. reflexivity.
  Qed.

  (* the whole loop after a change of the live map at one specified key *)
  Lemma keys_loop_dev tk ak ak' la k tv :
    nodup_str (map fst tk) = true -> lookup k tk = Some tv -> is_directive k = false ->
    keys_loop rec sk lk cfg ak la tk = O_match ->
    (forall k1, String.eqb k1 k = false -> lookup k1 ak' = lookup k1 ak) ->
    key_match rec sk lk cfg ak' la k tv = O_false ->
    keys_loop rec sk lk cfg ak' la tk = O_false.
  Proof.
    intros ND Lk D H Same F.
    apply keys_loop_false.
    - intros k1 tv1 I D1. destruct (String.eqb k1 k) eqn:E.
      + apply String.eqb_eq in E. subst k1. right.
        apply v_nodup_lookup in I; auto. rewrite Lk in I. inversion I. subst. exact F.
      + left. rewrite key_match_ext by (apply Same; exact E).
        revert k1 tv1 I D1 E. intros k1 tv1 I D1 _.
        exact (proj1 (keys_loop_match rec sk lk cfg ak la tk) H k1 tv1 I D1).
    - exists k, tv. split; [apply v_lookup_In; exact Lk|]. auto.
  Qed.
End KeyMatch.
