(* Validate_proofs.v — lemmas about model/Validate.v (C05; shared with C04). *)
From Koreo Require Import Json Payload Validate.
From Coq Require Import Lia.
Local Open Scope list_scope.

Lemma ounion_match_l o : ounion O_match o = o.
Proof. destruct o; reflexivity. Qed.
