(* Validate_proofs.v — lemmas about model/Validate.v used by C05 (drift
   detection, dispatch) and shared with C04 (proofs/Fixpoint_proofs.v). *)
From Koreo Require Import Json Payload Validate.
From Coq Require Import Lia.
Local Open Scope list_scope.

Arguments is_directive : simpl never.

(* ------------------------------------------------------------------ *)
(* association lists                                                   *)
(* ------------------------------------------------------------------ *)

Lemma v_eqb_sym (a b : string) : String.eqb a b = String.eqb b a.
Proof.
  destruct (String.eqb a b) eqn:E.
  - apply String.eqb_eq in E. subst. symmetry. apply String.eqb_refl.
  - symmetry. apply String.eqb_neq. apply String.eqb_neq in E. congruence.
Qed.

Lemma v_lookup_set_key_eq {A} k (v : A) kvs : lookup k (set_key k v kvs) = Some v.
Proof.
  induction kvs as [|[k' v'] r IH]; cbn.
  - rewrite String.eqb_refl. reflexivity.
  - destruct (String.eqb k k') eqn:E; cbn; rewrite E; auto.
Qed.

Lemma v_lookup_set_key_neq {A} k k' (v : A) kvs :
  String.eqb k' k = false -> lookup k' (set_key k v kvs) = lookup k' kvs.
Proof.
  intros N. induction kvs as [|[k2 v2] r IH]; cbn.
  - rewrite N. reflexivity.
  - destruct (String.eqb k k2) eqn:E; cbn.
    + apply String.eqb_eq in E. subst k2. rewrite N. reflexivity.
    + destruct (String.eqb k' k2); auto.
Qed.

Lemma v_lookup_del_key_eq {A} k (kvs : list (string * A)) : lookup k (del_key k kvs) = None.
Proof.
  induction kvs as [|[k' v'] r IH]; cbn; auto.
  destruct (String.eqb k k') eqn:E; cbn; auto. rewrite E. auto.
Qed.

Lemma v_lookup_del_key_neq {A} k k' (kvs : list (string * A)) :
  String.eqb k' k = false -> lookup k' (del_key k kvs) = lookup k' kvs.
Proof.
  intros N. induction kvs as [|[k2 v2] r IH]; cbn; auto.
  destruct (String.eqb k k2) eqn:E; cbn.
  - apply String.eqb_eq in E. subst k2. rewrite N. auto.
  - destruct (String.eqb k' k2); auto.
Qed.

Lemma v_mem_str_In k l : mem_str k l = true <-> In k l.
Proof.
  induction l as [|x r IH]; cbn; [split; [discriminate|tauto]|].
  rewrite Bool.orb_true_iff, IH, String.eqb_eq. split; intros [H|H]; auto.
Qed.

Lemma v_lookup_In {A} k (v : A) kvs : lookup k kvs = Some v -> In (k, v) kvs.
Proof.
  induction kvs as [|[k' v'] r IH]; cbn; [discriminate|].
  destruct (String.eqb k k') eqn:E.
  - apply String.eqb_eq in E. subst. intros H. inversion H. auto.
  - auto.
Qed.

Lemma v_lookup_None_notin {A} k (kvs : list (string * A)) :
  lookup k kvs = None -> ~ In k (map fst kvs).
Proof.
  induction kvs as [|[k' v'] r IH]; cbn; auto.
  destruct (String.eqb k k') eqn:E; [discriminate|].
  intros H [C|C]; [subst; rewrite String.eqb_refl in E; discriminate | exact (IH H C)].
Qed.

Lemma v_nodup_lookup {A} k (v : A) kvs :
  nodup_str (map fst kvs) = true -> In (k, v) kvs -> lookup k kvs = Some v.
Proof.
  induction kvs as [|[k' v'] r IH]; cbn; [tauto|].
  intros ND [H|H].
  - inversion H. subst. rewrite String.eqb_refl. reflexivity.
  - apply Bool.andb_true_iff in ND. destruct ND as [N1 N2].
    destruct (String.eqb k k') eqn:E.
    + apply String.eqb_eq in E. subst k'. exfalso.
      apply Bool.negb_true_iff in N1.
      assert (mem_str k (map fst r) = true) by (apply v_mem_str_In, (in_map fst _ _ H)).
      congruence.
    + auto.
Qed.

(* ------------------------------------------------------------------ *)
(* outcome sets                                                        *)
(* ------------------------------------------------------------------ *)

Lemma ounion_match_l o : ounion O_match o = o.
Proof. destruct o; reflexivity. Qed.

Lemma ounion_match_r o : ounion o O_match = o.
Proof. destruct o as [a b c d e]; unfold ounion; cbn; rewrite !Bool.orb_false_r; reflexivity. Qed.

Lemma ounion_comm a b : ounion a b = ounion b a.
Proof.
  destruct a, b; unfold ounion; cbn; f_equal; apply Bool.orb_comm.
Qed.

Lemma ounion_match_inv a b : ounion a b = O_match -> a = O_match /\ b = O_match.
Proof.
  destruct a as [[] [] [] [] []], b as [[] [] [] [] []]; unfold ounion, O_match; cbn;
    intros H; try discriminate H; auto.
Qed.

Lemma ounion_false_match : ounion O_false O_match = O_false.
Proof. reflexivity. Qed.

Lemma ounion_false_false : ounion O_false O_false = O_false.
Proof. reflexivity. Qed.

Lemma is_match_true o : is_match o = true <-> o = O_match.
Proof.
  destruct o as [[] [] [] [] []]; unfold is_match, O_match; cbn; split; intros H;
    try discriminate H; auto.
Qed.

Lemma is_match_O_false : is_match O_false = false.
Proof. reflexivity. Qed.

Lemma O_raise_not_match e : O_raise e <> O_match.
Proof. destruct e; unfold O_match; cbn; discriminate. Qed.

Lemma O_false_not_match : O_false <> O_match.
Proof. unfold O_false, O_match; discriminate. Qed.

Lemma O_oom_not_match : O_oom <> O_match.
Proof. unfold O_oom, O_match; discriminate. Qed.

Lemma outs_of_fail_match {A} (c : comp A) : outs_of_fail c = O_match -> exists a, c = Ret a.
Proof.
  destruct c; cbn; intros H; eauto.
  - exfalso. exact (O_raise_not_match _ H).
  - exfalso. exact (O_oom_not_match H).
Qed.

(* contradiction from "a definite non-match equals O_match" *)
Ltac onomatch H :=
  exfalso;
  first [ exact (O_raise_not_match _ H) | exact (O_false_not_match H) | exact (O_oom_not_match H)
        | (apply outs_of_fail_match in H; destruct H as [? H]; discriminate H)
        | (unfold O_match, O_false, O_oom in H; discriminate H) ].

(* ------------------------------------------------------------------ *)
(* the key loop                                                        *)
(* ------------------------------------------------------------------ *)

Section KeyLoop.
  Variable rec : json -> json -> json -> bool -> outs.
  Variables (sk lk : list string) (cfg : list (string * list json)).

  Lemma keys_loop_match ak la l :
    keys_loop rec sk lk cfg ak la l = O_match <->
    (forall k tv, In (k, tv) l -> is_directive k = false ->
                  key_match rec sk lk cfg ak la k tv = O_match).
  Proof.
    induction l as [|[k tv] r IH]; cbn.
    - split; auto. intros _ ? ? [].
    - destruct IH as [IH1 IH2]. destruct (is_directive k) eqn:D.
      + split.
        * intros H k' tv' [E|I] D'; [inversion E; subst; congruence | apply IH1; auto].
        * intros H. apply IH2. intros k' tv' I D'. apply H; auto.
      + split.
        * intros H. apply ounion_match_inv in H. destruct H as [H1 H2].
          intros k' tv' [E|I] D'; [inversion E; subst; auto|]. apply IH1; auto.
        * intros H. rewrite (H k tv) by auto.
          rewrite ounion_match_l. apply IH2. intros; apply H; auto.
  Qed.

  (* every key matches or mismatches, at least one mismatches: definite mismatch *)
  Lemma keys_loop_false ak la l :
    (forall k tv, In (k, tv) l -> is_directive k = false ->
        key_match rec sk lk cfg ak la k tv = O_match \/
        key_match rec sk lk cfg ak la k tv = O_false) ->
    (exists k tv, In (k, tv) l /\ is_directive k = false /\
        key_match rec sk lk cfg ak la k tv = O_false) ->
    keys_loop rec sk lk cfg ak la l = O_false.
  Proof.
    induction l as [|[k tv] r IH]; cbn; intros A [k0 [tv0 [I [D F]]]]; [destruct I|].
    assert (R : keys_loop rec sk lk cfg ak la r = O_match \/ keys_loop rec sk lk cfg ak la r = O_false).
    { destruct (Bool.bool_dec (is_match (keys_loop rec sk lk cfg ak la r)) true) as [M|M].
      - left. apply is_match_true. exact M.
      - right. apply IH; [intros; apply A; auto|].
        (* some key of r does not match *)
        assert (E : ~ (forall k' tv', In (k', tv') r -> is_directive k' = false ->
                        key_match rec sk lk cfg ak la k' tv' = O_match)).
        { intros C. apply M. apply is_match_true. apply keys_loop_match. exact C. }
        clear - A E.
        induction r as [|[k1 tv1] r1 IHr].
        + exfalso. apply E. intros ? ? [].
        + destruct (is_directive k1) eqn:D1.
          * destruct IHr as [k2 [tv2 [I2 [D2 F2]]]].
            -- intros k' tv' I'. apply A. cbn in *. tauto.
            -- intros C. apply E. intros k' tv' [X|X] D'; [inversion X; subst; congruence | auto].
            -- exists k2, tv2. cbn. auto.
          * destruct (A k1 tv1) as [X|X]; [cbn; auto | auto | | exists k1, tv1; cbn; auto].
            destruct IHr as [k2 [tv2 [I2 [D2 F2]]]].
            -- intros k' tv' I'. apply A. cbn in *. tauto.
            -- intros C. apply E. intros k' tv' [Y|Y] D'; [inversion Y; subst; auto | auto].
            -- exists k2, tv2. cbn. auto. }
    destruct (is_directive k) eqn:Dk.
    - destruct I as [E|I]; [inversion E; subst; congruence|].
      apply IH; [intros; apply A; auto | exists k0, tv0; auto].
    - destruct I as [E|I].
      + inversion E. subst k0 tv0. rewrite F.
        destruct R as [R|R]; rewrite R; reflexivity.
      + assert (R' : keys_loop rec sk lk cfg ak la r = O_false).
        { apply IH; [intros; apply A; auto | exists k0, tv0; auto]. }
        rewrite R'. destruct (A k tv) as [X|X]; auto; rewrite X; reflexivity.
  Qed.
End KeyLoop.

(* ------------------------------------------------------------------ *)
(* one key of the loop                                                 *)
(* ------------------------------------------------------------------ *)

Section KeyMatch.
  Variable rec : json -> json -> json -> bool -> outs.
  Variables (sk lk : list string) (cfg : list (string * list json)).

  (* key_match looks at the live map only through `lookup k` *)
  Lemma key_match_ext ak ak' la k tv :
    lookup k ak' = lookup k ak ->
    key_match rec sk lk cfg ak' la k tv = key_match rec sk lk cfg ak la k tv.
  Proof. intros E. unfold key_match. rewrite E. reflexivity. Qed.

  Lemma specified_key_inv k :
    specified_key lk k = true ->
    is_directive k = false /\ String.eqb k K_OWNERS = false /\ mem_str k lk = false.
  Proof.
    unfold specified_key. intros H.
    apply Bool.andb_true_iff in H. destruct H as [H H3].
    apply Bool.andb_true_iff in H. destruct H as [H1 H2].
    apply Bool.negb_true_iff in H1, H2, H3. auto.
  Qed.

  (* a specified key that is missing from the live map: mismatch, provided the
     last-applied document can be probed (it could when the key was there) *)
  Lemma key_match_missing ak la k tv lav :
    specified_key lk k = true -> probe_la la k = LaVal lav -> lookup k ak = None ->
    key_match rec sk lk cfg ak la k tv = O_false.
  Proof.
    intros S P N. apply specified_key_inv in S. destruct S as [_ [S2 S3]].
    unfold key_match. rewrite S2, P, S3, N. reflexivity.
  Qed.

  (* a specified key matched: the last-applied probe succeeded *)
  Lemma key_match_probe ak la k tv v :
    specified_key lk k = true -> lookup k ak = Some v ->
    key_match rec sk lk cfg ak la k tv = O_match ->
    exists lav, probe_la la k = LaVal lav.
  Proof.
    intros S Lk H. apply specified_key_inv in S. destruct S as [_ [S2 S3]].
    unfold key_match in H. rewrite S2, S3, Lk in H.
    destruct (probe_la la k) as [lav| |] eqn:P.
    - eauto.
    - onomatch H.
    - cbn in H. destruct (lookup k cfg) as [fields|].
      + destruct (negb (shape_ok v)); [onomatch H|].
        destruct (list_to_object tv fields); cbn in H; try onomatch H;
          destruct (list_to_object v fields); cbn in H; onomatch H.
      + onomatch H.
  Qed.

  (* plain key (not compared as a map): the value is handed to the recursive call *)
  Lemma key_match_plain ak la k tv v lav :
    specified_key lk k = true -> lookup k cfg = None ->
    probe_la la k = LaVal lav -> lookup k ak = Some v ->
    key_match rec sk lk cfg ak la k tv = rec tv v lav (mem_str k sk).
  Proof.
    intros S C P Lk. apply specified_key_inv in S. destruct S as [_ [S2 S3]].
    unfold key_match. rewrite S2, P, S3, Lk, C. reflexivity.
  Qed.

  (* key compared as a keyed collection *)
  Lemma key_match_as_map ak la k tv v lav fields T A :
    specified_key lk k = true -> lookup k cfg = Some fields ->
    probe_la la k = LaVal lav -> lookup k ak = Some v -> shape_ok v = true ->
    list_to_object tv fields = Ret T -> list_to_object v fields = Ret A ->
    key_match rec sk lk cfg ak la k tv =
      match list_to_object (la_items lav) fields with
      | Ret L => rec T A L false
      | c => outs_of_fail c
      end.
  Proof.
    intros S C P Lk Sh LT LA. apply specified_key_inv in S. destruct S as [_ [S2 S3]].
    unfold key_match. rewrite S2, P, S3, Lk, C, Sh, LT, LA. reflexivity.
  Qed.

  (* ... whose live value is neither null nor a list of maps: mismatch *)
  Lemma key_match_as_map_bad ak la k tv v lav fields :
    specified_key lk k = true -> lookup k cfg = Some fields ->
    probe_la la k = LaVal lav -> lookup k ak = Some v -> shape_ok v = false ->
    key_match rec sk lk cfg ak la k tv = O_false.
  Proof.
    intros S C P Lk Sh. apply specified_key_inv in S. destruct S as [_ [S2 S3]].
    unfold key_match. rewrite S2, P, S3, Lk, C, Sh. reflexivity.
  Qed.

  Lemma key_match_as_map_shape ak la k tv v fields :
    specified_key lk k = true -> lookup k cfg = Some fields -> lookup k ak = Some v ->
    key_match rec sk lk cfg ak la k tv = O_match -> shape_ok v = true.
  Proof.
    intros S C Lk H. apply specified_key_inv in S. destruct S as [_ [S2 S3]].
    unfold key_match in H. rewrite S2, S3, Lk, C in H.
    destruct (shape_ok v); auto. destruct (probe_la la k); cbn in H; onomatch H.
  Qed.

  Lemma key_match_present ak la k tv :
    specified_key lk k = true -> key_match rec sk lk cfg ak la k tv = O_match ->
    exists v, lookup k ak = Some v.
  Proof.
    intros S H. apply specified_key_inv in S. destruct S as [_ [S2 S3]].
    unfold key_match in H. rewrite S2, S3 in H.
    destruct (lookup k ak) as [v|]; eauto.
    destruct (probe_la la k); onomatch H.
  Qed.

  (* the whole loop after a change of the live map at one specified key *)
  Lemma keys_loop_dev tk ak ak' la k tv :
    nodup_str (map fst tk) = true -> lookup k tk = Some tv -> is_directive k = false ->
    keys_loop rec sk lk cfg ak la tk = O_match ->
    (forall k1, String.eqb k1 k = false -> lookup k1 ak' = lookup k1 ak) ->
    key_match rec sk lk cfg ak' la k tv = O_false ->
    keys_loop rec sk lk cfg ak' la tk = O_false.
  Proof.
    intros ND Lk D H Same F.
    apply keys_loop_false.
    - intros k1 tv1 I D1. destruct (String.eqb k1 k) eqn:E.
      + apply String.eqb_eq in E. subst k1. right.
        apply v_nodup_lookup in I; auto. rewrite Lk in I. inversion I. subst. exact F.
      + left. rewrite (key_match_ext ak ak') by (apply Same; exact E).
        exact (proj1 (keys_loop_match rec sk lk cfg ak la tk) H k1 tv1 I D1).
    - exists k, tv. split; [apply v_lookup_In; exact Lk|]. auto.
  Qed.
End KeyMatch.

(* ------------------------------------------------------------------ *)
(* ordered lists                                                       *)
(* ------------------------------------------------------------------ *)

Lemma list_set_length {A} i (v : A) l : List.length (list_set i v l) = List.length l.
Proof.
  revert i. induction l as [|x r IH]; intros [|i]; cbn; auto.
Qed.

Section ListLoop.
  Variable rec : json -> json -> json -> bool -> outs.

  Lemma list_loop_dev tl : forall al las i t a a',
    list_loop rec tl al las = O_match ->
    nth_error tl i = Some t -> nth_error al i = Some a ->
    (forall lav, rec t a lav false = O_match -> rec t a' lav false = O_false) ->
    list_loop rec tl (list_set i a' al) las = O_false.
  Proof.
    induction tl as [|t0 tr IH]; intros al las i t a a' H Nt Na D.
    - destruct i; discriminate Nt.
    - destruct al as [|a0 ar]; [destruct i; discriminate Na|].
      cbn in H.
      destruct (is_match (rec t0 a0 match las with [] => JNull | x :: _ => x end false)) eqn:M.
      + apply is_match_true in M. destruct i as [|i]; cbn in Nt, Na |- *.
        * inversion Nt. inversion Na. subst t0 a0.
          rewrite (D _ M). reflexivity.
        * rewrite M. cbn. eapply IH; eauto.
      + rewrite H in M. discriminate M.
  Qed.

  Lemma list_match_dev tl al la i t a a' :
    list_match rec tl al la = O_match ->
    nth_error tl i = Some t -> nth_error al i = Some a ->
    (forall lav, rec t a lav false = O_match -> rec t a' lav false = O_false) ->
    list_match rec tl (list_set i a' al) la = O_false.
  Proof.
    intros H Nt Na D.
    destruct tl as [|t0 tr]; [destruct i; discriminate Nt|].
    destruct al as [|a0 ar]; [destruct i; discriminate Na|].
    unfold list_match in *.
    assert (E : list_set i a' (a0 :: ar) = match i with O => a' :: ar | S j => a0 :: list_set j a' ar end)
      by (destruct i; reflexivity).
    remember (list_set i a' (a0 :: ar)) as al' eqn:Eal.
    assert (Len : List.length al' = List.length (a0 :: ar)) by (subst al'; apply list_set_length).
    destruct al' as [|a1 ar']; [cbn in Len; discriminate Len|].
    rewrite Len.
    destruct (negb (Nat.eqb (List.length (t0 :: tr)) (List.length (a0 :: ar)))); [onomatch H|].
    rewrite Eal.
    destruct la; eapply list_loop_dev; eauto.
  Qed.
End ListLoop.

(* ------------------------------------------------------------------ *)
(* well-formedness                                                     *)
(* ------------------------------------------------------------------ *)

Lemma wf_map_inv kvs :
  wf (JMap kvs) = true ->
  nodup_str (map fst kvs) = true /\ (forall k v, In (k, v) kvs -> wf v = true).
Proof.
  cbn. intros H. apply Bool.andb_true_iff in H. destruct H as [H1 H2]. split; auto.
  clear H1. induction kvs as [|[k0 v0] r IH]; intros k v I; [destruct I|].
  apply Bool.andb_true_iff in H2. destruct H2 as [Hv Hr].
  destruct I as [E|I]; [inversion E; subst; auto | eauto].
Qed.

Lemma wf_map_intro kvs :
  nodup_str (map fst kvs) = true -> (forall k v, In (k, v) kvs -> wf v = true) ->
  wf (JMap kvs) = true.
Proof.
  intros ND A. cbn. rewrite ND. cbn.
  clear ND. induction kvs as [|[k0 v0] r IH]; auto.
  rewrite (A k0 v0) by (left; auto). cbn. apply IH. intros; eapply A; right; eauto.
Qed.

Lemma wf_list_inv l x : wf (JList l) = true -> In x l -> wf x = true.
Proof. cbn. intros H I. rewrite forallb_forall in H. auto. Qed.

Lemma v_keys_set_key {A} k (v : A) kvs :
  forall x, In x (map fst (set_key k v kvs)) -> x = k \/ In x (map fst kvs).
Proof.
  induction kvs as [|[k' v'] r IH]; cbn; intros x I.
  - destruct I as [I|[]]; auto.
  - destruct (String.eqb k k') eqn:E; cbn in I.
    + apply String.eqb_eq in E. subst. destruct I; auto.
    + destruct I as [I|I]; auto. destruct (IH _ I); auto.
Qed.

Lemma v_nodup_set_key {A} k (v : A) kvs :
  nodup_str (map fst kvs) = true -> nodup_str (map fst (set_key k v kvs)) = true.
Proof.
  induction kvs as [|[k' v'] r IH]; cbn; auto.
  intros H. apply Bool.andb_true_iff in H. destruct H as [H1 H2].
  destruct (String.eqb k k') eqn:E; cbn.
  - rewrite H1, H2. reflexivity.
  - rewrite IH by auto. rewrite Bool.andb_true_r.
    apply Bool.negb_true_iff. apply Bool.negb_true_iff in H1.
    destruct (mem_str k' (map fst (set_key k v r))) eqn:Mm; auto.
    apply v_mem_str_In in Mm. apply v_keys_set_key in Mm. destruct Mm as [Mm|Mm].
    + subst. rewrite String.eqb_refl in E. discriminate.
    + apply v_mem_str_In in Mm. congruence.
Qed.

Lemma v_In_set_key {A} k (v : A) kvs k1 v1 :
  In (k1, v1) (set_key k v kvs) -> (k1 = k /\ v1 = v) \/ In (k1, v1) kvs.
Proof.
  induction kvs as [|[k' v'] r IH]; cbn.
  - intros [E|[]]. inversion E. auto.
  - destruct (String.eqb k k') eqn:E; cbn.
    + apply String.eqb_eq in E. subst. intros [X|X]; [inversion X; auto | auto].
    + intros [X|X]; auto. destruct (IH X); auto.
Qed.

Lemma wf_set_key k v kvs :
  wf (JMap kvs) = true -> wf v = true -> wf (JMap (set_key k v kvs)) = true.
Proof.
  intros W Wv. apply wf_map_inv in W. destruct W as [ND A].
  apply wf_map_intro; [apply v_nodup_set_key; auto|].
  intros k1 v1 I. apply v_In_set_key in I. destruct I as [[_ E]|I]; [subst; auto | eauto].
Qed.

Lemma wf_l2o_items objs fields : forall acc kvs,
  l2o_items objs fields acc = Ret kvs ->
  wf (JMap acc) = true -> (forall o, In o objs -> wf o = true) ->
  wf (JMap kvs) = true.
Proof.
  induction objs as [|o r IH]; cbn; intros acc kvs H W A.
  - inversion H. subst. auto.
  - destruct (obj_key o fields) as [ke| |]; try discriminate H.
    eapply IH; eauto. apply wf_set_key; auto.
Qed.

Lemma wf_py_iter v l : py_iter v = Ret l -> wf v = true -> forall o, In o l -> wf o = true.
Proof.
  destruct v; cbn; intros H W o I; try discriminate H; inversion H; subst.
  - apply in_map_iff in I. destruct I as [? [E _]]. subst. reflexivity.
  - eapply wf_list_inv; eauto.
  - apply in_map_iff in I. destruct I as [? [E _]]. subst. reflexivity.
Qed.

Lemma wf_list_to_object v fields T :
  list_to_object v fields = Ret T -> wf v = true -> wf T = true.
Proof.
  unfold list_to_object. destruct (negb (py_truthy v)).
  - intros H _. inversion H. reflexivity.
  - destruct (py_iter v) as [objs| |] eqn:I; try discriminate.
    destruct (l2o_items objs fields []) as [kvs| |] eqn:L; try discriminate.
    intros H W. inversion H. subst.
    eapply wf_l2o_items; eauto. eapply wf_py_iter; eauto.
Qed.

(* ------------------------------------------------------------------ *)
(* C05: drift at a specified path is detected                          *)
(* ------------------------------------------------------------------ *)

Lemma dirs_of_inv tk sk lk cfg :
  dirs_of tk = Some (sk, lk, cfg) ->
  key_set (lookup K_SET tk) = Ret sk /\ key_set (lookup K_LA tk) = Ret lk /\
  map_cfg (lookup K_MAP tk) = Ret cfg.
Proof.
  unfold dirs_of.
  destruct (key_set (lookup K_SET tk)); try discriminate.
  destruct (key_set (lookup K_LA tk)); try discriminate.
  destruct (map_cfg (lookup K_MAP tk)); try discriminate.
  intros H. inversion H. auto.
Qed.

Lemma dict_match_dirs rec tk ak la sk lk cfg :
  dirs_of tk = Some (sk, lk, cfg) ->
  dict_match rec tk ak la = keys_loop rec sk lk cfg ak la tk.
Proof.
  intros D. apply dirs_of_inv in D. destruct D as [D1 [D2 D3]].
  unfold dict_match. rewrite D1, D2, D3. reflexivity.
Qed.

Lemma vmatch_leaf n t a la s :
  is_container t = false -> leaf_same t a = false -> vmatch_f n t a la s = O_false.
Proof.
  intros C Lf.
  destruct t; try discriminate C; destruct a; destruct n; cbn in *;
    try reflexivity; try discriminate Lf; try (rewrite Lf; try reflexivity);
    try (match goal with |- context [if ?c then _ else _] => destruct c end; reflexivity).
Qed.

Lemma vmatch_map_unfold n tk ak la s :
  vmatch_f (S n) (JMap tk) (JMap ak) la s = dict_match (vmatch_f n) tk ak la.
Proof. reflexivity. Qed.

Lemma vmatch_list_unfold n tl al la :
  vmatch_f (S n) (JList tl) (JList al) la false = list_match (vmatch_f n) tl al la.
Proof. reflexivity. Qed.

Lemma vmatch_set_unfold n tl al la :
  vmatch_f n (JList tl) (JList al) la true = set_match tl al.
Proof. destruct n; reflexivity. Qed.

(* a map target matched: the live value is a map and there was fuel *)
Lemma vmatch_map_match_inv n tk l la s :
  vmatch_f n (JMap tk) l la s = O_match ->
  exists n' ak, n = S n' /\ l = JMap ak.
Proof.
  intros H. destruct l; destruct n; cbn in H; try onomatch H. eauto.
Qed.

Lemma vmatch_list_match_inv n tl l la :
  vmatch_f n (JList tl) l la false = O_match ->
  exists n' al, n = S n' /\ l = JList al.
Proof.
  intros H. destruct l; destruct n; cbn in H; try onomatch H. eauto.
Qed.

Theorem drift_detected_f : forall t s p l l',
  deviates t s p l l' ->
  forall n la, wf t = true ->
    vmatch_f n t l la s = O_match -> vmatch_f n t l' la s = O_false.
Proof.
  induction 1 as
    [ t s l l' C Lf
    | tk s l l' NM
    | tl s l l' NL
    | tl l al' Len
    | tl l al' x Ix Mx
    | tl l al' y Iy My
    | tk s ak k tv sk lk cfg D Lk Sp
    | tk s ak k tv v v' p sk lk cfg D Lk Sp C Lv Dev IH
    | tk s ak k tv v v' p sk lk cfg fields T A A' D Lk Sp C Lv LT LA LA' Dev IH
    | tk s ak k tv v' sk lk cfg fields D Lk Sp C Sh
    | tl al i t a a' p Nt Na Dev IH ]; intros n la W H.
  - apply vmatch_leaf; auto.
  - destruct l'; destruct n; cbn; try reflexivity; exfalso; eapply NM; eauto.
  - destruct l'; destruct n; cbn; try reflexivity; exfalso; eapply NL; eauto.
  - destruct (vmatch_list_match_inv _ _ _ _ H) as [n' [al [En El]]]. subst n.
    rewrite vmatch_list_unfold. unfold list_match.
    destruct tl as [|t0 tr]; destruct al' as [|a0 ar]; try (exfalso; apply Len; reflexivity).
    + cbn. reflexivity.
    + cbn. reflexivity.
    + cbn [List.length]. cbn [List.length] in Len.
      destruct (Nat.eqb (S (List.length tr)) (S (List.length ar))) eqn:E.
      * apply Nat.eqb_eq in E. exfalso. apply Len. congruence.
      * reflexivity.
  - rewrite vmatch_set_unfold. unfold set_match.
    assert (F : forallb (fun x => set_mem x al') tl = false).
    { apply Bool.not_true_is_false. intros C. rewrite forallb_forall in C.
      rewrite (C x Ix) in Mx. discriminate Mx. }
    destruct tl as [|t0 tr]; [destruct Ix|].
    destruct al' as [|a0 ar].
    + destruct (negb _); [reflexivity|]. rewrite F. reflexivity.
    + destruct (negb _); [reflexivity|]. rewrite F. reflexivity.
  - rewrite vmatch_set_unfold. unfold set_match.
    assert (F : forallb (fun y => set_mem y tl) al' = false).
    { apply Bool.not_true_is_false. intros C. rewrite forallb_forall in C.
      rewrite (C y Iy) in My. discriminate My. }
    destruct al' as [|a0 ar]; [destruct Iy|].
    destruct tl as [|t0 tr].
    + destruct (negb _); [reflexivity|]. rewrite F. rewrite Bool.andb_false_r. reflexivity.
    + destruct (negb _); [reflexivity|]. rewrite F. rewrite Bool.andb_false_r. reflexivity.
  - (* key removed *)
    destruct n as [|n']; [cbn in H; onomatch H|].
    rewrite vmatch_map_unfold in H |- *.
    rewrite (dict_match_dirs _ _ _ _ _ _ _ D) in H. rewrite (dict_match_dirs _ _ _ _ _ _ _ D).
    apply wf_map_inv in W. destruct W as [ND Wv].
    pose proof (specified_key_inv lk k Sp) as [Dk [Ok Lkk]].
    destruct (lookup k ak) as [v|] eqn:Lv.
    + assert (Km : key_match (vmatch_f n') sk lk cfg ak la k tv = O_match).
      { apply (proj1 (keys_loop_match _ _ _ _ _ _ _) H); auto. apply v_lookup_In; auto. }
      destruct (key_match_probe _ _ _ _ _ _ _ _ _ Sp Lv Km) as [lav P].
      eapply keys_loop_dev; eauto.
      * intros k1 E. apply v_lookup_del_key_neq; auto.
      * eapply key_match_missing; eauto. apply v_lookup_del_key_eq.
    + (* the key was not there: it could not have matched *)
      exfalso.
      assert (Km : key_match (vmatch_f n') sk lk cfg ak la k tv = O_match).
      { apply (proj1 (keys_loop_match _ _ _ _ _ _ _) H); auto. apply v_lookup_In; auto. }
      unfold key_match in Km. rewrite Ok, Lkk, Lv in Km.
      destruct (probe_la la k); onomatch Km.
  - (* below a plain key *)
    destruct n as [|n']; [cbn in H; onomatch H|].
    rewrite vmatch_map_unfold in H |- *.
    rewrite (dict_match_dirs _ _ _ _ _ _ _ D) in H. rewrite (dict_match_dirs _ _ _ _ _ _ _ D).
    apply wf_map_inv in W. destruct W as [ND Wv].
    pose proof (specified_key_inv lk k Sp) as [Dk [Ok Lkk]].
    assert (Km : key_match (vmatch_f n') sk lk cfg ak la k tv = O_match).
    { apply (proj1 (keys_loop_match _ _ _ _ _ _ _) H); auto. apply v_lookup_In; auto. }
    destruct (key_match_probe _ _ _ _ _ _ _ _ _ Sp Lv Km) as [lav P].
    rewrite (key_match_plain _ _ _ _ _ _ _ _ _ _ Sp C P Lv) in Km.
    eapply keys_loop_dev; eauto.
    + intros k1 E. apply v_lookup_set_key_neq; auto.
    + rewrite (key_match_plain _ _ _ _ (set_key k v' ak) _ _ _ v' _ Sp C P)
        by apply v_lookup_set_key_eq.
      apply IH; auto. eapply Wv. apply v_lookup_In. eauto.
  - (* below a key compared as a keyed collection *)
    destruct n as [|n']; [cbn in H; onomatch H|].
    rewrite vmatch_map_unfold in H |- *.
    rewrite (dict_match_dirs _ _ _ _ _ _ _ D) in H. rewrite (dict_match_dirs _ _ _ _ _ _ _ D).
    apply wf_map_inv in W. destruct W as [ND Wv].
    pose proof (specified_key_inv lk k Sp) as [Dk [Ok Lkk]].
    assert (Km : key_match (vmatch_f n') sk lk cfg ak la k tv = O_match).
    { apply (proj1 (keys_loop_match _ _ _ _ _ _ _) H); auto. apply v_lookup_In; auto. }
    destruct (key_match_probe _ _ _ _ _ _ _ _ _ Sp Lv Km) as [lav P].
    pose proof (key_match_as_map_shape _ _ _ _ _ _ _ _ _ _ Sp C Lv Km) as Shv.
    rewrite (key_match_as_map _ _ _ _ _ _ _ _ _ _ _ _ _ Sp C P Lv Shv LT LA) in Km.
    eapply keys_loop_dev; eauto.
    + intros k1 E. apply v_lookup_set_key_neq; auto.
    + destruct (shape_ok v') eqn:Shv'.
      * rewrite (key_match_as_map _ _ _ _ (set_key k v' ak) _ _ _ v' _ _ _ _ Sp C P
                   (v_lookup_set_key_eq _ _ _) Shv' LT LA').
        destruct (list_to_object (la_items lav) fields) as [L| |]; try onomatch Km.
        apply IH; auto. eapply wf_list_to_object; eauto. eapply Wv. apply v_lookup_In. eauto.
      * eapply key_match_as_map_bad; eauto. apply v_lookup_set_key_eq.
  - (* a compare-as-map value that is no longer a list of maps *)
    destruct n as [|n']; [cbn in H; onomatch H|].
    rewrite vmatch_map_unfold in H |- *.
    rewrite (dict_match_dirs _ _ _ _ _ _ _ D) in H. rewrite (dict_match_dirs _ _ _ _ _ _ _ D).
    apply wf_map_inv in W. destruct W as [ND Wv].
    pose proof (specified_key_inv lk k Sp) as [Dk [Ok Lkk]].
    assert (Km : key_match (vmatch_f n') sk lk cfg ak la k tv = O_match).
    { apply (proj1 (keys_loop_match _ _ _ _ _ _ _) H); auto. apply v_lookup_In; auto. }
    destruct (key_match_present _ _ _ _ _ _ _ _ Sp Km) as [v Lv].
    destruct (key_match_probe _ _ _ _ _ _ _ _ _ Sp Lv Km) as [lav P].
    eapply keys_loop_dev; eauto.
    + intros k1 E. apply v_lookup_set_key_neq; auto.
    + eapply key_match_as_map_bad; eauto. apply v_lookup_set_key_eq.
  - (* an element of an ordered list *)
    destruct (vmatch_list_match_inv _ _ _ _ H) as [n' [al0 [En El]]].
    inversion El. subst al0 n. rewrite vmatch_list_unfold in H |- *.
    eapply list_match_dev; [exact H | exact Nt | exact Na |].
    intros lav M. apply IH; auto.
    eapply wf_list_inv; eauto. eapply nth_error_In; eauto.
Qed.

(* the same for validate_match as called (fuel from the target's depth) *)
Theorem drift_detected_thm t s p l l' la :
  wf t = true -> vmatch t l la s = O_match -> deviates t s p l l' ->
  vmatch t l' la s = O_false.
Proof.
  unfold vmatch. intros W H D. eapply drift_detected_f; eauto.
Qed.

(* every deviation is at a path the property quantifies over *)
Lemma deviates_specified t s p l l' : deviates t s p l l' -> specified_path t s p.
Proof.
  induction 1; try (constructor; fail).
  - eapply sp_key_here; eauto.
  - eapply sp_key; eauto.
  - eapply sp_key_as_map; eauto.
  - eapply sp_key_here; eauto.
  - eapply sp_idx; eauto.
Qed.

(* ------------------------------------------------------------------ *)
(* C05: the two repaired defects (b382e54, d125f7c) — now detected     *)
(* ------------------------------------------------------------------ *)

(* membership in a set-directed list tells a bool from the int it equals *)
Lemma set_mem_spec x l : set_mem x l = true <-> exists y, In y l /\ set_elem_eq x y = true.
Proof. unfold set_mem. apply existsb_exists. Qed.

Lemma set_elem_eq_leaf_same x y : set_elem_eq x y = leaf_same x y.
Proof. destruct x, y; reflexivity. Qed.

Lemma set_mem_bool_int b l :
  (forall y, In y l -> forall c, y <> JBool c) -> set_mem (JBool b) l = false.
Proof.
  intros H. unfold set_mem. apply Bool.not_true_is_false. intros C.
  apply existsb_exists in C. destruct C as [y [I E]].
  destruct y; try discriminate E. eapply H; eauto.
Qed.

(* (a) a member of a set-directed list retyped between bool and int *)
Definition wa_target : json :=
  JMap [(K_SET, JList [JStr "s"]); ("s", JList [JInt 1; JStr "a"])].
Definition wa_live : json := JMap [("s", JList [JStr "a"; JInt 1])].
Definition wa_live' : json := JMap [("s", JList [JStr "a"; JBool true])].

Lemma set_boolint_detected :
  vmatch wa_target wa_live None false = O_match /\
  deviates wa_target false [SKey "s"] wa_live wa_live' /\
  vmatch wa_target wa_live' None false = O_false /\
  (* 1 vs 1.0 is still the same member *)
  vmatch wa_target (JMap [("s", JList [JFloat 1 0; JStr "a"])]) None false = O_match.
Proof.
  split; [vm_compute; reflexivity|]. split; [|split; vm_compute; reflexivity].
  unfold wa_target, wa_live, wa_live'.
  change (JMap [("s", JList [JStr "a"; JBool true])])
    with (JMap (set_key "s" (JList [JStr "a"; JBool true]) [("s", JList [JStr "a"; JInt 1])])).
  eapply (dev_key _ _ _ "s" _ _ _ [] ["s"] [] []); try (vm_compute; reflexivity).
  cbn [mem_str String.eqb orb]. change (mem_str "s" ["s"]) with true.
  eapply (dev_set_lost _ _ _ (JInt 1)); [left; reflexivity | vm_compute; reflexivity].
Qed.

(* (b) under x-koreo-compare-as-map a live value that is not a list of maps *)
Definition wb_target : json :=
  JMap [(K_MAP, JMap [("m", JList [JStr "name"])]);
        ("m", JList [JMap [("name", JStr "a")]])].
Definition wb_live : json := JMap [("m", JList [JMap [("name", JStr "a"); ("extra", JInt 1)]])].

Lemma as_map_retype_detected :
  vmatch wb_target wb_live None false = O_match /\
  vmatch wb_target (JMap [("m", JStr "str")]) None false = O_false /\
  vmatch wb_target (JMap [("m", JList [JInt 1])]) None false = O_false /\
  vmatch wb_target (JMap [("m", JInt 5)]) None false = O_false /\
  vmatch wb_target (JMap [("m", JMap [("name", JStr "a")])]) None false = O_false.
Proof. vm_compute. auto 6. Qed.

(* ------------------------------------------------------------------ *)
(* C05 / C04: the dispatch tail                                        *)
(* ------------------------------------------------------------------ *)

(* a mismatch: exactly the action of the update policy *)
Lemma dispatch_mismatch cfg t live rr :
  dispatch cfg t live rr (Done false) =
    match tc_update cfg with
    | PNever => (TLive live, [])
    | PRecreate d => (TRetry d "spec.update.recreate", [CDelete])
    | PPatch d => patch_branch cfg t live rr d
    end.
Proof. reflexivity. Qed.

(* the PATCH carries the prepared target (with the owner references added
   when the function should own the object and does not yet) *)
Lemma patch_branch_plain cfg t live rr d :
  tc_should_own cfg && negb (reffed_truthy rr) = false ->
  patch_branch cfg t live rr d =
    match prepare_for_api t with
    | Done p => (TRetry d "spec.update.patch", [CPatch p])
    | Raised e => (TRaised e, [])
    end.
Proof. intros E. unfold patch_branch. rewrite E. reflexivity. Qed.

Lemma patch_branch_owner cfg t live rr d refs t' :
  tc_should_own cfg && negb (reffed_truthy rr) = true ->
  updated_owner_refs_r live (tc_owner_ref cfg) = Done (OwnerRefs refs) ->
  set_owner_refs t refs = Done t' ->
  patch_branch cfg t live rr d =
    match prepare_for_api t' with
    | Done p => (TRetry d "spec.update.patch", [CPatch p])
    | Raised e => (TRaised e, [])
    end.
Proof. intros E U S. unfold patch_branch. rewrite E, U. cbn. rewrite S. reflexivity. Qed.

(* met and owner-reffed: nothing is sent, the live object is returned *)
Lemma dispatch_met cfg t live rr :
  reffed_truthy rr = true -> dispatch cfg t live rr (Done true) = (TLive live, []).
Proof. intros R. unfold dispatch. rewrite R. reflexivity. Qed.

(* whatever the verdict: a pass that makes an API call returns Retry with the
   configured delay *)
Lemma dispatch_mutation_is_retry cfg t live rr v r calls :
  dispatch cfg t live rr v = (r, calls) -> calls <> [] ->
  exists d loc, r = TRetry d loc /\
    (tc_update cfg = PPatch d \/ tc_update cfg = PRecreate d).
Proof.
  unfold dispatch. destruct v as [m|e]; [|intros H; inversion H; congruence].
  destruct (m && reffed_truthy rr); [intros H; inversion H; congruence|].
  destruct (tc_update cfg) as [|d|d] eqn:U.
  - intros H; inversion H; congruence.
  - intros H _. inversion H. eauto.
  - unfold patch_branch.
    destruct (tc_should_own cfg && negb (reffed_truthy rr)).
    + destruct (updated_owner_refs_r live (tc_owner_ref cfg)) as [[refs|]|e]; cbn;
        try (intros H; inversion H; congruence).
      destruct (set_owner_refs t refs) as [t'|e]; cbn; try (intros H; inversion H; congruence).
      destruct (prepare_for_api t'); intros H N; inversion H; subst; try congruence. eauto.
    + destruct (prepare_for_api t); intros H N; inversion H; subst; try congruence. eauto.
Qed.

(* at most one call per pass, and it is the policy's *)
Lemma dispatch_calls cfg t live rr v r calls :
  dispatch cfg t live rr v = (r, calls) ->
  calls = [] \/ (exists p, calls = [CPatch p] /\ exists d, tc_update cfg = PPatch d) \/
  (calls = [CDelete] /\ exists d, tc_update cfg = PRecreate d).
Proof.
  unfold dispatch. destruct v as [m|e]; [|intros H; inversion H; auto].
  destruct (m && reffed_truthy rr); [intros H; inversion H; auto|].
  destruct (tc_update cfg) as [|d|d] eqn:U.
  - intros H; inversion H; auto.
  - intros H. inversion H. right. right. eauto.
  - unfold patch_branch.
    destruct (tc_should_own cfg && negb (reffed_truthy rr)).
    + destruct (updated_owner_refs_r live (tc_owner_ref cfg)) as [[refs|]|e]; cbn;
        try (intros H; inversion H; auto; fail).
      destruct (set_owner_refs t refs) as [t'|e]; cbn; try (intros H; inversion H; auto; fail).
      destruct (prepare_for_api t'); intros H; inversion H; subst; auto. right. left. eauto.
    + destruct (prepare_for_api t); intros H; inversion H; subst; auto. right. left. eauto.
Qed.

Lemma as_res_match : as_res O_match = Some (Done true).
Proof. reflexivity. Qed.
Lemma as_res_false : as_res O_false = Some (Done false).
Proof. reflexivity. Qed.

(* the tail on a definite verdict *)
Lemma tail_unfold cfg t live ann rr la v :
  (if tc_should_own cfg then validate_owner_reffed_r live (tc_owner_ref cfg) else Done (Reffed true)) = Done rr ->
  extract_last_applied_r live ann = Done la ->
  as_res (vmatch t live la false) = Some v ->
  tail cfg t live ann = Some (dispatch cfg t live rr v).
Proof. intros R E V. unfold tail. rewrite R, E, V. reflexivity. Qed.

(* drift at a specified path => exactly the action the policy prescribes *)
Theorem drift_corrected_thm cfg t l l' p ann ann' rr' la :
  wf t = true ->
  (* the object matched ... *)
  extract_last_applied_r l ann = Done la -> vmatch t l la false = O_match ->
  (* ... then deviates at a specified path (the last-applied annotation still reads the same) *)
  deviates t false p l l' ->
  extract_last_applied_r l' ann' = Done la ->
  (if tc_should_own cfg then validate_owner_reffed_r l' (tc_owner_ref cfg) else Done (Reffed true)) = Done rr' ->
  tail cfg t l' ann' =
    Some (match tc_update cfg with
          | PNever => (TLive l', [])
          | PRecreate d => (TRetry d "spec.update.recreate", [CDelete])
          | PPatch d => patch_branch cfg t l' rr' d
          end).
Proof.
  intros W E M D E' R.
  rewrite (tail_unfold cfg t l' ann' rr' la (Done false)); auto.
  rewrite (drift_detected_thm t false p l l' la W M D). reflexivity.
Qed.


(* ------------------------------------------------------------------ *)
(* C05: drift is still detected when the deviation makes the           *)
(* last-applied annotation unreadable (it then reads as None)          *)
(* ------------------------------------------------------------------ *)

(* match, or a definite mismatch: no exception possible *)
Definition mof (o : outs) : Prop := o = O_match \/ o = O_false.

Lemma mof_union a b : mof a -> mof b -> mof (ounion a b).
Proof. intros [A|A] [B|B]; subst; unfold mof; cbn; auto. Qed.

Lemma mof_false_union a b : mof a -> mof b -> (a = O_false \/ b = O_false) -> ounion a b = O_false.
Proof. intros [A|A] [B|B] [C|C]; subst; try reflexivity; onomatch C. Qed.

Lemma vmatch_vs_null n t la s : mof (vmatch_f n t JNull la s).
Proof.
  unfold mof. destruct t, n; cbn; auto;
    repeat match goal with |- context [if ?c then _ else _] => destruct c end; auto.
Qed.

Lemma l2o_null fields : list_to_object JNull fields = Ret JNull.
Proof. reflexivity. Qed.

Section DropLa.
  Variable rec : json -> json -> json -> bool -> outs.
  Hypothesis Hnull : forall t la s, mof (rec t JNull la s).
  Hypothesis Hdrop : forall t a la s, rec t a la s = O_match -> mof (rec t a JNull s).
  Variables (sk lk : list string) (cfg : list (string * list json)).

  Lemma key_match_drop ak la k tv :
    key_match rec sk lk cfg ak la k tv = O_match ->
    mof (key_match rec sk lk cfg ak JNull k tv).
  Proof.
    unfold key_match. destruct (String.eqb k K_OWNERS); [left; reflexivity|].
    change (probe_la JNull k) with (LaVal JNull).
    destruct (probe_la la k) as [lav| |] eqn:P; intros H; try onomatch H.
    - (* the probe succeeded *)
      destruct (mem_str k lk).
      + cbn [read_la] in H |- *.
        destruct (lookup k cfg) as [fields|].
        * destruct (negb (shape_ok lav)); [onomatch H|]. cbn [shape_ok negb].
          destruct (list_to_object tv fields) as [T| |]; try onomatch H.
          rewrite l2o_null. apply Hnull.
        * apply Hnull.
      + destruct (lookup k ak) as [v|]; [|onomatch H].
        destruct (lookup k cfg) as [fields|].
        * destruct (negb (shape_ok v)); [onomatch H|].
          destruct (list_to_object tv fields) as [T| |]; try onomatch H.
          destruct (list_to_object v fields) as [A| |]; try onomatch H.
          cbn [read_la] in H |- *. rewrite l2o_null.
          destruct (list_to_object (la_items lav) fields) as [L| |]; try onomatch H.
          eapply Hdrop; eauto.
        * cbn [read_la] in H |- *. eapply Hdrop; eauto.
    - (* the probe would raise on read: it was never read, or it raised *)
      destruct (mem_str k lk); [cbn in H; onomatch H|].
      destruct (lookup k ak) as [v|]; [|onomatch H].
      destruct (lookup k cfg) as [fields|]; [|cbn in H; onomatch H].
      destruct (negb (shape_ok v)); [onomatch H|].
      destruct (list_to_object tv fields) as [T| |]; try onomatch H.
      destruct (list_to_object v fields) as [A| |]; try onomatch H.
      all: cbn in H; onomatch H.
  Qed.

  Lemma keys_loop_drop ak la l :
    keys_loop rec sk lk cfg ak la l = O_match -> mof (keys_loop rec sk lk cfg ak JNull l).
  Proof.
    induction l as [|[k tv] r IH]; cbn; intros H; [left; reflexivity|].
    destruct (is_directive k); auto.
    apply ounion_match_inv in H. destruct H as [H1 H2].
    apply mof_union; auto. eapply key_match_drop; eauto.
  Qed.

  (* the loop under la = None after a change of the live map at one specified key *)
  Lemma keys_loop_dev_drop tk ak ak' la k tv :
    nodup_str (map fst tk) = true -> lookup k tk = Some tv -> is_directive k = false ->
    keys_loop rec sk lk cfg ak la tk = O_match ->
    (forall k1, String.eqb k1 k = false -> lookup k1 ak' = lookup k1 ak) ->
    key_match rec sk lk cfg ak' JNull k tv = O_false ->
    keys_loop rec sk lk cfg ak' JNull tk = O_false.
  Proof.
    intros ND Lk D H Same F.
    apply keys_loop_false.
    - intros k1 tv1 I D1. destruct (String.eqb k1 k) eqn:E.
      + apply String.eqb_eq in E. subst k1. right.
        apply v_nodup_lookup in I; auto. rewrite Lk in I. inversion I. subst. exact F.
      + rewrite (key_match_ext rec sk lk cfg ak ak') by (apply Same; exact E).
        apply (key_match_drop ak la).
        exact (proj1 (keys_loop_match rec sk lk cfg ak la tk) H k1 tv1 I D1).
    - exists k, tv. split; [apply v_lookup_In; exact Lk|]. auto.
  Qed.

  Lemma list_loop_drop tl : forall al las,
    list_loop rec tl al las = O_match -> mof (list_loop rec tl al []).
  Proof.
    induction tl as [|t0 tr IH]; intros al las H; cbn; [left; reflexivity|].
    destruct al as [|a0 ar]; [left; reflexivity|]. cbn in H.
    destruct (is_match (rec t0 a0 match las with [] => JNull | x :: _ => x end false)) eqn:M.
    - apply is_match_true in M. destruct (Hdrop _ _ _ _ M) as [E|E]; rewrite E; cbn.
      + eapply IH; eauto.
      + right. reflexivity.
    - rewrite H in M. discriminate M.
  Qed.

  Lemma list_loop_dev_drop tl : forall al las i t a a',
    list_loop rec tl al las = O_match ->
    nth_error tl i = Some t -> nth_error al i = Some a ->
    (forall lav, rec t a lav false = O_match -> rec t a' JNull false = O_false) ->
    list_loop rec tl (list_set i a' al) [] = O_false.
  Proof.
    induction tl as [|t0 tr IH]; intros al las i t a a' H Nt Na D.
    - destruct i; discriminate Nt.
    - destruct al as [|a0 ar]; [destruct i; discriminate Na|].
      cbn in H.
      destruct (is_match (rec t0 a0 match las with [] => JNull | x :: _ => x end false)) eqn:M.
      + apply is_match_true in M. destruct i as [|i]; cbn in Nt, Na |- *.
        * inversion Nt. inversion Na. subst t0 a0. rewrite (D _ M). reflexivity.
        * destruct (Hdrop _ _ _ _ M) as [E|E]; rewrite E; cbn; [|reflexivity].
          eapply IH; eauto.
      + rewrite H in M. discriminate M.
  Qed.
End DropLa.

Lemma vmatch_la_irrelevant n t a la la' s :
  (forall tk ak, ~ (t = JMap tk /\ a = JMap ak)) ->
  (forall tl al, ~ (t = JList tl /\ a = JList al /\ s = false)) ->
  vmatch_f n t a la s = vmatch_f n t a la' s.
Proof.
  intros NM NL.
  destruct t, a; destruct n; try reflexivity;
    try (exfalso; eapply NM; eauto; fail);
    destruct s; try reflexivity; exfalso; eapply NL; eauto.
Qed.

(* replacing the last-applied document by None never turns a match into an exception *)
Lemma vmatch_drop_la : forall n t a la s,
  vmatch_f n t a la s = O_match -> mof (vmatch_f n t a JNull s).
Proof.
  induction n as [|n IH]; intros t a la s H.
  - destruct t, a; cbn in H |- *; try onomatch H; try (left; exact H);
      destruct s; try onomatch H; left; exact H.
  - destruct t as [| | | | |tl|tk]; destruct a as [| | | | |al|ak];
      try (rewrite (vmatch_la_irrelevant (S n) _ _ JNull la s); [left; exact H | intros ? ? [? ?]; discriminate
            | intros ? ? [? [? ?]]; discriminate]).
    + (* lists *)
      destruct s; [rewrite vmatch_set_unfold in *; left; exact H|].
      rewrite vmatch_list_unfold in *. unfold list_match in *.
      destruct tl as [|t0 tr]; destruct al as [|a0 ar]; try (left; reflexivity);
        try (destruct (negb (Nat.eqb _ _)); [right; reflexivity | onomatch H]).
      * cbn in H. onomatch H.
      * cbn in H. onomatch H.
      * destruct (negb (Nat.eqb (List.length (t0 :: tr)) (List.length (a0 :: ar)))); [onomatch H|].
        destruct la; eapply list_loop_drop; eauto.
    + (* maps *)
      rewrite vmatch_map_unfold in *. unfold dict_match in *.
      destruct (key_set (lookup K_SET tk)); try onomatch H.
      destruct (key_set (lookup K_LA tk)); try onomatch H.
      destruct (map_cfg (lookup K_MAP tk)); try onomatch H.
      eapply keys_loop_drop; eauto. intros; apply vmatch_vs_null.
Qed.

Lemma probe_null k : probe_la JNull k = LaVal JNull.
Proof. reflexivity. Qed.

(* drift detected although the last-applied document reads as None afterwards *)
Theorem drift_detected_drop : forall t s p l l',
  deviates t s p l l' ->
  forall n la, wf t = true ->
    vmatch_f n t l la s = O_match -> vmatch_f n t l' JNull s = O_false.
Proof.
  induction 1 as
    [ t s l l' C Lf
    | tk s l l' NM
    | tl s l l' NL
    | tl l al' Len
    | tl l al' x Ix Mx
    | tl l al' y Iy My
    | tk s ak k tv sk lk cfg D Lk Sp
    | tk s ak k tv v v' p sk lk cfg D Lk Sp C Lv Dev IH
    | tk s ak k tv v v' p sk lk cfg fields T A A' D Lk Sp C Lv LT LA LA' Dev IH
    | tk s ak k tv v' sk lk cfg fields D Lk Sp C Sh
    | tl al i t a a' p Nt Na Dev IH ]; intros n la W H.
  - apply vmatch_leaf; auto.
  - destruct l'; destruct n; cbn; try reflexivity; exfalso; eapply NM; eauto.
  - destruct l'; destruct n; cbn; try reflexivity; exfalso; eapply NL; eauto.
  - destruct (vmatch_list_match_inv _ _ _ _ H) as [n' [al [En El]]]. subst n.
    rewrite vmatch_list_unfold. unfold list_match.
    destruct tl as [|t0 tr]; destruct al' as [|a0 ar]; try (exfalso; apply Len; reflexivity).
    + cbn. reflexivity.
    + cbn. reflexivity.
    + cbn [List.length]. cbn [List.length] in Len.
      destruct (Nat.eqb (S (List.length tr)) (S (List.length ar))) eqn:E.
      * apply Nat.eqb_eq in E. exfalso. apply Len. congruence.
      * reflexivity.
  - rewrite vmatch_set_unfold. unfold set_match.
    assert (F : forallb (fun x => set_mem x al') tl = false).
    { apply Bool.not_true_is_false. intros C. rewrite forallb_forall in C.
      rewrite (C x Ix) in Mx. discriminate Mx. }
    destruct tl as [|t0 tr]; [destruct Ix|].
    destruct al' as [|a0 ar].
    + destruct (negb _); [reflexivity|]. rewrite F. reflexivity.
    + destruct (negb _); [reflexivity|]. rewrite F. reflexivity.
  - rewrite vmatch_set_unfold. unfold set_match.
    assert (F : forallb (fun y => set_mem y tl) al' = false).
    { apply Bool.not_true_is_false. intros C. rewrite forallb_forall in C.
      rewrite (C y Iy) in My. discriminate My. }
    destruct al' as [|a0 ar]; [destruct Iy|].
    destruct tl as [|t0 tr].
    + destruct (negb _); [reflexivity|]. rewrite F. rewrite Bool.andb_false_r. reflexivity.
    + destruct (negb _); [reflexivity|]. rewrite F. rewrite Bool.andb_false_r. reflexivity.
  - (* key removed *)
    destruct n as [|n']; [cbn in H; onomatch H|].
    rewrite vmatch_map_unfold in H |- *.
    rewrite (dict_match_dirs _ _ _ _ _ _ _ D) in H. rewrite (dict_match_dirs _ _ _ _ _ _ _ D).
    apply wf_map_inv in W. destruct W as [ND Wv].
    pose proof (specified_key_inv lk k Sp) as [Dk [Ok Lkk]].
    eapply (keys_loop_dev_drop (vmatch_f n')); eauto.
    + intros; apply vmatch_vs_null.
    + intros; eapply vmatch_drop_la; eauto.
    + intros k1 E. apply v_lookup_del_key_neq; auto.
    + eapply key_match_missing; eauto. apply probe_null. apply v_lookup_del_key_eq.
  - (* below a plain key *)
    destruct n as [|n']; [cbn in H; onomatch H|].
    rewrite vmatch_map_unfold in H |- *.
    rewrite (dict_match_dirs _ _ _ _ _ _ _ D) in H. rewrite (dict_match_dirs _ _ _ _ _ _ _ D).
    apply wf_map_inv in W. destruct W as [ND Wv].
    pose proof (specified_key_inv lk k Sp) as [Dk [Ok Lkk]].
    assert (Km : key_match (vmatch_f n') sk lk cfg ak la k tv = O_match).
    { apply (proj1 (keys_loop_match _ _ _ _ _ _ _) H); auto. apply v_lookup_In; auto. }
    destruct (key_match_probe _ _ _ _ _ _ _ _ _ Sp Lv Km) as [lav P].
    rewrite (key_match_plain _ _ _ _ _ _ _ _ _ _ Sp C P Lv) in Km.
    eapply (keys_loop_dev_drop (vmatch_f n')); eauto.
    + intros; apply vmatch_vs_null.
    + intros; eapply vmatch_drop_la; eauto.
    + intros k1 E. apply v_lookup_set_key_neq; auto.
    + rewrite (key_match_plain _ _ _ _ (set_key k v' ak) _ _ _ v' _ Sp C (probe_null k))
        by apply v_lookup_set_key_eq.
      eapply IH; eauto. eapply Wv. apply v_lookup_In. eauto.
  - (* below a key compared as a keyed collection *)
    destruct n as [|n']; [cbn in H; onomatch H|].
    rewrite vmatch_map_unfold in H |- *.
    rewrite (dict_match_dirs _ _ _ _ _ _ _ D) in H. rewrite (dict_match_dirs _ _ _ _ _ _ _ D).
    apply wf_map_inv in W. destruct W as [ND Wv].
    pose proof (specified_key_inv lk k Sp) as [Dk [Ok Lkk]].
    assert (Km : key_match (vmatch_f n') sk lk cfg ak la k tv = O_match).
    { apply (proj1 (keys_loop_match _ _ _ _ _ _ _) H); auto. apply v_lookup_In; auto. }
    destruct (key_match_probe _ _ _ _ _ _ _ _ _ Sp Lv Km) as [lav P].
    pose proof (key_match_as_map_shape _ _ _ _ _ _ _ _ _ _ Sp C Lv Km) as Shv.
    rewrite (key_match_as_map _ _ _ _ _ _ _ _ _ _ _ _ _ Sp C P Lv Shv LT LA) in Km.
    eapply (keys_loop_dev_drop (vmatch_f n')); eauto.
    + intros; apply vmatch_vs_null.
    + intros; eapply vmatch_drop_la; eauto.
    + intros k1 E. apply v_lookup_set_key_neq; auto.
    + destruct (shape_ok v') eqn:Shv'.
      * rewrite (key_match_as_map _ _ _ _ (set_key k v' ak) _ _ _ v' _ _ _ _ Sp C (probe_null k)
                   (v_lookup_set_key_eq _ _ _) Shv' LT LA').
        rewrite l2o_null.
        destruct (list_to_object (la_items lav) fields) as [L| |]; try onomatch Km.
        eapply IH; eauto. eapply wf_list_to_object; eauto. eapply Wv. apply v_lookup_In. eauto.
      * eapply key_match_as_map_bad; eauto. apply probe_null. apply v_lookup_set_key_eq.
  - (* a compare-as-map value that is no longer a list of maps *)
    destruct n as [|n']; [cbn in H; onomatch H|].
    rewrite vmatch_map_unfold in H |- *.
    rewrite (dict_match_dirs _ _ _ _ _ _ _ D) in H. rewrite (dict_match_dirs _ _ _ _ _ _ _ D).
    apply wf_map_inv in W. destruct W as [ND Wv].
    pose proof (specified_key_inv lk k Sp) as [Dk [Ok Lkk]].
    eapply (keys_loop_dev_drop (vmatch_f n')); eauto.
    + intros; apply vmatch_vs_null.
    + intros; eapply vmatch_drop_la; eauto.
    + intros k1 E. apply v_lookup_set_key_neq; auto.
    + eapply key_match_as_map_bad; eauto. apply probe_null. apply v_lookup_set_key_eq.
  - (* an element of an ordered list *)
    destruct (vmatch_list_match_inv _ _ _ _ H) as [n' [al0 [En El]]].
    inversion El. subst al0 n. rewrite vmatch_list_unfold in H |- *.
    unfold list_match in *.
    destruct tl as [|t0 tr]; [destruct i; discriminate Nt|].
    destruct al as [|a0 ar]; [destruct i; discriminate Na|].
    remember (list_set i a' (a0 :: ar)) as al' eqn:Eal.
    assert (Len : List.length al' = List.length (a0 :: ar)) by (subst al'; apply list_set_length).
    destruct al' as [|a1 ar']; [cbn in Len; discriminate Len|].
    rewrite Len.
    destruct (negb (Nat.eqb (List.length (t0 :: tr)) (List.length (a0 :: ar)))); [onomatch H|].
    rewrite Eal.
    assert (Dv : forall lav, vmatch_f n' t a lav false = O_match -> vmatch_f n' t a' JNull false = O_false).
    { intros lav M. eapply IH; eauto. eapply wf_list_inv; eauto. eapply nth_error_In; eauto. }
    destruct la; eapply list_loop_dev_drop; eauto; intros; eapply vmatch_drop_la; eauto.
Qed.

(* for [vmatch] as called *)
Theorem drift_detected_drop_thm t s p l l' la :
  wf t = true -> vmatch t l la s = O_match -> deviates t s p l l' ->
  vmatch t l' None s = O_false.
Proof. unfold vmatch. intros W H D. cbn [la_arg]. eapply drift_detected_drop; eauto. Qed.

(* drift at a specified path => the policy's action, also when the deviation
   makes the annotation unreadable (it then reads as None) *)
Theorem drift_corrected_gen cfg t l l' p ann ann' rr' la la' :
  wf t = true ->
  extract_last_applied_r l ann = Done la -> vmatch t l la false = O_match ->
  deviates t false p l l' ->
  extract_last_applied_r l' ann' = Done la' -> (la' = la \/ la' = None) ->
  (if tc_should_own cfg then validate_owner_reffed_r l' (tc_owner_ref cfg) else Done (Reffed true)) = Done rr' ->
  tail cfg t l' ann' =
    Some (match tc_update cfg with
          | PNever => (TLive l', [])
          | PRecreate d => (TRetry d "spec.update.recreate", [CDelete])
          | PPatch d => patch_branch cfg t l' rr' d
          end).
Proof.
  intros W E M D E' [L|L] R; subst la'.
  - exact (drift_corrected_thm cfg t l l' p ann ann' rr' la W E M D E' R).
  - rewrite (tail_unfold cfg t l' ann' rr' None (Done false)); auto.
    rewrite (drift_detected_drop_thm t false p l l' la W M D). reflexivity.
Qed.

(* since 69b5a7d: a live metadata / metadata.annotations that is not a map
   reads as "no last-applied annotation" instead of raising *)
Lemma extract_meta_nonmap top v ann :
  lookup "metadata" top = Some v -> (forall m, v <> JMap m) ->
  extract_last_applied_r (JMap top) ann = Done None.
Proof.
  intros L N. unfold extract_last_applied_r.
  destruct top as [|p0 r]; [discriminate L|]. cbn [py_truthy negb get_r bind]. rewrite L.
  destruct (negb (py_truthy v)); auto.
  destruct v; auto. exfalso. eapply N; eauto.
Qed.

Lemma extract_annotations_nonmap top md v ann :
  lookup "metadata" top = Some (JMap md) -> lookup "annotations" md = Some v ->
  (forall m, v <> JMap m) ->
  extract_last_applied_r (JMap top) ann = Done None.
Proof.
  intros L La N. unfold extract_last_applied_r.
  destruct top as [|p0 r]; [discriminate L|]. cbn [py_truthy negb get_r bind]. rewrite L.
  destruct md as [|m0 mr]; [discriminate La|]. cbn [py_truthy negb get_r bind]. rewrite La.
  destruct (negb (py_truthy v)); auto.
  destruct v; auto. exfalso. eapply N; eauto.
Qed.

(* the repaired third finding, positively: the target specifies metadata (a
   map, as always) and the live metadata is replaced by a non-map: reported
   as drift, the policy's action is taken *)
Theorem metadata_retype_corrected cfg tk ak tmd v v' sk lk cfg' ann ann' rr' la :
  wf (JMap tk) = true ->
  extract_last_applied_r (JMap ak) ann = Done la -> vmatch (JMap tk) (JMap ak) la false = O_match ->
  dirs_of tk = Some (sk, lk, cfg') -> lookup "metadata" tk = Some (JMap tmd) ->
  specified_key lk "metadata" = true -> lookup "metadata" cfg' = None ->
  lookup "metadata" ak = Some v -> (forall m, v' <> JMap m) ->
  let l' := JMap (set_key "metadata" v' ak) in
  (if tc_should_own cfg then validate_owner_reffed_r l' (tc_owner_ref cfg) else Done (Reffed true)) = Done rr' ->
  tail cfg (JMap tk) l' ann' =
    Some (match tc_update cfg with
          | PNever => (TLive l', [])
          | PRecreate d => (TRetry d "spec.update.recreate", [CDelete])
          | PPatch d => patch_branch cfg (JMap tk) l' rr' d
          end).
Proof.
  intros W E M D Lk Sp C Lv N l' R.
  eapply (drift_corrected_gen cfg (JMap tk) (JMap ak) l' [SKey "metadata"] ann ann' rr' la None).
  - exact W.
  - exact E.
  - exact M.
  - eapply (dev_key tk false ak "metadata" (JMap tmd) v v' [] sk lk cfg'); eauto.
    apply dev_map_retyped. exact N.
  - eapply extract_meta_nonmap; [apply v_lookup_set_key_eq | exact N].
  - right. reflexivity.
  - exact R.
Qed.

(* ... and the same one level down: metadata.annotations (specified by the
   target) replaced by a non-map *)
Theorem annotations_retype_corrected cfg tk ak tmd tan md a a' sk lk cfg' sk2 lk2 cfg2 ann ann' rr' la :
  wf (JMap tk) = true ->
  extract_last_applied_r (JMap ak) ann = Done la -> vmatch (JMap tk) (JMap ak) la false = O_match ->
  dirs_of tk = Some (sk, lk, cfg') -> lookup "metadata" tk = Some (JMap tmd) ->
  specified_key lk "metadata" = true -> lookup "metadata" cfg' = None ->
  dirs_of tmd = Some (sk2, lk2, cfg2) -> lookup "annotations" tmd = Some (JMap tan) ->
  specified_key lk2 "annotations" = true -> lookup "annotations" cfg2 = None ->
  lookup "metadata" ak = Some (JMap md) -> lookup "annotations" md = Some a ->
  (forall m, a' <> JMap m) ->
  let l' := JMap (set_key "metadata" (JMap (set_key "annotations" a' md)) ak) in
  (if tc_should_own cfg then validate_owner_reffed_r l' (tc_owner_ref cfg) else Done (Reffed true)) = Done rr' ->
  tail cfg (JMap tk) l' ann' =
    Some (match tc_update cfg with
          | PNever => (TLive l', [])
          | PRecreate d => (TRetry d "spec.update.recreate", [CDelete])
          | PPatch d => patch_branch cfg (JMap tk) l' rr' d
          end).
Proof.
  intros W E M D Lk Sp C D2 Lk2 Sp2 C2 Lv La N l' R.
  eapply (drift_corrected_gen cfg (JMap tk) (JMap ak) l' [SKey "metadata"; SKey "annotations"]
            ann ann' rr' la None).
  - exact W.
  - exact E.
  - exact M.
  - eapply (dev_key tk false ak "metadata" (JMap tmd) (JMap md) _ [SKey "annotations"] sk lk cfg'); eauto.
    eapply (dev_key tmd _ md "annotations" (JMap tan) a a' [] sk2 lk2 cfg2); eauto.
    apply dev_map_retyped. exact N.
  - eapply extract_annotations_nonmap; [apply v_lookup_set_key_eq | apply v_lookup_set_key_eq | exact N].
  - right. reflexivity.
  - exact R.
Qed.

(* concrete instance (the former _refuted witness): every policy now acts *)
Definition wg_target : json :=
  JMap [("metadata", JMap [("name", JStr "w"); ("annotations", JMap [("note", JStr "n")])]);
        ("spec", JMap [("a", JInt 1)])].
Definition wg_live_md : list (string * json) :=
  [("name", JStr "w"); ("annotations", JMap [("note", JStr "n"); ("other", JStr "o")])].
Definition wg_live_top : list (string * json) :=
  [("metadata", JMap wg_live_md); ("spec", JMap [("a", JInt 1)])].
Definition wg_live : json := JMap wg_live_top.
Definition wg_live' : json :=
  JMap (set_key "metadata" (JMap (set_key "annotations" (JStr "x") wg_live_md)) wg_live_top).
Definition wg_cfg (u : policy) : tail_cfg :=
  {| tc_should_own := false; tc_owner_ref := JMap []; tc_update := u |}.

Lemma annotations_retype_example :
  vmatch wg_target wg_live None false = O_match /\
  deviates wg_target false [SKey "metadata"; SKey "annotations"] wg_live wg_live' /\
  tail (wg_cfg PNever) wg_target wg_live' None = Some (TLive wg_live', []) /\
  tail (wg_cfg (PRecreate 3)) wg_target wg_live' None = Some (TRetry 3 "spec.update.recreate", [CDelete]) /\
  exists p, prepare_for_api wg_target = Done p /\
    tail (wg_cfg (PPatch 5)) wg_target wg_live' None = Some (TRetry 5 "spec.update.patch", [CPatch p]) /\
    (* ... and the patched object meets the target again *)
    vmatch wg_target (merge_patch wg_live' (body p)) (Some (recorded p)) false = O_match.
Proof.
  split; [vm_compute; reflexivity|]. split.
  { unfold wg_target, wg_live, wg_live'.
    eapply (dev_key _ _ _ "metadata" _ _ _ _ [] [] []); try (vm_compute; reflexivity).
    eapply (dev_key _ _ _ "annotations" _ _ _ _ [] [] []); try (vm_compute; reflexivity).
    apply dev_map_retyped. discriminate. }
  split; [vm_compute; reflexivity|]. split; [vm_compute; reflexivity|].
  eexists. split; [vm_compute; reflexivity|]. split; vm_compute; reflexivity.
Qed.

(* ------------------------------------------------------------------ *)
(* C05: a last-applied document recorded for a differently shaped       *)
(* target (58b6399, 34ca0d2) is absent, never an exception              *)
(* ------------------------------------------------------------------ *)

Lemma probe_la_total la k : exists v, probe_la la k = LaVal v.
Proof. unfold probe_la. destruct la; eauto. Qed.

Lemma probe_la_nonmap la k : (forall m, la <> JMap m) -> probe_la la k = LaVal JNull.
Proof. intros N. destruct la; try reflexivity. exfalso. eapply N; eauto. Qed.

Lemma key_match_la_probe rec sk lk cfg ak la la' k tv :
  probe_la la k = probe_la la' k ->
  key_match rec sk lk cfg ak la k tv = key_match rec sk lk cfg ak la' k tv.
Proof. intros E. unfold key_match. rewrite E. reflexivity. Qed.

Lemma keys_loop_la_probe rec sk lk cfg ak la la' l :
  (forall k, probe_la la k = probe_la la' k) ->
  keys_loop rec sk lk cfg ak la l = keys_loop rec sk lk cfg ak la' l.
Proof.
  intros E. induction l as [|[k tv] r IH]; cbn; auto.
  rewrite IH, (key_match_la_probe rec sk lk cfg ak la la' k tv (E k)). reflexivity.
Qed.

(* where the target has a map, a recorded value that is not a map counts as absent *)
Lemma la_not_map_is_absent n tk a la s :
  (forall m, la <> JMap m) -> vmatch_f n (JMap tk) a la s = vmatch_f n (JMap tk) a JNull s.
Proof.
  intros N. destruct a; destruct n; try reflexivity.
  rewrite !vmatch_map_unfold. unfold dict_match.
  destruct (key_set (lookup K_SET tk)); auto.
  destruct (key_set (lookup K_LA tk)); auto.
  destruct (map_cfg (lookup K_MAP tk)); auto.
  apply keys_loop_la_probe. intros k. rewrite probe_la_nonmap by exact N. reflexivity.
Qed.

(* where the target has a list, a recorded value that is not a list counts as absent *)
Lemma la_not_list_is_absent n tl a la s :
  (forall l, la <> JList l) -> vmatch_f n (JList tl) a la s = vmatch_f n (JList tl) a JNull s.
Proof.
  intros N. destruct a; destruct n; try reflexivity; destruct s; try reflexivity.
  rewrite !vmatch_list_unfold. unfold list_match.
  destruct tl, l; auto; destruct (negb (Nat.eqb _ _)); auto;
    destruct la; auto; exfalso; eapply N; eauto.
Qed.

(* drift is detected whatever kind of value was recorded where the target has a map / a list *)
Theorem drift_detected_ill_shaped_la t s p l l' la la' :
  wf t = true -> vmatch t l la s = O_match -> deviates t s p l l' ->
  (match t with
   | JMap _ => forall m, la' <> JMap m
   | JList _ => forall x, la' <> JList x
   | _ => True
   end) ->
  vmatch t l' (Some la') s = O_false.
Proof.
  intros W H D N. pose proof (drift_detected_drop_thm t s p l l' la W H D) as R.
  unfold vmatch in *. cbn [la_arg] in *.
  destruct t;
    try (rewrite (vmatch_la_irrelevant _ _ l' la' JNull s);
         [exact R | intros ? ? [E _]; discriminate E | intros ? ? [E _]; discriminate E]).
  - rewrite la_not_list_is_absent by exact N. exact R.
  - rewrite la_not_map_is_absent by exact N. exact R.
Qed.

(* the reproducers of the two repairs *)
Lemma la_shape_examples :
  vmatch (JMap [("spec", JMap [("a", JInt 1)])]) (JMap [("spec", JMap [("a", JInt 2)])])
         (Some (JMap [("spec", JList [JMap []])])) false = O_false /\
  vmatch (JMap [("spec", JList [JInt 1; JInt 2])]) (JMap [("spec", JList [JInt 1; JInt 2])])
         (Some (JMap [("spec", JMap [("0", JInt 1)])])) false = O_match /\
  (forall la, In la [JStr "str"; JList [JInt 1]; JMap [("name", JStr "a")]; JList [JList [JStr "x"]]; JInt 5; JBool true] ->
     vmatch wb_target (JMap [("m", JList [JMap [("name", JStr "a")]])]) (Some (JMap [("m", la)])) false = O_match /\
     vmatch wb_target (JMap [("m", JList [JMap [("name", JStr "b")]])]) (Some (JMap [("m", la)])) false = O_false).
Proof.
  split; [vm_compute; reflexivity|]. split; [vm_compute; reflexivity|].
  intros la I. cbn in I.
  repeat (destruct I as [I|I]; [subst la; split; vm_compute; reflexivity|]). destruct I.
Qed.
